package main

// Oracle vocabulary + rule group "vocab": label sets, value sets, defaults,
// Modified/base alignment, parser tables (order, kvm), serializer table
// (Vector), sizing function (lenVec).

import (
	_ "embed"
	"encoding/json"
	"fmt"
	"go/ast"
	"go/token"
	"go/types"
	"os"
	"sort"
	"strings"
)

//go:embed spec/vocab.json
var vocabJSON []byte

type OMetric struct {
	Abv        string   `json:"abv"`
	Values     []string `json:"values"` // least severe -> most severe; not-defined token first
	Default    string   `json:"default"`
	ModifiedOf string   `json:"modified_of"`
	Group      string   `json:"-"`
	Mandatory  bool     `json:"-"`
}

type OGroup struct {
	Name      string    `json:"name"`
	Mandatory bool      `json:"mandatory"`
	Scored    *bool     `json:"scored"`
	Metrics   []OMetric `json:"metrics"`
}

type OVocab struct {
	Version string   `json:"version"`
	Source  string   `json:"source"`
	Header  string   `json:"header"`
	ND      string   `json:"nd"`
	Order   string   `json:"order"`
	Groups  []OGroup `json:"groups"`
	byAbv   map[string]*OMetric
	list    []*OMetric
}

var vocab map[string]*OVocab

func init() {
	if err := json.Unmarshal(vocabJSON, &vocab); err != nil {
		panic(err)
	}
	for _, v := range vocab {
		v.byAbv = map[string]*OMetric{}
		for gi := range v.Groups {
			g := &v.Groups[gi]
			for mi := range g.Metrics {
				m := &g.Metrics[mi]
				m.Group = g.Name
				m.Mandatory = g.Mandatory
				v.byAbv[m.Abv] = m
				v.list = append(v.list, m)
			}
		}
	}
}

func setOf(xs []string) map[string]bool {
	m := map[string]bool{}
	for _, x := range xs {
		m[x] = true
	}
	return m
}

func sameSet(a, b []string) bool {
	sa, sb := setOf(a), setOf(b)
	if len(sa) != len(a) || len(sb) != len(b) || len(sa) != len(sb) {
		return false
	}
	for k := range sa {
		if !sb[k] {
			return false
		}
	}
	return true
}

func sameSeq(a, b []string) bool {
	if len(a) != len(b) {
		return false
	}
	for i := range a {
		if a[i] != b[i] {
			return false
		}
	}
	return true
}

// ---------------------------------------------------------------------------
// order table (v2, v4)

func (p *Pkg) pkgVar(name string) (*types.Var, ast.Expr) {
	for _, f := range p.P.Syntax {
		for _, d := range f.Decls {
			gd, ok := d.(*ast.GenDecl)
			if !ok || gd.Tok != token.VAR {
				continue
			}
			for _, sp := range gd.Specs {
				vs := sp.(*ast.ValueSpec)
				for i, nm := range vs.Names {
					if nm.Name == name {
						v, _ := p.Info.Defs[nm].(*types.Var)
						if i < len(vs.Values) {
							return v, vs.Values[i]
						}
						return v, nil
					}
				}
			}
		}
	}
	return nil, nil
}

// orderTable finds the package-level [][]string variable indexed by the
// parser (found structurally: the only package-level var of type [][]string).
func (p *Pkg) orderTable() (v *types.Var, groups [][]string, lit ast.Expr, err error) {
	var found []*types.Var
	var inits []ast.Expr
	// a package-level slice or array of string slices (or arrays)
	isStrSeq := func(t types.Type) bool {
		var el types.Type
		switch u := t.Underlying().(type) {
		case *types.Slice:
			el = u.Elem()
		case *types.Array:
			el = u.Elem()
		default:
			return false
		}
		b, ok := el.Underlying().(*types.Basic)
		return ok && b.Kind() == types.String
	}
	isTable := func(t types.Type) bool {
		switch u := t.Underlying().(type) {
		case *types.Slice:
			return isStrSeq(u.Elem())
		case *types.Array:
			return isStrSeq(u.Elem())
		}
		return false
	}
	for _, f := range p.P.Syntax {
		for _, d := range f.Decls {
			gd, ok := d.(*ast.GenDecl)
			if !ok || gd.Tok != token.VAR {
				continue
			}
			for _, sp := range gd.Specs {
				vs := sp.(*ast.ValueSpec)
				for i, nm := range vs.Names {
					o, _ := p.Info.Defs[nm].(*types.Var)
					if o == nil {
						continue
					}
					if isTable(o.Type()) {
						found = append(found, o)
						if i < len(vs.Values) {
							inits = append(inits, vs.Values[i])
						} else {
							inits = append(inits, nil)
						}
					}
				}
			}
		}
	}
	// a table of string lists is an order table when its strings are (mostly)
	// metric abbreviations; tables of value names are something else
	{
		var kf []*types.Var
		var ki []ast.Expr
		for i, o := range found {
			keep := true
			if inits[i] != nil {
				if lv, ok := p.listValue(inits[i]); ok && lv.K == VList {
					total, abvs := 0, 0
					for _, g := range lv.T {
						if g.K != VList {
							continue
						}
						for _, e := range g.T {
							if e.K == VStr {
								total++
								if vocab[p.Key].byAbv[e.S] != nil {
									abvs++
								}
							}
						}
					}
					if total > 0 && 2*abvs < total {
						keep = false
					}
				}
			}
			if keep {
				kf = append(kf, o)
				ki = append(ki, inits[i])
			}
		}
		found, inits = kf, ki
	}
	if len(found) == 0 && vocab[p.Key].Order != "fixed" {
		return nil, nil, nil, nil
	}
	if len(found) == 0 {
		// a flat list of all abbreviations in specification order (the group
		// boundaries are then constants of the parser, checked by the automaton)
		var flat []string
		for _, g := range vocab[p.Key].Groups {
			for _, m := range g.Metrics {
				flat = append(flat, m.Abv)
			}
		}
		for _, f := range p.P.Syntax {
			for _, d := range f.Decls {
				gd, ok := d.(*ast.GenDecl)
				if !ok || gd.Tok != token.VAR {
					continue
				}
				for _, sp := range gd.Specs {
					vs := sp.(*ast.ValueSpec)
					for i, nm := range vs.Names {
						o, _ := p.Info.Defs[nm].(*types.Var)
						if o == nil || !isStrSeq(o.Type()) || i >= len(vs.Values) {
							continue
						}
						lv, ok := p.listValue(vs.Values[i])
						if !ok || lv.K != VList || len(lv.T) != len(flat) {
							continue
						}
						same := true
						for j, e := range lv.T {
							if e.K != VStr || e.S != flat[j] {
								same = false
							}
						}
						if same {
							var gs [][]string
							for _, g := range vocab[p.Key].Groups {
								var row []string
								for _, m := range g.Metrics {
									row = append(row, m.Abv)
								}
								gs = append(gs, row)
							}
							return o, gs, vs.Values[i], nil
						}
					}
				}
			}
		}
		return nil, nil, nil, nil
	}
	if len(found) > 1 {
		return nil, nil, nil, fmt.Errorf("several tables of string lists")
	}
	if inits[0] == nil {
		return found[0], nil, nil, fmt.Errorf("order table has no initialiser")
	}
	if _, ok := inits[0].(*ast.CompositeLit); !ok {
		return found[0], nil, inits[0], fmt.Errorf("order table is not a composite literal")
	}
	// positional or keyed elements, constants only: the literal's value
	lv, ok := p.listValue(inits[0])
	if !ok || lv.K != VList {
		return found[0], nil, inits[0], fmt.Errorf("non-constant entry in order table")
	}
	for _, g := range lv.T {
		if g.K != VList {
			return found[0], nil, inits[0], fmt.Errorf("order group is not a literal")
		}
		var row []string
		for _, e := range g.T {
			if e.K != VStr {
				return found[0], nil, inits[0], fmt.Errorf("non-constant entry in order table")
			}
			row = append(row, e.S)
		}
		groups = append(groups, row)
	}
	return found[0], groups, inits[0], nil
}

// ---------------------------------------------------------------------------
// kvm (v3)

type KvmModel struct {
	Fn       *ast.FuncDecl
	Type     *types.Named
	Flag     map[string]*types.Var // label -> flag field
	Default  *ast.CaseClause
	Problems []string
	DupOK    bool
	DupWhy   string
}

// kvmModel finds the method Set(abv string) error on a struct of bool flags.
func (p *Pkg) kvmModel() *KvmModel {
	for name, fd := range p.Funcs {
		if !strings.HasSuffix(name, ".Set") || fd == p.method("Set") {
			continue
		}
		recv := p.recvObj(fd)
		if recv == nil {
			continue
		}
		rt := recv.Type()
		if pt, ok := rt.(*types.Pointer); ok {
			rt = pt.Elem()
		}
		named, ok := rt.(*types.Named)
		if !ok {
			continue
		}
		st, ok := named.Underlying().(*types.Struct)
		if !ok {
			continue
		}
		allBool := st.NumFields() > 0
		for i := 0; i < st.NumFields(); i++ {
			if b, ok := st.Field(i).Type().Underlying().(*types.Basic); !ok || b.Kind() != types.Bool {
				allBool = false
			}
		}
		if !allBool {
			continue
		}
		km := &KvmModel{Fn: fd, Type: named, Flag: map[string]*types.Var{}}
		sw, abv := outerSwitch(p.Info, fd)
		if sw == nil {
			km.Problems = append(km.Problems, "no switch on the abbreviation parameter")
			return km
		}
		if assignedIn(p.Info, fd.Body, abv) {
			km.Problems = append(km.Problems, "abbreviation parameter reassigned")
		}
		var dstObj types.Object
		for _, cs := range sw.Body.List {
			cc := cs.(*ast.CaseClause)
			if cc.List == nil {
				km.Default = cc
				continue
			}
			if len(cc.Body) != 1 {
				km.Problems = append(km.Problems, "arm with more than one statement at "+p.pos(cc))
				continue
			}
			as, ok := cc.Body[0].(*ast.AssignStmt)
			if !ok || len(as.Lhs) != 1 || len(as.Rhs) != 1 || as.Tok != token.ASSIGN {
				km.Problems = append(km.Problems, "arm is not `dst = &kvm.f` at "+p.pos(cc))
				continue
			}
			u, ok := as.Rhs[0].(*ast.UnaryExpr)
			if !ok || u.Op != token.AND {
				km.Problems = append(km.Problems, "arm is not `dst = &kvm.f` at "+p.pos(cc))
				continue
			}
			se, ok := u.X.(*ast.SelectorExpr)
			if !ok {
				km.Problems = append(km.Problems, "arm is not `dst = &kvm.f` at "+p.pos(cc))
				continue
			}
			sel := p.Info.Selections[se]
			if sel == nil || identObj(p.Info, se.X) != types.Object(recv) {
				km.Problems = append(km.Problems, "flag is not a field of the receiver at "+p.pos(cc))
				continue
			}
			fv := sel.Obj().(*types.Var)
			d := identObj(p.Info, as.Lhs[0])
			if dstObj == nil {
				dstObj = d
			} else if dstObj != d {
				km.Problems = append(km.Problems, "arms assign different destination variables")
			}
			for _, le := range cc.List {
				s, ok := constString(p.Info, le)
				if !ok {
					km.Problems = append(km.Problems, "non-constant label")
					continue
				}
				if km.Flag[s] != nil {
					km.Problems = append(km.Problems, "duplicate label "+s)
				}
				km.Flag[s] = fv
			}
		}
		// tail: if *dst { return &ErrDefinedN{Abv: abv} } ; *dst = true ; return nil
		var tail []ast.Stmt
		seen := false
		for _, s := range fd.Body.List {
			if s == ast.Stmt(sw) {
				seen = true
				continue
			}
			if seen {
				tail = append(tail, s)
			}
		}
		km.DupOK, km.DupWhy = p.kvmTail(tail, dstObj, abv)
		return km
	}
	return nil
}

func (p *Pkg) kvmTail(tail []ast.Stmt, dst, abv types.Object) (bool, string) {
	isDeref := func(e ast.Expr) bool {
		st, ok := e.(*ast.StarExpr)
		return ok && dst != nil && identObj(p.Info, st.X) == dst
	}
	if len(tail) != 3 {
		return false, fmt.Sprintf("tail of kvm.Set has %d statements, expected `if *dst {return &ErrDefinedN}; *dst = true; return nil`", len(tail))
	}
	ifs, ok := tail[0].(*ast.IfStmt)
	if !ok || ifs.Init != nil || ifs.Else != nil || !isDeref(ifs.Cond) {
		return false, "kvm.Set does not test *dst before setting it: a repeated metric is not detected"
	}
	if len(ifs.Body.List) != 1 {
		return false, "duplicate branch is not a single return"
	}
	rs, ok := ifs.Body.List[0].(*ast.ReturnStmt)
	if !ok || len(rs.Results) != 1 {
		return false, "duplicate branch is not a single return"
	}
	if ok, why := p.isTypedErrPtr(rs.Results[0], "ErrDefinedN", abv); !ok {
		return false, "duplicate branch: " + why
	}
	as, ok := tail[1].(*ast.AssignStmt)
	if !ok || len(as.Lhs) != 1 || !isDeref(as.Lhs[0]) || as.Tok != token.ASSIGN {
		return false, "kvm.Set does not set *dst = true"
	}
	if tv := p.Info.Types[as.Rhs[0]]; tv.Value == nil || tv.Value.String() != "true" {
		return false, "kvm.Set does not set *dst = true"
	}
	r2, ok := tail[2].(*ast.ReturnStmt)
	if !ok || len(r2.Results) != 1 || !isNilIdent(p.Info, r2.Results[0]) {
		return false, "kvm.Set does not end with return nil"
	}
	return true, "tests *dst, returns &ErrDefinedN{Abv: abv} on a repeat, then sets it"
}

// ---------------------------------------------------------------------------
// emission model (Vector)

type EmitEntry struct {
	Prefix string
	Label  string
	Skip   []string // values for which nothing is appended
	Group  int      // index of the enclosing condition group (-1: unconditional)
	Call   ast.Node
}

type EmitGroup struct {
	CondLabels []string // labels tested `x != ND`
	CondConst  []string
	If         ast.Node
}

type EmitModel struct {
	Fn        *ast.FuncDecl
	Header    string // constant appended first ("" if none)
	HeaderPos ast.Node
	Entries   []EmitEntry
	Groups    []EmitGroup
	Problems  []problem
	BufObj    types.Object
	MakeCall  *ast.CallExpr
	LenCall   *ast.CallExpr
	// CapExpr: the expression, in Vector, whose value becomes the buffer's capacity
	CapExpr ast.Expr
	// Semantic: obtained by symbolic interpretation of Vector (semit.go); the
	// syntactic recogniser below is the fallback
	Semantic bool
	Fallback string // why the symbolic interpretation did not apply
}

type problem struct {
	n   ast.Node
	msg string
}

// emitHelper summarises an emit helper func(b *[]byte, pre, v string):
// appends pre+v unless v is in skip.
type emitHelper struct {
	ok   bool
	skip []string
	why  string
}

func (p *Pkg) summariseEmitHelper(fn *types.Func, depth int) emitHelper {
	fd := p.FuncObj[fn]
	if fd == nil || fd.Body == nil || depth > 3 {
		return emitHelper{why: "no body"}
	}
	params := paramObjs(p.Info, fd)
	if len(params) != 3 {
		return emitHelper{why: "emit helper does not take (b, pre, v)"}
	}
	b, pre, v := params[0], params[1], params[2]
	isAppend := func(s ast.Stmt, what types.Object) bool {
		as, ok := s.(*ast.AssignStmt)
		if !ok || len(as.Lhs) != 1 || len(as.Rhs) != 1 || as.Tok != token.ASSIGN {
			return false
		}
		l, ok := as.Lhs[0].(*ast.StarExpr)
		if !ok || identObj(p.Info, l.X) != b {
			return false
		}
		call, ok := as.Rhs[0].(*ast.CallExpr)
		if !ok || len(call.Args) != 2 || !call.Ellipsis.IsValid() {
			return false
		}
		id, ok := call.Fun.(*ast.Ident)
		if !ok || id.Name != "append" {
			return false
		}
		if _, isB := p.Info.Uses[id].(*types.Builtin); !isB {
			return false
		}
		a0, ok := call.Args[0].(*ast.StarExpr)
		if !ok || identObj(p.Info, a0.X) != b {
			return false
		}
		return identObj(p.Info, call.Args[1]) == what
	}
	stmts := fd.Body.List
	var skip []string
	for len(stmts) > 0 {
		ifs, ok := stmts[0].(*ast.IfStmt)
		if !ok {
			break
		}
		be, ok := ifs.Cond.(*ast.BinaryExpr)
		if !ok || be.Op != token.EQL || ifs.Init != nil || ifs.Else != nil || identObj(p.Info, be.X) != v {
			return emitHelper{why: "unrecognised condition in emit helper"}
		}
		c, ok := constString(p.Info, be.Y)
		if !ok {
			return emitHelper{why: "skip test against a non-constant"}
		}
		if len(ifs.Body.List) != 1 {
			return emitHelper{why: "skip branch is not a bare return"}
		}
		if rs, ok := ifs.Body.List[0].(*ast.ReturnStmt); !ok || len(rs.Results) != 0 {
			return emitHelper{why: "skip branch is not a bare return"}
		}
		skip = append(skip, c)
		stmts = stmts[1:]
	}
	if len(stmts) == 2 && isAppend(stmts[0], pre) && isAppend(stmts[1], v) {
		return emitHelper{ok: true, skip: skip}
	}
	if len(stmts) == 1 {
		if es, ok := stmts[0].(*ast.ExprStmt); ok {
			if call, ok := es.X.(*ast.CallExpr); ok && len(call.Args) == 3 {
				if callee, _ := identObj(p.Info, call.Fun).(*types.Func); callee != nil &&
					identObj(p.Info, call.Args[0]) == b && identObj(p.Info, call.Args[1]) == pre && identObj(p.Info, call.Args[2]) == v {
					inner := p.summariseEmitHelper(callee, depth+1)
					if !inner.ok {
						return inner
					}
					return emitHelper{ok: true, skip: append(skip, inner.skip...)}
				}
			}
		}
	}
	return emitHelper{why: "emit helper body is not `[if v == K {return}] *b = append(*b, pre...); *b = append(*b, v...)`"}
}

// getLabelOf recognises recv.get("L") / recv.Get-like internal accessor calls
// and returns the label; the accessor must be a method whose body returns the
// string result of Get(abv).
func (p *Pkg) getLabelOf(e ast.Expr) (string, bool) {
	call, ok := e.(*ast.CallExpr)
	if !ok || len(call.Args) != 1 {
		return "", false
	}
	se, ok := call.Fun.(*ast.SelectorExpr)
	if !ok {
		return "", false
	}
	sel := p.Info.Selections[se]
	if sel == nil {
		return "", false
	}
	fn, ok := sel.Obj().(*types.Func)
	if !ok || !p.isGetAccessor(fn) {
		return "", false
	}
	return constString(p.Info, call.Args[0])
}

// isGetAccessor: method(abv string) string whose body is
// `s, _|err := recv.Get(abv); [if err != nil {panic(err)}]; return s`.
func (p *Pkg) isGetAccessor(fn *types.Func) bool {
	fd := p.FuncObj[fn]
	if fd == nil || fd.Recv == nil || fd.Body == nil {
		return false
	}
	params := paramObjs(p.Info, fd)
	if len(params) != 1 || len(fd.Body.List) < 2 {
		return false
	}
	as, ok := fd.Body.List[0].(*ast.AssignStmt)
	if !ok || len(as.Lhs) != 2 || len(as.Rhs) != 1 {
		return false
	}
	call, ok := as.Rhs[0].(*ast.CallExpr)
	if !ok || len(call.Args) != 1 || identObj(p.Info, call.Args[0]) != params[0] {
		return false
	}
	se, ok := call.Fun.(*ast.SelectorExpr)
	if !ok {
		return false
	}
	sel := p.Info.Selections[se]
	if sel == nil || p.FuncObj[sel.Obj().(*types.Func)] != p.method("Get") {
		return false
	}
	if identObj(p.Info, se.X) != types.Object(p.recvObj(fd)) {
		return false
	}
	strObj := identObj(p.Info, as.Lhs[0])
	last, ok := fd.Body.List[len(fd.Body.List)-1].(*ast.ReturnStmt)
	if !ok || len(last.Results) != 1 || identObj(p.Info, last.Results[0]) != strObj {
		return false
	}
	for _, s := range fd.Body.List[1 : len(fd.Body.List)-1] {
		ifs, ok := s.(*ast.IfStmt)
		if !ok || !terminates(ifs.Body) {
			return false
		}
	}
	return true
}

func (p *Pkg) EmitModel() *EmitModel {
	if p.emitModel != nil {
		return p.emitModel
	}
	sem, err := p.semanticEmitModel()
	if err == nil {
		p.emitModel = sem
		return sem
	}
	em := p.syntacticEmitModel()
	em.Fallback = err.Error()
	if os.Getenv("CVSSCHECK_DEBUG") != "" {
		println("DBG emit fallback", p.Key, err.Error())
	}
	if se, ok := err.(*semitErr); ok && se.at != nil {
		em.Fallback += " at " + p.pos(se.at)
	}
	p.emitModel = em
	return em
}

func (p *Pkg) syntacticEmitModel() *EmitModel {
	fd := p.method("Vector")
	em := &EmitModel{Fn: fd}
	if fd == nil {
		em.Problems = append(em.Problems, problem{nil, "no Vector method"})
		return em
	}
	info := p.Info
	bind := map[types.Object]string{} // local var -> label (v2: e := get("E"))
	bad := func(n ast.Node, f string, a ...any) {
		em.Problems = append(em.Problems, problem{n, fmt.Sprintf(f, a...)})
	}
	var handleEmit func(call *ast.CallExpr, group int) bool
	handleEmit = func(call *ast.CallExpr, group int) bool {
		fn, _ := identObj(info, call.Fun).(*types.Func)
		if fn == nil || fn.Pkg() != p.P.Types || len(call.Args) != 3 {
			return false
		}
		// first arg &b
		u, ok := call.Args[0].(*ast.UnaryExpr)
		if !ok || u.Op != token.AND || em.BufObj == nil || identObj(info, u.X) != em.BufObj {
			return false
		}
		h := p.summariseEmitHelper(fn, 0)
		if !h.ok {
			bad(call, "emit helper %s: %s", fn.Name(), h.why)
			return true
		}
		pre, ok := constString(info, call.Args[1])
		if !ok {
			bad(call, "non-constant prefix")
			return true
		}
		label, ok := p.getLabelOf(call.Args[2])
		if !ok {
			if o := identObj(info, call.Args[2]); o != nil {
				label, ok = bind[o]
			}
		}
		if !ok {
			bad(call, "emitted value is not the accessor result of a constant label")
			return true
		}
		em.Entries = append(em.Entries, EmitEntry{Prefix: pre, Label: label, Skip: h.skip, Group: group, Call: call})
		return true
	}
	for _, s := range fd.Body.List {
		switch st := s.(type) {
		case *ast.AssignStmt:
			// l := lenVec(&c) ; b := make([]byte, 0, l) ; b = append(b, header...) ; x, y := get(..), get(..)
			if len(st.Rhs) == 1 && len(st.Lhs) == 1 {
				if call, ok := st.Rhs[0].(*ast.CallExpr); ok {
					if id, ok := call.Fun.(*ast.Ident); ok {
						if _, isB := info.Uses[id].(*types.Builtin); isB && id.Name == "make" {
							em.BufObj = identObj(info, st.Lhs[0])
							em.MakeCall = call
							continue
						}
						if _, isB := info.Uses[id].(*types.Builtin); isB && id.Name == "append" {
							if len(call.Args) == 2 && call.Ellipsis.IsValid() && identObj(info, call.Args[0]) == em.BufObj && identObj(info, st.Lhs[0]) == em.BufObj {
								if h, ok := constString(info, call.Args[1]); ok && len(em.Entries) == 0 && em.Header == "" {
									em.Header = h
									em.HeaderPos = call
									continue
								}
							}
							bad(st, "unrecognised append in Vector")
							continue
						}
						if fn, _ := info.Uses[id].(*types.Func); fn != nil && fn.Pkg() == p.P.Types && st.Tok == token.DEFINE {
							// the sizing call
							em.LenCall = call
							continue
						}
					}
				}
			}
			// a buffer that is not made in the call (R14.buf reports it)
			if st.Tok == token.DEFINE && len(st.Lhs) >= 1 && em.BufObj == nil {
				if o := identObj(info, st.Lhs[0]); o != nil && o.Type().String() == "[]byte" {
					em.BufObj = o
					continue
				}
			}
			// tuple of accessor results
			if st.Tok == token.DEFINE && len(st.Lhs) == len(st.Rhs) {
				all := true
				for i, r := range st.Rhs {
					if l, ok := p.getLabelOf(r); ok {
						bind[identObj(info, st.Lhs[i])] = l
					} else {
						all = false
					}
				}
				if all {
					continue
				}
			}
			bad(st, "statement outside the Vector language")
		case *ast.ExprStmt:
			call, ok := st.X.(*ast.CallExpr)
			if !ok || !handleEmit(call, -1) {
				bad(st, "statement outside the Vector language")
			}
		case *ast.IfStmt:
			// v2 group: if a != "ND" || b != "ND" ... { emits }
			g := EmitGroup{If: st}
			okc := true
			var collect func(e ast.Expr)
			collect = func(e ast.Expr) {
				switch x := e.(type) {
				case *ast.ParenExpr:
					collect(x.X)
				case *ast.BinaryExpr:
					if x.Op == token.LOR {
						collect(x.X)
						collect(x.Y)
						return
					}
					if x.Op == token.NEQ {
						if o := identObj(info, x.X); o != nil {
							if l, ok := bind[o]; ok {
								if c, ok := constString(info, x.Y); ok {
									g.CondLabels = append(g.CondLabels, l)
									g.CondConst = append(g.CondConst, c)
									return
								}
							}
						}
					}
					okc = false
				default:
					okc = false
				}
			}
			collect(st.Cond)
			if !okc || st.Init != nil || st.Else != nil {
				bad(st, "group condition is not a disjunction of `value != constant` tests")
				continue
			}
			gi := len(em.Groups)
			em.Groups = append(em.Groups, g)
			for _, bs := range st.Body.List {
				es, ok := bs.(*ast.ExprStmt)
				if !ok {
					bad(bs, "statement outside the Vector language")
					continue
				}
				call, ok := es.X.(*ast.CallExpr)
				if !ok || !handleEmit(call, gi) {
					bad(bs, "statement outside the Vector language")
				}
			}
		case *ast.ReturnStmt:
		default:
			bad(s, "statement %T outside the Vector language", s)
		}
	}
	return em
}

// ---------------------------------------------------------------------------
// rule group: vocab

func (w *World) rulesVocab(out *[]Obligation) {
	for _, k := range w.Order {
		p := w.Pkgs[k]
		ov := vocab[k]
		sm := p.SetModel()
		gm := p.GetModel()
		add := func(ok bool, rule, inst string, n ast.Node, detail string) {
			pos := p.Key
			if n != nil {
				pos = p.pos(n)
			}
			*out = append(*out, Obligation{Rule: rule, Instance: p.Key + "." + inst, Pos: pos, OK: ok, Detail: detail, NonTrivial: true})
		}
		// R09.labels
		for _, om := range ov.list {
			m := sm.ByLabel[om.Abv]
			ga := gm.ByLabel[om.Abv]
			if m == nil {
				add(false, "R09.labels", "Set["+om.Abv+"]", sm.Fn, "specification metric "+om.Abv+" is not recognised by Set")
			} else {
				add(true, "R09.labels", "Set["+om.Abv+"]", m.Arm, "recognised")
			}
			if ga == nil {
				add(false, "R09.labels", "Get["+om.Abv+"]", gm.Fn, "specification metric "+om.Abv+" is not recognised by Get")
			} else {
				add(true, "R09.labels", "Get["+om.Abv+"]", ga.Arm, "recognised")
			}
		}
		for _, m := range sm.Metrics {
			if ov.byAbv[m.Label] == nil {
				add(false, "R09.labels", "Set["+m.Label+"]", m.Arm, "Set recognises "+m.Label+", which is not a metric of CVSS "+ov.Version)
			}
		}
		for _, ga := range gm.Arms {
			if ov.byAbv[ga.Label] == nil {
				add(false, "R09.labels", "Get["+ga.Label+"]", ga.Arm, "Get recognises "+ga.Label+", which is not a metric of CVSS "+ov.Version)
			}
		}
		// R09.values, R06.nd, R02.zero, R10.align, R09.nonempty
		for _, m := range sm.Metrics {
			om := ov.byAbv[m.Label]
			if om == nil {
				continue
			}
			if sameSet(m.List, om.Values) {
				add(true, "R09.values", "Set["+m.Label+"]", m.Arm, fmt.Sprintf("accepted values %v = specification set", m.List))
			} else {
				add(false, "R09.values", "Set["+m.Label+"]", m.Arm, fmt.Sprintf("Set accepts %v, specification has %v", m.List, om.Values))
			}
			if len(m.List) == 0 {
				add(false, "R02.zero", "Set["+m.Label+"]", m.Arm, "no value at code 0: the zero object is not well formed")
				continue
			}
			add(true, "R02.zero", "Set["+m.Label+"]", m.Arm, "code 0 is "+m.List[0])
			if !om.Mandatory {
				add(m.List[0] == ov.ND, "R06.nd", "Set["+m.Label+"]", m.Arm,
					fmt.Sprintf("code 0 (an omitted metric) is %q, the version's not-defined token", m.List[0]),
				)
				if m.List[0] != ov.ND {
					(*out)[len(*out)-1].Detail = fmt.Sprintf("code 0 of optional metric %s is %q: a vector that omits it reads back %q instead of %q", m.Label, m.List[0], m.List[0], ov.ND)
				}
			}
			if om.ModifiedOf != "" {
				b := sm.ByLabel[om.ModifiedOf]
				if b == nil {
					add(false, "R10.align", "Set["+m.Label+"]", m.Arm, "base metric "+om.ModifiedOf+" missing")
				} else {
					want := append([]string{ov.ND}, b.List...)
					for _, v := range om.Values {
						if !setOf(want)[v] {
							want = append(want, v) // extra values (Safety) follow the base values
						}
					}
					if sameSeq(want, m.List) {
						add(true, "R10.align", "Set["+m.Label+"]", m.Arm, fmt.Sprintf("%v = [%s] ++ %v: code(M)-1 is the base code of the same value", m.List, ov.ND, b.List))
					} else {
						add(false, "R10.align", "Set["+m.Label+"]", m.Arm, fmt.Sprintf("value list %v is not [%s] ++ list of %s %v (+extras): mod() would translate a Modified value into a different base value", m.List, ov.ND, b.Label, b.List))
					}
				}
			}
			if ga := gm.ByLabel[m.Label]; ga != nil && len(ga.Table) == 0 {
				add(false, "R09.nonempty", "Get["+m.Label+"]", ga.Arm, "premise failed: what Get("+m.Label+") prints could not be modelled (reported by R07.decode / R07.names): undecided")
			} else if ga != nil {
				okNE := true
				var why []string
				vals := setOf(om.Values)
				for c := range m.List {
					s, has := ga.Table[c]
					if !has || s == "" {
						okNE = false
						why = append(why, fmt.Sprintf("code %d prints the empty string", c))
					} else if !vals[s] {
						okNE = false
						why = append(why, fmt.Sprintf("code %d prints %q, not a value of %s", c, s, m.Label))
					}
				}
				if okNE {
					add(true, "R09.nonempty", "Get["+m.Label+"]", ga.Arm, fmt.Sprintf("every reachable code 0..%d prints a non-empty specification value", len(m.List)-1))
				} else {
					add(false, "R09.nonempty", "Get["+m.Label+"]", ga.Arm, strings.Join(why, "; "))
				}
			}
		}
		// order table
		ordVar, ord, lit, err := p.orderTable()
		if ov.Order == "fixed" {
			if err != nil || ordVar == nil {
				add(false, "R01.vocab", "order", lit, fmt.Sprintf("parser order table not found or not a literal: %v", err))
			} else {
				var want [][]string
				for _, g := range ov.Groups {
					var row []string
					for _, m := range g.Metrics {
						row = append(row, m.Abv)
					}
					want = append(want, row)
				}
				okO := len(want) == len(ord)
				for i := 0; okO && i < len(want); i++ {
					okO = sameSeq(want[i], ord[i])
				}
				if okO {
					add(true, "R01.vocab", "order", lit, fmt.Sprintf("parser order table has the %d specification groups in specification order", len(ord)))
				} else {
					add(false, "R01.vocab", "order", lit, fmt.Sprintf("parser order table %v differs from the specification order %v", ord, want))
				}
			}
		} else if ordVar != nil {
			add(false, "R01.vocab", "order", lit, "v3 is order-free but an order table exists: undecided")
		}
		// kvm
		if ks := (*KvmSem)(nil); ov.Order == "free" {
			// (on the program the parser rules were decided on: as written, or inlined)
			pp := w.parseVerdictOf(p.Key).pkg
			ks = pp.kvmSem(pp.parseModelOf())
			if ks.Decided {
				// semantic model (skvm.go): representation-independent
				var want []string
				for _, m := range ov.list {
					want = append(want, m.Abv)
				}
				if sameSet(ks.Labels, want) {
					add(true, "R01.vocab", "kvm.labels", ks.Fn, fmt.Sprintf("%d abbreviations accepted on the empty state = specification metrics", len(ks.Labels)))
				} else {
					add(false, "R01.vocab", "kvm.labels", ks.Fn, fmt.Sprintf("the defined-once check accepts %v, the specification metrics are %v", ks.Labels, want))
				}
				add(ks.StepOK, "R01.complete", "kvm.injective", ks.Fn, ks.StepWhy)
				add(ks.DupOK, "R01.complete", "kvm.dup", ks.Fn, ks.DupWhy)
				add(ks.UnkNonNil, "R01.complete", "kvm.default", ks.Fn, map[bool]string{true: "an unknown abbreviation is refused with a non-nil error", false: ks.UnkWhy}[ks.UnkNonNil])
				add(ks.UnkTyped, "R18.default", "kvm.default", ks.Fn, ks.UnkWhy)
				add(ks.NoPanic, "R01.complete", "kvm.nopanic", ks.Fn, map[bool]string{true: "no table is read outside its bounds in the defined-once logic", false: ks.PanicWhy}[ks.NoPanic])
				w.rulesEmit(p, ov, ord, out)
				continue
			}
			km := p.kvmModel()
			if km == nil {
				add(false, "R01.vocab", "kvm", nil, "no defined-once check found in the v3 parser ("+ks.Why+"): undecided")
			} else {
				for _, pr := range km.Problems {
					add(false, "R01.vocab", "kvm", km.Fn, pr)
				}
				var labels []string
				for l := range km.Flag {
					labels = append(labels, l)
				}
				sort.Strings(labels)
				var want []string
				for _, m := range ov.list {
					want = append(want, m.Abv)
				}
				if sameSet(labels, want) {
					add(true, "R01.vocab", "kvm.labels", km.Fn, fmt.Sprintf("%d labels = specification metrics", len(labels)))
				} else {
					add(false, "R01.vocab", "kvm.labels", km.Fn, fmt.Sprintf("kvm labels %v differ from specification metrics %v", labels, want))
				}
				// injective
				inj := map[*types.Var]string{}
				okInj := true
				for _, l := range labels {
					f := km.Flag[l]
					if o, dup := inj[f]; dup {
						okInj = false
						add(false, "R01.complete", "kvm.flag["+l+"]", km.Fn, fmt.Sprintf("labels %s and %s share the flag %s: one of them is reported as a repeat of the other, and a missing one goes unnoticed", o, l, f.Name()))
					}
					inj[f] = l
				}
				if okInj {
					add(true, "R01.complete", "kvm.injective", km.Fn, "labels map to distinct flags")
				}
				add(km.DupOK, "R01.complete", "kvm.dup", km.Fn, km.DupWhy)
				if km.Default == nil {
					add(false, "R01.complete", "kvm.default", km.Fn, "kvm.Set has no default arm: an unknown abbreviation reaches T.Set only")
				} else {
					refuses, typed, why := p.defaultArmError(km.Default.Body, paramObjs(p.Info, km.Fn)[0], nil)
					add(refuses, "R01.complete", "kvm.default", km.Default, map[bool]string{true: "an unknown abbreviation is refused with a non-nil error", false: "an unknown abbreviation is not refused: " + why}[refuses])
					add(typed, "R18.default", "kvm.default", km.Default, why)
				}
			}
		}
		w.rulesEmit(p, ov, ord, out)
	}
}

func (w *World) rulesEmit(p *Pkg, ov *OVocab, ord [][]string, out *[]Obligation) {
	sm := p.SetModel()
	gm := p.GetModel()
	em := p.EmitModel()
	add := func(ok bool, rule, inst string, n ast.Node, detail string) {
		pos := p.Key
		if n != nil {
			pos = p.pos(n)
		}
		*out = append(*out, Obligation{Rule: rule, Instance: p.Key + "." + inst, Pos: pos, OK: ok, Detail: detail, NonTrivial: true})
	}
	for _, pr := range em.Problems {
		add(false, "R02.emit", "Vector", pr.n, pr.msg+": undecided")
	}
	if em.Semantic {
		add(true, "R02.emit", "Vector.model", em.Fn, fmt.Sprintf("Vector interpreted over symbolic Get strings (helpers inlined, loops over constant tables unrolled, branches merged): header %q, %d metric entries, %d conditional groups", em.Header, len(em.Entries), len(em.Groups)))
	} else if em.Fn != nil {
		add(true, "R02.emit", "Vector.model", em.Fn, "Vector recognised syntactically (the symbolic interpreter does not apply: "+em.Fallback+")")
	}
	// R02.header / R13.emit
	if ov.Header != "" {
		if em.Header == ov.Header {
			add(true, "R02.header", "Vector.header", em.HeaderPos, fmt.Sprintf("first append is the constant %q", em.Header))
		} else {
			add(false, "R02.header", "Vector.header", em.Fn, fmt.Sprintf("Vector starts with %q, specification header is %q", em.Header, ov.Header))
		}
	} else if em.Header != "" {
		add(false, "R02.header", "Vector.header", em.HeaderPos, fmt.Sprintf("v2 vectors have no header but Vector starts with %q", em.Header))
	} else {
		add(true, "R02.header", "Vector.header", em.Fn, "no header (v2)")
	}
	// R02.emit: order + skeleton
	var wantLabels, gotLabels []string
	for _, m := range ov.list {
		wantLabels = append(wantLabels, m.Abv)
	}
	for _, e := range em.Entries {
		gotLabels = append(gotLabels, e.Label)
	}
	if sameSeq(wantLabels, gotLabels) {
		add(true, "R02.emit", "Vector.order", em.Fn, fmt.Sprintf("%d metrics emitted in specification order", len(gotLabels)))
	} else {
		add(false, "R02.emit", "Vector.order", em.Fn, fmt.Sprintf("emission order %v differs from specification order %v", gotLabels, wantLabels))
	}
	skel := em.Header
	want := strings.TrimSuffix(ov.Header, "/")
	for i, e := range em.Entries {
		skel += e.Prefix + "•"
		_ = i
	}
	for i, m := range em.Entries {
		if i == 0 && ov.Header == "" {
			want += m.Label + ":•"
		} else {
			want += "/" + m.Label + ":•"
		}
	}
	if skel == want {
		add(true, "R02.emit", "Vector.skeleton", em.Fn, "header and prefixes concatenate to H/M1:•/M2:•… with each prefix naming the metric whose value follows")
	} else {
		// locate first differing entry
		acc := em.Header
		wacc := strings.TrimSuffix(ov.Header, "/")
		var at ast.Node = em.Fn
		detail := "skeleton mismatch"
		for i, e := range em.Entries {
			acc += e.Prefix + "•"
			if i == 0 && ov.Header == "" {
				wacc += e.Label + ":•"
			} else {
				wacc += "/" + e.Label + ":•"
			}
			if acc != wacc {
				at = e.Call
				detail = fmt.Sprintf("value of %s is written after prefix %q; expected separator+%q", e.Label, e.Prefix, e.Label+":")
				break
			}
		}
		add(false, "R02.emit", "Vector.skeleton", at, detail)
	}
	// per entry: R02.skip, R08.idem
	for _, e := range em.Entries {
		om := ov.byAbv[e.Label]
		m := sm.ByLabel[e.Label]
		ga := gm.ByLabel[e.Label]
		if om == nil || m == nil || ga == nil || len(m.List) == 0 {
			continue
		}
		if len(ga.Table) == 0 {
			// what Get prints for this metric is not known: no verdict may be read off an empty table
			add(false, "R02.skip", fmt.Sprintf("Vector[%s]", e.Label), e.Call, "premise failed: what Get("+e.Label+") prints could not be modelled (reported by R07.decode / R07.names): undecided")
			continue
		}
		inst := "Vector[" + e.Label + "]"
		skip := setOf(e.Skip)
		// strings Get can print for reachable codes
		var printed []string
		for c := range m.List {
			printed = append(printed, ga.Table[c])
		}
		if e.Group >= 0 {
			// v2: emitted in full inside a group; no per-value skip allowed
			if len(e.Skip) > 0 {
				add(false, "R02.skip", inst, e.Call, "a grouped (v2) metric uses a skipping helper: the group would not be written in full")
			} else {
				add(true, "R02.skip", inst, e.Call, "written unconditionally inside its group")
			}
			continue
		}
		if om.Mandatory {
			hit := []string{}
			for _, s := range printed {
				if skip[s] {
					hit = append(hit, s)
				}
			}
			if len(hit) > 0 {
				add(false, "R02.skip", inst, e.Call, fmt.Sprintf("mandatory metric %s is dropped when its value is %v", e.Label, hit))
			} else {
				add(true, "R02.skip", inst, e.Call, "mandatory metric is always written")
			}
			continue
		}
		// optional: dropped iff code 0 (not defined)
		okS := true
		var why []string
		for c, s := range printed {
			if c == 0 && !skip[s] {
				okS = false
				why = append(why, fmt.Sprintf("not-defined value %q is written out (canonical form drops it)", s))
			}
			if c != 0 && skip[s] {
				okS = false
				why = append(why, fmt.Sprintf("defined value %q is dropped: it reads back as %q", s, m.List[0]))
			}
		}
		if okS {
			add(true, "R02.skip", inst, e.Call, fmt.Sprintf("dropped iff value is %q (code 0)", printed[0]))
		} else {
			add(false, "R02.skip", inst, e.Call, strings.Join(why, "; "))
		}
	}
	// v2 groups
	for gi, g := range em.Groups {
		var body []string
		for _, e := range em.Entries {
			if e.Group == gi {
				body = append(body, e.Label)
			}
		}
		inst := fmt.Sprintf("Vector.group%d", gi)
		// oracle group containing body[0]
		var og *OGroup
		for i := range ov.Groups {
			for _, m := range ov.Groups[i].Metrics {
				if len(body) > 0 && m.Abv == body[0] {
					og = &ov.Groups[i]
				}
			}
		}
		if og == nil {
			add(false, "R02.skip", inst, g.If, "conditional group emits nothing recognisable")
			continue
		}
		var wantG []string
		for _, m := range og.Metrics {
			wantG = append(wantG, m.Abv)
		}
		okG := sameSeq(body, wantG) && sameSet(g.CondLabels, wantG) && !og.Mandatory
		ndOK := true
		for i, l := range g.CondLabels {
			m := sm.ByLabel[l]
			ga := gm.ByLabel[l]
			if m == nil || ga == nil || len(m.List) == 0 || g.CondConst[i] != ga.Table[0] {
				ndOK = false
			}
		}
		if okG && ndOK {
			add(true, "R02.skip", inst, g.If, fmt.Sprintf("group %s written in full iff any of %v is defined", og.Name, wantG))
		} else {
			add(false, "R02.skip", inst, g.If, fmt.Sprintf("group condition tests %v against %v and emits %v; specification group is %v (dropped only when all are %s)", g.CondLabels, g.CondConst, body, wantG, ov.ND))
		}
	}
	if ov.Version == "2.0" {
		// every optional v2 metric must be inside a group; base outside
		for _, e := range em.Entries {
			om := ov.byAbv[e.Label]
			if om == nil {
				continue
			}
			if om.Mandatory != (e.Group < 0) {
				add(false, "R02.skip", "Vector["+e.Label+"].grouping", e.Call, "metric is on the wrong side of a group condition")
			}
		}
	}
	// R02.order: parser table == emission order (v2/v4)
	if ov.Order == "fixed" && ord != nil {
		var flat []string
		for _, g := range ord {
			flat = append(flat, g...)
		}
		if sameSeq(flat, gotLabels) {
			add(true, "R02.order", "order~Vector", em.Fn, "parser order table and serializer order agree")
		} else {
			add(false, "R02.order", "order~Vector", em.Fn, fmt.Sprintf("parser order %v and serializer order %v disagree: Vector() output is rejected or re-read differently", flat, gotLabels))
		}
	}
	// R02.closed / R08.idem: every string Vector can print for M is accepted by Set(M)
	for _, e := range em.Entries {
		m := sm.ByLabel[e.Label]
		ga := gm.ByLabel[e.Label]
		if m == nil || ga == nil {
			continue
		}
		okC := true
		var why []string
		for c := range m.List {
			s := ga.Table[c]
			if setOf(e.Skip)[s] && e.Group < 0 {
				continue
			}
			idx := -1
			for i, v := range m.List {
				if v == s {
					idx = i
					break
				}
			}
			if idx != c {
				okC = false
				why = append(why, fmt.Sprintf("code %d is printed as %q which Set re-reads as code %d", c, s, idx))
			}
		}
		if okC {
			add(true, "R08.idem", "Vector["+e.Label+"]", e.Call, "every printed value is re-read as the same code")
		} else {
			add(false, "R08.idem", "Vector["+e.Label+"]", e.Call, strings.Join(why, "; "))
		}
	}
}

func init() {
	registerGroup("vocab", func(w *World, out *[]Obligation) { w.rulesVocab(out) })
}
