package main

// Structure of (*CVSS40).Score, part 3: checks over the parsed loop nest
// (R04.max, R04.sev, R09.exhaustive for sevIdx / max digits, R09.shape).

import (
	"fmt"
	"go/ast"
	"go/token"
	"go/types"
	"math/big"
	"sort"
	"strings"
)

// litNode is a nested composite literal of integers.
type litNode struct {
	Leaf bool
	V    int64
	Kids map[int]*litNode
	N    int
}

func (p *Pkg) parseLit(e ast.Expr) (*litNode, error) {
	if cl, ok := e.(*ast.CompositeLit); ok {
		// a record of small integer fields {av, pr, ui} stands for the decimal
		// number av·100 + pr·10 + ui (one digit per field, first field leftmost)
		if tv, ok := p.Info.Types[cl]; ok && tv.Type != nil {
			if st, ok := tv.Type.Underlying().(*types.Struct); ok {
				vals := make([]int64, st.NumFields())
				for i, el := range cl.Elts {
					idx := i
					v := el
					if kv, ok := el.(*ast.KeyValueExpr); ok {
						kid, isId := kv.Key.(*ast.Ident)
						if !isId {
							return nil, fmt.Errorf("record key in table literal")
						}
						idx = -1
						for k := 0; k < st.NumFields(); k++ {
							if st.Field(k).Name() == kid.Name {
								idx = k
							}
						}
						v = kv.Value
					}
					u, ok := constUint(p.Info, v)
					if !ok || idx < 0 || idx >= len(vals) || u > 9 {
						return nil, fmt.Errorf("record field in table literal is not a one-digit constant")
					}
					vals[idx] = int64(u)
				}
				var n int64
				for _, v := range vals {
					n = n*10 + v
				}
				return &litNode{Leaf: true, V: n}, nil
			}
		}
		n := &litNode{Kids: map[int]*litNode{}}
		idx := 0
		for _, el := range cl.Elts {
			v := el
			if kv, ok := el.(*ast.KeyValueExpr); ok {
				k, ok := constUint(p.Info, kv.Key)
				if !ok {
					return nil, fmt.Errorf("non-constant index in table literal")
				}
				idx = int(k)
				v = kv.Value
			}
			c, err := p.parseLit(v)
			if err != nil {
				return nil, err
			}
			n.Kids[idx] = c
			idx++
			if idx > n.N {
				n.N = idx
			}
		}
		return n, nil
	}
	if u, ok := constUint(p.Info, e); ok {
		return &litNode{Leaf: true, V: int64(u)}, nil
	}
	return nil, fmt.Errorf("non-constant leaf in table literal")
}

func (p *Pkg) pkgVarInit(v *types.Var) ast.Expr {
	for _, f := range p.P.Syntax {
		for _, d := range f.Decls {
			gd, ok := d.(*ast.GenDecl)
			if !ok || gd.Tok != token.VAR {
				continue
			}
			for _, sp := range gd.Specs {
				vs := sp.(*ast.ValueSpec)
				for i, nm := range vs.Names {
					if p.Info.Defs[nm] == types.Object(v) && i < len(vs.Values) {
						return vs.Values[i]
					}
				}
			}
		}
	}
	return nil
}

// oracle severity order (most severe first) of a classified local
func (p *Pkg) oracleSeverity(l locSem) []string {
	ov := vocab[p.Key]
	var vals []string
	switch l.Kind {
	case "eff":
		if om := ov.byAbv["M"+l.Metric]; om != nil {
			vals = om.Values
		}
	default:
		if om := ov.byAbv[l.Metric]; om != nil {
			vals = om.Values
		}
	}
	var out []string
	for i := len(vals) - 1; i >= 0; i-- {
		if vals[i] == ov.ND {
			continue
		}
		out = append(out, vals[i])
	}
	return out
}

func (w *World) checkLoopNest(m *scoreModel, ln *loopNest, add func(ok bool, rule, inst string, n ast.Node, detail string)) {
	p := m.p
	info := p.Info
	fd := m.fd
	// filter covers every distance
	var unfiltered []string
	for _, sd := range ln.SD {
		if !ln.Guard[sd.Res] {
			unfiltered = append(unfiltered, sd.Res.Name())
		}
	}
	add(len(unfiltered) == 0, "R04.sibling", "Score.filter", fd, map[bool]string{true: fmt.Sprintf("all %d severity distances are required to be >= 0 before a highest-severity vector is used", len(ln.SD)), false: "severity distance(s) " + strings.Join(unfiltered, ",") + " may be negative when a highest-severity vector is accepted"}[len(unfiltered) == 0])
	// all 14 scored metrics have a distance
	have := map[string]bool{}
	for _, sd := range ln.SD {
		if s, ok := ln.sem[sd.Val]; ok {
			have[s.Metric] = true
		}
	}
	var miss []string
	for _, K := range []string{"1", "2", "36", "4"} {
		for _, mm := range eqMetrics[K] {
			if !have[mm] {
				miss = append(miss, mm)
			}
		}
	}
	add(len(miss) == 0, "R04.sibling", "Score.distances", fd, map[bool]string{true: "a severity distance is computed for each of the 14 metrics of EQ1, EQ2, EQ3+6 and EQ4", false: "no severity distance is computed for " + strings.Join(miss, ",")}[len(miss) == 0])

	// sevIdx: the [][]uint8 table indexed by the distance function
	var sevVar *types.Var
	var sdFn *types.Func
	for _, sd := range ln.SD {
		sdFn = calleeOf(info, sd.Call)
	}
	if sdFn != nil {
		if sfd := p.FuncObj[sdFn]; sfd != nil {
			ast.Inspect(sfd.Body, func(n ast.Node) bool {
				if ix, ok := n.(*ast.IndexExpr); ok {
					if v, ok := identObj(info, ix.X).(*types.Var); ok && v.Parent() == p.P.Types.Scope() {
						sevVar = v
					}
				}
				return true
			})
			okBody, whyBody := p.checkSeverityDistance(sfd, sevVar)
			if !okBody {
				// not the recognised shape: tabulate the function over every row of the order table
				if ok2, why2, decided := p.severityDistanceByTabulation(sfd, sevVar); decided {
					okBody, whyBody = ok2, why2
				}
			}
			add(okBody, "R04.sev", "severityDistance.body", sfd, whyBody)
		}
	}
	var sev *litNode
	if sevVar != nil {
		if init := p.pkgVarInit(sevVar); init != nil {
			sev, _ = p.parseLit(init)
		}
	}
	if sev == nil {
		add(false, "R04.sev", "sevIdx", fd, "severity order table not found: undecided")
	}
	// digit -> metric per range variable
	type dm struct {
		pos int
		sem locSem
	}
	digits := map[types.Object][]dm{}
	for _, sd := range ln.SD {
		s, okS := ln.sem[sd.Val]
		inst := "Score.distance[" + sd.Res.Name() + "]"
		if !okS || (s.Kind != "eff" && s.Kind != "def") {
			add(false, "R10.mod", inst, sd.Call, fmt.Sprintf("the severity distance is computed from %s, which is not an effective (Modified-resolved, default-substituted) value", sd.Val.Name()))
			continue
		}
		dg, okD := sd.Dig, sd.HasDig
		if !okD {
			add(false, "R04.max", inst, sd.Call, "the maximal value is not a digit of a highest-severity vector")
			continue
		}
		var K string
		for _, r := range ln.Ranges {
			if r.Var == dg.Range {
				K = r.K
			}
		}
		in := false
		for _, mm := range eqMetrics[K] {
			if mm == s.Metric {
				in = true
			}
		}
		if !in {
			add(false, "R04.sibling", inst, sd.Call, fmt.Sprintf("the distance of %s is measured against a digit of the EQ%s vectors, which do not contain %s", s.Metric, K, s.Metric))
			continue
		}
		digits[dg.Range] = append(digits[dg.Range], dm{dg.Pos, s})
		// sevIdx row
		if sev != nil {
			row := sev.Kids[sd.MConst]
			if row == nil {
				add(false, "R09.exhaustive", inst, sd.Call, fmt.Sprintf("sevIdx has no row %d", sd.MConst))
				continue
			}
			dom := p.locDomain(s)
			var got []string
			okRow := true
			for i := 0; i < row.N; i++ {
				c := row.Kids[i]
				if c == nil || !c.Leaf || int(c.V) >= len(dom) {
					okRow = false
					got = append(got, "?")
					continue
				}
				got = append(got, dom[c.V])
			}
			want := p.oracleSeverity(s)
			if okRow {
				if m.rank == nil {
					m.rank = map[string]map[string]int{}
				}
				m.rank[s.Metric] = map[string]int{}
				for i, v := range got {
					m.rank[s.Metric][v] = i
				}
			}
			if okRow && sameSeq(got, want) {
				add(true, "R04.sev", inst, sd.Call, fmt.Sprintf("%s is ranked in row %d = %v, the specification's order (most severe first); every effective value has a rank", s.Metric, sd.MConst, got))
			} else {
				add(false, "R04.sev", inst, sd.Call, fmt.Sprintf("%s is ranked with row %d = %v; the specification's severity order is %v", s.Metric, sd.MConst, got, want))
			}
		}
	}
	// R04.max
	for _, r := range ln.Ranges {
		init := p.pkgVarInit(r.Table)
		inst := "max[EQ" + r.K + "]"
		if init == nil {
			add(false, "R04.max", inst, r.Stmt, "table initialiser not found")
			continue
		}
		root, err := p.parseLit(init)
		if err != nil {
			add(false, "R04.max", inst, r.Stmt, "table is not a constant literal: "+err.Error())
			continue
		}
		ds := digits[r.Var]
		sort.Slice(ds, func(i, j int) bool { return ds[i].pos > ds[j].pos })
		decode := func(n int64) (string, error) {
			var parts []string
			rest := n
			byMetric := map[string]string{}
			maxPos := -1
			for _, d := range ds {
				if d.pos > maxPos {
					maxPos = d.pos
				}
			}
			for _, d := range ds {
				pw := int64(1)
				for i := 0; i < d.pos; i++ {
					pw *= 10
				}
				c := (n / pw) % 10
				rest -= c * pw
				dom := p.locDomain(d.sem)
				if int(c) >= len(dom) {
					return "", fmt.Errorf("digit %d of %d is not a value of %s", c, n, d.sem.Metric)
				}
				byMetric[d.sem.Metric] = dom[c]
			}
			if rest != 0 {
				return "", fmt.Errorf("vector %d has digits no severity distance reads", n)
			}
			for _, mm := range eqMetrics[r.K] {
				parts = append(parts, mm+":"+byMetric[mm])
			}
			return strings.Join(parts, "/"), nil
		}
		var levels map[string]*litNode
		var oracle map[string][]string
		if r.K == "36" {
			levels = map[string]*litNode{}
			for a, row := range root.Kids {
				for b, l := range row.Kids {
					levels[fmt.Sprintf("%d%d", a, b)] = l
				}
			}
			oracle = v40.Max36
		} else {
			k := int(r.K[0] - '0')
			row := root.Kids[k]
			if r.PerEQ {
				row = root // the table of this EQ alone: indexed by level directly
			}
			levels = map[string]*litNode{}
			oracle = map[string][]string{}
			if row != nil {
				for l, node := range row.Kids {
					levels[fmt.Sprint(l)] = node
				}
			}
			for l, vs := range v40.Max[r.K] {
				oracle[fmt.Sprint(l)] = vs
			}
		}
		var lks []string
		for l := range oracle {
			lks = append(lks, l)
		}
		sort.Strings(lks)
		for _, l := range lks {
			linst := inst + "[" + l + "]"
			node := levels[l]
			if node == nil || node.N == 0 {
				add(false, "R09.shape", linst, r.Stmt, "no highest-severity vector for reachable level "+l+": the distances keep their zero value / the index panics")
				continue
			}
			var got []string
			bad := ""
			for i := 0; i < node.N; i++ {
				c := node.Kids[i]
				if c == nil || !c.Leaf {
					bad = "non-constant entry"
					break
				}
				s, err := decode(c.V)
				if err != nil {
					bad = err.Error()
					break
				}
				got = append(got, s)
				if m.maxes == nil {
					m.maxes = map[string]map[string][]map[string]string{}
				}
				if m.maxes[r.K] == nil {
					m.maxes[r.K] = map[string][]map[string]string{}
				}
				mv := map[string]string{}
				for _, part := range strings.Split(s, "/") {
					kv := strings.SplitN(part, ":", 2)
					mv[kv[0]] = kv[1]
				}
				m.maxes[r.K][l] = append(m.maxes[r.K][l], mv)
			}
			if bad != "" {
				add(false, "R04.max", linst, r.Stmt, bad)
				continue
			}
			if sameSet(got, oracle[l]) {
				add(true, "R04.max", linst, r.Stmt, fmt.Sprintf("highest-severity vectors %v = specification (as a set)", got))
			} else {
				add(false, "R04.max", linst, r.Stmt, fmt.Sprintf("highest-severity vectors of level %s are %v, the specification lists %v", l, got, oracle[l]))
			}
		}
		for l := range levels {
			if _, ok := oracle[l]; !ok && levels[l] != nil && levels[l].N > 0 {
				add(true, "R04.max", inst+"["+l+"].unreachable", r.Stmt, "entry for a level macroVector never assigns (ignored)")
			}
		}
	}
}

// checkSeverityDistance: the body is rank(vecVal) - rank(mxVal) in sevIdx[metric],
// where rank is the position found by a linear scan.
func (p *Pkg) checkSeverityDistance(fd *ast.FuncDecl, sevVar *types.Var) (bool, string) {
	info := p.Info
	params := paramObjs(info, fd)
	if len(params) != 3 || sevVar == nil {
		return false, "severity distance function does not take (metric, value, max) over a package-level order table: undecided"
	}
	locals := map[types.Object]ast.Expr{}
	var ret ast.Expr
	for _, s := range fd.Body.List {
		switch st := s.(type) {
		case *ast.AssignStmt:
			if len(st.Lhs) == 1 && len(st.Rhs) == 1 && st.Tok == token.DEFINE {
				locals[identObj(info, st.Lhs[0])] = st.Rhs[0]
				continue
			}
			return false, "unexpected statement in the severity distance function: undecided"
		case *ast.ReturnStmt:
			if len(st.Results) == 1 {
				ret = st.Results[0]
			}
		default:
			return false, "unexpected statement in the severity distance function: undecided"
		}
	}
	be, ok := ret.(*ast.BinaryExpr)
	if !ok || be.Op != token.SUB {
		return false, "the severity distance is not a difference of two ranks"
	}
	isRow := func(e ast.Expr) bool {
		if o := identObj(info, e); o != nil {
			if d, ok := locals[o]; ok {
				e = d
			}
		}
		ix, ok := e.(*ast.IndexExpr)
		return ok && identObj(info, ix.X) == types.Object(sevVar) && identObj(info, ix.Index) == params[0]
	}
	rank := func(e ast.Expr, want types.Object) (*types.Func, bool) {
		c, ok := e.(*ast.CallExpr)
		if !ok || len(c.Args) != 2 || !isRow(c.Args[0]) || identObj(info, c.Args[1]) != want {
			return nil, false
		}
		return calleeOf(info, c), true
	}
	f1, ok1 := rank(be.X, params[1])
	f2, ok2 := rank(be.Y, params[2])
	if !ok1 || !ok2 || f1 == nil || f1 != f2 {
		return false, "the severity distance is not rank(value) − rank(max) in the metric's own row (operands swapped or rows mixed)"
	}
	// rank function: linear scan returning the position
	rfd := p.FuncObj[f1]
	if rfd == nil || len(rfd.Body.List) < 2 {
		return false, "rank function has no body"
	}
	rp := paramObjs(info, rfd)
	var counter types.Object
	okScan := false
	for _, s := range rfd.Body.List {
		switch st := s.(type) {
		case *ast.AssignStmt:
			if st.Tok == token.DEFINE && len(st.Lhs) == 1 {
				if r, ok := exactConst(info, st.Rhs[0]); ok && r.Sign() == 0 {
					counter = identObj(info, st.Lhs[0])
				}
			}
		case *ast.RangeStmt:
			if identObj(info, st.X) != rp[0] || st.Value == nil || len(st.Body.List) != 2 {
				continue
			}
			v := identObj(info, st.Value)
			ifs, ok := st.Body.List[0].(*ast.IfStmt)
			inc, ok2 := st.Body.List[1].(*ast.IncDecStmt)
			if !ok || !ok2 || inc.Tok != token.INC || identObj(info, inc.X) != counter {
				continue
			}
			c, ok := ifs.Cond.(*ast.BinaryExpr)
			if !ok || c.Op != token.EQL {
				continue
			}
			a, b := identObj(info, c.X), identObj(info, c.Y)
			if !((a == v && b == rp[1]) || (a == rp[1] && b == v)) {
				continue
			}
			if len(ifs.Body.List) == 1 {
				if rs, ok := ifs.Body.List[0].(*ast.ReturnStmt); ok && len(rs.Results) == 1 && identObj(info, rs.Results[0]) == counter {
					okScan = true
				}
			}
		}
	}
	if !okScan {
		// not the textbook scan: tabulate the function on small rows instead
		if ok, why := rankByTabulation(p, rfd); !ok {
			return false, "the rank function is neither a linear scan nor provably the position of the value (" + why + "): undecided"
		}
		return true, "distance = position(value) − position(max) in sevIdx[metric]; the rank function is proved to return the position by tabulation over rows of up to 5 distinct values"
	}
	return true, "distance = position(value) − position(max) in sevIdx[metric], positions counted from 0 by a linear scan"
}

// rankByTabulation evaluates rank(row, v) for every permutation row of
// {0..n-1}, n ≤ 5, and every member v, and demands the position of v. The
// function is executed by the fragment evaluator (bounded loops, exact
// arithmetic), not by the Go runtime. A function that treats values only
// through equality with the row members is thereby decided for every row of
// distinct values of that length; the rows of sevIdx have at most 5 members.
func rankByTabulation(p *Pkg, fd *ast.FuncDecl) (bool, string) {
	var perms func(n int) [][]int
	perms = func(n int) [][]int {
		if n == 0 {
			return [][]int{{}}
		}
		var out [][]int
		for _, q := range perms(n - 1) {
			for i := 0; i <= len(q); i++ {
				r := append(append(append([]int{}, q[:i]...), n-1), q[i:]...)
				out = append(out, r)
			}
		}
		return out
	}
	for n := 1; n <= 5; n++ {
		for _, row := range perms(n) {
			var lv []Val
			for _, x := range row {
				lv = append(lv, vInt(int64(x)))
			}
			for pos, x := range row {
				ce := newCEnv(p, nil)
				ce.loops, ce.ratArith = true, true
				v, err := ce.callFunc(fd, []Val{{K: VList, T: lv}, vInt(int64(x))}, fd)
				if err != nil {
					return false, err.Error()
				}
				if v.K != VInt && v.K != VRat {
					return false, fmt.Sprintf("rank(%v, %d) = %s, want %d", row, x, v, pos)
				}
				got := toRat(v)
				if got.Cmp(big.NewRat(int64(pos), 1)) != 0 {
					return false, fmt.Sprintf("rank(%v, %d) = %s, want %d", row, x, v, pos)
				}
			}
		}
	}
	return true, ""
}

// severityDistanceByTabulation: for every row of the severity-order table and
// every pair of its members, the function must return position(value) −
// position(max). Evaluated by the fragment evaluator (finite, complete over
// the table).
func (p *Pkg) severityDistanceByTabulation(fd *ast.FuncDecl, sevVar *types.Var) (ok bool, why string, decided bool) {
	if sevVar == nil || fd == nil || fd.Body == nil {
		return false, "", false
	}
	init := p.pkgVarInit(sevVar)
	if init == nil || p.pkgVarWritten(sevVar) {
		return false, "", false
	}
	tbl, okT := p.listValue(init)
	if !okT || (tbl.K != VList && tbl.K != VMap) {
		return false, "", false
	}
	if len(paramObjs(p.Info, fd)) != 3 {
		return false, "", false
	}
	n := 0
	for mi, row := range tbl.T {
		if row.K != VList {
			continue
		}
		for i, vi := range row.T {
			for j, vj := range row.T {
				ce := newCEnv(p, nil)
				ce.loops = true
				ce.ratArith = true // positions are small integers: their float difference is exact
				v, err := ce.callFunc(fd, []Val{vInt(int64(mi)), vi, vj}, fd)
				if err != nil {
					if _, isPanic := err.(*panicked); isPanic {
						return false, fmt.Sprintf("severity distance panics for row %d, values (%s, %s)", mi, vi, vj), true
					}
					return false, "", false
				}
				if v.K != VInt && v.K != VRat {
					return false, "", false
				}
				if toRat(v).Cmp(big.NewRat(int64(i-j), 1)) != 0 {
					return false, fmt.Sprintf("for row %d the distance of (%s, %s) is %s, expected position difference %d", mi, vi, vj, v, i-j), true
				}
				n++
			}
		}
	}
	if n == 0 {
		return false, "", false
	}
	return true, fmt.Sprintf("distance = position(value) − position(max) in the metric's row: tabulated over all %d (row, value, max) triples of the order table", n), true
}
