package main

// keep the analysis libraries vendored
import (
	_ "golang.org/x/tools/go/callgraph/cha"
	_ "golang.org/x/tools/go/callgraph/vta"
	_ "golang.org/x/tools/go/cfg"
	_ "golang.org/x/tools/go/ssa"
	_ "golang.org/x/tools/go/ssa/ssautil"
)
