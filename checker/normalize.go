package main

// Source normalisation for the v4 score model.
//
// The decomposition of Score (prefix / loop nest / suffix) is stated over the
// function's local variables. Two very natural refactorings move the values
// out of locals without changing anything else:
//
//   T1  the block that computes the effective metric values is factored into a
//       helper returning a struct (`m := c.effective()`, then `m.vc`, `m.av`…);
//   T3  the receiver's bytes are read once into locals (`u0, u1 := c.u0, c.u1`).
//
// Both are undone here *at the source level*: the helper's body is inlined into
// locals `m_vc := …` and every `m.vc` becomes `m_vc`; every use of a byte alias
// becomes the field selection it stands for. The result is an equivalent
// program (the helper is a pure function of the receiver; aliases are never
// reassigned), loaded through a go/packages overlay and type-checked like the
// original, to which the unchanged rules are applied. Line numbers are
// preserved (inserted statements stay on the line of the statement they
// replace). Nothing is written to /repo.

import (
	"fmt"
	"go/ast"
	"go/token"
	"go/types"
	"os"
	"sort"
	"strings"
)

type textEdit struct {
	start, end int // byte offsets in the file
	text       string
}

type normalizer struct {
	p     *Pkg
	src   map[string][]byte // filename -> original source
	edits map[string][]textEdit
	notes []string
	// suffix given to the locals of the callee inlined last (normalize2.go)
	lastSfx      string
	parserMode   bool                  // passes applied to the parser: helpers with loops stay calls
	addrBound    map[types.Object]bool // parameters bound to &local: the local in selectors, (&local) elsewhere
	addedImports map[string]bool       // file\x00path already inserted by ensureImports
}

func (n *normalizer) file(pos token.Pos) (string, int) {
	ps := n.p.Fset.Position(pos)
	return ps.Filename, ps.Offset
}

func (n *normalizer) source(name string) ([]byte, error) {
	if b, ok := n.src[name]; ok {
		return b, nil
	}
	b, err := os.ReadFile(name)
	if err != nil {
		return nil, err
	}
	n.src[name] = b
	return b, nil
}

func (n *normalizer) edit(from, to token.Pos, text string) error {
	f1, o1 := n.file(from)
	f2, o2 := n.file(to)
	if f1 != f2 || o2 < o1 {
		return fmt.Errorf("edit spans files")
	}
	if _, err := n.source(f1); err != nil {
		return err
	}
	n.edits[f1] = append(n.edits[f1], textEdit{o1, o2, text})
	return nil
}

// exprText: the source text of e with identifiers of the given objects replaced
func (n *normalizer) exprText(e ast.Node, subst map[types.Object]string) (string, error) {
	fn, o1 := n.file(e.Pos())
	_, o2 := n.file(e.End())
	src, err := n.source(fn)
	if err != nil {
		return "", err
	}
	type rep struct {
		a, b int
		t    string
	}
	var reps []rep
	ast.Inspect(e, func(x ast.Node) bool {
		if id, ok := x.(*ast.Ident); ok {
			obj := n.p.Info.Uses[id]
			if obj == nil {
				obj = n.p.Info.Defs[id]
			}
			if t, ok := subst[obj]; ok && obj != nil {
				_, a := n.file(id.Pos())
				reps = append(reps, rep{a, a + len(id.Name), t})
			}
		}
		return true
	})
	sort.Slice(reps, func(i, j int) bool { return reps[i].a > reps[j].a })
	out := string(src[o1:o2])
	for _, r := range reps {
		out = out[:r.a-o1] + r.t + out[r.b-o1:]
	}
	return strings.ReplaceAll(out, "\n", " "), nil
}

// normalizeFunc applies T3 and T1 to one function. It reports whether anything changed.
func (n *normalizer) normalizeFunc(fd *ast.FuncDecl) (bool, error) {
	p := n.p
	info := p.Info
	changed := false
	recv := p.recvObj(fd)
	if recv == nil || fd.Body == nil {
		return false, nil
	}
	// ---- T3: byte aliases
	alias := map[types.Object]string{}
	for _, s := range fd.Body.List {
		as, ok := s.(*ast.AssignStmt)
		if !ok || as.Tok != token.DEFINE || len(as.Lhs) != len(as.Rhs) {
			continue
		}
		all := true
		for i := range as.Lhs {
			if _, base, isField := p.fieldOf(as.Rhs[i]); !isField || identObj(info, base) != types.Object(recv) {
				all = false
			}
			if identObj(info, as.Lhs[i]) == nil {
				all = false
			}
		}
		if !all {
			continue
		}
		allAlias := true
		for _, l := range as.Lhs {
			if assignedIn(info, fd.Body, identObj(info, l)) {
				allAlias = false
			}
		}
		if !allAlias {
			continue
		}
		for i, l := range as.Lhs {
			o := identObj(info, l)
			t, err := n.exprText(as.Rhs[i], nil)
			if err != nil {
				return false, err
			}
			alias[o] = t
		}
		// the declaration disappears with its last use
		if err := n.edit(as.Pos(), as.End(), ""); err != nil {
			return false, err
		}
	}
	if len(alias) > 0 {
		ast.Inspect(fd.Body, func(x ast.Node) bool {
			id, ok := x.(*ast.Ident)
			if !ok {
				return true
			}
			if t, ok := alias[info.Uses[id]]; ok {
				if err := n.edit(id.Pos(), id.End(), t); err == nil {
					changed = true
				}
			}
			return true
		})
		n.notes = append(n.notes, fmt.Sprintf("%s: %d byte aliases replaced by the fields they stand for", fd.Name.Name, len(alias)))
	}
	// ---- T4: `a, b, c := recv.h()` with h a single `return e1, e2, e3`
	for _, st := range fd.Body.List {
		as, ok := st.(*ast.AssignStmt)
		if !ok || len(as.Rhs) != 1 || len(as.Lhs) < 2 {
			continue
		}
		call, ok := as.Rhs[0].(*ast.CallExpr)
		if !ok || len(call.Args) != 0 {
			continue
		}
		se, ok := call.Fun.(*ast.SelectorExpr)
		if !ok || identObj(info, se.X) != types.Object(recv) {
			continue
		}
		hfn := calleeOf(info, call)
		if hfn == nil {
			continue
		}
		h := p.FuncObj[hfn]
		if h == nil || h.Body == nil || len(h.Body.List) == 0 {
			continue
		}
		subst := map[types.Object]string{}
		if hr := p.recvObj(h); hr != nil {
			subst[hr] = recv.Name()
		}
		var texts []string
		rs, ok := h.Body.List[len(h.Body.List)-1].(*ast.ReturnStmt)
		if !ok {
			continue
		}
		if len(h.Body.List) == 1 && len(rs.Results) == len(as.Lhs) {
			for _, r := range rs.Results {
				t, err := n.exprText(r, subst)
				if err != nil {
					return false, err
				}
				texts = append(texts, t)
			}
		} else {
			// named results, each assigned exactly once by `r = e`, then a bare
			// `return` (or `return r1, r2, …`); a result used in a later
			// expression stands for the text assigned to it
			ros := resultObjs(info, h)
			if len(ros) != len(as.Lhs) {
				continue
			}
			okForm := true
			for i, ro := range ros {
				if ro == nil {
					okForm = false
				} else if len(rs.Results) != 0 && (len(rs.Results) != len(ros) || identObj(info, rs.Results[i]) != ro) {
					okForm = false
				}
			}
			byRes := map[types.Object]string{}
			for _, hs := range h.Body.List[:len(h.Body.List)-1] {
				ha, isAs := hs.(*ast.AssignStmt)
				if !okForm || !isAs || ha.Tok != token.ASSIGN || len(ha.Lhs) != len(ha.Rhs) {
					okForm = false
					break
				}
				for k, l := range ha.Lhs {
					lo := identObj(info, l)
					isRes := false
					for _, ro := range ros {
						if ro == lo && lo != nil {
							isRes = true
						}
					}
					if _, dup := byRes[lo]; !isRes || dup {
						okForm = false
						break
					}
					sub2 := map[types.Object]string{}
					for o, t := range subst {
						sub2[o] = t
					}
					for o, t := range byRes {
						sub2[o] = "(" + t + ")"
					}
					t, err := n.exprText(ha.Rhs[k], sub2)
					if err != nil {
						return false, err
					}
					byRes[lo] = t
				}
			}
			if !okForm || len(byRes) != len(ros) {
				continue
			}
			for _, ro := range ros {
				texts = append(texts, byRes[ro])
			}
		}
		if err := n.edit(call.Pos(), call.End(), strings.Join(texts, ", ")); err != nil {
			return false, err
		}
		changed = true
		n.notes = append(n.notes, fmt.Sprintf("%s: the %d results of %s are written in place of the call", fd.Name.Name, len(texts), h.Name.Name))
	}
	// ---- T1: struct-returning helper
	for _, s := range fd.Body.List {
		as, ok := s.(*ast.AssignStmt)
		if !ok || as.Tok != token.DEFINE || len(as.Lhs) != 1 || len(as.Rhs) != 1 {
			continue
		}
		x := identObj(info, as.Lhs[0])
		call, ok := as.Rhs[0].(*ast.CallExpr)
		if !ok || x == nil || len(call.Args) != 0 {
			continue
		}
		se, ok := call.Fun.(*ast.SelectorExpr)
		if !ok || identObj(info, se.X) != types.Object(recv) {
			continue
		}
		hfn := calleeOf(info, call)
		if hfn == nil {
			continue
		}
		h := p.FuncObj[hfn]
		named, _ := x.Type().(*types.Named)
		if h == nil || h.Body == nil || named == nil || types.Identical(named, p.T) {
			continue
		}
		st, ok := named.Underlying().(*types.Struct)
		if !ok || len(h.Body.List) == 0 {
			continue
		}
		rs, ok := h.Body.List[len(h.Body.List)-1].(*ast.ReturnStmt)
		if !ok {
			continue
		}
		// substitution: the helper's receiver -> ours, its locals -> their definitions
		subst := map[types.Object]string{}
		if hr := p.recvObj(h); hr != nil {
			subst[hr] = recv.Name()
		}
		// form 2: a named result filled field by field, `r.f = e` … `return`
		var named2 types.Object
		if ros := resultObjs(info, h); len(ros) == 1 && ros[0] != nil && (len(rs.Results) == 0 || (len(rs.Results) == 1 && identObj(info, rs.Results[0]) == ros[0])) {
			named2 = ros[0]
		}
		var cl *ast.CompositeLit
		if named2 == nil {
			if len(rs.Results) != 1 {
				continue
			}
			c, ok := rs.Results[0].(*ast.CompositeLit)
			if !ok {
				continue
			}
			cl = c
		}
		if named2 != nil {
			fields2 := map[string]string{}
			okF := true
			// r.g inside a later expression stands for what was assigned to it
			textOf := func(e ast.Expr) (string, error) {
				type rep struct {
					a, b int
					t    string
				}
				fn, o1 := n.file(e.Pos())
				_, o2 := n.file(e.End())
				src, err := n.source(fn)
				if err != nil {
					return "", err
				}
				var reps []rep
				ast.Inspect(e, func(x ast.Node) bool {
					switch y := x.(type) {
					case *ast.SelectorExpr:
						if identObj(info, y.X) == named2 {
							if t, ok := fields2[y.Sel.Name]; ok {
								_, a := n.file(y.Pos())
								_, b := n.file(y.End())
								reps = append(reps, rep{a, b, "(" + t + ")"})
							} else {
								okF = false
							}
							return false
						}
					case *ast.Ident:
						obj := info.Uses[y]
						if t, ok := subst[obj]; ok && obj != nil {
							_, a := n.file(y.Pos())
							reps = append(reps, rep{a, a + len(y.Name), t})
						}
					}
					return true
				})
				sort.Slice(reps, func(i, j int) bool { return reps[i].a > reps[j].a })
				out := string(src[o1:o2])
				for _, r := range reps {
					out = out[:r.a-o1] + r.t + out[r.b-o1:]
				}
				return strings.ReplaceAll(out, "\n", " "), nil
			}
			for _, hs := range h.Body.List[:len(h.Body.List)-1] {
				ha, ok := hs.(*ast.AssignStmt)
				if !ok || ha.Tok != token.ASSIGN || len(ha.Lhs) != 1 || len(ha.Rhs) != 1 {
					okF = false
					break
				}
				lse, ok := ha.Lhs[0].(*ast.SelectorExpr)
				if !ok || identObj(info, lse.X) != named2 {
					okF = false
					break
				}
				t, err := textOf(ha.Rhs[0])
				if err != nil {
					return false, err
				}
				fields2[lse.Sel.Name] = t
			}
			if !okF {
				continue
			}
			if ch, err := n.inlineRecord(fd, as, x, recv, hfn, h, fields2); err != nil {
				return false, err
			} else if ch {
				changed = true
			}
			continue
		}
		okBody := true
		for _, hs := range h.Body.List[:len(h.Body.List)-1] {
			ha, ok := hs.(*ast.AssignStmt)
			if !ok || ha.Tok != token.DEFINE || len(ha.Lhs) != len(ha.Rhs) {
				okBody = false
				break
			}
			// the helper's locals are pure expressions: substituted where they are used
			texts := make([]string, len(ha.Lhs))
			for i, l := range ha.Lhs {
				lo := identObj(info, l)
				if lo == nil {
					okBody = false
					break
				}
				t, err := n.exprText(ha.Rhs[i], subst)
				if err != nil {
					return false, err
				}
				texts[i] = "(" + t + ")"
			}
			if !okBody {
				break
			}
			for i, l := range ha.Lhs {
				subst[identObj(info, l)] = texts[i]
			}
		}
		if !okBody {
			continue
		}
		fields := map[string]string{}
		for i, el := range cl.Elts {
			name := ""
			ve := el
			if kv, isKV := el.(*ast.KeyValueExpr); isKV {
				id, isID := kv.Key.(*ast.Ident)
				if !isID {
					okBody = false
					break
				}
				name, ve = id.Name, kv.Value
			} else if i < st.NumFields() {
				name = st.Field(i).Name()
			}
			t, err := n.exprText(ve, subst)
			if err != nil {
				return false, err
			}
			fields[name] = t
		}
		if !okBody {
			continue
		}
		if ch, err := n.inlineRecord(fd, as, x, recv, hfn, h, fields); err != nil {
			return false, err
		} else if ch {
			changed = true
		}
	}
	return changed, nil
}

// normalizedWorld returns a world in which the named methods of package key
// are normalised, or nil when nothing applied.
func (w *World) normalizedWorld(key string, methods []string) (*World, []string, error) {
	p := w.Pkgs[key]
	n := &normalizer{p: p, src: map[string][]byte{}, edits: map[string][]textEdit{}}
	any := false
	for _, mname := range methods {
		fd := p.method(mname)
		if fd == nil {
			continue
		}
		ch, err := n.normalizeFunc(fd)
		if err != nil {
			return nil, nil, err
		}
		any = any || ch
	}
	if !any {
		return nil, nil, nil
	}
	overlay := map[string][]byte{}
	for name, eds := range n.edits {
		src := n.src[name]
		sort.Slice(eds, func(i, j int) bool {
			if eds[i].start != eds[j].start {
				return eds[i].start > eds[j].start
			}
			return eds[i].end > eds[j].end
		})
		out := string(src)
		last := len(out) + 1
		for _, e := range eds {
			if e.end > last {
				return nil, nil, fmt.Errorf("overlapping edits")
			}
			out = out[:e.start] + e.text + out[e.end:]
			last = e.start
		}
		overlay[name] = []byte(out)
	}
	w2, err := loadOverlay(w.Repo, "", overlay)
	if err != nil {
		return nil, nil, fmt.Errorf("the normalised source does not load: %v", err)
	}
	w2.Tier, w2.Seed, w2.Verif, w2.Wants = w.Tier, w.Seed, w.Verif, w.Wants
	return w2, n.notes, nil
}

// inlineRecord rewrites `x := recv.h()` in fd: every field of the record that
// fd reads becomes a local (or is substituted where it is read).
func (n *normalizer) inlineRecord(fd *ast.FuncDecl, as *ast.AssignStmt, x types.Object, recv *types.Var, hfn *types.Func, h *ast.FuncDecl, fields map[string]string) (bool, error) {
	p := n.p
	info := p.Info
	xn := x.Name()
	var parts []string
	// every use of x in fd: x.f (field) or x.meth(...) with an equivalent wrapper on T
	type use struct {
		from, to token.Pos
		text     string
	}
	var uses []use
	useCount := map[string]int{}
	needLocal := map[string]bool{}
	okUses := true
	var stack []ast.Node
	ast.Inspect(fd.Body, func(nd ast.Node) bool {
		if nd == nil {
			stack = stack[:len(stack)-1]
			return false
		}
		stack = append(stack, nd)
		id, isID := nd.(*ast.Ident)
		if !isID || info.Uses[id] != x {
			return true
		}
		par, _ := stack[len(stack)-2].(*ast.SelectorExpr)
		if par == nil || par.X != ast.Expr(id) {
			okUses = false
			return true
		}
		if sel := info.Selections[par]; sel != nil && sel.Kind() == types.FieldVal {
			if _, has := fields[par.Sel.Name]; !has {
				okUses = false
				return true
			}
			uses = append(uses, use{par.Pos(), par.End(), "\x00" + par.Sel.Name})
			useCount[par.Sel.Name]++
			// `v := helper(x.f)`: the field only feeds the definition of another local
			feeds := false
			if len(stack) >= 4 {
				if c, ok := stack[len(stack)-3].(*ast.CallExpr); ok && len(c.Args) == 1 && c.Args[0] == ast.Expr(par) {
					if das, ok := stack[len(stack)-4].(*ast.AssignStmt); ok && das.Tok == token.DEFINE && len(das.Rhs) == 1 && das.Rhs[0] == ast.Expr(c) {
						feeds = true
					}
				}
			}
			// `v, w := x.f, x.g`: the field is the whole definition of another local
			if len(stack) >= 3 {
				if das, ok := stack[len(stack)-3].(*ast.AssignStmt); ok && das.Tok == token.DEFINE {
					for _, r := range das.Rhs {
						if r == ast.Expr(par) {
							feeds = true
						}
					}
				}
			}
			if !feeds {
				needLocal[par.Sel.Name] = true
			}
			return true
		}
		// a method of the record: T must have a wrapper `return recv.h().meth(…)`
		if wfd := p.method(par.Sel.Name); wfd != nil && wfd != fd && wfd.Body != nil && (len(wfd.Body.List) == 1 || len(wfd.Body.List) == 2) {
			// `return recv.h().meth(…)` or `v := recv.h(); return v.meth(…)`
			var viaVar types.Object
			if len(wfd.Body.List) == 2 {
				if was, ok := wfd.Body.List[0].(*ast.AssignStmt); ok && was.Tok == token.DEFINE && len(was.Lhs) == 1 && len(was.Rhs) == 1 {
					if ic, ok := was.Rhs[0].(*ast.CallExpr); ok && calleeOf(info, ic) == hfn {
						viaVar = identObj(info, was.Lhs[0])
					}
				}
			}
			if wrs, ok := wfd.Body.List[len(wfd.Body.List)-1].(*ast.ReturnStmt); ok && len(wrs.Results) == 1 {
				if wc, ok := wrs.Results[0].(*ast.CallExpr); ok {
					if wse, ok := wc.Fun.(*ast.SelectorExpr); ok && wse.Sel.Name == par.Sel.Name {
						inner, isCall := wse.X.(*ast.CallExpr)
						if (isCall && calleeOf(info, inner) == hfn && len(wfd.Body.List) == 1) || (viaVar != nil && identObj(info, wse.X) == viaVar) {
							uses = append(uses, use{par.X.Pos(), par.X.End(), recv.Name()})
							return true
						}
					}
				}
			}
		}
		okUses = false
		return true
	})
	if !okUses {
		return false, nil
	}
	var fnames []string
	for f := range fields {
		fnames = append(fnames, f)
	}
	sort.Strings(fnames)
	// a field read once is substituted at its use, a field read several
	// times becomes a local, a field never read disappears
	nLocals := 0
	for _, f := range fnames {
		if useCount[f] > 1 || needLocal[f] {
			parts = append(parts, xn+"_"+f+" := "+fields[f])
			nLocals++
		}
	}
	if err := n.edit(as.Pos(), as.End(), strings.Join(parts, "; ")); err != nil {
		return false, err
	}
	for _, u := range uses {
		t := u.text
		if strings.HasPrefix(t, "\x00") {
			f := t[1:]
			if useCount[f] > 1 || needLocal[f] {
				t = xn + "_" + f
			} else {
				t = "(" + fields[f] + ")"
			}
		}
		if err := n.edit(u.from, u.to, t); err != nil {
			return false, err
		}
	}
	fnames = fnames[:nLocals]
	n.notes = append(n.notes, fmt.Sprintf("%s: the record returned by %s is inlined into %d locals", fd.Name.Name, h.Name.Name, len(fnames)))

	return true, nil
}
