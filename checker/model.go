package main

// Layers M2 (vocabulary tables of Set and Get) and the layout part of M3,
// plus the rule group "layout" (R07.*, R09.default, R01.case for switch tags).

import (
	"fmt"
	"go/ast"
	"go/constant"
	"go/token"
	"go/types"
	"os"
	"sort"
	"strings"
)

type Metric struct {
	Label          string
	List           []string // L_M, in code order (index = code)
	storeValidOnly bool     // Enc holds for the codes of the specification's values only
	Width          int      // number of code bits that can be non-zero
	Enc            []BitPos // code bit j -> receiver bit; len == Width (valid only when storeOK)
	W              map[BitPos]Bit
	Arm            *ast.CaseClause
	Index          int // source order in Set
	encOK          bool
	armPos         string
}

func (m *Metric) dataBits() map[BitPos]int {
	r := map[BitPos]int{}
	if !m.encOK {
		return r
	}
	for j, p := range m.Enc {
		r[p] = j
	}
	return r
}

type SetModel struct {
	Fn         *ast.FuncDecl
	Metrics    []*Metric
	ByLabel    map[string]*Metric
	Owner      map[BitPos]*Metric // data bit -> metric
	ValidateFn *types.Func
	Default    *ast.CaseClause
	Obls       []Obligation
	AbvParam   types.Object
	ValParam   types.Object
	// Semantic: built by the hybrid evaluator (sset.go) because the syntactic model did not apply
	Semantic     bool
	SemanticRuns int
	Fallback     string
}

type GetArm struct {
	semantic bool
	Label    string
	Arm      *ast.CaseClause
	Tag      BV
	TagOK    bool
	Table    map[int]string // code -> string
	Dup      bool
}

type GetModel struct {
	Fn       *ast.FuncDecl
	Arms     []*GetArm
	ByLabel  map[string]*GetArm
	Default  *ast.CaseClause
	Obls     []Obligation
	AbvParam types.Object
}

func constString(info *types.Info, e ast.Expr) (string, bool) {
	tv, ok := info.Types[e]
	if !ok || tv.Value == nil || tv.Value.Kind() != constant.String {
		return "", false
	}
	return constant.StringVal(tv.Value), true
}

func identObj(info *types.Info, e ast.Expr) types.Object {
	for {
		if p, ok := e.(*ast.ParenExpr); ok {
			e = p.X
			continue
		}
		break
	}
	id, ok := e.(*ast.Ident)
	if !ok {
		return nil
	}
	if o := info.Uses[id]; o != nil {
		return o
	}
	return info.Defs[id]
}

// paramObjs returns the parameter objects of a function in order.
func paramObjs(info *types.Info, fd *ast.FuncDecl) []types.Object {
	var out []types.Object
	if fd.Type.Params == nil {
		return nil
	}
	for _, f := range fd.Type.Params.List {
		for _, n := range f.Names {
			out = append(out, info.Defs[n])
		}
	}
	return out
}

func resultObjs(info *types.Info, fd *ast.FuncDecl) []types.Object {
	var out []types.Object
	if fd.Type.Results == nil {
		return nil
	}
	for _, f := range fd.Type.Results.List {
		for _, n := range f.Names {
			out = append(out, info.Defs[n])
		}
	}
	return out
}

// assignedIn reports whether obj is ever assigned (other than its definition)
// or has its address taken inside body.
func assignedIn(info *types.Info, body ast.Node, obj types.Object) bool {
	found := false
	ast.Inspect(body, func(n ast.Node) bool {
		switch s := n.(type) {
		case *ast.AssignStmt:
			for _, l := range s.Lhs {
				if id, ok := l.(*ast.Ident); ok {
					if s.Tok == token.DEFINE && info.Defs[id] != nil {
						continue
					}
					if info.Uses[id] == obj || info.Defs[id] == obj {
						found = true
					}
				}
			}
		case *ast.IncDecStmt:
			if identObj(info, s.X) == obj {
				found = true
			}
		case *ast.UnaryExpr:
			if s.Op == token.AND && identObj(info, s.X) == obj {
				found = true
			}
		case *ast.RangeStmt:
			if s.Key != nil && identObj(info, s.Key) == obj && s.Tok == token.ASSIGN {
				found = true
			}
			if s.Value != nil && identObj(info, s.Value) == obj && s.Tok == token.ASSIGN {
				found = true
			}
		}
		return !found
	})
	return found
}

// outerSwitch finds the single top-level switch statement of fd whose tag is
// the parameter obj.
func outerSwitch(info *types.Info, fd *ast.FuncDecl) (*ast.SwitchStmt, types.Object) {
	params := paramObjs(info, fd)
	for _, s := range fd.Body.List {
		sw, ok := s.(*ast.SwitchStmt)
		if !ok || sw.Tag == nil || sw.Init != nil {
			continue
		}
		o := identObj(info, sw.Tag)
		for _, p := range params {
			if p != nil && p == o {
				return sw, o
			}
		}
	}
	return nil, nil
}

func (p *Pkg) SetModel() *SetModel {
	if p.set == nil {
		p.set = p.buildSetModel()
		if setModelUndecided(p.set) {
			// the semantic model tabulates Set over labels: only meaningful when Set
			// treats the abbreviation as a whole string (see abvWhole)
			if ok, why := p.abvWhole(p.method("Set"), 0, 0); !ok {
				p.set.Fallback = "Set inspects parts of the abbreviation instead of comparing it as a whole string (" + why + ")"
			} else if sem, err := p.buildSetModelSemantic(); err == nil {
				p.set = sem
			} else {
				p.set.Fallback = err.Error() + posSuffix(p, err)
			}
		}
	}
	return p.set
}

// setModelUndecided: the syntactic model could not interpret Set (as opposed
// to: interpreted it and found a violation)
func setModelUndecided(sm *SetModel) bool {
	if len(sm.Metrics) == 0 {
		return true
	}
	for _, o := range sm.Obls {
		if !o.OK && strings.Contains(o.Detail, "undecided") {
			return true
		}
		if !o.OK && (strings.Contains(o.Detail, "outside the bit model") || strings.Contains(o.Detail, "does not validate the value")) {
			return true
		}
	}
	return false
}

func (p *Pkg) GetModel() *GetModel {
	if p.get == nil {
		p.get = p.buildGetModel()
	}
	return p.get
}

func (p *Pkg) buildSetModel() *SetModel {
	sm := &SetModel{ByLabel: map[string]*Metric{}, Owner: map[BitPos]*Metric{}}
	info := p.Info
	fd := p.method("Set")
	sm.Fn = fd
	inst := func(label string) string { return fmt.Sprintf("%s.Set[%s]", p.Key, label) }
	add := func(ok bool, rule, label string, n ast.Node, detail string) {
		sm.Obls = append(sm.Obls, Obligation{Rule: rule, Instance: inst(label), Pos: p.pos(n), OK: ok, Detail: detail, NonTrivial: true})
	}
	params := paramObjs(info, fd)
	if len(params) != 2 || p.recvObj(fd) == nil {
		add(false, "R07.guard", "*", fd, "Set does not have the shape Set(abv, value string) on a named receiver: undecided")
		return sm
	}
	if _, isPtr := p.recvObj(fd).Type().(*types.Pointer); !isPtr {
		add(false, "R07.store", "*", fd, "Set has a value receiver: its stores cannot reach the caller's object")
	}
	sw, abv := outerSwitch(info, fd)
	if sw == nil || abv != params[0] {
		add(false, "R07.guard", "*", fd, "no top-level switch on the abbreviation parameter found: undecided")
		return sm
	}
	sm.AbvParam, sm.ValParam = params[0], params[1]
	// R01.case: the tag is the unmodified parameter
	for i, prm := range params {
		if assignedIn(info, fd.Body, prm) {
			sm.Obls = append(sm.Obls, Obligation{Rule: "R01.case", Instance: fmt.Sprintf("%s.Set.param%d", p.Key, i), Pos: p.pos(fd), OK: false, NonTrivial: true,
				Detail: "parameter " + prm.Name() + " is reassigned before being compared (the comparison is no longer on the caller's string)"})
		} else {
			sm.Obls = append(sm.Obls, Obligation{Rule: "R01.case", Instance: fmt.Sprintf("%s.Set.param%d", p.Key, i), Pos: p.pos(fd), OK: true, NonTrivial: true,
				Detail: "parameter " + prm.Name() + " is never reassigned; switch tag / validate argument is the raw parameter"})
		}
	}
	for _, o := range sm.Obls {
		if o.Rule == "R01.case" {
			o.Rule = "R09.case"
			sm.Obls = append(sm.Obls, o)
		}
	}
	// statements outside the switch: only "return nil"
	for _, s := range fd.Body.List {
		if s == ast.Stmt(sw) {
			continue
		}
		if rs, ok := s.(*ast.ReturnStmt); ok && len(rs.Results) == 1 && isNilIdent(info, rs.Results[0]) {
			continue
		}
		add(false, "R07.guard", "*", s, "statement outside the metric switch of Set is not `return nil`: undecided")
	}
	idx := 0
	for _, cs := range sw.Body.List {
		cc := cs.(*ast.CaseClause)
		if cc.List == nil {
			sm.Default = cc
			continue
		}
		var labels []string
		for _, e := range cc.List {
			s, ok := constString(info, e)
			if !ok {
				add(false, "R07.guard", "?", e, "non-constant case label in Set: undecided")
				continue
			}
			labels = append(labels, s)
		}
		if len(labels) != 1 {
			add(false, "R07.guard", strings.Join(labels, ","), cc, "a Set arm serving several labels is outside the model: undecided")
			continue
		}
		m := &Metric{Label: labels[0], Arm: cc, Index: idx, W: map[BitPos]Bit{}, armPos: p.pos(cc)}
		idx++
		p.evalSetArm(sm, m, 0, add)
		// The formulas, the serializer and the nomenclature only need the
		// layout of the *specification's* values. When Set's own list is
		// longer (an extra, illegal value — reported by R09.values and, if it
		// does not fit the field, by R07.store) and the full-list layout fails,
		// the arm is re-evaluated for the codes of the specification values only.
		m.storeValidOnly = false
		if !m.encOK {
			if om := vocab[p.Key].byAbv[m.Label]; om != nil {
				validN := 0
				all := len(om.Values) > 0
				for _, v := range om.Values {
					i := indexOf(m.List, v)
					if i >= len(m.List) {
						all = false
						break
					}
					if i+1 > validN {
						validN = i + 1
					}
				}
				if all && validN < len(m.List) {
					mv := &Metric{Label: m.Label, Arm: cc, Index: m.Index, W: map[BitPos]Bit{}, armPos: m.armPos}
					p.evalSetArm(sm, mv, validN, func(bool, string, string, ast.Node, string) {})
					if mv.encOK {
						m.Enc, m.Width, m.encOK, m.storeValidOnly = mv.Enc, mv.Width, true, true
					}
				}
			}
		}
		if m.encOK {
			detail := "the codes of the specification's values are stored in the metric's own field"
			if m.storeValidOnly {
				detail += fmt.Sprintf(" (Set's list %v has more entries than the specification; the extra codes are outside this premise)", m.List)
			}
			add(true, "R07.storev", m.Label, cc, detail)
		} else {
			add(false, "R07.storev", m.Label, cc, "the layout of "+m.Label+" is not established even for the specification's values (see R07.store)")
		}
		if sm.ByLabel[m.Label] != nil {
			add(false, "R07.guard", m.Label, cc, "duplicate arm")
			continue
		}
		sm.Metrics = append(sm.Metrics, m)
		sm.ByLabel[m.Label] = m
	}
	// default arm: stores forbidden, must return &ErrInvalidMetric{Abv: abv}
	if sm.Default == nil {
		add(false, "R09.default", "default", sw, "Set has no default arm: an unknown abbreviation is silently accepted")
	} else {
		stores := p.fieldStores(sm.Default)
		if len(stores) > 0 {
			add(false, "R07.guard", "default", stores[0], "the default (unknown metric) arm of Set stores to the receiver")
		} else {
			add(true, "R07.guard", "default", sm.Default, "default arm contains no store")
		}
		refuses, typed, why := p.defaultArmError(sm.Default.Body, abv, nil)
		add(refuses, "R09.default", "default", sm.Default, map[bool]string{true: "an unknown abbreviation is refused with a non-nil error", false: "an unknown abbreviation is not refused with a provably non-nil error: " + why}[refuses])
		add(typed, "R18.default", "default", sm.Default, why)
	}
	p.setModelCross(sm, add)
	return sm
}

// setModelCross: the rules that relate the metrics' fields to each other
// (R07.overlap, R07.preserve, R07.unused), shared by the syntactic and the
// semantic construction of the model.
func (p *Pkg) setModelCross(sm *SetModel, add func(ok bool, rule, label string, n ast.Node, detail string)) {
	fd := sm.Fn
	// cross-arm: data bits of M are not in W of any other arm
	overlap := false
	for _, m := range sm.Metrics {
		for pos := range m.dataBits() {
			if o := sm.Owner[pos]; o != nil && o != m {
				add(false, "R07.overlap", m.Label, m.Arm, fmt.Sprintf("code bits of %s and %s are stored in the same bit %s: setting one produces an arbitrary (possibly illegal) code of the other", m.Label, o.Label, pos))
				overlap = true
			}
			sm.Owner[pos] = m
		}
	}
	if !overlap {
		sm.Obls = append(sm.Obls, Obligation{Rule: "R07.overlap", Instance: p.Key + ".Set.fields", Pos: p.pos(fd), OK: true, NonTrivial: true,
			Detail: fmt.Sprintf("the code bits of the %d metrics occupy pairwise distinct bits", len(sm.Metrics))})
	}
	for _, m := range sm.Metrics {
		if !m.encOK {
			continue
		}
		bad := []string{}
		var keys []BitPos
		for pos := range m.W {
			keys = append(keys, pos)
		}
		sort.Slice(keys, func(i, j int) bool { return keys[i].F*8+keys[i].B < keys[j].F*8+keys[j].B })
		for _, pos := range keys {
			if o := sm.Owner[pos]; o != nil && o != m {
				bad = append(bad, fmt.Sprintf("%s (field of %s)", pos, o.Label))
			}
		}
		preserved := len(p.Fields)*8 - len(m.W)
		if len(bad) > 0 {
			add(false, "R07.preserve", m.Label, m.Arm, "Set("+m.Label+") overwrites bits of another metric: "+strings.Join(bad, ", "))
		} else {
			var ws []string
			for _, pos := range keys {
				ws = append(ws, pos.String())
			}
			add(true, "R07.preserve", m.Label, m.Arm, fmt.Sprintf("writes {%s}; %d other bits provably keep their value; no other metric's field touched", strings.Join(ws, ","), preserved))
		}
	}
	// R07.unused: bits owned by no metric are only ever written with 0
	unusedWritten := 0
	for _, m := range sm.Metrics {
		for pos, b := range m.W {
			if sm.Owner[pos] == nil {
				unusedWritten++
				if b.K != BZero {
					add(false, "R07.unused", m.Label, m.Arm, fmt.Sprintf("unused bit %s is written with %s (objects with equal metric values may differ under ==)", pos, b))
				}
			}
		}
	}
	used := len(sm.Owner)
	sm.Obls = append(sm.Obls, Obligation{Rule: "R07.unused", Instance: p.Key + ".layout", Pos: p.pos(fd), OK: true, NonTrivial: true,
		Detail: fmt.Sprintf("%d of %d bits carry metric data, %d unused; unused bits written (with constant 0 only): %d", used, len(p.Fields)*8, len(p.Fields)*8-used, unusedWritten)})
}

func isNilIdent(info *types.Info, e ast.Expr) bool {
	id, ok := e.(*ast.Ident)
	if !ok {
		return false
	}
	_, isNil := info.Uses[id].(*types.Nil)
	return isNil
}

// fieldStores returns the statements/expressions under n that write a field
// of T (assignment, op-assignment, inc/dec, address-of).
func (p *Pkg) fieldStores(n ast.Node) []ast.Node {
	var out []ast.Node
	ast.Inspect(n, func(x ast.Node) bool {
		switch s := x.(type) {
		case *ast.AssignStmt:
			for _, l := range s.Lhs {
				if _, _, ok := p.fieldOf(l); ok {
					out = append(out, s)
				}
				if st, ok := l.(*ast.StarExpr); ok {
					if tv, ok := p.Info.Types[st]; ok && types.Identical(tv.Type, p.T) {
						out = append(out, s)
					}
				}
			}
		case *ast.IncDecStmt:
			if _, _, ok := p.fieldOf(s.X); ok {
				out = append(out, s)
			}
		case *ast.UnaryExpr:
			if s.Op == token.AND {
				if _, _, ok := p.fieldOf(s.X); ok {
					out = append(out, s)
				}
			}
		}
		return true
	})
	return out
}

// isErrInvalidMetricReturn checks that stmts produce &ErrInvalidMetric{Abv: abv}
// as the error result and nothing else. errResult is the named error result
// (Get of v4 assigns it instead of returning).
func (p *Pkg) isErrInvalidMetricReturn(stmts []ast.Stmt, abv types.Object, errResult types.Object) (bool, string) {
	_, ok, why := p.defaultArmError(stmts, abv, errResult)
	return ok, why
}

// defaultArmError returns (refuses, typedOK, why): refuses = the arm yields a
// provably non-nil error and nothing else; typedOK = that error is exactly
// &ErrInvalidMetric{Abv: abv}.
func (p *Pkg) defaultArmError(stmts []ast.Stmt, abv types.Object, errResult types.Object) (bool, bool, string) {
	e, why := p.defaultArmExpr(stmts, errResult)
	if e == nil {
		return false, false, why
	}
	typed, twhy := p.isTypedErrPtr(e, "ErrInvalidMetric", abv)
	if typed {
		return true, true, twhy
	}
	return p.provablyNonNilErr(e, 0), false, twhy
}

// provablyNonNilErr: &literal, a package-level sentinel, the address of a
// package-level variable, or a call to a package function all of whose returns are such.
func (p *Pkg) provablyNonNilErr(e ast.Expr, depth int) bool {
	switch x := e.(type) {
	case *ast.ParenExpr:
		return p.provablyNonNilErr(x.X, depth)
	case *ast.UnaryExpr:
		return x.Op == token.AND
	case *ast.CompositeLit:
		return true
	case *ast.Ident:
		return p.sentinel(x) != nil
	case *ast.CallExpr:
		if depth > 3 {
			return false
		}
		fn := calleeOf(p.Info, x)
		if fn == nil || fn.Pkg() != p.P.Types {
			return false
		}
		fd := p.FuncObj[fn]
		if fd == nil || fd.Body == nil {
			return false
		}
		all, n := true, 0
		ast.Inspect(fd.Body, func(nd ast.Node) bool {
			if rs, ok := nd.(*ast.ReturnStmt); ok && len(rs.Results) == 1 {
				n++
				r := rs.Results[0]
				if id, ok := r.(*ast.Ident); ok {
					// a local/package pointer variable: accept package-level pointer vars
					if v, ok := p.Info.Uses[id].(*types.Var); ok && v.Parent() == p.P.Types.Scope() {
						if _, isPtr := v.Type().(*types.Pointer); isPtr {
							return true
						}
					}
				}
				if !p.provablyNonNilErr(r, depth+1) {
					all = false
				}
			}
			return true
		})
		return all && n > 0
	}
	return false
}

func (p *Pkg) defaultArmExpr(stmts []ast.Stmt, errResult types.Object) (ast.Expr, string) {
	if len(stmts) != 1 {
		return nil, fmt.Sprintf("default arm has %d statements, expected exactly one producing the error", len(stmts))
	}
	switch s := stmts[0].(type) {
	case *ast.ReturnStmt:
		if len(s.Results) == 0 {
			return nil, "default arm returns without an error"
		}
		if len(s.Results) == 2 {
			if str, ok := constString(p.Info, s.Results[0]); !ok || str != "" {
				return nil, "default arm returns a non-empty value next to the error"
			}
		}
		return s.Results[len(s.Results)-1], ""
	case *ast.AssignStmt:
		if len(s.Lhs) != 1 || len(s.Rhs) != 1 || s.Tok != token.ASSIGN || errResult == nil || identObj(p.Info, s.Lhs[0]) != errResult {
			return nil, "default arm assigns something other than the error result"
		}
		return s.Rhs[0], ""
	}
	return nil, "default arm is neither a return nor an assignment of the error result"
}

// typedErrOf recognises &<T>{Abv: x} of a package type, directly or through a
// one-line constructor `func newT(abv string) error { return &T{Abv: abv} }`;
// it returns the type's name and the expression given for Abv at the call site.
func (p *Pkg) typedErrOf(e ast.Expr) (string, ast.Expr, bool) {
	if call, ok := e.(*ast.CallExpr); ok && len(call.Args) == 1 {
		if fn := calleeOf(p.Info, call); fn != nil && fn.Pkg() == p.P.Types {
			if fd := p.FuncObj[fn]; fd != nil && fd.Recv == nil && fd.Body != nil && len(fd.Body.List) == 1 {
				if rs, ok := fd.Body.List[0].(*ast.ReturnStmt); ok && len(rs.Results) == 1 {
					if params := paramObjs(p.Info, fd); len(params) == 1 {
						if tn, inner, ok := p.typedErrOf(rs.Results[0]); ok && inner != nil && identObj(p.Info, inner) == params[0] {
							return tn, call.Args[0], true
						}
					}
				}
			}
		}
		return "", nil, false
	}
	u, ok := e.(*ast.UnaryExpr)
	if !ok || u.Op != token.AND {
		return "", nil, false
	}
	cl, ok := u.X.(*ast.CompositeLit)
	if !ok {
		return "", nil, false
	}
	named, ok := p.Info.Types[cl].Type.(*types.Named)
	if !ok || named.Obj().Pkg() != p.P.Types {
		return "", nil, false
	}
	var abv ast.Expr
	if len(cl.Elts) == 1 {
		abv = cl.Elts[0]
		if kv, ok := abv.(*ast.KeyValueExpr); ok {
			abv = kv.Value
		}
	}
	return named.Obj().Name(), abv, true
}

// isTypedErrPtr checks e == &<TypeName>{Abv: <obj or literal>}.
func (p *Pkg) isTypedErrPtr(e ast.Expr, typeName string, abv types.Object) (bool, string) {
	// a constructor of the package: `func newErr(abv string) error { return &T{Abv: abv} }`
	if call, ok := e.(*ast.CallExpr); ok && len(call.Args) == 1 {
		if fn := calleeOf(p.Info, call); fn != nil && fn.Pkg() == p.P.Types {
			if fd := p.FuncObj[fn]; fd != nil && fd.Recv == nil && fd.Body != nil && len(fd.Body.List) == 1 {
				if rs, ok := fd.Body.List[0].(*ast.ReturnStmt); ok && len(rs.Results) == 1 {
					if params := paramObjs(p.Info, fd); len(params) == 1 {
						if abv != nil && identObj(p.Info, call.Args[0]) != abv {
							return false, typeName + " does not carry the abbreviation parameter"
						}
						ok, why := p.isTypedErrPtr(rs.Results[0], typeName, params[0])
						if ok {
							why = fn.Name() + "(" + types.ExprString(call.Args[0]) + ") = " + why
						}
						return ok, why
					}
				}
			}
		}
	}
	u, ok := e.(*ast.UnaryExpr)
	if !ok || u.Op != token.AND {
		return false, "the error is not built with & (the value type also implements error, so errors.As on the pointer type would stop matching)"
	}
	cl, ok := u.X.(*ast.CompositeLit)
	if !ok {
		return false, "error is not a composite literal"
	}
	tv, ok := p.Info.Types[cl]
	if !ok {
		return false, "untyped literal"
	}
	named, ok := tv.Type.(*types.Named)
	if !ok || named.Obj().Name() != typeName || named.Obj().Pkg() != p.P.Types {
		return false, "error literal is not the package's " + typeName
	}
	if len(cl.Elts) != 1 {
		return false, typeName + " literal does not set exactly the Abv field"
	}
	val := cl.Elts[0]
	if kv, ok := val.(*ast.KeyValueExpr); ok {
		val = kv.Value
	}
	if abv != nil && identObj(p.Info, val) != abv {
		return false, typeName + " does not carry the abbreviation parameter"
	}
	return true, "&" + typeName + "{Abv: " + types.ExprString(val) + "}"
}

// evalSetArm interprets one arm of Set with the M3 evaluator.
func (p *Pkg) evalSetArm(sm *SetModel, m *Metric, nCodes int, add func(ok bool, rule, label string, n ast.Node, detail string)) {
	info := p.Info
	env := newBvEnv(p)
	var codeObj, errObj types.Object
	validated := false
	guardBad := false
	undecidedArm := false
	nStores := 0

	isValidateDefine := func(s ast.Stmt) (*ast.AssignStmt, *ast.CallExpr) {
		as, ok := s.(*ast.AssignStmt)
		if !ok || len(as.Lhs) != 2 || len(as.Rhs) != 1 {
			return nil, nil
		}
		call, ok := as.Rhs[0].(*ast.CallExpr)
		if !ok || len(call.Args) != 2 {
			return nil, nil
		}
		if _, ok := call.Args[1].(*ast.CompositeLit); !ok {
			// a package-level table of the legal values
			if !p.isPkgLevelOrConst(call.Args[1]) {
				return nil, nil
			}
		}
		return as, call
	}
	doValidate := func(as *ast.AssignStmt, call *ast.CallExpr) {
		fn, _ := identObj(info, call.Fun).(*types.Func)
		if fn == nil || fn.Pkg() != p.P.Types {
			add(false, "R07.guard", m.Label, call, "validation call does not resolve to a package-level function: undecided")
			undecidedArm = true
			return
		}
		if sm.ValidateFn == nil {
			sm.ValidateFn = fn
		} else if sm.ValidateFn != fn {
			add(false, "R07.guard", m.Label, call, fmt.Sprintf("arm validates with %s while other arms use %s", fn.Name(), sm.ValidateFn.Name()))
		}
		if identObj(info, call.Args[0]) != sm.ValParam {
			add(false, "R07.guard", m.Label, call, "the value handed to validate is not Set's value parameter")
		}
		lv, err := newCEnv(p, nil).eval(call.Args[1])
		if err != nil || lv.K != VList {
			add(false, "R07.guard", m.Label, call.Args[1], "the list of legal values is not a constant table: undecided")
			undecidedArm = true
			return
		}
		for _, e := range lv.T {
			if e.K != VStr {
				add(false, "R07.guard", m.Label, call.Args[1], "non-string entry in the value list: undecided")
				undecidedArm = true
				return
			}
			m.List = append(m.List, e.S)
		}
		codeObj = identObj(info, as.Lhs[0])
		errObj = identObj(info, as.Lhs[1])
		if codeObj != nil {
			if nCodes > 0 && nCodes <= len(m.List) {
				env.locals[codeObj] = bvCode(nCodes)
			} else {
				env.locals[codeObj] = bvCode(len(m.List))
			}
		}
	}
	isErrCmp := func(c ast.Expr, op token.Token) bool {
		be, ok := c.(*ast.BinaryExpr)
		if !ok || be.Op != op {
			return false
		}
		return errObj != nil && identObj(info, be.X) == errObj && isNilIdent(info, be.Y)
	}
	var walk func(stmts []ast.Stmt)
	walk = func(stmts []ast.Stmt) {
		for _, s := range stmts {
			if undecidedArm {
				return
			}
			switch st := s.(type) {
			case *ast.AssignStmt:
				if as, call := isValidateDefine(st); as != nil && codeObj == nil {
					doValidate(as, call)
					continue
				}
				if len(st.Lhs) != 1 || len(st.Rhs) != 1 {
					add(false, "R07.store", m.Label, st, "multi-assignment in a Set arm: undecided")
					undecidedArm = true
					return
				}
				if idx, base, ok := p.fieldOf(st.Lhs[0]); ok {
					if !env.isObj(base) {
						add(false, "R07.store", m.Label, st, "store through an unmodelled base: undecided")
						undecidedArm = true
						return
					}
					nStores++
					if !validated {
						guardBad = true
						add(false, "R07.guard", m.Label, st, "store to the receiver is not dominated by the success of validate (a failed Set would modify the object)")
					}
					rhs := st.Rhs[0]
					var val BV
					var err error
					switch st.Tok {
					case token.ASSIGN:
						val, err = env.eval(rhs)
					case token.OR_ASSIGN, token.AND_ASSIGN, token.XOR_ASSIGN, token.AND_NOT_ASSIGN, token.SHL_ASSIGN, token.SHR_ASSIGN:
						op := map[token.Token]token.Token{token.OR_ASSIGN: token.OR, token.AND_ASSIGN: token.AND, token.XOR_ASSIGN: token.XOR,
							token.AND_NOT_ASSIGN: token.AND_NOT, token.SHL_ASSIGN: token.SHL, token.SHR_ASSIGN: token.SHR}[st.Tok]
						val, err = env.eval(&ast.BinaryExpr{X: st.Lhs[0], Op: op, Y: rhs, OpPos: st.TokPos})
					default:
						err = undecidedf(st, "assignment operator %s", st.Tok)
					}
					if err != nil {
						add(false, "R07.store", m.Label, st, "stored expression is outside the bit model: "+err.Error())
						undecidedArm = true
						return
					}
					env.state[idx] = val
					continue
				}
				// local uint8 definition
				if st.Tok == token.DEFINE {
					if o := identObj(info, st.Lhs[0]); o != nil && isUint8(o.Type()) {
						val, err := env.eval(st.Rhs[0])
						if err == nil {
							env.locals[o] = val
							continue
						}
					}
				}
				add(false, "R07.store", m.Label, st, "statement outside the Set-arm language: undecided")
				undecidedArm = true
				return
			case *ast.IfStmt:
				if st.Init != nil {
					if as, call := isValidateDefine(st.Init); as != nil && codeObj == nil {
						doValidate(as, call)
					} else {
						add(false, "R07.guard", m.Label, st, "if-initialiser outside the Set-arm language: undecided")
						undecidedArm = true
						return
					}
				}
				switch {
				case isErrCmp(st.Cond, token.NEQ):
					// failing branch: no store, returns the error unchanged
					if len(p.fieldStores(st.Body)) > 0 {
						guardBad = true
						add(false, "R07.guard", m.Label, st.Body, "the failing branch of validate stores to the receiver")
					}
					if !returnsObj(info, st.Body, errObj) {
						add(false, "R18.prop", m.Label, st.Body, "the failing branch does not return validate's error unchanged")
					} else {
						add(true, "R18.prop", m.Label, st.Body, "validate's error is returned unchanged")
					}
					if st.Else != nil {
						validated = true
						if blk, ok := st.Else.(*ast.BlockStmt); ok {
							walk(blk.List)
						}
						validated = false
						if !terminates(st.Body) {
							// falls through with a non-nil error
							continue
						}
					}
					if terminates(st.Body) {
						validated = true
					}
				case isErrCmp(st.Cond, token.EQL):
					old := validated
					validated = true
					walk(st.Body.List)
					validated = old
					if st.Else != nil {
						if len(p.fieldStores(st.Else)) > 0 {
							guardBad = true
							add(false, "R07.guard", m.Label, st.Else, "the failing branch of validate stores to the receiver")
						}
						if blk, ok := st.Else.(*ast.BlockStmt); ok && terminates(blk) {
							validated = true
						}
					}
				default:
					add(false, "R07.guard", m.Label, st, "conditional other than the validate error test in a Set arm: undecided")
					undecidedArm = true
					return
				}
			case *ast.ReturnStmt:
				return
			case *ast.EmptyStmt:
			default:
				add(false, "R07.store", m.Label, s, fmt.Sprintf("statement %T outside the Set-arm language: undecided", s))
				undecidedArm = true
				return
			}
		}
	}
	walk(m.Arm.Body)
	if undecidedArm {
		return
	}
	if codeObj == nil {
		add(false, "R07.guard", m.Label, m.Arm, "arm does not validate the value")
		return
	}
	if !guardBad {
		add(true, "R07.guard", m.Label, m.Arm, fmt.Sprintf("%d store(s), all dominated by err == nil of validate(value, %d values); failing branch store-free", nStores, len(m.List)))
	}
	m.Width = bitlen(len(m.List) - 1)
	if nCodes > 0 && nCodes <= len(m.List) {
		m.Width = bitlen(nCodes - 1)
	}
	// final state
	landed := map[int][]BitPos{}
	storeOK := true
	for f := range env.state {
		for b := 0; b < 8; b++ {
			t := env.state[f][b]
			if t.K == BIn && t.A == f && t.B == b {
				continue
			}
			pos := BitPos{f, b}
			m.W[pos] = t
			switch t.K {
			case BZero:
			case BVal:
				landed[t.A] = append(landed[t.A], pos)
			default:
				storeOK = false
				add(false, "R07.store", m.Label, m.Arm, fmt.Sprintf("after Set(%s) bit %s holds %s, neither a bit of the validated code nor 0 (stale or foreign bit survives)", m.Label, pos, t))
			}
		}
	}
	m.Enc = make([]BitPos, m.Width)
	for j := 0; j < m.Width; j++ {
		switch len(landed[j]) {
		case 1:
			m.Enc[j] = landed[j][0]
		case 0:
			storeOK = false
			add(false, "R07.store", m.Label, m.Arm, fmt.Sprintf("code bit %d of a %d-value list is lost: it is stored nowhere (list needs %d bits)", j, len(m.List), m.Width))
		default:
			storeOK = false
			add(false, "R07.store", m.Label, m.Arm, fmt.Sprintf("code bit %d lands on several bits %v", j, landed[j]))
		}
	}
	if len(m.List) == 0 {
		storeOK = false
		add(false, "R07.store", m.Label, m.Arm, "empty value list")
	}
	if len(m.List) == 1 && len(m.W) == 0 {
		// single-valued metric: nothing to store
	}
	if storeOK {
		m.encOK = true
		var enc []string
		for j, pp := range m.Enc {
			enc = append(enc, fmt.Sprintf("v%d->%s", j, pp))
		}
		add(true, "R07.store", m.Label, m.Arm, fmt.Sprintf("|L|=%d width=%d enc{%s}; every written bit is a code bit or 0", len(m.List), m.Width, strings.Join(enc, ",")))
	}
}

func terminates(b *ast.BlockStmt) bool {
	if b == nil || len(b.List) == 0 {
		return false
	}
	switch s := b.List[len(b.List)-1].(type) {
	case *ast.ReturnStmt:
		return true
	case *ast.ExprStmt:
		if c, ok := s.X.(*ast.CallExpr); ok {
			if id, ok := c.Fun.(*ast.Ident); ok && id.Name == "panic" {
				return true
			}
		}
	}
	return false
}

// returnsObj: the block is exactly `return obj` (single result) .
func returnsObj(info *types.Info, b *ast.BlockStmt, obj types.Object) bool {
	if b == nil || len(b.List) != 1 {
		return false
	}
	rs, ok := b.List[0].(*ast.ReturnStmt)
	if !ok || len(rs.Results) != 1 {
		return false
	}
	return obj != nil && identObj(info, rs.Results[0]) == obj
}

// ---------------------------------------------------------------------------
// Get

func (p *Pkg) buildGetModel() *GetModel {
	gm := &GetModel{ByLabel: map[string]*GetArm{}}
	info := p.Info
	fd := p.method("Get")
	gm.Fn = fd
	add := func(ok bool, rule, label string, n ast.Node, detail string) {
		gm.Obls = append(gm.Obls, Obligation{Rule: rule, Instance: fmt.Sprintf("%s.Get[%s]", p.Key, label), Pos: p.pos(n), OK: ok, Detail: detail, NonTrivial: true})
	}
	params := paramObjs(info, fd)
	results := resultObjs(info, fd)
	sw, abv := outerSwitch(info, fd)
	if sw == nil || len(params) != 1 || abv != params[0] {
		add(false, "R07.decode", "*", fd, "no top-level switch on the abbreviation parameter in Get: undecided")
		// another organisation (lookup tables, descriptors): Get is tabulated per
		// metric over the codes Set stores, and run on an unknown abbreviation
		wholeOK, wholeWhy := false, ""
		if fd != nil && fd.Body != nil && len(params) == 1 {
			wholeOK, wholeWhy = p.abvWhole(fd, 0, 0)
			if !wholeOK {
				add(false, "R09.labels", "whole", fd, "Get inspects parts of the abbreviation instead of comparing it as a whole string, so which strings it accepts cannot be read off a tabulation over the specification's labels: "+wholeWhy+": undecided")
			}
		}
		if fd != nil && fd.Body != nil && len(params) == 1 && wholeOK {
			gm.AbvParam = params[0]
			refuses, typed, why := p.getUnknownSemantic(fd)
			add(refuses, "R09.default", "default", fd, map[bool]string{true: "an unknown abbreviation is refused with a non-nil error", false: why}[refuses])
			add(typed, "R18.default", "default", fd, why)
			p.getSemanticFill(gm)
		}
		return gm
	}
	gm.AbvParam = abv
	if assignedIn(info, fd.Body, abv) {
		gm.Obls = append(gm.Obls, Obligation{Rule: "R01.case", Instance: p.Key + ".Get.param0", Pos: p.pos(fd), OK: false, NonTrivial: true, Detail: "abbreviation parameter is reassigned before the switch"})
	} else {
		gm.Obls = append(gm.Obls, Obligation{Rule: "R01.case", Instance: p.Key + ".Get.param0", Pos: p.pos(fd), OK: true, NonTrivial: true, Detail: "switch tag is the raw parameter"})
	}
	for _, o := range gm.Obls {
		if o.Rule == "R01.case" {
			o.Rule = "R09.case"
			gm.Obls = append(gm.Obls, o)
		}
	}
	var rObj, errObj types.Object
	if len(results) == 2 {
		rObj, errObj = results[0], results[1]
	}
	// statements outside the switch: a final return of (r, err) / naked / (r, nil)
	for _, s := range fd.Body.List {
		if s == ast.Stmt(sw) {
			continue
		}
		if rs, ok := s.(*ast.ReturnStmt); ok {
			if len(rs.Results) == 0 && rObj != nil {
				continue
			}
			if len(rs.Results) == 2 && rObj != nil && identObj(info, rs.Results[0]) == rObj &&
				(isNilIdent(info, rs.Results[1]) || identObj(info, rs.Results[1]) == errObj) {
				continue
			}
			// arms that return their value themselves, then `return "", nil` for a
			// stored code without a name (what the named result would hold)
			if len(rs.Results) == 2 && isNilIdent(info, rs.Results[1]) && (rObj == nil || !assignedIn(info, fd.Body, rObj)) {
				if c, isC := constString(info, rs.Results[0]); isC && c == "" {
					continue
				}
			}
		}
		add(false, "R07.names", "*", s, "statement outside the metric switch of Get is not the final return of the named results: undecided")
	}
	for _, cs := range sw.Body.List {
		cc := cs.(*ast.CaseClause)
		if cc.List == nil {
			gm.Default = cc
			continue
		}
		if len(cc.List) != 1 {
			add(false, "R07.decode", "?", cc, "a Get arm serving several labels is outside the model: undecided")
			continue
		}
		label, ok := constString(info, cc.List[0])
		if !ok {
			add(false, "R07.decode", "?", cc, "non-constant label: undecided")
			continue
		}
		arm := &GetArm{Label: label, Arm: cc, Table: map[int]string{}}
		if gm.ByLabel[label] != nil {
			add(false, "R07.decode", label, cc, "duplicate arm")
			continue
		}
		gm.Arms = append(gm.Arms, arm)
		gm.ByLabel[label] = arm
		env := newBvEnv(p)
		var inner *ast.SwitchStmt
		bad := false
		for _, s := range cc.Body {
			switch st := s.(type) {
			case *ast.AssignStmt:
				if st.Tok == token.DEFINE && len(st.Lhs) == 1 && len(st.Rhs) == 1 {
					if o := identObj(info, st.Lhs[0]); o != nil && isUint8(o.Type()) {
						v, err := env.eval(st.Rhs[0])
						if err != nil {
							add(false, "R07.decode", label, st, "decoded expression outside the bit model: "+err.Error())
							bad = true
							break
						}
						env.locals[o] = v
						continue
					}
				}
				add(false, "R07.decode", label, st, "statement outside the Get-arm language: undecided")
				bad = true
			case *ast.SwitchStmt:
				if inner != nil || st.Tag == nil || st.Init != nil {
					add(false, "R07.decode", label, st, "unexpected switch shape in a Get arm: undecided")
					bad = true
					break
				}
				inner = st
			default:
				add(false, "R07.decode", label, s, fmt.Sprintf("statement %T outside the Get-arm language: undecided", s))
				bad = true
			}
			if bad {
				break
			}
		}
		if bad {
			continue
		}
		if inner == nil {
			add(false, "R07.decode", label, cc, "Get arm has no value switch: undecided")
			continue
		}
		tag, err := env.eval(inner.Tag)
		if err != nil {
			add(false, "R07.decode", label, inner, "switch tag outside the bit model: "+err.Error())
			continue
		}
		arm.Tag, arm.TagOK = tag, true
		for _, ics := range inner.Body.List {
			icc := ics.(*ast.CaseClause)
			if icc.List == nil {
				// an inner default: only allowed to be empty / panic
				if len(icc.Body) != 0 {
					add(false, "R07.names", label, icc, "inner default arm with statements is outside the model: undecided")
				}
				continue
			}
			str, ok := p.getArmResult(icc.Body, rObj)
			if !ok {
				add(false, "R07.names", label, icc, "inner arm does not assign/return a constant string: undecided")
				continue
			}
			for _, ce := range icc.List {
				u, ok := constUint(info, ce)
				if !ok {
					add(false, "R07.names", label, ce, "non-constant case value: undecided")
					continue
				}
				if _, dup := arm.Table[int(u)]; dup {
					arm.Dup = true
				}
				arm.Table[int(u)] = str
			}
		}
	}
	if gm.Default == nil {
		// no default arm: what Get answers for an unknown abbreviation is read
		// off a run on a symbolic receiver (the answer may follow the switch)
		refuses, typed, why := p.getUnknownSemantic(fd)
		add(refuses, "R09.default", "default", sw, map[bool]string{true: "an unknown abbreviation is refused with a non-nil error", false: why}[refuses])
		add(typed, "R18.default", "default", sw, why)
	} else {
		refuses, typed, why := p.defaultArmError(gm.Default.Body, abv, errObj)
		add(refuses, "R09.default", "default", gm.Default, map[bool]string{true: "an unknown abbreviation is refused with a non-nil error", false: "an unknown abbreviation is not refused with a provably non-nil error: " + why}[refuses])
		add(typed, "R18.default", "default", gm.Default, why)
	}
	p.getSemanticFill(gm)
	return gm
}

// getArmResult recognises `r = "lit"` or `return "lit", nil`.
func (p *Pkg) getArmResult(body []ast.Stmt, rObj types.Object) (string, bool) {
	if len(body) != 1 {
		return "", false
	}
	switch s := body[0].(type) {
	case *ast.AssignStmt:
		if s.Tok == token.ASSIGN && len(s.Lhs) == 1 && len(s.Rhs) == 1 && rObj != nil && identObj(p.Info, s.Lhs[0]) == rObj {
			return constString(p.Info, s.Rhs[0])
		}
	case *ast.ReturnStmt:
		if len(s.Results) == 2 && isNilIdent(p.Info, s.Results[1]) {
			return constString(p.Info, s.Results[0])
		}
	}
	return "", false
}

// ---------------------------------------------------------------------------
// rule group: layout (R07.*)

func (w *World) rulesLayout(out *[]Obligation) {
	for _, k := range w.Order {
		p := w.Pkgs[k]
		sm := p.SetModel()
		gm := p.GetModel()
		*out = append(*out, sm.Obls...)
		*out = append(*out, gm.Obls...)
		add := func(ok bool, rule, inst string, n ast.Node, detail string) {
			*out = append(*out, Obligation{Rule: rule, Instance: inst, Pos: p.pos(n), OK: ok, Detail: detail, NonTrivial: true})
		}
		// label sets of Get and Set agree
		for _, m := range sm.Metrics {
			ga := gm.ByLabel[m.Label]
			if ga != nil && ga.semantic {
				continue // decided by the semantic model (obligations already in gm.Obls)
			}
			inst := fmt.Sprintf("%s.Get[%s]", p.Key, m.Label)
			if ga == nil {
				add(false, "R07.decode", inst, m.Arm, "Set knows metric "+m.Label+" but Get has no arm for it")
				continue
			}
			if !ga.TagOK || !m.encOK {
				if ga.TagOK && !m.encOK {
					add(false, "R07.decode", inst, ga.Arm, "premise R07.store failed at "+p.Key+".Set["+m.Label+"]: decode cannot be compared")
				}
				continue
			}
			// R07.decode
			okDec := true
			var why []string
			for j := 0; j < 8; j++ {
				t := ga.Tag[j]
				if j < m.Width {
					want := m.Enc[j]
					if !(t.K == BIn && t.A == want.F && t.B == want.B) {
						okDec = false
						why = append(why, fmt.Sprintf("code bit %d: Set stores it at %s, Get reads %s", j, want, t))
					}
				} else if t.K != BZero {
					okDec = false
					why = append(why, fmt.Sprintf("code bit %d should be constant 0 (list has %d values), Get reads %s", j, len(m.List), t))
				}
			}
			if okDec {
				add(true, "R07.decode", inst, ga.Arm, fmt.Sprintf("tag bits %s invert Set's encoding", ga.Tag))
			} else {
				add(false, "R07.decode", inst, ga.Arm, strings.Join(why, "; "))
			}
			// R07.names
			okN := true
			var whyN []string
			for c, s := range m.List {
				got, has := ga.Table[c]
				if !has {
					okN = false
					whyN = append(whyN, fmt.Sprintf("code %d (%q) has no case: Get returns \"\"", c, s))
				} else if got != s {
					okN = false
					whyN = append(whyN, fmt.Sprintf("code %d: Set stores it for %q, Get prints %q", c, s, got))
				}
			}
			if okN {
				add(true, "R07.names", inst, ga.Arm, fmt.Sprintf("codes 0..%d print %v", len(m.List)-1, m.List))
			} else {
				add(false, "R07.names", inst, ga.Arm, strings.Join(whyN, "; "))
			}
		}
		for _, ga := range gm.Arms {
			if sm.ByLabel[ga.Label] == nil {
				add(false, "R07.decode", fmt.Sprintf("%s.Get[%s]", p.Key, ga.Label), ga.Arm, "Get knows metric "+ga.Label+" but Set has no arm for it")
			}
		}
		// R07.writers
		w.ruleWriters(p, out)
	}
}

// ruleWriters: assignments to fields of T occur only inside Set; composite
// literals of T are all-zero; no address of a field is taken.
func (w *World) ruleWriters(p *Pkg, out *[]Obligation) {
	names := make([]string, 0, len(p.Funcs))
	for n := range p.Funcs {
		names = append(names, n)
	}
	sort.Strings(names)
	setFn := p.method("Set")
	nfuncs := 0
	bad := 0
	for _, n := range names {
		fd := p.Funcs[n]
		if fd.Body == nil {
			continue
		}
		nfuncs++
		// writers that matter: functions on a path of the documented API that
		// does not go through Set (Set's own stores, and those of the helpers only
		// Set calls, are the Set model's business; an exported mutator added next
		// to the API has its own contract)
		if fd != setFn && p.API().AroundSet[fd] {
			for _, st := range p.fieldStores(fd.Body) {
				bad++
				*out = append(*out, Obligation{Rule: "R07.writers", Instance: p.Key + "." + n, Pos: p.pos(st), OK: false, NonTrivial: true,
					Detail: "a field of " + p.TName() + " is written (or its address taken) outside Set"})
			}
		}
		// composite literals of T (and new(T), which is all-zero by construction)
		ast.Inspect(fd.Body, func(x ast.Node) bool {
			if call, ok := x.(*ast.CallExpr); ok && len(call.Args) == 1 {
				if id, ok := call.Fun.(*ast.Ident); ok && id.Name == "new" {
					if _, isB := p.Info.Uses[id].(*types.Builtin); isB {
						if tv, ok := p.Info.Types[call.Args[0]]; ok && tv.IsType() && types.Identical(tv.Type, p.T) {
							*out = append(*out, Obligation{Rule: "R06.fresh", Instance: p.Key + "." + n + ".literal", Pos: p.pos(call), OK: true, NonTrivial: true,
								Detail: "new(" + p.TName() + ") is all-zero (every metric starts at code 0)"})
						}
					}
				}
			}
			cl, ok := x.(*ast.CompositeLit)
			if !ok {
				return true
			}
			tv, ok := p.Info.Types[cl]
			if !ok || !types.Identical(tv.Type, p.T) {
				return true
			}
			allZero := true
			for _, e := range cl.Elts {
				v := e
				if kv, ok := e.(*ast.KeyValueExpr); ok {
					v = kv.Value
				}
				u, ok := constUint(p.Info, v)
				if !ok || u != 0 {
					allZero = false
				}
			}
			*out = append(*out, Obligation{Rule: "R06.fresh", Instance: p.Key + "." + n + ".literal", Pos: p.pos(cl), OK: allZero, NonTrivial: true,
				Detail: map[bool]string{true: "composite literal of " + p.TName() + " is all-zero (every metric starts at code 0)", false: "composite literal of " + p.TName() + " with a non-zero byte: object starts with metrics the vector never mentioned"}[allZero]})
			return true
		})
	}
	// package-level variables of type T / *T with initialisers would be another writer
	for _, f := range p.P.Syntax {
		for _, d := range f.Decls {
			gd, ok := d.(*ast.GenDecl)
			if !ok || gd.Tok != token.VAR {
				continue
			}
			for _, sp := range gd.Specs {
				vs := sp.(*ast.ValueSpec)
				for _, nm := range vs.Names {
					if o := p.Info.Defs[nm]; o != nil && p.isTPtrOrVal(o.Type()) {
						bad++
						*out = append(*out, Obligation{Rule: "R07.writers", Instance: p.Key + ".var." + nm.Name, Pos: p.pos(nm), OK: false, NonTrivial: true,
							Detail: "package-level variable of the vector type"})
					}
				}
			}
		}
	}
	if bad == 0 {
		*out = append(*out, Obligation{Rule: "R07.writers", Instance: p.Key + ".census", Pos: p.Key, OK: true, NonTrivial: true,
			Detail: fmt.Sprintf("%d function bodies scanned: the only field writes are the stores of Set", nfuncs)})
	}
	// unexported fields
	allUnexp := true
	for _, f := range p.Fields {
		if f.Exported() {
			allUnexp = false
		}
	}
	*out = append(*out, Obligation{Rule: "R07.writers", Instance: p.Key + ".fields", Pos: p.Key, OK: allUnexp, NonTrivial: true,
		Detail: map[bool]string{true: fmt.Sprintf("all %d byte fields are unexported", len(p.Fields)), false: "a byte field is exported: clients can write it directly"}[allUnexp]})
}

// readersTransitive: byte reads under n and in every package function reachable from it.
func (p *Pkg) readersTransitive(n ast.Node) []Reader {
	var out []Reader
	seen := map[*ast.FuncDecl]bool{}
	var visit func(n ast.Node)
	visit = func(n ast.Node) {
		out = append(out, p.readersIn(n)...)
		ast.Inspect(n, func(x ast.Node) bool {
			if c, ok := x.(*ast.CallExpr); ok {
				if fn := calleeOf(p.Info, c); fn != nil && fn.Pkg() == p.P.Types {
					if d := p.FuncObj[fn]; d != nil && d.Body != nil && !seen[d] {
						seen[d] = true
						visit(d.Body)
					}
				}
			}
			return true
		})
	}
	visit(n)
	return out
}

// getSemantic tabulates Get(label) over all codes of the metric and returns the
// receiver bits the arm (or, without a recognisable arm, the whole function) reads.
// getSemanticHybrid: Get(label) explored on a symbolic receiver (hybrid.go).
// The bits the exploration had to split on are exactly the bits the result
// depends on; the table is read off the leaves.
func (p *Pkg) getSemanticHybrid(gm *GetModel, m *Metric) (map[int]string, []BitPos, error) {
	leaves, split, err := p.explore(gm.Fn, []Val{vStr(m.Label)}, 512)
	if err != nil {
		return nil, nil, err
	}
	tbl := map[int]string{}
	for c := 0; c < 1<<uint(m.Width); c++ {
		for _, lf := range leaves {
			consistent := true
			for j, pos := range m.Enc {
				if v, ok := lf.Assume[pos]; ok && v != (c>>uint(j)&1 == 1) {
					consistent = false
				}
			}
			if !consistent {
				continue
			}
			if lf.Err != nil {
				if c < len(m.List) {
					return nil, nil, fmt.Errorf("Get(%s) on code %d: %v", m.Label, c, lf.Err)
				}
				break
			}
			v := lf.Ret
			if v.K != VTuple || len(v.T) != 2 || v.T[0].K != VStr {
				if c < len(m.List) {
					return nil, nil, fmt.Errorf("Get(%s) on code %d returned %s", m.Label, c, v)
				}
				break
			}
			if v.T[1].K != VNil && c < len(m.List) {
				return nil, nil, fmt.Errorf("Get(%s) on code %d returned the error %s", m.Label, c, v.T[1])
			}
			tbl[c] = v.T[0].S
			break
		}
	}
	return tbl, split, nil
}

func (p *Pkg) getSemantic(gm *GetModel, m *Metric) (map[int]string, []BitPos, error) {
	if tbl, deps, err := p.getSemanticHybrid(gm, m); err == nil {
		return tbl, deps, nil
	}
	tbl := map[int]string{}
	for c := range m.List {
		bytes, err := p.bytesFromCodes(map[string]int{m.Label: c})
		if err != nil {
			return nil, nil, err
		}
		v, err := newCEnv(p, bytes).callFunc(gm.Fn, []Val{vStr(m.Label)}, gm.Fn)
		if err != nil {
			return nil, nil, err
		}
		if v.K != VTuple || len(v.T) != 2 || v.T[0].K != VStr || v.T[1].K != VNil {
			return nil, nil, fmt.Errorf("Get(%s) on code %d returned %s", m.Label, c, v)
		}
		tbl[c] = v.T[0].S
	}
	var deps []BitPos
	var scope ast.Node
	if sw, _ := outerSwitch(p.Info, gm.Fn); sw != nil {
		for _, cs := range sw.Body.List {
			cc := cs.(*ast.CaseClause)
			for _, e := range cc.List {
				if s, ok := constString(p.Info, e); ok && s == m.Label {
					scope = cc
				}
			}
		}
	}
	if scope != nil {
		for _, r := range p.readersTransitive(scope) {
			deps = append(deps, r.Bits...)
		}
		return tbl, deps, nil
	}
	// no arm to attribute reads to: single-bit sensitivity over every foreign bit and code
	for f := range p.Fields {
		for b := 0; b < 8; b++ {
			pos := BitPos{f, b}
			if _, own := m.dataBits()[pos]; own {
				continue
			}
			for c := range m.List {
				bytes, _ := p.bytesFromCodes(map[string]int{m.Label: c})
				bytes[f] |= 1 << uint(b)
				v, err := newCEnv(p, bytes).callFunc(gm.Fn, []Val{vStr(m.Label)}, gm.Fn)
				if err != nil || v.K != VTuple || v.T[0].K != VStr || v.T[0].S != tbl[c] {
					deps = append(deps, pos)
					break
				}
			}
		}
	}
	return tbl, deps, nil
}

// getSemanticFill: where the structural model of a Get arm failed (another code
// shape: lookup tables, accessor helpers, ...) the arm is tabulated with the M7
// evaluator over all codes of the metric and its byte reads are collected
// through the functions it calls.
func (p *Pkg) getSemanticFill(gm *GetModel) {
	sm := p.SetModel()
	add := func(ok bool, rule, inst string, n ast.Node, detail string) {
		gm.Obls = append(gm.Obls, Obligation{Rule: rule, Instance: inst, Pos: p.pos(n), OK: ok, Detail: detail, NonTrivial: true})
	}
	for _, m := range sm.Metrics {
		ga := gm.ByLabel[m.Label]
		structuralOK := ga != nil && ga.TagOK && len(ga.Table) > 0
		inst := fmt.Sprintf("%s.Get[%s]", p.Key, m.Label)
		for _, o := range gm.Obls {
			// a part of the arm the structural model could not read (an inner
			// default with statements, ...): the arm is tabulated instead
			if o.Instance == inst && !o.OK && (o.Rule == "R07.decode" || o.Rule == "R07.names") && strings.Contains(o.Detail, "undecided") {
				structuralOK = false
			}
		}
		if structuralOK || !m.encOK {
			continue
		}
		tbl, deps, err := p.getSemantic(gm, m)
		if err != nil {
			if os.Getenv("CVSSCHECK_DEBUG") != "" {
				println("DBG getSemantic", p.Key, m.Label, err.Error())
			}
			continue // the structural obligations already explain the failure
		}
		kept := gm.Obls[:0]
		for _, o := range gm.Obls {
			if o.Instance == inst && !o.OK && (o.Rule == "R07.decode" || o.Rule == "R07.names") {
				continue
			}
			kept = append(kept, o)
		}
		gm.Obls = kept
		if ga == nil {
			ga = &GetArm{Label: m.Label, Table: map[int]string{}}
			gm.Arms = append(gm.Arms, ga)
			gm.ByLabel[m.Label] = ga
		}
		ga.Table = tbl
		ga.semantic = true
		var foreign []string
		for _, b := range deps {
			if o := sm.Owner[b]; o != nil && o != m {
				foreign = append(foreign, fmt.Sprintf("%s (field of %s)", b, o.Label))
			}
		}
		var at ast.Node = gm.Fn
		if ga.Arm != nil {
			at = ga.Arm
		}
		if len(foreign) == 0 {
			add(true, "R07.decode", inst, at, fmt.Sprintf("(semantic model) Get(%s) reads only bits of %s (%d bits read, followed through callees) and was tabulated over all %d codes", m.Label, m.Label, len(deps), len(m.List)))
		} else {
			add(false, "R07.decode", inst, at, "Get("+m.Label+") reads bits of other metrics: "+strings.Join(foreign, ", "))
		}
		okN := true
		var whyN []string
		for c, s := range m.List {
			if tbl[c] != s {
				okN = false
				whyN = append(whyN, fmt.Sprintf("code %d: Set stores it for %q, Get prints %q", c, s, tbl[c]))
			}
		}
		if okN {
			add(true, "R07.names", inst, at, fmt.Sprintf("(semantic model) codes 0..%d print %v", len(m.List)-1, m.List))
		} else {
			add(false, "R07.names", inst, at, strings.Join(whyN, "; "))
		}
	}
	// complaints about the shape of Get as a whole are moot once every metric of Set has
	// a semantic table: the tabulation ran the whole function, statements outside the switch included
	allSem := len(sm.Metrics) > 0
	anySem := false
	for _, m := range sm.Metrics {
		ga := gm.ByLabel[m.Label]
		if ga == nil || len(ga.Table) == 0 {
			allSem = false
		} else if ga.semantic {
			anySem = true
		}
	}
	if allSem && anySem {
		kept := gm.Obls[:0]
		for _, o := range gm.Obls {
			if o.Instance == fmt.Sprintf("%s.Get[*]", p.Key) && !o.OK {
				continue
			}
			kept = append(kept, o)
		}
		gm.Obls = kept
	}
}

// getUnknownSemantic: Get("<unknown>") on a symbolic receiver.
func (p *Pkg) getUnknownSemantic(fd *ast.FuncDecl) (refuses, typed bool, why string) {
	leaves, split, err := p.explore(fd, []Val{vStr("\x00zz")}, 4)
	if err != nil || len(leaves) != 1 || len(split) != 0 || leaves[0].Err != nil {
		return false, false, "Get has no default arm and its answer to an unknown abbreviation could not be evaluated: undecided"
	}
	v := leaves[0].Ret
	if v.K != VTuple || len(v.T) != 2 {
		return false, false, "Get does not return (string, error)"
	}
	e := v.T[1]
	if e.K == VNil {
		return false, false, "an unknown abbreviation yields a nil error"
	}
	refuses = true
	if e.K == VStruct && e.S == "ErrInvalidMetric" && e.I == 1 {
		if a, ok := e.F["Abv"]; ok && a.K == VStr && a.S == "\x00zz" {
			return true, true, "an unknown abbreviation is refused with &ErrInvalidMetric naming it"
		}
	}
	return true, false, "an unknown abbreviation is refused with " + e.String() + ", the documented error is &ErrInvalidMetric{Abv: abv}"
}

// abvWhole: the abbreviation parameter (#idx) of fd is only ever used as a whole
// string — as the tag of a string switch, in == / != comparisons, as a map key,
// as the needle of slices.Index / slices.Contains, inside an error literal, or
// handed on (as a whole) to package functions that do the same. Only then does
// "the labels on which the function was tabulated, plus one unknown string"
// say which abbreviations it accepts: a function that inspects the bytes or
// the length of the abbreviation (hashing, packing into an integer key) can
// accept strings no tabulation over the specification's labels would try.
func (p *Pkg) abvWhole(fd *ast.FuncDecl, idx int, depth int) (bool, string) {
	if fd == nil || fd.Body == nil {
		return false, "no body"
	}
	if depth > 4 {
		return false, "call chain too deep"
	}
	info := p.Info
	params := paramObjs(info, fd)
	if idx >= len(params) || params[idx] == nil {
		return false, "no such parameter"
	}
	tainted := map[types.Object]bool{params[idx]: true}
	why := ""
	fail := func(n ast.Node, msg string) {
		if why == "" {
			why = fmt.Sprintf("%s (%s)", msg, p.pos(n))
		}
	}
	for changed := true; changed; {
		changed = false
		ast.Inspect(fd.Body, func(n ast.Node) bool {
			if as, ok := n.(*ast.AssignStmt); ok && len(as.Lhs) == len(as.Rhs) {
				for i, r := range as.Rhs {
					if o := identObj(info, r); o != nil && tainted[o] {
						if lo := identObj(info, as.Lhs[i]); lo != nil && !tainted[lo] {
							tainted[lo] = true
							changed = true
						}
					}
				}
			}
			return true
		})
	}
	var stack []ast.Node
	ast.Inspect(fd.Body, func(n ast.Node) bool {
		if n == nil {
			stack = stack[:len(stack)-1]
			return false
		}
		stack = append(stack, n)
		id, ok := n.(*ast.Ident)
		if !ok || !tainted[info.Uses[id]] || len(stack) < 2 {
			return true
		}
		switch par := stack[len(stack)-2].(type) {
		case *ast.SwitchStmt:
			if par.Tag == ast.Expr(id) {
				return true
			}
		case *ast.BinaryExpr:
			if par.Op == token.EQL || par.Op == token.NEQ {
				return true
			}
			fail(par, "the abbreviation is combined with operator "+par.Op.String())
			return true
		case *ast.AssignStmt:
			for _, r := range par.Rhs {
				if r == ast.Expr(id) {
					return true // alias, followed above
				}
			}
			fail(par, "the abbreviation variable is reassigned")
			return true
		case *ast.KeyValueExpr, *ast.CompositeLit, *ast.ReturnStmt:
			return true
		case *ast.IndexExpr:
			if par.Index == ast.Expr(id) {
				if tv, ok := info.Types[par.X]; ok {
					if _, isMap := tv.Type.Underlying().(*types.Map); isMap {
						return true
					}
				}
			}
			fail(par, "a byte of the abbreviation is read")
			return true
		case *ast.CallExpr:
			if par.Fun == ast.Expr(id) {
				return true
			}
			fn := calleeOf(info, par)
			argIdx := -1
			for i, a := range par.Args {
				if a == ast.Expr(id) {
					argIdx = i
				}
			}
			if fn == nil || argIdx < 0 {
				fail(par, "the abbreviation is passed to "+types.ExprString(par.Fun))
				return true
			}
			if fn.Pkg() == p.P.Types {
				h := p.FuncObj[fn]
				if h == nil {
					fail(par, "the abbreviation is passed to a function without body")
					return true
				}
				if h == fd {
					return true
				}
				if ok, w2 := p.abvWhole(h, argIdx, depth+1); !ok {
					fail(par, "through "+fn.Name()+": "+w2)
				}
				return true
			}
			if fn.Pkg() != nil && fn.Pkg().Path() == "slices" && (fn.Name() == "Index" || fn.Name() == "Contains") && argIdx == 1 {
				return true
			}
			fail(par, "the abbreviation is passed to "+fn.FullName())
			return true
		case *ast.SelectorExpr:
			return true // a field or method selector named like the variable
		}
		fail(stack[len(stack)-2], fmt.Sprintf("the abbreviation is used in a %T", stack[len(stack)-2]))
		return true
	})
	return why == "", why
}
