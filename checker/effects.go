package main

// Layer M9 and rule group "effects" (C14): stores to package-level state,
// stores through *T, pool typestate, buffer ownership, concurrency census.

import (
	"fmt"
	"go/ast"
	"go/token"
	"go/types"
	"sort"
	"strings"

	"golang.org/x/tools/go/ssa"
	"golang.org/x/tools/go/ssa/ssautil"
)

type ssaWorld struct {
	prog *ssa.Program
	pkgs map[string]*ssa.Package
	fns  map[string][]*ssa.Function // per package key: all functions incl. anonymous
}

func (w *World) buildSSA() (*ssaWorld, error) {
	prog, pkgs := ssautil.Packages(w.All, ssa.InstantiateGenerics)
	sw := &ssaWorld{prog: prog, pkgs: map[string]*ssa.Package{}, fns: map[string][]*ssa.Function{}}
	for i, sp := range pkgs {
		if sp == nil {
			return nil, fmt.Errorf("no SSA package for %s", w.All[i].PkgPath)
		}
		sp.Build()
		key := w.All[i].PkgPath[strings.LastIndex(w.All[i].PkgPath, "/")+1:]
		sw.pkgs[key] = sp
	}
	for key, sp := range sw.pkgs {
		var all []*ssa.Function
		var addFn func(f *ssa.Function)
		addFn = func(f *ssa.Function) {
			if f == nil {
				return
			}
			all = append(all, f)
			for _, a := range f.AnonFuncs {
				addFn(a)
			}
		}
		for _, m := range sp.Members {
			switch x := m.(type) {
			case *ssa.Function:
				addFn(x)
			case *ssa.Type:
				for _, t := range []types.Type{x.Type(), types.NewPointer(x.Type())} {
					ms := prog.MethodSets.MethodSet(t)
					for i := 0; i < ms.Len(); i++ {
						f := prog.MethodValue(ms.At(i))
						if f != nil && f.Synthetic == "" && f.Pkg == sp {
							dup := false
							for _, g := range all {
								if g == f {
									dup = true
								}
							}
							if !dup {
								addFn(f)
							}
						}
					}
				}
			}
		}
		sort.Slice(all, func(i, j int) bool { return all[i].String() < all[j].String() })
		sw.fns[key] = all
	}
	return sw, nil
}

// rootOf follows address computations back to their root value.
func rootOf(v ssa.Value) (root ssa.Value, throughLoad bool) {
	return rootOfSeen(v, map[ssa.Value]bool{})
}

func rootOfSeen(v ssa.Value, seen map[ssa.Value]bool) (root ssa.Value, throughLoad bool) {
	for i := 0; i < 64; i++ {
		if seen[v] {
			return v, throughLoad
		}
		seen[v] = true
		switch x := v.(type) {
		case *ssa.FieldAddr:
			v = x.X
		case *ssa.IndexAddr:
			v = x.X
		case *ssa.Slice:
			v = x.X
		case *ssa.UnOp:
			if x.Op == token.MUL {
				throughLoad = true
				v = x.X
				continue
			}
			return v, throughLoad
		case *ssa.ChangeType:
			v = x.X
		case *ssa.Convert:
			v = x.X
		case *ssa.Call:
			// append(s, ...) may return s's backing array
			if b, ok := x.Call.Value.(*ssa.Builtin); ok && b.Name() == "append" && len(x.Call.Args) > 0 {
				v = x.Call.Args[0]
				continue
			}
			return v, throughLoad
		case *ssa.Alloc:
			// a local whose address is taken: follow the values stored into it
			if !throughLoad || i > 40 {
				return v, throughLoad // a store INTO the local itself is not a store to what it points to
			}
			var stored []ssa.Value
			for _, r := range *x.Referrers() {
				if st, ok := r.(*ssa.Store); ok && st.Addr == ssa.Value(x) {
					stored = append(stored, st.Val)
				}
			}
			for _, sv := range stored {
				r, tl := rootOfSeen(sv, seen)
				if _, isG := r.(*ssa.Global); isG {
					return r, throughLoad || tl
				}
			}
			return v, throughLoad
		case *ssa.Phi:
			for _, e := range x.Edges {
				if e == ssa.Value(x) {
					continue
				}
				r, tl := rootOfSeen(e, seen)
				if _, isG := r.(*ssa.Global); isG {
					return r, throughLoad || tl
				}
			}
			return v, throughLoad
		default:
			return v, throughLoad
		}
	}
	return v, throughLoad
}

func isPoolMethod(c *ssa.CallCommon, names ...string) bool {
	f := c.StaticCallee()
	if f == nil || f.Pkg == nil || f.Pkg.Pkg.Path() != "sync" {
		return false
	}
	recv := f.Signature.Recv()
	if recv == nil || !strings.HasSuffix(recv.Type().String(), "sync.Pool") {
		return false
	}
	for _, n := range names {
		if f.Name() == n {
			return true
		}
	}
	return false
}

func (w *World) rulesEffects(out *[]Obligation) {
	sw, err := w.buildSSA()
	if err != nil {
		*out = append(*out, Obligation{Rule: "R14.globals", Instance: "ssa", OK: false, Detail: "cannot build SSA: " + err.Error(), NonTrivial: true})
		return
	}
	for _, k := range w.Order {
		p := w.Pkgs[k]
		add := func(ok bool, rule, inst string, pos token.Pos, detail string) {
			*out = append(*out, Obligation{Rule: rule, Instance: k + "." + inst, Pos: p.posAt(pos), OK: ok, Detail: detail, NonTrivial: true})
		}
		fns := sw.fns[k]
		nInstr := 0
		globalStores, recvStores := 0, 0
		census := map[string]int{}
		setFn := p.method("Set")
		for _, f := range fns {
			isInit := f.Name() == "init" && f.Synthetic != ""
			fname := f.RelString(f.Pkg.Pkg)
			isSet := f.Syntax() != nil && setFn != nil && f.Syntax() == ast.Node(setFn)
			for _, b := range f.Blocks {
				for _, ins := range b.Instrs {
					nInstr++
					switch x := ins.(type) {
					case *ssa.Store:
						root, _ := rootOf(x.Addr)
						if g, ok := root.(*ssa.Global); ok && !isInit {
							globalStores++
							add(false, "R14.globals", fname+".store["+g.Name()+"]", x.Pos(), "writes package-level state "+g.Name()+": results depend on call history and concurrent calls race")
						}
						if prm, ok := root.(*ssa.Parameter); ok {
							onReadPath := false
							if fdS, ok := f.Syntax().(*ast.FuncDecl); ok {
								onReadPath = p.API().ReadOnly[fdS]
							}
							if pt, ok := prm.Type().(*types.Pointer); ok && types.Identical(pt.Elem(), p.T) && !isSet && onReadPath {
								recvStores++
								add(false, "R14.recv", fname+".store", x.Pos(), "stores through a *"+p.TName()+" outside Set: a scoring/reading method mutates the object (shared read-only use races)")
							}
						}
					case *ssa.MapUpdate:
						if root, _ := rootOf(x.Map); root != nil {
							if g, ok := root.(*ssa.Global); ok && !isInit {
								globalStores++
								add(false, "R14.globals", fname+".mapupdate["+g.Name()+"]", x.Pos(), "updates the package-level map "+g.Name())
							}
						}
					case *ssa.Go:
						census["go"]++
						add(false, "R14.census", fname+".go", x.Pos(), "starts a goroutine")
					case *ssa.Send, *ssa.Select:
						census["chan"]++
						add(false, "R14.census", fname+".chan", ins.Pos(), "channel operation")
					case *ssa.MakeChan:
						census["chan"]++
						add(false, "R14.census", fname+".chan", x.Pos(), "creates a channel")
					case *ssa.Convert:
						if isUnsafePtr(x.Type()) || isUnsafePtr(x.X.Type()) {
							census["unsafe"]++
							inVector := f.Name() == "Vector"
							if fdS, ok := f.Syntax().(*ast.FuncDecl); ok {
								api := p.API()
								// helpers of Vector, and exported additions outside the documented API
								inVector = inVector || api.Reach["Vector"][fdS] || !api.All[fdS]
							}
							if !inVector {
								add(false, "R14.census", fname+".unsafe", x.Pos(), "unsafe.Pointer conversion outside Vector")
							}
						}
					}
					if cc, ok := ins.(ssa.CallInstruction); ok {
						c := cc.Common()
						if callee := c.StaticCallee(); callee != nil && callee.Pkg != nil {
							path := callee.Pkg.Pkg.Path()
							if (path == "sync" || path == "sync/atomic") && !isPoolMethod(c, "Get", "Put") && !isInit {
								census["sync"]++
								add(false, "R14.census", fname+".sync["+callee.Name()+"]", ins.Pos(), "uses "+path+"."+callee.Name()+": shared mutable state other than the split pool")
							}
						}
						// address of package-level state handed to a callee
						for ai, a := range c.Args {
							root, _ := rootOf(a)
							if g, ok := root.(*ssa.Global); ok && !isInit {
								if _, isPtrLike := a.Type().Underlying().(*types.Pointer); isPtrLike {
									if isPoolMethod(c, "Get", "Put") && ai == 0 {
										continue
									}
									globalStores++
									add(false, "R14.globals", fname+".escape["+g.Name()+"]", ins.Pos(), "passes the address of package-level "+g.Name()+" to a callee that may write it")
								}
							}
						}
					}
				}
			}
		}
		// writes through aliases of package-level tables (aliasw.go): a local bound to
		// the table, a reslice handed to append, copy, a callee that stores through
		// its parameter
		{
			sc := p.P.Types.Scope()
			for _, name := range sc.Names() {
				gv, ok := sc.Lookup(name).(*types.Var)
				if !ok {
					continue
				}
				_, isArr := gv.Type().Underlying().(*types.Array)
				if !isRefLike(gv.Type()) && !isArr {
					continue
				}
				if w, why := p.refMayBeWritten(gv); w {
					globalStores++
					add(false, "R14.globals", "alias["+name+"]", gv.Pos(), "package-level "+name+" may be written through an alias: "+why+" — results depend on call history and concurrent calls race")
				}
			}
		}
		if globalStores == 0 {
			add(true, "R14.globals", "census", token.NoPos, fmt.Sprintf("%d functions, %d SSA instructions: no store to, map update of, or escaping address of a package-level variable outside the initialisers", len(fns), nInstr))
		}
		if recvStores == 0 {
			add(true, "R14.recv", "census", token.NoPos, "the only function storing through a *"+p.TName()+" parameter is Set")
		}
		if census["go"]+census["chan"]+census["sync"] == 0 {
			add(true, "R14.census", "concurrency", token.NoPos, fmt.Sprintf("no goroutine, channel, or sync/atomic use other than the pool; %d unsafe.Pointer conversions, all in Vector", census["unsafe"]))
		}
		// the pool typestate is followed within one function: when it fails on the
		// program as written, it is decided on the program with the thin wrappers
		// around the pool (getParts / putParts) put back into the parser — the same
		// program, by construction of the inlining passes (normalize2.go)
		var poolObls []Obligation
		addPool := func(ok bool, rule, inst string, pos token.Pos, detail string) {
			poolObls = append(poolObls, Obligation{Rule: rule, Instance: k + "." + inst, Pos: p.posAt(pos), OK: ok, Detail: detail, NonTrivial: true})
		}
		p.resliceDeltas = nil
		w.rulesPool(p, sw, fns, addPool)
		nFail := 0
		for _, o := range poolObls {
			if !o.OK {
				nFail++
			}
		}
		if nFail > 0 && !w.normalized && p.usesSyncPool() {
			if w2, notes, err := w.inlinedParserWorld(k); err == nil && w2 != nil {
				if sw2, err := w2.buildSSA(); err == nil {
					p2 := w2.Pkgs[k]
					var obls2 []Obligation
					add2 := func(ok bool, rule, inst string, pos token.Pos, detail string) {
						if ok {
							detail += " (decided on the program with its pool wrappers inlined: " + strings.Join(notes, "; ") + ")"
						} else {
							detail += " (on the program with its pool wrappers inlined)"
						}
						obls2 = append(obls2, Obligation{Rule: rule, Instance: k + "." + inst, Pos: p2.posAt(pos), OK: ok, Detail: detail, NonTrivial: true})
					}
					p2.resliceDeltas = nil
					w2.rulesPool(p2, sw2, sw2.fns[k], add2)
					nFail2 := 0
					for _, o := range obls2 {
						if !o.OK {
							nFail2++
						}
					}
					if nFail2 < nFail {
						poolObls = obls2
					}
				}
			}
		}
		*out = append(*out, poolObls...)
		w.rulesBuf(p, add)
	}
}

func isUnsafePtr(t types.Type) bool {
	b, ok := t.Underlying().(*types.Basic)
	return ok && b.Kind() == types.UnsafePointer
}

// rulesPool: typestate of the pooled slice.
func (w *World) rulesPool(p *Pkg, sw *ssaWorld, fns []*ssa.Function, add func(ok bool, rule, inst string, pos token.Pos, detail string)) {
	nGet := 0
	for _, f := range fns {
		fname := f.RelString(f.Pkg.Pkg)
		var gets []*ssa.Call
		var puts []ssa.CallInstruction
		for _, b := range f.Blocks {
			for _, ins := range b.Instrs {
				if c, ok := ins.(*ssa.Call); ok && isPoolMethod(c.Common(), "Get") {
					gets = append(gets, c)
				}
				if cc, ok := ins.(ssa.CallInstruction); ok && isPoolMethod(cc.Common(), "Put") {
					puts = append(puts, cc)
				}
			}
		}
		// an unexported function nothing in the package refers to cannot run
		if fdS, ok := f.Syntax().(*ast.FuncDecl); ok && (len(gets) > 0 || len(puts) > 0) && !ast.IsExported(fdS.Name.Name) {
			if obj := p.Info.Defs[fdS.Name]; obj != nil {
				used := false
				for _, u := range p.Info.Uses {
					if u == obj {
						used = true
						break
					}
				}
				if !used {
					continue
				}
			}
		}
		if len(gets) == 0 {
			for _, pc := range puts {
				add(false, "R14.pool", fname+".put", pc.Pos(), "Put without a Get in the same function")
			}
			continue
		}
		for _, g := range gets {
			nGet++
			// taint
			tainted := map[ssa.Value]string{g: "iface"}
			var splitRes ssa.Value
			resliceDelta := -1
			bad := []string{}
			work := []ssa.Value{g}
			note := func(pos token.Pos, s string) { bad = append(bad, p.posAt(pos)+": "+s) }
			var uses []ssa.Instruction
			for len(work) > 0 {
				v := work[len(work)-1]
				work = work[:len(work)-1]
				kind := tainted[v]
				for _, r := range *v.Referrers() {
					if cc, ok := r.(ssa.CallInstruction); !ok || !isPoolMethod(cc.Common(), "Put") {
						uses = append(uses, r)
					}
					switch x := r.(type) {
					case *ssa.DebugRef:
					case *ssa.TypeAssert:
						if _, ok := tainted[x]; !ok {
							tainted[x] = "full"
							if x.CommaOk {
								tainted[x] = "tuple" // (slice, ok)
							}
							work = append(work, x)
						}
					case *ssa.Extract:
						if kind == "tuple" && x.Index == 0 {
							if _, ok := tainted[x]; !ok {
								tainted[x] = "full"
								work = append(work, x)
							}
						} else if kind != "tuple" {
							note(x.Pos(), "unexpected use of the pooled slice (*ssa.Extract)")
						}
					case *ssa.Slice:
						// [: split+1]
						okS := x.Low == nil && x.Max == nil
						if okS {
							isSplitOf := func(val ssa.Value) *ssa.Call {
								c, ok := val.(*ssa.Call)
								if !ok || c.Common().StaticCallee() == nil {
									return nil
								}
								for _, a := range c.Common().Args {
									if a == v {
										return c
									}
								}
								return nil
							}
							if bin, ok := x.High.(*ssa.BinOp); ok && bin.Op == token.ADD {
								one, isOne := bin.Y.(*ssa.Const)
								if c := isSplitOf(bin.X); c != nil && isOne && one.Value != nil && one.Int64() == 1 {
									splitRes = c
									resliceDelta = 1
								} else {
									okS = false
								}
							} else if c := isSplitOf(x.High); c != nil {
								// [:n] with n what split returns: right when split returns a count
								splitRes = c
								resliceDelta = 0
							} else {
								okS = false
							}
						}
						if !okS {
							note(x.Pos(), "the pooled slice is resliced with a bound that is not `parts written by split + 1`")
						}
						if _, ok := tainted[x]; !ok {
							tainted[x] = "live"
							work = append(work, x)
						}
					case *ssa.IndexAddr:
						if kind != "live" {
							// the other accepted idiom: no reslice, the index is bounded by what split
							// wrote — the access is dominated by the true branch of `index <= split(slice, …)`
							if c := boundedBySplit(x, v, f); c != nil {
								splitRes = c
								kind = "live"
							}
						}
						if kind != "live" {
							note(x.Pos(), "an element of the un-resliced pooled slice is read: entries beyond what this call wrote are left over from earlier calls")
						}
						// element pointer: only loads
						for _, rr := range *x.Referrers() {
							switch y := rr.(type) {
							case *ssa.UnOp, *ssa.DebugRef:
							case *ssa.Store:
								if y.Addr == ssa.Value(x) {
									note(y.Pos(), "the pooled slice is written outside split")
								}
							default:
								note(rr.Pos(), "an element address of the pooled slice escapes")
							}
						}
					case *ssa.Call:
						c := x.Common()
						if isPoolMethod(c, "Put") && kind == "iface" {
							continue
						}
						if callee := c.StaticCallee(); callee != nil && callee.Pkg == f.Pkg {
							// package-local callee receiving the slice: split
							continue
						}
						if b, ok := c.Value.(*ssa.Builtin); ok && (b.Name() == "len" || b.Name() == "cap") {
							continue
						}
						note(x.Pos(), "the pooled slice is passed to "+c.Value.Name())
					case *ssa.Defer:
						if !isPoolMethod(x.Common(), "Put") {
							note(x.Pos(), "the pooled slice is captured by a deferred call")
						}
					case *ssa.Phi:
						if _, ok := tainted[x]; !ok {
							tainted[x] = kind
							work = append(work, x)
						}
					case *ssa.Range, *ssa.Next:
					case *ssa.Store:
						if x.Val == v {
							note(x.Pos(), "the pooled slice is stored in memory that outlives the call")
						}
					case *ssa.Return:
						note(x.Pos(), "the pooled slice is returned")
					case *ssa.MakeInterface:
						if _, isPtr := x.X.Type().Underlying().(*types.Pointer); isPtr && kind == "full" {
							// a pointer goes into an interface without allocating; the box may
							// only be handed to Put
							if _, ok := tainted[x]; !ok {
								tainted[x] = "iface"
								work = append(work, x)
							}
							continue
						}
						note(x.Pos(), "the pooled slice is re-boxed into an interface (allocates, and may be put back twice)")
					case *ssa.MakeClosure, *ssa.Go, *ssa.Send, *ssa.MapUpdate:
						note(r.Pos(), "the pooled slice escapes")
					case *ssa.BinOp, *ssa.If:
					default:
						note(r.Pos(), fmt.Sprintf("unexpected use of the pooled slice (%T)", r))
					}
				}
			}
			// ---- Put discipline
			var deferred, direct []ssa.CallInstruction
			sameVal := len(puts) > 0
			for _, pc := range puts {
				args := pc.Common().Args
				if len(args) != 2 || (args[1] != ssa.Value(g) && tainted[args[1]] != "iface") {
					sameVal = false
				}
				if _, ok := pc.(*ssa.Defer); ok {
					deferred = append(deferred, pc)
				} else {
					direct = append(direct, pc)
				}
			}
			idxIn := func(ins ssa.Instruction) int {
				for i, x := range ins.Block().Instrs {
					if x == ins {
						return i
					}
				}
				return -1
			}
			reach := func(from *ssa.BasicBlock) map[*ssa.BasicBlock]bool {
				seen := map[*ssa.BasicBlock]bool{}
				var dfs func(b *ssa.BasicBlock)
				dfs = func(b *ssa.BasicBlock) {
					for _, s := range b.Succs {
						if !seen[s] {
							seen[s] = true
							dfs(s)
						}
					}
				}
				dfs(from)
				return seen
			}
			// safety (C14): nothing uses the pooled value after it was put back; no double Put
			var unsafePut []string
			if len(deferred) > 1 || (len(deferred) == 1 && len(direct) > 0) {
				unsafePut = append(unsafePut, "the value can be put back twice (two later Gets would share one slice)")
			}
			for _, pc := range direct {
				after := reach(pc.Block())
				for _, u := range uses {
					if (u.Block() == pc.Block() && idxIn(u) > idxIn(pc)) || after[u.Block()] {
						unsafePut = append(unsafePut, p.posAt(u.Pos())+": the pooled slice is still used after Put at "+p.posAt(pc.Pos())+" (another call may already own it)")
						break
					}
				}
				for _, q := range direct {
					if q != pc && ((q.Block() == pc.Block() && idxIn(q) > idxIn(pc)) || after[q.Block()]) {
						unsafePut = append(unsafePut, "two Puts can execute on one path")
					}
				}
			}
			if len(puts) == 0 {
				// never returned: no sharing, only garbage (C17's concern)
			}
			add(len(unsafePut) == 0, "R14.pool", fname+".put", g.Pos(), map[bool]string{true: fmt.Sprintf("%d Put site(s): the pooled value is not used after being put back and is put back at most once per path", len(puts)), false: "pool typestate violated: " + strings.Join(unsafePut, "; ")}[len(unsafePut) == 0])
			// budget (C17): every exit passes a Put of the very interface value obtained from Get
			leak := ""
			if !sameVal {
				leak = "Put does not receive the interface value obtained from Get (re-boxing the slice allocates on every call)"
			} else if len(deferred) == 1 && deferred[0].Block() == g.Block() {
				// runs on every exit
			} else {
				putBlocks := map[*ssa.BasicBlock]bool{}
				for _, pc := range direct {
					putBlocks[pc.Block()] = true
				}
				for _, pc := range deferred {
					putBlocks[pc.Block()] = true
				}
				if !putBlocks[g.Block()] {
					seen := map[*ssa.BasicBlock]bool{g.Block(): true}
					var dfs func(b *ssa.BasicBlock) bool
					dfs = func(b *ssa.BasicBlock) bool {
						if len(b.Succs) == 0 {
							return true // exit reached without a Put
						}
						for _, s := range b.Succs {
							if putBlocks[s] || seen[s] {
								continue
							}
							seen[s] = true
							if dfs(s) {
								return true
							}
						}
						return false
					}
					if dfs(g.Block()) {
						leak = "an exit path of " + fname + " does not put the slice back: the next call finds the pool empty and allocates a new slice (and its interface box)"
					}
				}
			}
			add(leak == "", "R17.put", fname+".put", g.Pos(), map[bool]string{true: "every exit hands the very interface value obtained from Get back to the pool (no re-boxing, no leak)", false: leak}[leak == ""])
			if resliceDelta >= 0 && p.Key == "20" {
				p.resliceDeltas = append(p.resliceDeltas, resliceDelta)
			}
			add(len(bad) == 0 && splitRes != nil, "R14.pool", fname+".use", g.Pos(), map[bool]string{true: "the pooled slice is only resliced to the live prefix [:split+1], indexed for reading, and passed to split; it does not escape", false: "pool typestate violated: " + strings.Join(bad, "; ") + map[bool]string{true: "", false: " (no reslice to the prefix written by split)"}[splitRes != nil]}[len(bad) == 0 && splitRes != nil])
		}
	}
	if p.Key == "20" {
		if nGet == 0 && !p.usesSyncPool() {
			// no pool at all: nothing is shared between calls (what the parser allocates
			// instead is C17's census of heap sites)
			why := "the v2.0 package does not use sync.Pool: no scratch storage is shared between calls"
			add(true, "R14.pool", "census", token.NoPos, why)
			add(true, "R14.pool", "ParseVector.use", token.NoPos, why)
			add(true, "R14.pool", "ParseVector.put", token.NoPos, why)
			add(true, "R17.put", "ParseVector.put", token.NoPos, why)
			return
		}
		if nGet == 0 {
			add(false, "R14.pool", "census", token.NoPos, "no pool Get found in the v2 package: undecided")
		}
		// split writes every index it reports, and the caller reslices to what it reports
		ok, why := p.checkSplitWrites()
		delta := 1 // the recognised shape returns the last index
		if !ok {
			if ss := p.splitSemantics(p.parseModelOf()); ss.decided {
				ok, why, delta = ss.ok, ss.why, ss.delta
			}
		}
		add(ok, "R14.pool", "split.writes", token.NoPos, why)
		for _, d := range p.resliceDeltas {
			if ok && d != delta {
				add(false, "R14.pool", "split.reslice", token.NoPos, fmt.Sprintf("the pooled storage is resliced to [:r+%d] where r is what split returns, but split returns %s: the parser reads one entry too many (left by an earlier call) or drops the last part", d, map[int]string{0: "the number of parts", 1: "the index of the last part"}[delta]))
			}
		}
	}
}

// usesSyncPool: some expression of the package has a type from package sync
// named Pool.
func (p *Pkg) usesSyncPool() bool {
	for _, o := range p.Info.Uses {
		if o == nil || o.Type() == nil {
			continue
		}
		t := o.Type()
		if pt, ok := t.(*types.Pointer); ok {
			t = pt.Elem()
		}
		if nt, ok := t.(*types.Named); ok && nt.Obj().Pkg() != nil && nt.Obj().Pkg().Path() == "sync" && nt.Obj().Name() == "Pool" {
			return true
		}
	}
	return false
}

// checkSplitWrites (AST): in split(dst, s) every `curr++` and the final
// `return curr` are preceded, in the same statement list and without an
// intervening assignment of curr, by a store to dst[curr].
func (p *Pkg) checkSplitWrites() (bool, string) {
	info := p.Info
	pf := p.Funcs["ParseVector"]
	var sfd *ast.FuncDecl
	if pf != nil {
		prm := paramObjs(info, pf)
		ast.Inspect(pf.Body, func(n ast.Node) bool {
			if c, ok := n.(*ast.CallExpr); ok && len(c.Args) == 2 && len(prm) == 1 && identObj(info, c.Args[1]) == prm[0] {
				if fn := calleeOf(info, c); fn != nil && fn.Pkg() == p.P.Types {
					sfd = p.FuncObj[fn]
				}
			}
			return true
		})
	}
	if sfd == nil {
		return false, "split function not found: undecided"
	}
	sp := paramObjs(info, sfd)
	// curr: the index variable of the stores into the destination slice
	var curr types.Object
	consistent := true
	ast.Inspect(sfd.Body, func(n ast.Node) bool {
		if as, ok := n.(*ast.AssignStmt); ok && len(as.Lhs) == 1 {
			if ix, ok := as.Lhs[0].(*ast.IndexExpr); ok && identObj(info, ix.X) == sp[0] {
				o := identObj(info, ix.Index)
				if o == nil || (curr != nil && curr != o) {
					consistent = false
				}
				curr = o
			}
		}
		return true
	})
	if curr == nil || !consistent {
		return false, "split does not store through a single index variable: undecided"
	}
	isStore := func(s ast.Stmt) bool {
		as, ok := s.(*ast.AssignStmt)
		if !ok {
			return false
		}
		// dst[curr] = … (possibly one side of `dst[curr], rest = a, b`)
		for _, l := range as.Lhs {
			if ix, ok := l.(*ast.IndexExpr); ok && identObj(info, ix.X) == sp[0] && identObj(info, ix.Index) == curr {
				return true
			}
		}
		return false
	}
	// invariant: every index < curr was written in this call. It holds when curr
	// starts at 0 and every increment of curr is preceded (same statement list,
	// no intervening change of curr) by a store to dst[curr]. `return curr`
	// needs one more store before it; `return curr - k` (k >= 1) needs nothing.
	okAll := true
	n := 0
	var visit func(list []ast.Stmt)
	visit = func(list []ast.Stmt) {
		stored := false
		for _, s := range list {
			switch st := s.(type) {
			case *ast.IncDecStmt:
				if identObj(info, st.X) == curr {
					n++
					if !stored || st.Tok != token.INC {
						okAll = false
					}
					stored = false
				}
			case *ast.ReturnStmt:
				if len(st.Results) != 1 {
					okAll = false
					continue
				}
				n++
				r := st.Results[0]
				if identObj(info, r) == curr {
					if !stored {
						okAll = false
					}
				} else if be, ok := r.(*ast.BinaryExpr); ok && be.Op == token.SUB && identObj(info, be.X) == curr {
					if u, ok := constUint(info, be.Y); !ok || u < 1 {
						okAll = false
					}
				} else {
					okAll = false
				}
			case *ast.AssignStmt:
				if isStore(s) {
					stored = true
				} else {
					for i, l := range st.Lhs {
						if identObj(info, l) == curr {
							if st.Tok == token.DEFINE && i < len(st.Rhs) {
								if u, ok := constUint(info, st.Rhs[i]); ok && u == 0 {
									continue
								}
							}
							if st.Tok == token.ADD_ASSIGN && len(st.Rhs) == 1 {
								if u, ok := constUint(info, st.Rhs[0]); ok && u == 1 {
									n++
									if !stored {
										okAll = false
									}
									stored = false
									continue
								}
							}
							okAll = false
						}
					}
				}
			case *ast.ForStmt:
				visit(st.Body.List)
			case *ast.RangeStmt:
				visit(st.Body.List)
			case *ast.IfStmt:
				visit(st.Body.List)
				if blk, ok := st.Else.(*ast.BlockStmt); ok {
					visit(blk.List)
				}
			case *ast.BlockStmt:
				visit(st.List)
			}
		}
	}
	visit(sfd.Body.List)
	if okAll && n >= 2 {
		return true, fmt.Sprintf("every index up to the returned one is written in this call (%d advance/return points, each preceded by dst[curr] = …): no entry of an earlier call is visible", n)
	}
	return false, "split can report an index it did not write in this call: the parser would read an entry left by an earlier call"
}

// rulesBuf: Vector's buffer is fresh, only appended to through the emit
// helpers, and converted to a string in the return statement.
func (w *World) rulesBuf(p *Pkg, add func(ok bool, rule, inst string, pos token.Pos, detail string)) {
	info := p.Info
	em := p.EmitModel()
	if em.Semantic && em.MakeCall != nil && em.Fn != nil {
		// The symbolic interpretation of Vector (semit.go) followed the bytes it
		// returns back to a make([]byte, …) evaluated in this call, through every
		// helper (by value, by pointer, returned slices). It succeeds only when
		// no statement on the way stores to package-level state, defers a call,
		// or hands a symbolic value to a function outside the package.
		add(true, "R14.buf", "Vector.buffer", em.Fn.Pos(), "the bytes Vector returns are those of a buffer made by make in the same call (provenance followed through all helpers by the symbolic interpreter); the interpreted statements neither store it in package-level state nor pass it outside the package")
		return
	}
	if em.Fn != nil && em.BufObj != nil && em.MakeCall == nil {
		add(false, "R14.buf", "Vector.buffer", em.Fn.Pos(), "Vector's buffer is not made in the call (shared scratch space: a returned string changes when Vector is called again, concurrent calls race)")
		return
	}
	if em.Fn == nil || em.BufObj == nil {
		add(false, "R14.buf", "Vector", token.NoPos, "Vector has no local buffer made in the call: undecided")
		return
	}
	last := em.Fn.Body.List[len(em.Fn.Body.List)-1]
	rs, ok := last.(*ast.ReturnStmt)
	okRet := ok && len(rs.Results) == 1
	how := ""
	if okRet {
		e := rs.Results[0]
		switch x := e.(type) {
		case *ast.StarExpr:
			// *(*string)(unsafe.Pointer(&b))
			okRet = false
			if pe, ok := x.X.(*ast.CallExpr); ok && len(pe.Args) == 1 {
				if inner, ok := pe.Args[0].(*ast.CallExpr); ok && len(inner.Args) == 1 {
					if u, ok := inner.Args[0].(*ast.UnaryExpr); ok && u.Op == token.AND && identObj(info, u.X) == em.BufObj {
						if tv, ok := info.Types[inner.Fun]; ok && tv.IsType() && isUnsafePtr(tv.Type) {
							okRet = true
							how = "reinterpreted as a string in the return statement: no write can follow"
						}
					}
				}
			}
		case *ast.CallExpr:
			okRet = false
			if tv, ok := info.Types[x.Fun]; ok && tv.IsType() && len(x.Args) == 1 && identObj(info, x.Args[0]) == em.BufObj {
				okRet = true
				how = "copied into a string by conversion"
			}
			if fn := calleeOf(info, x); fn != nil && fn.Pkg() != nil && fn.Pkg().Path() == "unsafe" && fn.Name() == "String" {
				okRet = true
				how = "unsafe.String in the return statement"
			}
		default:
			okRet = false
		}
	}
	// every use of the buffer identifier
	uses := 0
	badUse := ""
	var stack []ast.Node
	ast.Inspect(em.Fn.Body, func(n ast.Node) bool {
		if n == nil {
			stack = stack[:len(stack)-1]
			return false
		}
		stack = append(stack, n)
		id, ok := n.(*ast.Ident)
		if !ok || identObj(info, id) != em.BufObj {
			return true
		}
		uses++
		par := stack[len(stack)-2]
		switch x := par.(type) {
		case *ast.AssignStmt:
			// b := make / b = append(b, …)
		case *ast.CallExpr:
			if fid, ok := x.Fun.(*ast.Ident); ok {
				if _, isB := info.Uses[fid].(*types.Builtin); isB && (fid.Name == "append" || fid.Name == "len" || fid.Name == "cap") {
					break
				}
			}
			if withinNode(rs, id) {
				break
			}
			// handed to a package function that only appends to it
			argIdx := -1
			for i, a := range x.Args {
				if a == ast.Expr(id) {
					argIdx = i
				}
			}
			if callee := calleeOf(info, x); callee != nil && argIdx >= 0 && p.bufferClean(callee, argIdx, map[*types.Func]bool{}) {
				break
			}
			badUse = "the buffer is passed by value to " + types.ExprString(x.Fun) + ", which does more with it than append to it and return it"
		case *ast.UnaryExpr:
			// &b: argument 0 of an emit helper, or inside the return
			if withinNode(rs, id) {
				break
			}
			gp, ok := stack[len(stack)-3].(*ast.CallExpr)
			if !ok || len(gp.Args) == 0 || gp.Args[0] != ast.Expr(x) {
				badUse = "the address of the buffer is taken outside an emit helper call"
			} else if callee := calleeOf(info, gp); callee == nil || !(p.summariseEmitHelper(callee, 0).ok || p.bufferClean(callee, 0, map[*types.Func]bool{})) {
				badUse = "the address of the buffer is handed to " + types.ExprString(gp.Fun) + ", which is not a verified append-only emit helper"
			}
		default:
			if !withinNode(rs, id) {
				badUse = fmt.Sprintf("unexpected use of the buffer (%T)", par)
			}
		}
		return true
	})
	fresh := em.MakeCall != nil
	// every other return of Vector must also hand out a buffer made in this call
	otherRet := ""
	ast.Inspect(em.Fn.Body, func(n ast.Node) bool {
		r, isRet := n.(*ast.ReturnStmt)
		if !isRet || r == rs {
			return true
		}
		bad := "an additional return path of Vector does not convert a buffer made in the call"
		// string(buf) of the buffer made in the call: a fresh copy, private by construction
		if len(r.Results) == 1 {
			if c, ok := r.Results[0].(*ast.CallExpr); ok && len(c.Args) == 1 {
				if tv, ok := info.Types[c.Fun]; ok && tv.IsType() && isStringT(tv.Type) && em.BufObj != nil && identObj(info, c.Args[0]) == em.BufObj && fresh {
					return true
				}
			}
		}
		ast.Inspect(r, func(x ast.Node) bool {
			u, ok := x.(*ast.UnaryExpr)
			if !ok || u.Op != token.AND {
				return true
			}
			o := identObj(info, u.X)
			ast.Inspect(em.Fn.Body, func(y ast.Node) bool {
				as, ok := y.(*ast.AssignStmt)
				if !ok || as.Tok != token.DEFINE || len(as.Lhs) != 1 || info.Defs[as.Lhs[0].(*ast.Ident)] != o {
					return true
				}
				if c, ok := as.Rhs[0].(*ast.CallExpr); ok {
					if id, ok := c.Fun.(*ast.Ident); ok && id.Name == "make" {
						bad = ""
					}
				}
				return true
			})
			return true
		})
		if bad != "" {
			otherRet = bad + " (a shared or pooled backing array: the returned string can change later)"
		}
		return true
	})
	if otherRet != "" {
		badUse = otherRet
	}
	ok = okRet && badUse == "" && fresh
	det := fmt.Sprintf("buffer made in the call, %d uses: appended to only through the verified emit helpers, %s", uses, how)
	if !ok {
		det = "Vector's buffer is not private to the call: "
		switch {
		case !fresh:
			det += "it is not made in the call (shared scratch space)"
		case badUse != "":
			det += badUse
		case !okRet:
			det += "the string conversion is not the final return expression (the buffer can be written after the string exists)"
		default:
			det += "serializer statements outside the model"
		}
	}
	pos := em.Fn.Pos()
	add(ok, "R14.buf", "Vector.buffer", pos, det)
}

// bufferClean: parameter idx of fn (a []byte or *[]byte) is used only to
// append to it, to measure it, to return it, to reassign it from such uses, or
// to hand it to another function with the same discipline. It is never stored
// anywhere else, so it cannot outlive the call or be reached from another one.
func (p *Pkg) bufferClean(fn *types.Func, idx int, seen map[*types.Func]bool) bool {
	if seen[fn] {
		return true // assumed for the recursive occurrence; every other use is checked
	}
	seen[fn] = true
	fd := p.FuncObj[fn]
	if fd == nil || fd.Body == nil || fn.Pkg() != p.P.Types {
		return false
	}
	info := p.Info
	params := paramObjs(info, fd)
	if idx >= len(params) || params[idx] == nil {
		return false
	}
	b := params[idx]
	ok := true
	var stack []ast.Node
	ast.Inspect(fd.Body, func(n ast.Node) bool {
		if n == nil {
			stack = stack[:len(stack)-1]
			return false
		}
		stack = append(stack, n)
		id, isId := n.(*ast.Ident)
		if !isId || identObj(info, id) != b {
			return true
		}
		// climb over *b and (b)
		i := len(stack) - 2
		var self ast.Node = id
		for i >= 0 {
			switch x := stack[i].(type) {
			case *ast.ParenExpr:
				self = x
				i--
				continue
			case *ast.StarExpr:
				self = x
				i--
				continue
			}
			break
		}
		if i < 0 {
			ok = false
			return true
		}
		switch x := stack[i].(type) {
		case *ast.AssignStmt:
			// on the left: b = … / *b = … ; on the right only as `x = b`?? no: that aliases it
			for _, r := range x.Rhs {
				if r == self {
					ok = false
				}
			}
			for j, l := range x.Lhs {
				if l != self {
					continue
				}
				// what is assigned must come from append / a clean helper on the buffer
				if len(x.Lhs) != len(x.Rhs) {
					ok = false
					continue
				}
				if c, isC := x.Rhs[j].(*ast.CallExpr); !isC || !p.bufferProducer(c, seen) {
					ok = false
				}
			}
		case *ast.CallExpr:
			if fid, isI := x.Fun.(*ast.Ident); isI {
				if _, isB := info.Uses[fid].(*types.Builtin); isB {
					switch fid.Name {
					case "append":
						// only as the destination; appending the buffer to something else copies its bytes
						return true
					case "len", "cap":
						return true
					}
					ok = false
					return true
				}
			}
			argIdx := -1
			for k, a := range x.Args {
				if a == self {
					argIdx = k
				}
			}
			if callee := calleeOf(info, x); callee == nil || argIdx < 0 || !p.bufferClean(callee, argIdx, seen) {
				ok = false
			}
		case *ast.ReturnStmt:
			// handing it back to the caller
		case *ast.UnaryExpr:
			ok = false // &b
		default:
			ok = false
		}
		return true
	})
	return ok
}

// bufferProducer: the call yields the buffer it was given (append, or a clean helper)
func (p *Pkg) bufferProducer(c *ast.CallExpr, seen map[*types.Func]bool) bool {
	info := p.Info
	if fid, ok := c.Fun.(*ast.Ident); ok {
		if _, isB := info.Uses[fid].(*types.Builtin); isB {
			return fid.Name == "append"
		}
	}
	callee := calleeOf(info, c)
	if callee == nil || callee.Pkg() != p.P.Types {
		return false
	}
	for i, a := range c.Args {
		if isByteSlice(info.TypeOf(a)) {
			return p.bufferClean(callee, i, seen)
		}
	}
	return false
}

func withinNode(outer ast.Node, n ast.Node) bool {
	return outer != nil && outer.Pos() <= n.Pos() && n.End() <= outer.End()
}

func init() {
	registerGroup("effects", func(w *World, out *[]Obligation) { w.rulesEffects(out) })
}

// boundedBySplit: the element access x (on the pooled slice v) is dominated by
// the true branch of a test `i <= r` or `i < r + 1` where i is x's index and r
// the result of a package-local call that received the slice (split's count of
// the last slot written). It returns that call.
func boundedBySplit(x *ssa.IndexAddr, v ssa.Value, f *ssa.Function) ssa.Value {
	isSplitCall := func(y ssa.Value) ssa.Value {
		c, ok := y.(*ssa.Call)
		if !ok {
			return nil
		}
		callee := c.Common().StaticCallee()
		if callee == nil || callee.Pkg != f.Pkg || len(c.Common().Args) < 1 {
			return nil
		}
		for _, a := range c.Common().Args {
			if a == v {
				return c
			}
		}
		return nil
	}
	for _, b := range f.Blocks {
		if len(b.Instrs) == 0 {
			continue
		}
		ifi, ok := b.Instrs[len(b.Instrs)-1].(*ssa.If)
		if !ok || len(b.Succs) != 2 {
			continue
		}
		bin, ok := ifi.Cond.(*ssa.BinOp)
		if !ok || bin.X != x.Index {
			continue
		}
		var call ssa.Value
		switch bin.Op {
		case token.LEQ:
			call = isSplitCall(bin.Y)
		case token.LSS:
			if add, ok := bin.Y.(*ssa.BinOp); ok && add.Op == token.ADD {
				if k, ok := add.Y.(*ssa.Const); ok && k.Value != nil && k.Int64() == 1 {
					call = isSplitCall(add.X)
				}
			}
		}
		if call == nil {
			continue
		}
		t := b.Succs[0]
		// the true successor must be entered only from this test, and dominate the access
		if len(t.Preds) == 1 && t.Dominates(x.Block()) {
			return call
		}
	}
	return nil
}
