package main

// Layer M8: formula trees and their canonical form, plus the parser of the
// oracle formulas (spec/formulas.txt).

import (
	"fmt"
	"math/big"
	"sort"
	"strings"
	"unicode"
)

type Ex struct {
	Op   string // const sym sum prod pow div call ite
	C    *big.Rat
	Name string
	Args []*Ex
	N    int
	Cond *Cnd
	str  string
	// Op "rec": a record of floats, field names parallel to Args
	Fields []string
}

type Cnd struct {
	Kind string // "in" (metric-level atom, canonical text in Atom) or "cmp"
	Atom string
	Op   string // == <= <
	L, R *Ex
}

func (c *Cnd) String() string {
	if c.Kind == "in" {
		return "[" + c.Atom + "]"
	}
	return c.L.String() + " " + c.Op + " " + c.R.String()
}

func (e *Ex) String() string {
	if e.str != "" {
		return e.str
	}
	var s string
	switch e.Op {
	case "const":
		s = e.C.RatString()
	case "sym":
		s = e.Name
	case "sum":
		var p []string
		for _, a := range e.Args {
			p = append(p, a.String())
		}
		s = "(" + strings.Join(p, " + ") + ")"
	case "prod":
		var p []string
		for _, a := range e.Args {
			p = append(p, a.String())
		}
		s = strings.Join(p, "*")
	case "pow":
		s = fmt.Sprintf("%s^%d", e.Args[0].String(), e.N)
	case "div":
		s = "(" + e.Args[0].String() + " / " + e.Args[1].String() + ")"
	case "call":
		var p []string
		for _, a := range e.Args {
			p = append(p, a.String())
		}
		s = e.Name + "(" + strings.Join(p, ", ") + ")"
	case "tuple", "rec":
		var p []string
		for _, a := range e.Args {
			p = append(p, a.String())
		}
		s = "<" + strings.Join(p, "; ") + ">"
	case "ite":
		s = "ite(" + e.Cond.String() + " ? " + e.Args[0].String() + " : " + e.Args[1].String() + ")"
	}
	e.str = s
	return s
}

func mkConst(r *big.Rat) *Ex { return &Ex{Op: "const", C: r} }
func mkConstS(s string) *Ex {
	r, ok := new(big.Rat).SetString(s)
	if !ok {
		panic("bad constant " + s)
	}
	return mkConst(r)
}
func mkSym(n string) *Ex { return &Ex{Op: "sym", Name: n} }

func mkSum(args ...*Ex) *Ex {
	var flat []*Ex
	c := new(big.Rat)
	var walk func(a *Ex)
	walk = func(a *Ex) {
		switch a.Op {
		case "sum":
			for _, x := range a.Args {
				walk(x)
			}
		case "const":
			c.Add(c, a.C)
		default:
			flat = append(flat, a)
		}
	}
	for _, a := range args {
		walk(a)
	}
	if c.Sign() != 0 {
		flat = append(flat, mkConst(c))
	}
	if len(flat) == 0 {
		return mkConst(new(big.Rat))
	}
	if len(flat) == 1 {
		return flat[0]
	}
	sort.SliceStable(flat, func(i, j int) bool { return flat[i].String() < flat[j].String() })
	return &Ex{Op: "sum", Args: flat}
}

func mkProd(args ...*Ex) *Ex {
	c := big.NewRat(1, 1)
	count := map[string]int{}
	repr := map[string]*Ex{}
	var order []string
	var walk func(a *Ex, n int)
	walk = func(a *Ex, n int) {
		switch a.Op {
		case "prod":
			for _, x := range a.Args {
				walk(x, n)
			}
		case "const":
			for i := 0; i < n; i++ {
				c.Mul(c, a.C)
			}
		case "pow":
			walk(a.Args[0], n*a.N)
		default:
			k := a.String()
			if _, ok := count[k]; !ok {
				order = append(order, k)
				repr[k] = a
			}
			count[k] += n
		}
	}
	for _, a := range args {
		walk(a, 1)
	}
	if c.Sign() == 0 {
		return mkConst(new(big.Rat))
	}
	var flat []*Ex
	for _, k := range order {
		if count[k] == 1 {
			flat = append(flat, repr[k])
		} else {
			flat = append(flat, &Ex{Op: "pow", Args: []*Ex{repr[k]}, N: count[k]})
		}
	}
	sort.SliceStable(flat, func(i, j int) bool { return flat[i].String() < flat[j].String() })
	if c.Cmp(big.NewRat(1, 1)) != 0 || len(flat) == 0 {
		flat = append([]*Ex{mkConst(c)}, flat...)
	}
	if len(flat) == 1 {
		return flat[0]
	}
	return &Ex{Op: "prod", Args: flat}
}

func mkNeg(a *Ex) *Ex    { return mkProd(mkConst(big.NewRat(-1, 1)), a) }
func mkSub(a, b *Ex) *Ex { return mkSum(a, mkNeg(b)) }
func mkDiv(a, b *Ex) *Ex { return &Ex{Op: "div", Args: []*Ex{a, b}} }
func mkPow(a *Ex, n int) *Ex {
	var xs []*Ex
	for i := 0; i < n; i++ {
		xs = append(xs, a)
	}
	return mkProd(xs...)
}

func mkCall(name string, args ...*Ex) *Ex {
	// rounding the constant 0 is 0 for every rounding helper of the specifications
	if (name == "ru" || name == "r1") && len(args) == 1 && args[0].Op == "const" && args[0].C.Sign() == 0 {
		return args[0]
	}
	if name == "min" || name == "max" {
		args = append([]*Ex(nil), args...)
		sort.SliceStable(args, func(i, j int) bool { return args[i].String() < args[j].String() })
	}
	return &Ex{Op: "call", Name: name, Args: args}
}

// mkCmp builds a numeric comparison condition in canonical orientation and
// reports whether the branches must be swapped.
func mkCmp(op string, l, r *Ex) (*Cnd, bool) {
	switch op {
	case "==":
		return &Cnd{Kind: "cmp", Op: "==", L: l, R: r}, false
	case "!=":
		return &Cnd{Kind: "cmp", Op: "==", L: l, R: r}, true
	case "<=":
		return &Cnd{Kind: "cmp", Op: "<=", L: l, R: r}, false
	case "<":
		return &Cnd{Kind: "cmp", Op: "<", L: l, R: r}, false
	case ">":
		return &Cnd{Kind: "cmp", Op: "<=", L: l, R: r}, true // a > b == !(a <= b)
	case ">=":
		return &Cnd{Kind: "cmp", Op: "<", L: l, R: r}, true // a >= b == !(a < b)
	}
	panic("op " + op)
}

func mkIte(c *Cnd, a, b *Ex) *Ex {
	key := c.String()
	a = simplifyUnder(a, key, true)
	b = simplifyUnder(b, key, false)
	if a.String() == b.String() {
		return a
	}
	// rounding half away from zero spelled out on the parts of math.Modf:
	// |frac(y)| < 1/2 ? trunc(y) : trunc(y) + copysign(1, frac(y))  is  math.Round(y)
	// (both parts are exact and carry y's sign; beyond 2^52 the fraction is 0)
	if c.Kind == "cmp" && c.Op == "<" && c.R.Op == "const" && c.R.C.Cmp(big.NewRat(1, 2)) == 0 &&
		c.L.Op == "call" && c.L.Name == "Abs" && len(c.L.Args) == 1 && c.L.Args[0].Op == "call" && c.L.Args[0].Name == "Frac" && len(c.L.Args[0].Args) == 1 {
		y := c.L.Args[0].Args[0]
		tr := mkCall("Trunc", y)
		up := mkSum(tr, mkCall("Copysign", mkConst(big.NewRat(1, 1)), mkCall("Frac", y)))
		if a.String() == tr.String() && b.String() == up.String() {
			return mkCall("Round", y)
		}
	}
	// the branch form of a cap: x <= y ? x : y is min(x, y), x <= y ? y : x is
	// max(x, y) (as real-valued functions; with < alike, the operands being equal
	// where the two forms could differ)
	if c.Kind == "cmp" && (c.Op == "<=" || c.Op == "<") {
		l, r := c.L.String(), c.R.String()
		switch {
		case a.String() == l && b.String() == r:
			return mkCall("min", c.L, c.R)
		case a.String() == r && b.String() == l:
			return mkCall("max", c.L, c.R)
		}
	}
	return &Ex{Op: "ite", Cond: c, Args: []*Ex{a, b}}
}

// simplifyUnder rewrites e under the assumption that condition key has the
// given truth value: nested ite on the same condition collapse.
func simplifyUnder(e *Ex, key string, truth bool) *Ex {
	if !strings.Contains(e.String(), key) {
		return e
	}
	switch e.Op {
	case "const", "sym":
		return e
	case "ite":
		if e.Cond.String() == key {
			if truth {
				return simplifyUnder(e.Args[0], key, truth)
			}
			return simplifyUnder(e.Args[1], key, truth)
		}
		c := e.Cond
		if c.Kind == "cmp" {
			c = &Cnd{Kind: "cmp", Op: c.Op, L: simplifyUnder(c.L, key, truth), R: simplifyUnder(c.R, key, truth)}
		}
		return mkIte(c, simplifyUnder(e.Args[0], key, truth), simplifyUnder(e.Args[1], key, truth))
	}
	var args []*Ex
	for _, a := range e.Args {
		args = append(args, simplifyUnder(a, key, truth))
	}
	switch e.Op {
	case "sum":
		return mkSum(args...)
	case "prod":
		return mkProd(args...)
	case "pow":
		return mkPow(args[0], e.N)
	case "div":
		return mkDiv(args[0], args[1])
	case "call":
		return mkCall(e.Name, args...)
	}
	return e
}

// firstDiff returns a short description of the first differing subtrees.
func firstDiff(a, b *Ex) string {
	if a.String() == b.String() {
		return ""
	}
	if a.Op == b.Op && len(a.Args) == len(b.Args) && a.Name == b.Name && a.N == b.N {
		if a.Op == "ite" && a.Cond.String() != b.Cond.String() {
			if a.Cond.Kind == "cmp" && b.Cond.Kind == "cmp" && a.Cond.Op == b.Cond.Op {
				if d := firstDiff(a.Cond.L, b.Cond.L); d != "" {
					return d
				}
				if d := firstDiff(a.Cond.R, b.Cond.R); d != "" {
					return d
				}
			}
			if a.Cond.Kind == "cmp" && b.Cond.Kind == "cmp" && a.Cond.Op != b.Cond.Op && a.Cond.L.String() == b.Cond.L.String() && a.Cond.R.String() == b.Cond.R.String() {
				return fmt.Sprintf("a comparison is `%s` in the code and `%s` in the specification (operands: %s , %s)", a.Cond.Op, b.Cond.Op, clip(a.Cond.L.String()), clip(a.Cond.R.String()))
			}
			return fmt.Sprintf("condition %s vs %s", clip(a.Cond.String()), clip(b.Cond.String()))
		}
		diffs := 0
		var d string
		for i := range a.Args {
			if a.Args[i].String() != b.Args[i].String() {
				diffs++
				d = firstDiff(a.Args[i], b.Args[i])
			}
		}
		if diffs == 1 {
			return d
		}
	}
	return fmt.Sprintf("code has %s where the specification has %s", clip(a.String()), clip(b.String()))
}

func clip(s string) string {
	if len(s) > 160 {
		return s[:157] + "..."
	}
	return s
}

// ---------------------------------------------------------------------------
// oracle formula parser
//
//   Name = expr            definitions (inlined on use)
//   expr: + - * / ^int % , numbers, W(X), W(X|Y), f(args), ite(cond, a, b)
//   cond: [M=V] (metric atom: M or eM, V a value)  |  expr (==|!=|<=|<|>|>=) expr

type fparser struct {
	toks []string
	pos  int
	defs map[string]*Ex
	dom  func(metric string) []string // value domain of a metric atom (for normalisation)
}

func tokenize(s string) []string {
	var toks []string
	i := 0
	for i < len(s) {
		c := rune(s[i])
		switch {
		case unicode.IsSpace(c):
			i++
		case unicode.IsDigit(c) || (c == '.' && i+1 < len(s) && unicode.IsDigit(rune(s[i+1]))):
			j := i
			for j < len(s) && (unicode.IsDigit(rune(s[j])) || s[j] == '.') {
				j++
			}
			toks = append(toks, s[i:j])
			i = j
		case unicode.IsLetter(c) || c == '_':
			j := i
			for j < len(s) && (unicode.IsLetter(rune(s[j])) || unicode.IsDigit(rune(s[j])) || s[j] == '_') {
				j++
			}
			toks = append(toks, s[i:j])
			i = j
		case c == '[':
			j := strings.IndexByte(s[i:], ']')
			toks = append(toks, s[i:i+j+1])
			i += j + 1
		default:
			if i+1 < len(s) {
				two := s[i : i+2]
				if two == "==" || two == "!=" || two == "<=" || two == ">=" {
					toks = append(toks, two)
					i += 2
					continue
				}
			}
			toks = append(toks, string(c))
			i++
		}
	}
	return toks
}

func (p *fparser) peek() string {
	if p.pos < len(p.toks) {
		return p.toks[p.pos]
	}
	return ""
}
func (p *fparser) next() string { t := p.peek(); p.pos++; return t }
func (p *fparser) expect(t string) {
	if p.next() != t {
		panic(fmt.Sprintf("formula oracle: expected %q at token %d of %v", t, p.pos-1, p.toks))
	}
}

func (p *fparser) expr() *Ex {
	l := p.term()
	for p.peek() == "+" || p.peek() == "-" {
		op := p.next()
		r := p.term()
		if op == "+" {
			l = mkSum(l, r)
		} else {
			l = mkSub(l, r)
		}
	}
	return l
}

func (p *fparser) term() *Ex {
	l := p.factor()
	for p.peek() == "*" || p.peek() == "/" || p.peek() == "%" {
		op := p.next()
		r := p.factor()
		switch op {
		case "*":
			l = mkProd(l, r)
		case "/":
			l = mkDiv(l, r)
		case "%":
			l = mkCall("imod", l, r)
		}
	}
	return l
}

func (p *fparser) factor() *Ex {
	b := p.unary()
	if p.peek() == "^" {
		p.next()
		n := 0
		fmt.Sscanf(p.next(), "%d", &n)
		return mkPow(b, n)
	}
	return b
}

func (p *fparser) unary() *Ex {
	if p.peek() == "-" {
		p.next()
		return mkNeg(p.unary())
	}
	t := p.next()
	if t == "(" {
		e := p.expr()
		p.expect(")")
		return e
	}
	if unicode.IsDigit(rune(t[0])) || t[0] == '.' {
		return mkConstS(t)
	}
	if p.peek() == "(" {
		p.next()
		switch t {
		case "W":
			a := p.next()
			name := "W(" + a
			if p.peek() == "|" {
				p.next()
				name += "|" + p.next()
			}
			p.expect(")")
			return mkSym(name + ")")
		case "ite":
			c, swap := p.cond()
			p.expect(",")
			a := p.expr()
			p.expect(",")
			b := p.expr()
			p.expect(")")
			if swap {
				a, b = b, a
			}
			return mkIte(c, a, b)
		}
		var args []*Ex
		for p.peek() != ")" {
			args = append(args, p.expr())
			if p.peek() == "," {
				p.next()
			}
		}
		p.expect(")")
		return mkCall(t, args...)
	}
	if d, ok := p.defs[t]; ok {
		return d
	}
	return mkSym(t)
}

func (p *fparser) cond() (*Cnd, bool) {
	if t := p.peek(); strings.HasPrefix(t, "[") {
		p.next()
		body := strings.Trim(t, "[]")
		parts := strings.SplitN(body, "=", 2)
		return metricAtom([]string{parts[0]}, [][]string{{parts[1]}}, p.dom)
	}
	l := p.expr()
	op := p.next()
	r := p.expr()
	return mkCmp(op, l, r)
}

// metricAtom builds the canonical "inputs in {tuples}" atom. inputs are names
// such as "S" or "eS"; tuples the satisfying value tuples. The set is
// normalised to contain the tuple of first domain values (else complemented,
// swap=true).
func metricAtom(inputs []string, tuples [][]string, dom func(string) []string) (*Cnd, bool) {
	var doms [][]string
	for _, in := range inputs {
		doms = append(doms, dom(in))
	}
	key := func(t []string) string { return strings.Join(t, ",") }
	sat := map[string]bool{}
	for _, t := range tuples {
		sat[key(t)] = true
	}
	var first []string
	for _, d := range doms {
		if len(d) == 0 {
			first = append(first, "?")
		} else {
			first = append(first, d[0])
		}
	}
	swap := false
	if !sat[key(first)] {
		// complement
		swap = true
		comp := map[string]bool{}
		var rec func(i int, cur []string)
		rec = func(i int, cur []string) {
			if i == len(doms) {
				if !sat[key(cur)] {
					comp[key(cur)] = true
				}
				return
			}
			for _, v := range doms[i] {
				rec(i+1, append(append([]string(nil), cur...), v))
			}
		}
		rec(0, nil)
		sat = comp
	}
	var ks []string
	for k := range sat {
		ks = append(ks, k)
	}
	sort.Strings(ks)
	return &Cnd{Kind: "in", Atom: strings.Join(inputs, ",") + " in {" + strings.Join(ks, ";") + "}"}, swap
}

// parseFormulas parses a block of definitions and returns them by name.
func parseFormulas(text string, dom func(string) []string) map[string]*Ex {
	defs := map[string]*Ex{}
	for _, ln := range strings.Split(text, "\n") {
		if i := strings.IndexByte(ln, '#'); i >= 0 {
			ln = ln[:i]
		}
		ln = strings.TrimSpace(ln)
		if ln == "" {
			continue
		}
		i := strings.Index(ln, "=")
		// first '=' that is not part of ==, <=, >=, != and not inside [..]
		depth := 0
		i = -1
		for j := 0; j < len(ln); j++ {
			switch ln[j] {
			case '[':
				depth++
			case ']':
				depth--
			case '=':
				if depth == 0 && i < 0 && (j+1 >= len(ln) || ln[j+1] != '=') && (j == 0 || !strings.ContainsRune("=<>!", rune(ln[j-1]))) {
					i = j
				}
			}
		}
		if i < 0 {
			panic("formula oracle: no '=' in " + ln)
		}
		name := strings.TrimSpace(ln[:i])
		p := &fparser{toks: tokenize(ln[i+1:]), defs: defs, dom: dom}
		e := p.expr()
		if p.pos != len(p.toks) {
			panic("formula oracle: trailing tokens in " + ln)
		}
		defs[name] = e
	}
	return defs
}

// ---------------------------------------------------------------------------
// ite normal form: every conditional is lifted out of arithmetic (f(ite(c,a,b))
// = ite(c,f(a),f(b))) and the resulting decision tree is ordered like a BDD
// (metric atoms before numeric comparisons, then by text), with equal branches
// merged. Two formulas that differ only in WHERE they branch — "compute
// piecewise, then round" versus "round in each branch", a shared final
// statement versus one return per branch — have the same normal form.

func cndLess(a, b *Cnd) bool {
	if a.Kind != b.Kind {
		return a.Kind == "in"
	}
	return a.String() < b.String()
}

func isIte(t *Ex) bool { return t.Op == "ite" }

func restrictIte(t *Ex, key string, val bool) *Ex {
	if !isIte(t) || !strings.Contains(t.String(), key) {
		return t
	}
	if t.Cond.String() == key {
		if val {
			return restrictIte(t.Args[0], key, val)
		}
		return restrictIte(t.Args[1], key, val)
	}
	a, b := restrictIte(t.Args[0], key, val), restrictIte(t.Args[1], key, val)
	if a.String() == b.String() {
		return a
	}
	return &Ex{Op: "ite", Cond: t.Cond, Args: []*Ex{a, b}}
}

func iteBDD(c *Cnd, a, b *Ex) *Ex {
	top := c
	if isIte(a) && cndLess(a.Cond, top) {
		top = a.Cond
	}
	if isIte(b) && cndLess(b.Cond, top) {
		top = b.Cond
	}
	key := top.String()
	if key == c.String() {
		a2, b2 := restrictIte(a, key, true), restrictIte(b, key, false)
		if a2.String() == b2.String() {
			return a2
		}
		return &Ex{Op: "ite", Cond: c, Args: []*Ex{a2, b2}}
	}
	hi := iteBDD(c, restrictIte(a, key, true), restrictIte(b, key, true))
	lo := iteBDD(c, restrictIte(a, key, false), restrictIte(b, key, false))
	if hi.String() == lo.String() {
		return hi
	}
	return &Ex{Op: "ite", Cond: top, Args: []*Ex{hi, lo}}
}

func rebuild(t *Ex, args []*Ex) *Ex {
	switch t.Op {
	case "sum":
		return mkSum(args...)
	case "prod":
		return mkProd(args...)
	case "pow":
		return mkPow(args[0], t.N)
	case "div":
		return mkDiv(args[0], args[1])
	case "call":
		return mkCall(t.Name, args...)
	}
	return t
}

func liftOp(t *Ex, args []*Ex) *Ex {
	for i, a := range args {
		if isIte(a) {
			hi := append(append([]*Ex(nil), args[:i]...), a.Args[0])
			hi = append(hi, args[i+1:]...)
			lo := append(append([]*Ex(nil), args[:i]...), a.Args[1])
			lo = append(lo, args[i+1:]...)
			return iteBDD(a.Cond, liftOp(t, hi), liftOp(t, lo))
		}
	}
	return rebuild(t, args)
}

func liftCmp(op string, l, r, a, b *Ex) *Ex {
	if isIte(l) {
		return iteBDD(l.Cond, liftCmp(op, l.Args[0], r, a, b), liftCmp(op, l.Args[1], r, a, b))
	}
	if isIte(r) {
		return iteBDD(r.Cond, liftCmp(op, l, r.Args[0], a, b), liftCmp(op, l, r.Args[1], a, b))
	}
	return iteBDD(&Cnd{Kind: "cmp", Op: op, L: l, R: r}, a, b)
}

// normIte returns the ite normal form of t.
func normIte(t *Ex) *Ex {
	switch t.Op {
	case "const", "sym":
		return t
	case "ite":
		a, b := normIte(t.Args[0]), normIte(t.Args[1])
		if t.Cond.Kind == "cmp" {
			return liftCmp(t.Cond.Op, normIte(t.Cond.L), normIte(t.Cond.R), a, b)
		}
		return iteBDD(t.Cond, a, b)
	}
	args := make([]*Ex, len(t.Args))
	for i, a := range t.Args {
		args[i] = normIte(a)
	}
	return liftOp(t, args)
}
