package main

// Layer M7: decision fragments. A small evaluator for loop-free fragments of
// the repository's code over *finite domains of metric codes*: it is used to
// compute complete truth/region tables (canonical forms), never to run a
// vector string through the program. Inputs are metric codes; the receiver
// bytes are assembled from codes through the layout proved by C07 (Set's
// encoding), so raw byte tests (`u1 == 0b10101010`, `u3 != 0`) evaluate to
// predicates over metric codes. Loops are outside the language (undecided),
// except where a caller installs a summary for a callee (validate, index).

import (
	"fmt"
	"go/ast"
	"go/constant"
	"go/token"
	"go/types"
	"math/big"
	"math/bits"
	"strings"
)

type valKind uint8

const (
	VInt valKind = iota
	VBool
	VStr
	VRat
	VNaN
	VTuple
	VNil
	VOpaque   // a non-nil value whose content is irrelevant (error objects)
	VList     // an immutable table (package-level composite literal of constants)
	VStruct   // an immutable record inside such a table (fields in F)
	VUnk      // an unknown scalar (scanner positions, raw input): arithmetic yields unknown, any test on it is undecided
	VBits     // an integer some of whose bits are symbolic receiver bits (B, LSB first); see hybrid.go
	VMap      // an immutable map with string keys (package-level table): entries in F
	VFieldPtr // pointer to receiver byte I (hybrid runs)
	VVarPtr   // pointer to a local variable (hybrid runs)
	VFunc     // a package-level function used as a value (Fn)
)

type Val struct {
	K valKind
	I int64
	S string
	R *big.Rat
	T []Val
	F map[string]Val
	B []Bit
	// VVarPtr: pointer to a local variable of an enclosing evaluation frame
	cell *varCell
	// VFunc
	Fn *types.Func
}

type varCell struct {
	env *cEnv
	obj types.Object
}

func (v Val) String() string {
	switch v.K {
	case VInt:
		return fmt.Sprint(v.I)
	case VBool:
		return fmt.Sprint(v.I != 0)
	case VStr:
		return fmt.Sprintf("%q", v.S)
	case VRat:
		return v.R.RatString()
	case VNaN:
		return "NaN"
	case VNil:
		return "nil"
	case VOpaque:
		return "<" + v.S + ">"
	case VUnk:
		return "<unknown>"
	case VTuple:
		s := "("
		for i, t := range v.T {
			if i > 0 {
				s += ", "
			}
			s += t.String()
		}
		return s + ")"
	}
	return "?"
}

func vInt(i int64) Val { return Val{K: VInt, I: i} }
func vBool(b bool) Val {
	if b {
		return Val{K: VBool, I: 1}
	}
	return Val{K: VBool}
}
func vStr(s string) Val { return Val{K: VStr, S: s} }

type panicked struct {
	pos token.Pos
	msg string
}

func (p *panicked) Error() string { return "panic: " + p.msg }

type callHook func(ce *cEnv, call *ast.CallExpr, fn *types.Func, args []Val) (Val, bool, error)

type cEnv struct {
	p     *Pkg
	bytes []uint8
	vars  map[types.Object]Val
	hook  callHook
	depth int
	steps *int
	// loops permits bounded execution of for-statements (used only for the
	// finite cursor automaton of the parsers; 64 iterations at most)
	loops bool
	// loopMax raises the iteration bound (byte scanners over concrete strings)
	loopMax int
	// ratArith permits exact rational + - * (used only on one-decimal table
	// values: differences of MacroVector scores)
	ratArith bool
	// sym: the receiver's bytes as symbolic bits (hybrid.go); nil = concrete bytes
	sym *symState
	// unkFlow: partial evaluation — a test on an unknown value runs every
	// possible branch and keeps what they agree on (hybrid.go, "unknown mode")
	unkFlow bool
	// value returned on a path taken under an unknown condition, to be merged
	// with the function's eventual result
	pendingRet *Val
	// labelled loops: the label of the statement about to be executed, and the
	// label a cBreakL / cContinueL in flight is aimed at
	nextLabel, brLabel string
}

// ownBranch turns a labelled break/continue that is aimed at the loop labelled
// `label` into the plain one.
func (e *cEnv) ownBranch(ct ctrl, label string) ctrl {
	if (ct == cBreakL || ct == cContinueL) && label != "" && e.brLabel == label {
		e.brLabel = ""
		if ct == cBreakL {
			return cBreak
		}
		return cContinue
	}
	return ct
}

func newCEnv(p *Pkg, bytes []uint8) *cEnv {
	n := 0
	return &cEnv{p: p, bytes: bytes, vars: map[types.Object]Val{}, steps: &n}
}

func (e *cEnv) child() *cEnv {
	return &cEnv{p: e.p, bytes: e.bytes, vars: map[types.Object]Val{}, hook: e.hook, depth: e.depth + 1, steps: e.steps, ratArith: e.ratArith, loops: e.loops, loopMax: e.loopMax, sym: e.sym, unkFlow: e.unkFlow}
}

// bytesFromCodes assembles receiver bytes from metric codes through Set's
// encoding (premise: R07.store holds for the metrics involved).
func (p *Pkg) bytesFromCodes(codes map[string]int) ([]uint8, error) {
	sm := p.SetModel()
	b := make([]uint8, len(p.Fields))
	for label, c := range codes {
		m := sm.ByLabel[label]
		if m == nil {
			return nil, fmt.Errorf("unknown metric %s", label)
		}
		if !m.encOK {
			return nil, fmt.Errorf("premise R07.store failed at %s.Set[%s]", p.Key, label)
		}
		for j, pos := range m.Enc {
			if c&(1<<uint(j)) != 0 {
				b[pos.F] |= 1 << uint(pos.B)
			}
		}
	}
	return b, nil
}

type ctrl uint8

const (
	cNext ctrl = iota
	cReturn
	cBreak
	cContinue
	// a labelled break / continue on its way to the loop that carries the label
	// (the label is in cEnv.brLabel)
	cBreakL
	cContinueL
)

func zeroOf(t types.Type) Val {
	switch u := t.Underlying().(type) {
	case *types.Basic:
		switch {
		case u.Info()&types.IsBoolean != 0:
			return vBool(false)
		case u.Info()&types.IsString != 0:
			return vStr("")
		case u.Info()&types.IsInteger != 0:
			return vInt(0)
		case u.Info()&types.IsFloat != 0:
			return Val{K: VRat, R: new(big.Rat)}
		}
	case *types.Interface, *types.Pointer, *types.Slice, *types.Map:
		return Val{K: VNil}
	case *types.Struct:
		out := Val{K: VStruct, F: map[string]Val{}}
		if named, ok := t.(*types.Named); ok {
			out.S = named.Obj().Name()
		}
		for i := 0; i < u.NumFields(); i++ {
			out.F[u.Field(i).Name()] = zeroOf(u.Field(i).Type())
		}
		return out
	}
	return Val{K: VOpaque, S: "zero " + t.String()}
}

func wrapInt(t types.Type, i int64) int64 {
	if b, ok := t.Underlying().(*types.Basic); ok {
		switch b.Kind() {
		case types.Uint8:
			return int64(uint8(i))
		case types.Int8:
			return int64(int8(i))
		case types.Uint16:
			return int64(uint16(i))
		case types.Uint32:
			return int64(uint32(i))
		case types.Int32:
			return int64(int32(i))
		}
	}
	return i
}

// callFunc interprets a call of a function declared in the package.
func (e *cEnv) callFunc(fd *ast.FuncDecl, args []Val, at ast.Node) (Val, error) {
	return e.child().callFuncIn(fd, args, at)
}

// callFuncIn runs fd in the receiver environment c (already a fresh child,
// possibly with the method's receiver bound).
func (c *cEnv) callFuncIn(fd *ast.FuncDecl, args []Val, at ast.Node) (Val, error) {
	e := c
	if e.depth > 13 {
		return Val{}, undecidedf(at, "call depth exceeded")
	}
	if fd.Body == nil {
		return Val{}, undecidedf(at, "function without body")
	}
	params := paramObjs(e.p.Info, fd)
	if len(params) != len(args) {
		return Val{}, undecidedf(at, "arity mismatch calling %s", fd.Name.Name)
	}
	for i, po := range params {
		if po != nil {
			c.vars[po] = args[i]
		}
	}
	results := resultObjs(e.p.Info, fd)
	for _, r := range results {
		if r != nil {
			c.vars[r] = zeroOf(r.Type())
		}
	}
	ct, v, err := c.execBlock(fd.Body.List)
	if err != nil {
		return Val{}, err
	}
	if c.pendingRet != nil && ct == cReturn {
		if v.K == VTuple && len(v.T) == 0 && len(results) > 0 {
			var t []Val
			for _, r := range results {
				t = append(t, c.vars[r])
			}
			if len(t) == 1 {
				v = t[0]
			} else {
				v = Val{K: VTuple, T: t}
			}
		}
		return mergeUnk(v, *c.pendingRet), nil
	}
	if ct != cReturn {
		if fd.Type.Results == nil || len(fd.Type.Results.List) == 0 {
			return Val{K: VTuple}, nil
		}
		return Val{}, undecidedf(at, "function %s falls off its end", fd.Name.Name)
	}
	if v.K == VTuple && len(v.T) == 0 && len(results) > 0 {
		// naked return
		var t []Val
		for _, r := range results {
			t = append(t, c.vars[r])
		}
		if len(t) == 1 {
			return t[0], nil
		}
		return Val{K: VTuple, T: t}, nil
	}
	return v, nil
}

func (e *cEnv) execBlock(stmts []ast.Stmt) (ctrl, Val, error) {
	for _, s := range stmts {
		ct, v, err := e.exec(s)
		if err != nil || ct != cNext {
			return ct, v, err
		}
	}
	return cNext, Val{}, nil
}

func (e *cEnv) assign(lhs ast.Expr, v Val, define bool) error {
	if id, ok := lhs.(*ast.Ident); ok {
		if id.Name == "_" {
			return nil
		}
		obj := e.p.Info.Defs[id]
		if obj == nil {
			obj = e.p.Info.Uses[id]
		}
		if obj == nil {
			return undecidedf(lhs, "unresolved identifier %s", id.Name)
		}
		if v.K == VInt {
			v.I = wrapInt(obj.Type(), v.I)
		}
		if v.K == VBits {
			v = resizeBits(v, intWidth(obj.Type()))
		}
		e.vars[obj] = v
		return nil
	}
	if pe, ok := lhs.(*ast.ParenExpr); ok {
		return e.assign(pe.X, v, define)
	}
	if idx, _, ok := e.p.fieldOf(lhs); ok && e.sym != nil {
		return e.sym.write(idx, v, lhs)
	}
	// field of a local record: r.f = v
	if se, ok := lhs.(*ast.SelectorExpr); ok {
		if id, ok := se.X.(*ast.Ident); ok {
			if obj := e.p.Info.Uses[id]; obj != nil {
				if cur, has := e.vars[obj]; has && cur.K == VStruct {
					nf := make(map[string]Val, len(cur.F))
					for k, x := range cur.F {
						nf[k] = x
					}
					if sel := e.p.Info.Selections[se]; sel != nil {
						if v.K == VInt {
							v.I = wrapInt(sel.Obj().Type(), v.I)
						}
						if v.K == VBits {
							v = resizeBits(v, intWidth(sel.Obj().Type()))
						}
					}
					nf[se.Sel.Name] = v
					cur.F = nf
					e.vars[obj] = cur
					return nil
				}
			}
		}
	}
	// element of a local fixed-size array: a[i] = v (arrays are values: copy on write)
	if ix, ok := lhs.(*ast.IndexExpr); ok {
		if id, ok := ix.X.(*ast.Ident); ok {
			if obj := e.p.Info.Uses[id]; obj != nil {
				_, isSl := obj.Type().Underlying().(*types.Slice)
				if pt, isPtr := obj.Type().Underlying().(*types.Pointer); isPtr {
					// p[i] through a pointer to an array: the array is shared, like a slice's
					_, isSl = pt.Elem().Underlying().(*types.Array)
				}
				if isSl {
					// a slice shares its backing array with whoever handed it over: write in place
					if cur, has := e.vars[obj]; has && cur.K == VList {
						iv, err := e.eval(ix.Index)
						if err != nil {
							return err
						}
						if iv.K != VInt {
							return undecidedf(lhs, "slice index is not a concrete integer")
						}
						if iv.I < 0 || int(iv.I) >= len(cur.T) {
							return &panicked{pos: lhs.Pos(), msg: fmt.Sprintf("index %d out of range [0,%d)", iv.I, len(cur.T))}
						}
						cur.T[iv.I] = v
						return nil
					}
				}
				if _, isArr := obj.Type().Underlying().(*types.Array); isArr {
					if cur, has := e.vars[obj]; has && cur.K == VList {
						iv, err := e.eval(ix.Index)
						if err != nil {
							return err
						}
						if iv.K != VInt {
							return undecidedf(lhs, "array index is not a concrete integer")
						}
						if iv.I < 0 || int(iv.I) >= len(cur.T) {
							return &panicked{pos: lhs.Pos(), msg: fmt.Sprintf("index %d out of range [0,%d)", iv.I, len(cur.T))}
						}
						nt := append([]Val(nil), cur.T...)
						nt[iv.I] = v
						cur.T = nt
						e.vars[obj] = cur
						return nil
					}
				}
			}
		}
	}
	if st, ok := lhs.(*ast.StarExpr); ok && e.sym != nil {
		pv, err := e.eval(st.X)
		if err != nil {
			return err
		}
		if pv.K == VFieldPtr {
			return e.sym.write(int(pv.I), v, lhs)
		}
		if pv.K == VVarPtr {
			if v.K == VInt {
				v.I = wrapInt(pv.cell.obj.Type(), v.I)
			}
			if v.K == VBits {
				v = resizeBits(v, intWidth(pv.cell.obj.Type()))
			}
			pv.cell.env.vars[pv.cell.obj] = v
			return nil
		}
	}
	return undecidedf(lhs, "assignment target outside the fragment language")
}

func (e *cEnv) exec(s ast.Stmt) (ctrl, Val, error) {
	*e.steps++
	if *e.steps > 5_000_000 {
		return cNext, Val{}, undecidedf(s, "step budget exceeded")
	}
	info := e.p.Info
	switch st := s.(type) {
	case *ast.EmptyStmt:
		return cNext, Val{}, nil
	case *ast.BlockStmt:
		return e.execBlock(st.List)
	case *ast.ExprStmt:
		_, err := e.eval(st.X)
		return cNext, Val{}, err
	case *ast.DeferStmt:
		// a deferred call into another package (handing a buffer back to its
		// pool) cannot influence what the fragment computes; its arguments are
		// evaluated now, as Go does
		if fn := calleeOf(e.p.Info, st.Call); fn != nil && fn.Pkg() != nil && fn.Pkg() != e.p.P.Types {
			for _, a := range st.Call.Args {
				if _, err := e.eval(a); err != nil {
					return cNext, Val{}, err
				}
			}
			return cNext, Val{}, nil
		}
		return cNext, Val{}, undecidedf(s, "statement %T outside the fragment language", s)
	case *ast.DeclStmt:
		gd, ok := st.Decl.(*ast.GenDecl)
		if !ok || gd.Tok != token.VAR {
			if ok && gd.Tok == token.CONST {
				return cNext, Val{}, nil
			}
			return cNext, Val{}, undecidedf(s, "declaration outside the fragment language")
		}
		for _, sp := range gd.Specs {
			vs := sp.(*ast.ValueSpec)
			for i, nm := range vs.Names {
				obj := info.Defs[nm]
				if obj == nil {
					continue
				}
				if len(vs.Values) == len(vs.Names) {
					v, err := e.eval(vs.Values[i])
					if err != nil {
						return cNext, Val{}, err
					}
					if err := e.assign(nm, v, true); err != nil {
						return cNext, Val{}, err
					}
				} else if len(vs.Values) == 0 {
					e.vars[obj] = zeroOf(obj.Type())
				} else {
					return cNext, Val{}, undecidedf(s, "multi-value var declaration")
				}
			}
		}
		return cNext, Val{}, nil
	case *ast.AssignStmt:
		if st.Tok == token.DEFINE || st.Tok == token.ASSIGN {
			if len(st.Rhs) == 1 && len(st.Lhs) == 2 {
				// v, ok := table[key]
				if ix, isIx := st.Rhs[0].(*ast.IndexExpr); isIx {
					if m, err := e.eval(ix.X); err == nil && m.K == VMap {
						k, err := e.eval(ix.Index)
						if err != nil {
							return cNext, Val{}, err
						}
						if k.K != VStr {
							return cNext, Val{}, undecidedf(s, "map key is not a string")
						}
						ev, found := m.F[k.S]
						if !found && len(m.T) == 1 {
							ev = m.T[0]
						}
						if err := e.assign(st.Lhs[0], ev, st.Tok == token.DEFINE); err != nil {
							return cNext, Val{}, err
						}
						return cNext, Val{}, e.assign(st.Lhs[1], vBool(found), st.Tok == token.DEFINE)
					}
				}
			}
			if len(st.Rhs) == 1 && len(st.Lhs) > 1 {
				v, err := e.eval(st.Rhs[0])
				if err != nil {
					return cNext, Val{}, err
				}
				if v.K != VTuple || len(v.T) != len(st.Lhs) {
					return cNext, Val{}, undecidedf(s, "tuple assignment arity")
				}
				for i, l := range st.Lhs {
					if err := e.assign(l, v.T[i], st.Tok == token.DEFINE); err != nil {
						return cNext, Val{}, err
					}
				}
				return cNext, Val{}, nil
			}
			if len(st.Lhs) != len(st.Rhs) {
				return cNext, Val{}, undecidedf(s, "assignment arity")
			}
			vals := make([]Val, len(st.Rhs))
			for i, r := range st.Rhs {
				v, err := e.eval(r)
				if err != nil {
					return cNext, Val{}, err
				}
				vals[i] = v
			}
			for i, l := range st.Lhs {
				if err := e.assign(l, vals[i], st.Tok == token.DEFINE); err != nil {
					return cNext, Val{}, err
				}
			}
			return cNext, Val{}, nil
		}
		// op-assign
		ops := map[token.Token]token.Token{token.ADD_ASSIGN: token.ADD, token.SUB_ASSIGN: token.SUB, token.MUL_ASSIGN: token.MUL,
			token.QUO_ASSIGN: token.QUO, token.REM_ASSIGN: token.REM, token.OR_ASSIGN: token.OR, token.AND_ASSIGN: token.AND, token.XOR_ASSIGN: token.XOR, token.SHL_ASSIGN: token.SHL, token.SHR_ASSIGN: token.SHR, token.AND_NOT_ASSIGN: token.AND_NOT}
		op, ok := ops[st.Tok]
		if !ok || len(st.Lhs) != 1 || len(st.Rhs) != 1 {
			return cNext, Val{}, undecidedf(s, "assignment operator %s", st.Tok)
		}
		a, err := e.eval(st.Lhs[0])
		if err != nil {
			return cNext, Val{}, err
		}
		b, err := e.eval(st.Rhs[0])
		if err != nil {
			return cNext, Val{}, err
		}
		var t types.Type
		if tv, ok := info.Types[st.Lhs[0]]; ok {
			t = tv.Type
		}
		v, err := e.binop(op, a, b, t, st)
		if err != nil {
			return cNext, Val{}, err
		}
		return cNext, Val{}, e.assign(st.Lhs[0], v, false)
	case *ast.IncDecStmt:
		a, err := e.eval(st.X)
		if err != nil {
			return cNext, Val{}, err
		}
		if a.K == VUnk {
			// a counter that already depends on an unknown test stays unknown
			return cNext, Val{}, e.assign(st.X, a, false)
		}
		if a.K == VRat && e.ratArith && a.R != nil {
			// a float counter holding an exact small integer
			d := big.NewRat(1, 1)
			if st.Tok == token.DEC {
				d = big.NewRat(-1, 1)
			}
			return cNext, Val{}, e.assign(st.X, Val{K: VRat, R: new(big.Rat).Add(a.R, d)}, false)
		}
		if a.K != VInt {
			return cNext, Val{}, undecidedf(s, "++/-- on a non-integer")
		}
		if st.Tok == token.INC {
			a.I++
		} else {
			a.I--
		}
		return cNext, Val{}, e.assign(st.X, a, false)
	case *ast.ReturnStmt:
		if len(st.Results) == 0 {
			return cReturn, Val{K: VTuple}, nil
		}
		if len(st.Results) == 1 {
			v, err := e.eval(st.Results[0])
			return cReturn, v, err
		}
		var t []Val
		for _, r := range st.Results {
			v, err := e.eval(r)
			if err != nil {
				return cNext, Val{}, err
			}
			t = append(t, v)
		}
		return cReturn, Val{K: VTuple, T: t}, nil
	case *ast.IfStmt:
		if st.Init != nil {
			if ct, v, err := e.exec(st.Init); err != nil || ct != cNext {
				return ct, v, err
			}
		}
		c, err := e.eval(st.Cond)
		if err != nil {
			return cNext, Val{}, err
		}
		if c.K == VUnk && e.unkFlow {
			var els []ast.Stmt
			if st.Else != nil {
				els = []ast.Stmt{st.Else}
			}
			return e.execUnknown([][]ast.Stmt{st.Body.List, els}, s)
		}
		if c.K != VBool {
			return cNext, Val{}, undecidedf(st.Cond, "non-boolean condition")
		}
		if c.I != 0 {
			return e.execBlock(st.Body.List)
		}
		if st.Else != nil {
			return e.exec(st.Else)
		}
		return cNext, Val{}, nil
	case *ast.SwitchStmt:
		if st.Init != nil {
			if ct, v, err := e.exec(st.Init); err != nil || ct != cNext {
				return ct, v, err
			}
		}
		var tag Val
		hasTag := st.Tag != nil
		if hasTag {
			var err error
			tag, err = e.eval(st.Tag)
			if err != nil {
				return cNext, Val{}, err
			}
		}
		var def *ast.CaseClause
		run := func(cc *ast.CaseClause) (ctrl, Val, error) {
			for _, bs := range cc.Body {
				if br, ok := bs.(*ast.BranchStmt); ok && br.Tok == token.FALLTHROUGH {
					return cNext, Val{}, undecidedf(bs, "fallthrough")
				}
			}
			ct, v, err := e.execBlock(cc.Body)
			if ct == cBreak {
				ct = cNext
			}
			return ct, v, err
		}
		var maybe []*ast.CaseClause // clauses that match under an unknown test
		for _, cs := range st.Body.List {
			cc := cs.(*ast.CaseClause)
			if cc.List == nil {
				def = cc
				continue
			}
			clauseMaybe := false
			for _, ce := range cc.List {
				cv, err := e.eval(ce)
				if err != nil {
					return cNext, Val{}, err
				}
				match := false
				if hasTag {
					if e.unkFlow && (tag.K == VUnk || cv.K == VUnk) {
						clauseMaybe = true
						continue
					}
					eq, err := valEq(tag, cv, ce)
					if err != nil {
						return cNext, Val{}, err
					}
					match = eq
				} else {
					if e.unkFlow && cv.K == VUnk {
						clauseMaybe = true
						continue
					}
					match = cv.K == VBool && cv.I != 0
				}
				if match {
					if len(maybe) == 0 {
						return run(cc)
					}
					maybe = append(maybe, cc)
					return e.execUnknownClauses(maybe, false, s)
				}
			}
			if clauseMaybe {
				maybe = append(maybe, cc)
			}
		}
		if len(maybe) > 0 {
			if def != nil {
				maybe = append(maybe, def)
				return e.execUnknownClauses(maybe, false, s)
			}
			return e.execUnknownClauses(maybe, true, s)
		}
		if def != nil {
			return run(def)
		}
		return cNext, Val{}, nil
	case *ast.LabeledStmt:
		switch st.Stmt.(type) {
		case *ast.ForStmt, *ast.RangeStmt:
			e.nextLabel = st.Label.Name
			return e.exec(st.Stmt)
		}
		return cNext, Val{}, undecidedf(s, "label on a statement other than a loop")
	case *ast.ForStmt:
		myLabel := e.nextLabel
		e.nextLabel = ""
		if st.Init != nil {
			if ct, v, err := e.exec(st.Init); err != nil || ct != cNext {
				return ct, v, err
			}
		}
		for it := 0; ; it++ {
			if it > 64 && (e.loopMax == 0 || it > e.loopMax) {
				return cNext, Val{}, undecidedf(s, "loop does not terminate within 64 iterations on the finite model")
			}
			if st.Cond != nil {
				c, err := e.eval(st.Cond)
				if err != nil {
					return cNext, Val{}, err
				}
				if c.K != VBool {
					return cNext, Val{}, undecidedf(st.Cond, "non-boolean condition")
				}
				if c.I == 0 {
					break
				}
			}
			ct, v, err := e.execBlock(st.Body.List)
			if err != nil {
				return cNext, Val{}, err
			}
			ct = e.ownBranch(ct, myLabel)
			if ct == cReturn || ct == cBreakL || ct == cContinueL {
				return ct, v, nil
			}
			if ct == cBreak {
				break
			}
			if st.Post != nil {
				if ct, v, err := e.exec(st.Post); err != nil || ct != cNext {
					return ct, v, err
				}
			}
		}
		return cNext, Val{}, nil
	case *ast.RangeStmt:
		myLabel := e.nextLabel
		e.nextLabel = ""
		x, err := e.eval(st.X)
		if err != nil {
			return cNext, Val{}, err
		}
		var n int
		switch x.K {
		case VList:
			n = len(x.T)
		case VStr:
			n = len(x.S)
		case VInt:
			n = int(x.I)
		default:
			return cNext, Val{}, undecidedf(s, "range over %s", x)
		}
		if n > 4096 {
			return cNext, Val{}, undecidedf(s, "range too long for the finite model")
		}
		for i := 0; i < n; i++ {
			if st.Key != nil {
				if err := e.assign(st.Key, vInt(int64(i)), st.Tok == token.DEFINE); err != nil {
					return cNext, Val{}, err
				}
			}
			if st.Value != nil {
				var v Val
				switch x.K {
				case VList:
					v = x.T[i]
				case VStr:
					v = vInt(int64(x.S[i])) // byte-wise: only ASCII tables are ranged over
				default:
					return cNext, Val{}, undecidedf(s, "range value over an integer")
				}
				if err := e.assign(st.Value, v, st.Tok == token.DEFINE); err != nil {
					return cNext, Val{}, err
				}
			}
			ct, v, err := e.execBlock(st.Body.List)
			if err != nil {
				return cNext, Val{}, err
			}
			ct = e.ownBranch(ct, myLabel)
			if ct == cReturn || ct == cBreakL || ct == cContinueL {
				return ct, v, nil
			}
			if ct == cBreak {
				break
			}
		}
		return cNext, Val{}, nil
	case *ast.BranchStmt:
		switch st.Tok {
		case token.BREAK:
			if st.Label == nil {
				return cBreak, Val{}, nil
			}
			e.brLabel = st.Label.Name
			return cBreakL, Val{}, nil
		case token.CONTINUE:
			if st.Label == nil {
				return cContinue, Val{}, nil
			}
			e.brLabel = st.Label.Name
			return cContinueL, Val{}, nil
		}
		return cNext, Val{}, undecidedf(s, "branch statement outside the fragment language")
	}
	return cNext, Val{}, undecidedf(s, "statement %T outside the fragment language", s)
}

func valEq(a, b Val, at ast.Node) (bool, error) {
	if a.K == VBits || b.K == VBits {
		v, err := bitsBinop(token.EQL, a, b, nil, at)
		if err != nil {
			return false, err
		}
		return v.I != 0, nil
	}
	switch {
	case a.K == VInt && b.K == VInt, a.K == VBool && b.K == VBool:
		return a.I == b.I, nil
	case a.K == VStr && b.K == VStr:
		return a.S == b.S, nil
	case a.K == VRat && b.K == VRat:
		return a.R.Cmp(b.R) == 0, nil
	case a.K == VNaN || b.K == VNaN:
		return false, nil
	case a.K == VNil && b.K == VNil:
		return true, nil
	case (a.K == VNil && b.K == VOpaque) || (a.K == VOpaque && b.K == VNil):
		return false, nil
	case (a.K == VNil && (b.K == VStruct || b.K == VList || b.K == VFieldPtr || b.K == VMap)) || (b.K == VNil && (a.K == VStruct || a.K == VList || a.K == VFieldPtr || a.K == VMap)):
		return false, nil
	case a.K == VRat && b.K == VInt:
		return a.R.Cmp(new(big.Rat).SetInt64(b.I)) == 0, nil
	case a.K == VInt && b.K == VRat:
		return b.R.Cmp(new(big.Rat).SetInt64(a.I)) == 0, nil
	}
	return false, undecidedf(at, "comparison of %s and %s", a, b)
}

func constVal(tv types.TypeAndValue) (Val, bool) {
	if tv.Value == nil {
		return Val{}, false
	}
	switch tv.Value.Kind() {
	case constant.Bool:
		return vBool(constant.BoolVal(tv.Value)), true
	case constant.String:
		return vStr(constant.StringVal(tv.Value)), true
	case constant.Int:
		if b, ok := tv.Type.Underlying().(*types.Basic); ok && b.Info()&types.IsFloat != 0 {
			r, _ := new(big.Rat).SetString(tv.Value.ExactString())
			return Val{K: VRat, R: r}, true
		}
		i, ok := constant.Int64Val(tv.Value)
		if !ok {
			return Val{}, false
		}
		return vInt(i), true
	case constant.Float:
		r, ok := new(big.Rat).SetString(tv.Value.ExactString())
		if !ok {
			return Val{}, false
		}
		return Val{K: VRat, R: r}, true
	}
	return Val{}, false
}

func (e *cEnv) binop(op token.Token, a, b Val, t types.Type, at ast.Node) (Val, error) {
	if a.K == VBits || b.K == VBits {
		v, err := bitsBinop(op, a, b, t, at)
		if err != nil && e != nil && e.unkFlow {
			if _, isSplit := err.(*needSplit); isSplit {
				return Val{K: VUnk}, nil
			}
		}
		return v, err
	}
	if (a.K == VUnk || b.K == VUnk) && e != nil && e.unkFlow {
		return Val{K: VUnk}, nil
	}
	switch op {
	case token.EQL, token.NEQ:
		eq, err := valEq(a, b, at)
		if err != nil {
			return Val{}, err
		}
		if op == token.NEQ {
			// NaN != x is true
			if a.K == VNaN || b.K == VNaN {
				return vBool(true), nil
			}
			return vBool(!eq), nil
		}
		return vBool(eq), nil
	case token.LSS, token.LEQ, token.GTR, token.GEQ:
		var c int
		switch {
		case a.K == VNaN || b.K == VNaN:
			return vBool(false), nil
		case a.K == VInt && b.K == VInt:
			c = cmpInt(a.I, b.I)
		case a.K == VStr && b.K == VStr:
			c = cmpStr(a.S, b.S)
		case (a.K == VRat || a.K == VInt) && (b.K == VRat || b.K == VInt):
			c = toRat(a).Cmp(toRat(b))
		default:
			return Val{}, undecidedf(at, "ordering of %s and %s", a, b)
		}
		switch op {
		case token.LSS:
			return vBool(c < 0), nil
		case token.LEQ:
			return vBool(c <= 0), nil
		case token.GTR:
			return vBool(c > 0), nil
		default:
			return vBool(c >= 0), nil
		}
	}
	if a.K == VUnk || b.K == VUnk {
		switch op {
		case token.ADD, token.SUB, token.MUL, token.AND, token.OR, token.XOR, token.AND_NOT, token.SHL, token.SHR:
			return Val{K: VUnk}, nil
		}
		if e != nil && e.unkFlow {
			return Val{K: VUnk}, nil
		}
		return Val{}, undecidedf(at, "operator %s on an unknown value", op)
	}
	if a.K == VInt && b.K == VInt {
		var r int64
		switch op {
		case token.ADD:
			r = a.I + b.I
		case token.SUB:
			r = a.I - b.I
		case token.MUL:
			r = a.I * b.I
		case token.QUO:
			if b.I == 0 {
				return Val{}, &panicked{pos: at.Pos(), msg: "division by zero"}
			}
			r = a.I / b.I
		case token.REM:
			if b.I == 0 {
				return Val{}, &panicked{pos: at.Pos(), msg: "division by zero"}
			}
			r = a.I % b.I
		case token.AND:
			r = a.I & b.I
		case token.OR:
			r = a.I | b.I
		case token.XOR:
			r = a.I ^ b.I
		case token.AND_NOT:
			r = a.I &^ b.I
		case token.SHL:
			if b.I < 0 || b.I > 63 {
				r = 0
			} else {
				r = a.I << uint(b.I)
			}
		case token.SHR:
			if b.I < 0 || b.I > 63 {
				r = 0
			} else {
				r = a.I >> uint(b.I)
			}
		default:
			return Val{}, undecidedf(at, "integer operator %s", op)
		}
		if t != nil {
			r = wrapInt(t, r)
		}
		return vInt(r), nil
	}
	if a.K == VStr && b.K == VStr && op == token.ADD {
		return vStr(a.S + b.S), nil
	}
	if e.ratArith && (op == token.ADD || op == token.SUB || op == token.MUL) {
		if a.K == VNaN || b.K == VNaN {
			if (a.K == VNaN || a.K == VRat || a.K == VInt) && (b.K == VNaN || b.K == VRat || b.K == VInt) {
				return Val{K: VNaN}, nil
			}
		}
		if (a.K == VRat || a.K == VInt) && (b.K == VRat || b.K == VInt) && (a.K == VRat || b.K == VRat) {
			r := new(big.Rat)
			switch op {
			case token.ADD:
				r.Add(toRat(a), toRat(b))
			case token.SUB:
				r.Sub(toRat(a), toRat(b))
			case token.MUL:
				r.Mul(toRat(a), toRat(b))
			}
			return Val{K: VRat, R: r}, nil
		}
	}
	return Val{}, undecidedf(at, "operator %s on %s and %s is outside the fragment language (no float arithmetic is evaluated)", op, a, b)
}

func toRat(v Val) *big.Rat {
	if v.K == VRat {
		return v.R
	}
	return new(big.Rat).SetInt64(v.I)
}

func cmpInt(a, b int64) int {
	switch {
	case a < b:
		return -1
	case a > b:
		return 1
	}
	return 0
}

func cmpStr(a, b string) int {
	switch {
	case a < b:
		return -1
	case a > b:
		return 1
	}
	return 0
}

func (e *cEnv) eval(x ast.Expr) (Val, error) {
	info := e.p.Info
	if tv, ok := info.Types[x]; ok && tv.Value != nil {
		if isFloat(tv.Type) {
			if r, ok := exactConst(info, x); ok {
				return Val{K: VRat, R: r}, nil
			}
		}
		if v, ok := constVal(tv); ok {
			return v, nil
		}
	}
	switch n := x.(type) {
	case *ast.ParenExpr:
		return e.eval(n.X)
	case *ast.Ident:
		if isNilIdent(info, n) {
			return Val{K: VNil}, nil
		}
		obj := info.Uses[n]
		if obj == nil {
			obj = info.Defs[n]
		}
		if v, ok := e.vars[obj]; ok {
			return v, nil
		}
		if fo, isFn := obj.(*types.Func); isFn && fo.Pkg() == e.p.P.Types && e.p.FuncObj[fo] != nil && e.p.FuncObj[fo].Recv == nil {
			return Val{K: VFunc, Fn: fo}, nil
		}
		// the vector object itself, handed on by value or by pointer (lenVec(cvss20, …)): the
		// evaluator models one object, every value of its type reads the same bytes
		if v, isVar := obj.(*types.Var); isVar && !v.IsField() && e.p.isTPtrOrVal(v.Type()) {
			return Val{K: VOpaque, S: "obj"}, nil
		}
		if pv, isVar := obj.(*types.Var); isVar && obj.Parent() == e.p.P.Types.Scope() {
			// package-level table of constants (never written: R14.globals)
			_, isSlice := pv.Type().Underlying().(*types.Slice)
			_, isArray := pv.Type().Underlying().(*types.Array)
			_, isMap := pv.Type().Underlying().(*types.Map)
			_, isStruct := pv.Type().Underlying().(*types.Struct)
			if (isSlice || isArray || isMap || isStruct) && e.p.pkgVarWritten(pv) {
				return Val{}, undecidedf(x, "package-level table %s is written after its declaration (filled in at init time?): its contents are not constants", n.Name)
			}
			if isSlice || isArray || isMap || isStruct {
				if init := e.p.pkgVarInit(pv); init != nil {
					if lv, ok := e.p.listValue(init); ok {
						return lv, nil
					}
				}
			}
			// other package-level variable: opaque non-nil (error sentinels)
			return Val{K: VOpaque, S: obj.Name()}, nil
		}
		return Val{}, undecidedf(x, "identifier %s has no value in the fragment", n.Name)
	case *ast.SelectorExpr:
		if idx, _, ok := e.p.fieldOf(n); ok {
			if e.sym != nil {
				return e.sym.read(idx), nil
			}
			if e.bytes == nil {
				return Val{}, undecidedf(x, "receiver byte read without a byte model")
			}
			return vInt(int64(e.bytes[idx])), nil
		}
		if sel := info.Selections[n]; sel != nil && sel.Kind() == types.FieldVal {
			base, err := e.eval(n.X)
			if err != nil {
				return Val{}, err
			}
			if base.K == VVarPtr && base.cell != nil {
				// p.f through a pointer to a local record
				base = base.cell.env.vars[base.cell.obj]
			}
			if base.K == VStruct {
				if v, ok := base.F[n.Sel.Name]; ok {
					return v, nil
				}
			}
			return Val{}, undecidedf(x, "field %s of %s", n.Sel.Name, base)
		}
		return Val{}, undecidedf(x, "selector outside the fragment language")
	case *ast.TypeAssertExpr:
		// x.(T): the dynamic value (the evaluator's values carry no interface wrapper)
		if n.Type == nil {
			return Val{}, undecidedf(x, "type switch guard")
		}
		return e.eval(n.X)
	case *ast.UnaryExpr:
		if n.Op == token.AND {
			// &T{...} error objects, &obj
			if _, ok := n.X.(*ast.CompositeLit); ok {
				if e.sym != nil {
					// hybrid runs keep the literal's fields (typed errors are inspected)
					if v, err := e.eval(n.X); err == nil && v.K == VStruct {
						v.I = 1 // a pointer to the record
						return v, nil
					}
				}
				return Val{K: VOpaque, S: types.ExprString(n.X)}, nil
			}
			if tv, ok := info.Types[n.X]; ok && e.p.isTPtrOrVal(tv.Type) {
				return Val{K: VOpaque, S: "obj"}, nil
			}
			if idx, _, ok := e.p.fieldOf(n.X); ok && e.sym != nil {
				// pointer to a receiver byte
				return Val{K: VFieldPtr, I: int64(idx)}, nil
			}
			if id, ok := n.X.(*ast.Ident); ok {
				if obj := info.Uses[id]; obj != nil {
					if cur, has := e.vars[obj]; has && (e.sym != nil || cur.K == VStruct) {
						return Val{K: VVarPtr, cell: &varCell{env: e, obj: obj}}, nil
					}
				}
			}
			if _, isIdx := n.X.(*ast.IndexExpr); isIdx || e.sym != nil {
				// pointer to an element of an immutable table: the element, marked non-nil
				if v, err := e.eval(n.X); err == nil && (v.K == VStruct || v.K == VList) {
					v.I = 1
					return v, nil
				}
			}
			return Val{}, undecidedf(x, "address-of outside the fragment language")
		}
		a, err := e.eval(n.X)
		if err != nil {
			return Val{}, err
		}
		switch n.Op {
		case token.NOT:
			if a.K == VBool {
				return vBool(a.I == 0), nil
			}
			if a.K == VUnk && e.unkFlow {
				return a, nil
			}
		case token.SUB:
			if a.K == VInt {
				return vInt(-a.I), nil
			}
			if a.K == VRat {
				return Val{K: VRat, R: new(big.Rat).Neg(a.R)}, nil
			}
			if a.K == VNaN {
				return a, nil
			}
		case token.XOR:
			if a.K == VBits {
				out := Val{K: VBits}
				for _, b := range a.B {
					out.B = append(out.B, bitNot(b))
				}
				return out, nil
			}
			if a.K == VInt {
				r := ^a.I
				if tv, ok := info.Types[x]; ok {
					r = wrapInt(tv.Type, r)
				}
				return vInt(r), nil
			}
		case token.ADD:
			return a, nil
		}
		return Val{}, undecidedf(x, "unary %s", n.Op)
	case *ast.StarExpr:
		v, err := e.eval(n.X)
		if err != nil {
			return Val{}, err
		}
		if v.K == VFieldPtr && e.sym != nil {
			return e.sym.read(int(v.I)), nil
		}
		if v.K == VVarPtr {
			return v.cell.env.vars[v.cell.obj], nil
		}
		if v.K == VStruct || v.K == VList {
			return v, nil
		}
		return Val{}, undecidedf(x, "dereference outside the fragment language")
	case *ast.BinaryExpr:
		if n.Op == token.LAND || n.Op == token.LOR {
			a, err := e.eval(n.X)
			if err != nil {
				return Val{}, err
			}
			if a.K == VUnk && e.unkFlow {
				b, err := e.eval(n.Y)
				if err != nil {
					return Val{}, err
				}
				// false && ? / true || ? are decided by the known side
				if b.K == VBool && ((n.Op == token.LAND && b.I == 0) || (n.Op == token.LOR && b.I != 0)) {
					return b, nil
				}
				return Val{K: VUnk}, nil
			}
			if a.K != VBool {
				return Val{}, undecidedf(x, "non-boolean operand")
			}
			if (n.Op == token.LAND && a.I == 0) || (n.Op == token.LOR && a.I != 0) {
				return a, nil
			}
			b, err := e.eval(n.Y)
			if err != nil {
				return Val{}, err
			}
			if b.K == VUnk && e.unkFlow {
				return b, nil
			}
			if b.K != VBool {
				return Val{}, undecidedf(x, "non-boolean operand")
			}
			return b, nil
		}
		a, err := e.eval(n.X)
		if err != nil {
			return Val{}, err
		}
		b, err := e.eval(n.Y)
		if err != nil {
			return Val{}, err
		}
		var t types.Type
		if tv, ok := info.Types[x]; ok {
			t = tv.Type
		}
		if n.Op == token.SHL || n.Op == token.SHR {
			if tv, ok := info.Types[n.X]; ok {
				t = tv.Type
			}
		}
		return e.binop(n.Op, a, b, t, x)
	case *ast.CompositeLit:
		if lv, ok := e.p.listValue(n); ok {
			return lv, nil
		}
		if tv, ok := info.Types[n]; ok {
			if st, ok := tv.Type.Underlying().(*types.Struct); ok {
				// a record built from run-time values (typed errors)
				out := Val{K: VStruct, F: map[string]Val{}}
				if named, ok := tv.Type.(*types.Named); ok {
					out.S = named.Obj().Name()
				}
				for i := 0; i < st.NumFields(); i++ {
					out.F[st.Field(i).Name()] = zeroOf(st.Field(i).Type())
				}
				okAll := true
				for i, el := range n.Elts {
					name := ""
					ve := el
					if kv, isKV := el.(*ast.KeyValueExpr); isKV {
						id, isID := kv.Key.(*ast.Ident)
						if !isID {
							okAll = false
							break
						}
						name, ve = id.Name, kv.Value
					} else if i < st.NumFields() {
						name = st.Field(i).Name()
					}
					v, err := e.eval(ve)
					if err != nil {
						okAll = false
						break
					}
					out.F[name] = v
				}
				if okAll {
					return out, nil
				}
			}
		}
		if tv, ok := info.Types[n]; ok {
			_, isArr := tv.Type.Underlying().(*types.Array)
			_, isSl := tv.Type.Underlying().(*types.Slice)
			if isArr || isSl {
				out := Val{K: VList}
				okAll := true
				for _, el := range n.Elts {
					if _, isKV := el.(*ast.KeyValueExpr); isKV {
						okAll = false
						break
					}
					v, err := e.eval(el)
					if err != nil {
						okAll = false
						break
					}
					out.T = append(out.T, v)
				}
				if okAll {
					return out, nil
				}
			}
		}
		return Val{K: VOpaque, S: types.ExprString(n)}, nil
	case *ast.IndexExpr:
		a, err := e.eval(n.X)
		if err != nil {
			return Val{}, err
		}
		i, err := e.eval(n.Index)
		if err != nil {
			return Val{}, err
		}
		if a.K == VUnk || (i.K == VUnk && a.K == VStr) {
			// a byte of the raw input
			return Val{K: VUnk}, nil
		}
		if i.K == VBits {
			c, err := concretizeBits(i, n.Index)
			if err != nil {
				if _, isSplit := err.(*needSplit); isSplit && e.unkFlow {
					return Val{K: VUnk}, nil
				}
				return Val{}, err
			}
			i = c
		}
		if i.K == VUnk && e.unkFlow {
			return Val{K: VUnk}, nil
		}
		if a.K == VMap {
			if i.K != VStr {
				return Val{}, undecidedf(x, "map key is not a string")
			}
			if v, ok := a.F[i.S]; ok {
				return v, nil
			}
			if len(a.T) == 1 {
				return a.T[0], nil // zero value of the element type
			}
			return Val{}, undecidedf(x, "missing map entry")
		}
		if i.K != VInt {
			return Val{}, undecidedf(x, "non-integer index")
		}
		switch a.K {
		case VList:
			if i.I < 0 || int(i.I) >= len(a.T) {
				return Val{}, &panicked{pos: x.Pos(), msg: fmt.Sprintf("index %d out of range [0,%d) in %s", i.I, len(a.T), types.ExprString(n))}
			}
			return a.T[i.I], nil
		case VStr:
			if i.I < 0 || int(i.I) >= len(a.S) {
				return Val{}, &panicked{pos: x.Pos(), msg: fmt.Sprintf("index %d out of range of a string of length %d", i.I, len(a.S))}
			}
			return vInt(int64(a.S[i.I])), nil
		}
		return Val{}, undecidedf(x, "indexing a %s", a)
	case *ast.SliceExpr:
		a, err := e.eval(n.X)
		if err != nil {
			return Val{}, err
		}
		if a.K == VUnk {
			return Val{K: VUnk}, nil
		}
		if a.K == VList && !n.Slice3 {
			lo, hi := int64(0), int64(len(a.T))
			if n.Low != nil {
				v, err := e.eval(n.Low)
				if err != nil {
					return Val{}, err
				}
				lo = v.I
			}
			if n.High != nil {
				v, err := e.eval(n.High)
				if err != nil {
					return Val{}, err
				}
				hi = v.I
			}
			if lo < 0 || hi > int64(len(a.T)) || lo > hi {
				return Val{}, &panicked{pos: x.Pos(), msg: fmt.Sprintf("slice bounds [%d:%d] out of range of a table of length %d", lo, hi, len(a.T))}
			}
			return Val{K: VList, T: a.T[lo:hi]}, nil
		}
		if a.K != VStr || n.Slice3 {
			return Val{}, undecidedf(x, "slice expression outside the fragment language")
		}
		lo, hi := int64(0), int64(len(a.S))
		if n.Low != nil {
			v, err := e.eval(n.Low)
			if err != nil {
				return Val{}, err
			}
			if v.K == VUnk {
				return Val{K: VUnk}, nil
			}
			lo = v.I
		}
		if n.High != nil {
			v, err := e.eval(n.High)
			if err != nil {
				return Val{}, err
			}
			if v.K == VUnk {
				return Val{K: VUnk}, nil
			}
			hi = v.I
		}
		if lo < 0 || hi > int64(len(a.S)) || lo > hi {
			return Val{}, &panicked{pos: x.Pos(), msg: fmt.Sprintf("slice bounds [%d:%d] out of range of a string of length %d", lo, hi, len(a.S))}
		}
		return vStr(a.S[lo:hi]), nil
	case *ast.CallExpr:
		return e.evalCall(n)
	}
	return Val{}, undecidedf(x, "expression %T outside the fragment language", x)
}

func (e *cEnv) evalCall(n *ast.CallExpr) (Val, error) {
	info := e.p.Info
	// conversion
	if tv, ok := info.Types[n.Fun]; ok && tv.IsType() && len(n.Args) == 1 {
		a, err := e.eval(n.Args[0])
		if err != nil {
			return Val{}, err
		}
		b, ok := tv.Type.Underlying().(*types.Basic)
		if !ok && isUint8(tv.Type) {
			// T(x) for a type parameter T ~uint8
			b, ok = types.Typ[types.Uint8], true
		}
		if !ok {
			return Val{}, undecidedf(n, "conversion to %s", tv.Type)
		}
		switch {
		case b.Info()&types.IsInteger != 0 && a.K == VBits:
			return resizeBits(a, intWidth(tv.Type)), nil
		case b.Info()&types.IsFloat != 0 && a.K == VBits:
			c, err := concretizeBits(a, n)
			if err != nil {
				return Val{}, err
			}
			return Val{K: VRat, R: new(big.Rat).SetInt64(c.I)}, nil
		case b.Info()&types.IsInteger != 0 && a.K == VInt:
			return vInt(wrapInt(tv.Type, a.I)), nil
		case b.Info()&types.IsFloat != 0 && a.K == VInt:
			return Val{K: VRat, R: new(big.Rat).SetInt64(a.I)}, nil
		case b.Info()&types.IsFloat != 0 && (a.K == VRat || a.K == VNaN):
			return a, nil
		case b.Info()&types.IsString != 0 && a.K == VStr:
			return a, nil
		}
		return Val{}, undecidedf(n, "conversion of %s to %s", a, tv.Type)
	}
	// builtins
	if id, ok := n.Fun.(*ast.Ident); ok {
		if _, isB := info.Uses[id].(*types.Builtin); isB {
			switch id.Name {
			case "panic":
				return Val{}, &panicked{pos: n.Pos(), msg: types.ExprString(n)}
			case "append":
				// pure: a new list (tables are immutable values here)
				if len(n.Args) == 0 {
					break
				}
				base, err := e.eval(n.Args[0])
				if err != nil {
					return Val{}, err
				}
				if base.K == VNil {
					base = Val{K: VList}
				}
				if base.K != VList {
					return Val{}, undecidedf(n, "append to %s", base)
				}
				out := Val{K: VList, T: append([]Val(nil), base.T...)}
				for i, a := range n.Args[1:] {
					v, err := e.eval(a)
					if err != nil {
						return Val{}, err
					}
					if n.Ellipsis.IsValid() && i == len(n.Args)-2 {
						if v.K != VList {
							return Val{}, undecidedf(n, "append of %s...", v)
						}
						out.T = append(out.T, v.T...)
					} else {
						out.T = append(out.T, v)
					}
				}
				return out, nil
			case "new":
				// new(T) for the vector type: a fresh zero object, like &T{}
				if len(n.Args) == 1 {
					if tv, ok := info.Types[n.Args[0]]; ok && tv.IsType() && e.p.isTPtrOrVal(tv.Type) {
						return Val{K: VOpaque, S: "obj"}, nil
					}
				}
				return Val{}, undecidedf(n, "builtin new")
			case "min", "max":
				var best Val
				for i, a := range n.Args {
					v, err := e.eval(a)
					if err != nil {
						return Val{}, err
					}
					if v.K == VUnk {
						return v, nil
					}
					if v.K != VInt && v.K != VRat {
						return Val{}, undecidedf(n, "builtin %s on %s", id.Name, v)
					}
					if i == 0 {
						best = v
						continue
					}
					c := toRat(v).Cmp(toRat(best))
					if (id.Name == "min" && c < 0) || (id.Name == "max" && c > 0) {
						best = v
					}
				}
				return best, nil
			case "len":
				a, err := e.eval(n.Args[0])
				if err != nil {
					return Val{}, err
				}
				if a.K == VStr {
					return vInt(int64(len(a.S))), nil
				}
				if a.K == VList {
					return vInt(int64(len(a.T))), nil
				}
				if a.K == VUnk {
					return Val{K: VUnk}, nil
				}
			}
			return Val{}, undecidedf(n, "builtin %s", id.Name)
		}
	}
	// resolve callee
	var fn *types.Func
	switch f := n.Fun.(type) {
	case *ast.Ident:
		fn, _ = info.Uses[f].(*types.Func)
	case *ast.SelectorExpr:
		if sel := info.Selections[f]; sel != nil {
			fn, _ = sel.Obj().(*types.Func)
		} else {
			fn, _ = info.Uses[f.Sel].(*types.Func)
		}
	}
	if fn == nil {
		// a call through a parameter or local that holds a package-level function
		if id, ok := n.Fun.(*ast.Ident); ok {
			if fv, has := e.vars[info.Uses[id]]; has && fv.K == VFunc && fv.Fn != nil {
				fn = fv.Fn
			}
		}
	}
	if fn == nil {
		return Val{}, undecidedf(n, "dynamic call")
	}
	var args []Val
	for _, a := range n.Args {
		v, err := e.eval(a)
		if err != nil {
			return Val{}, err
		}
		args = append(args, v)
	}
	if e.hook != nil {
		if v, handled, err := e.hook(e, n, fn, args); handled || err != nil {
			return v, err
		}
	}
	if v, ok, err := stdlibSummary(fn, args, n); ok || err != nil {
		return v, err
	}
	if fn.Pkg() != nil && fn.Pkg().Path() == "math" {
		switch fn.Name() {
		case "NaN":
			return Val{K: VNaN}, nil
		case "IsNaN":
			return vBool(args[0].K == VNaN), nil
		case "Max", "Min":
			// exact on the evaluator's rationals; NaN if either argument is NaN
			if len(args) == 2 {
				a, b := args[0], args[1]
				if a.K == VNaN || b.K == VNaN {
					return Val{K: VNaN}, nil
				}
				if a.K == VUnk || b.K == VUnk {
					return Val{K: VUnk}, nil
				}
				if (a.K == VInt || a.K == VRat) && (b.K == VInt || b.K == VRat) {
					c := toRat(a).Cmp(toRat(b))
					if (fn.Name() == "Max") == (c >= 0) {
						return Val{K: VRat, R: toRat(a)}, nil
					}
					return Val{K: VRat, R: toRat(b)}, nil
				}
			}
		case "Abs":
			// exact on the evaluator's rationals; NaN stays NaN
			switch args[0].K {
			case VNaN, VUnk:
				return args[0], nil
			case VInt, VRat:
				r := toRat(args[0])
				if r.Sign() < 0 {
					return Val{K: VRat, R: new(big.Rat).Neg(r)}, nil
				}
				return args[0], nil
			}
		}
		return Val{}, undecidedf(n, "math.%s is not evaluated", fn.Name())
	}
	if fn.Pkg() != e.p.P.Types {
		return Val{}, undecidedf(n, "call to %s outside the package", fn.FullName())
	}
	fd := e.p.FuncObj[fn]
	if fd == nil {
		return Val{}, undecidedf(n, "no declaration for %s", fn.Name())
	}
	// f(a, b, c) for f(xs ...T): the surplus arguments arrive as one list
	if sig, ok := fn.Type().(*types.Signature); ok && sig.Variadic() && !n.Ellipsis.IsValid() {
		k := sig.Params().Len() - 1
		if len(args) >= k {
			rest := Val{K: VList, T: append([]Val(nil), args[k:]...)}
			if len(rest.T) == 0 {
				rest = Val{K: VNil}
			}
			args = append(append([]Val(nil), args[:k]...), rest)
		}
	}
	if fd.Recv != nil {
		// method on the object: same bytes
		se, ok := n.Fun.(*ast.SelectorExpr)
		if !ok {
			return Val{}, undecidedf(n, "method value")
		}
		if tv, ok := info.Types[se.X]; !ok || !e.p.isTPtrOrVal(tv.Type) {
			// a method of a table record (descriptor): the receiver is a value
			rv, err := e.eval(se.X)
			if err != nil {
				return Val{}, err
			}
			if rv.K == VVarPtr && rv.cell != nil {
				// a reading method called through a pointer to a local record: the
				// record's current value (a method that writes its receiver is not followed)
				if ro := e.p.recvObj(fd); ro != nil && fd.Body != nil {
					writes := false
					ast.Inspect(fd.Body, func(x ast.Node) bool {
						switch st := x.(type) {
						case *ast.AssignStmt:
							for _, l := range st.Lhs {
								if nodeMentions(info, l, ro) {
									writes = true
								}
							}
						case *ast.IncDecStmt:
							if nodeMentions(info, st.X, ro) {
								writes = true
							}
						case *ast.UnaryExpr:
							if st.Op == token.AND && nodeMentions(info, st.X, ro) {
								writes = true
							}
						}
						return true
					})
					if !writes {
						rv = rv.cell.env.vars[rv.cell.obj]
					}
				}
			}
			if rv.K != VStruct && rv.K != VList && rv.K != VInt && rv.K != VStr {
				return Val{}, undecidedf(n, "method call on something other than the vector object or a table record")
			}
			ro := e.p.recvObj(fd)
			c := e.child()
			if ro != nil {
				c.vars[ro] = rv
			}
			res, err := c.callFuncIn(fd, args, n)
			// a pointer-receiver method of a local record may write its fields: the
			// record the caller holds is the one the method worked on
			if err == nil && ro != nil {
				if _, isPtr := ro.Type().(*types.Pointer); isPtr {
					if id, ok := se.X.(*ast.Ident); ok {
						if obj := info.Uses[id]; obj != nil {
							if cur, has := e.vars[obj]; has && cur.K == VStruct {
								if nv, ok := c.vars[ro]; ok && nv.K == VStruct {
									e.vars[obj] = nv
								}
							}
						}
					} else if writesRecv(info, fd, ro) {
						return Val{}, undecidedf(n, "a method that writes its receiver is called on something other than a local record")
					}
				}
			}
			return res, err
		}
	}
	return e.callFunc(fd, args, n)
}

// exactConst returns the exact rational value of a constant numeric
// expression. go/types rounds a literal converted to float64 to the nearest
// float64; the oracle compares *literals* (0.85 = 0.850, 0.85 != 0.86), so
// literals are re-read from their source text and untyped named constants
// from their declared value.
func exactConst(info *types.Info, x ast.Expr) (*big.Rat, bool) {
	tv, ok := info.Types[x]
	if !ok || tv.Value == nil {
		return nil, false
	}
	switch tv.Value.Kind() {
	case constant.Int, constant.Float:
	default:
		return nil, false
	}
	switch n := x.(type) {
	case *ast.ParenExpr:
		return exactConst(info, n.X)
	case *ast.BasicLit:
		if n.Kind == token.INT || n.Kind == token.FLOAT {
			txt := strings.ReplaceAll(n.Value, "_", "")
			if n.Kind == token.INT {
				v := constant.MakeFromLiteral(n.Value, token.INT, 0)
				if r, ok := new(big.Rat).SetString(v.ExactString()); ok {
					return r, true
				}
			}
			if !strings.HasPrefix(txt, "0x") && !strings.HasPrefix(txt, "0X") {
				if r, ok := new(big.Rat).SetString(txt); ok {
					return r, true
				}
			}
		}
	case *ast.UnaryExpr:
		if n.Op == token.SUB {
			if r, ok := exactConst(info, n.X); ok {
				return new(big.Rat).Neg(r), true
			}
		}
		if n.Op == token.ADD {
			return exactConst(info, n.X)
		}
	case *ast.Ident:
		if c, ok := info.Uses[n].(*types.Const); ok {
			if r, ok := new(big.Rat).SetString(c.Val().ExactString()); ok {
				return r, true
			}
		}
	case *ast.BinaryExpr:
		a, ok1 := exactConst(info, n.X)
		b, ok2 := exactConst(info, n.Y)
		if ok1 && ok2 && isFloat(tv.Type) {
			switch n.Op {
			case token.ADD:
				return new(big.Rat).Add(a, b), true
			case token.SUB:
				return new(big.Rat).Sub(a, b), true
			case token.MUL:
				return new(big.Rat).Mul(a, b), true
			case token.QUO:
				if b.Sign() != 0 {
					return new(big.Rat).Quo(a, b), true
				}
			}
		}
	}
	r, ok := new(big.Rat).SetString(tv.Value.ExactString())
	return r, ok
}

// listValue converts a composite literal of constants (nested lists, arrays
// and structs) into a VList / VStruct.
func (p *Pkg) listValue(e ast.Expr) (Val, bool) {
	return p.listValueDepth(e, 0)
}

func (p *Pkg) listValueDepth(e ast.Expr, depth int) (Val, bool) {
	if depth > 6 {
		return Val{}, false
	}
	if pe, ok := e.(*ast.ParenExpr); ok {
		return p.listValueDepth(pe.X, depth)
	}
	// a reference to another package-level table
	if id, ok := e.(*ast.Ident); ok {
		if pv, isVar := p.Info.Uses[id].(*types.Var); isVar && pv.Parent() == p.P.Types.Scope() {
			if p.pkgVarWritten(pv) {
				return Val{}, false // filled in at init time: not a table of constants
			}
			if init := p.pkgVarInit(pv); init != nil {
				return p.listValueDepth(init, depth+1)
			}
			return Val{}, false
		}
	}
	// a constant slice of another table: base[:], base[lo:hi]
	if se, ok := e.(*ast.SliceExpr); ok && !se.Slice3 {
		base, ok := p.listValueDepth(se.X, depth+1)
		if !ok || base.K != VList {
			return Val{}, false
		}
		lo, hi := 0, len(base.T)
		if se.Low != nil {
			k, ok := constUint(p.Info, se.Low)
			if !ok {
				return Val{}, false
			}
			lo = int(k)
		}
		if se.High != nil {
			k, ok := constUint(p.Info, se.High)
			if !ok {
				return Val{}, false
			}
			hi = int(k)
		}
		if lo > hi || hi > len(base.T) {
			return Val{}, false
		}
		return Val{K: VList, T: base.T[lo:hi]}, true
	}
	// &T{…} inside a table: the record itself
	if u, ok := e.(*ast.UnaryExpr); ok && u.Op == token.AND {
		if v, ok := p.listValueDepth(u.X, depth+1); ok && v.K == VStruct {
			v.I = 1
			return v, true
		}
		return Val{}, false
	}
	cl, ok := e.(*ast.CompositeLit)
	if !ok {
		if tv, ok := p.Info.Types[e]; ok && tv.Value != nil {
			if isFloat(tv.Type) {
				if r, ok := exactConst(p.Info, e); ok {
					return Val{K: VRat, R: r}, true
				}
			}
			return constVal(tv)
		}
		return Val{}, false
	}
	tv, hasT := p.Info.Types[cl]
	if hasT {
		if st, ok := tv.Type.Underlying().(*types.Struct); ok {
			fields := map[string]Val{}
			for i := 0; i < st.NumFields(); i++ {
				fields[st.Field(i).Name()] = zeroOf(st.Field(i).Type())
			}
			for i, el := range cl.Elts {
				name := ""
				v := el
				if kv, ok := el.(*ast.KeyValueExpr); ok {
					id, ok := kv.Key.(*ast.Ident)
					if !ok {
						return Val{}, false
					}
					name = id.Name
					v = kv.Value
				} else if i < st.NumFields() {
					name = st.Field(i).Name()
				}
				c, ok := p.listValueDepth(v, depth+1)
				if !ok {
					return Val{}, false
				}
				fields[name] = c
			}
			name := ""
			if named, ok := tv.Type.(*types.Named); ok {
				name = named.Obj().Name()
			}
			return Val{K: VStruct, F: fields, S: name}, true
		}
	}
	if hasT {
		if mt, ok := tv.Type.Underlying().(*types.Map); ok {
			out := Val{K: VMap, F: map[string]Val{}, T: []Val{zeroOf(mt.Elem())}}
			for _, el := range cl.Elts {
				kv, ok := el.(*ast.KeyValueExpr)
				if !ok {
					return Val{}, false
				}
				ks, ok := constString(p.Info, kv.Key)
				if !ok {
					return Val{}, false
				}
				v, ok := p.listValueDepth(kv.Value, depth+1)
				if !ok {
					return Val{}, false
				}
				out.F[ks] = v
			}
			return out, true
		}
	}
	var out []Val
	idx := 0
	// elements skipped by keyed entries hold the element type's zero value
	gap := Val{K: VList}
	if hasT {
		switch u := tv.Type.Underlying().(type) {
		case *types.Array:
			gap = zeroOf(u.Elem())
		case *types.Slice:
			gap = zeroOf(u.Elem())
		}
	}
	if gap.K == VNil || gap.K == VOpaque {
		gap = Val{K: VList}
	}
	for _, el := range cl.Elts {
		v := el
		if kv, ok := el.(*ast.KeyValueExpr); ok {
			k, ok := constUint(p.Info, kv.Key)
			if !ok {
				return Val{}, false
			}
			idx = int(k)
			v = kv.Value
		}
		c, ok := p.listValueDepth(v, depth+1)
		if !ok {
			return Val{}, false
		}
		for len(out) <= idx {
			out = append(out, gap)
		}
		out[idx] = c
		idx++
	}
	// fixed-size arrays are zero-filled up to their length
	if hasT {
		if at, ok := tv.Type.Underlying().(*types.Array); ok {
			for int64(len(out)) < at.Len() {
				out = append(out, zeroOf(at.Elem()))
			}
		}
	}
	return Val{K: VList, T: out}, true
}

// stdlibSummary: exact summaries of a few pure, non-allocating library
// functions that refactorings substitute for hand-written loops.
func stdlibSummary(fn *types.Func, args []Val, at ast.Node) (Val, bool, error) {
	if fn.Pkg() == nil {
		return Val{}, false, nil
	}
	path, name := fn.Pkg().Path(), fn.Name()
	switch {
	case path == "slices" && (name == "Index" || name == "Contains") && len(args) == 2 && args[0].K == VList:
		for i, v := range args[0].T {
			if eq, err := valEq(v, args[1], at); err == nil && eq {
				if name == "Contains" {
					return vBool(true), true, nil
				}
				return vInt(int64(i)), true, nil
			}
		}
		if name == "Contains" {
			return vBool(false), true, nil
		}
		return vInt(-1), true, nil
	case path == "bytes" && name == "IndexByte" && len(args) == 2 && args[0].K == VList && args[1].K == VInt:
		for i, v := range args[0].T {
			if v.K == VInt && v.I == args[1].I {
				return vInt(int64(i)), true, nil
			}
		}
		return vInt(-1), true, nil
	case path == "strings" && name == "IndexByte" && len(args) == 2 && args[0].K == VStr && args[1].K == VInt:
		return vInt(int64(strings.IndexByte(args[0].S, byte(args[1].I)))), true, nil
	case path == "cmp" && name == "Or" && len(args) >= 1:
		// the first argument that is not the zero value, else the zero value
		for _, a := range args {
			switch a.K {
			case VInt:
				if a.I != 0 {
					return a, true, nil
				}
			case VStr:
				if a.S != "" {
					return a, true, nil
				}
			default:
				return Val{}, false, nil
			}
		}
		return args[len(args)-1], true, nil
	case path == "strings" && name == "CutPrefix" && len(args) == 2 && args[0].K == VStr && args[1].K == VStr:
		a, ok := strings.CutPrefix(args[0].S, args[1].S)
		return Val{K: VTuple, T: []Val{vStr(a), vBool(ok)}}, true, nil
	case path == "strings" && name == "HasPrefix" && len(args) == 2 && args[0].K == VStr && args[1].K == VStr:
		return vBool(strings.HasPrefix(args[0].S, args[1].S)), true, nil
	case path == "strings" && name == "Cut" && len(args) == 2 && args[0].K == VStr && args[1].K == VStr:
		a, b, ok := strings.Cut(args[0].S, args[1].S)
		return Val{K: VTuple, T: []Val{vStr(a), vStr(b), vBool(ok)}}, true, nil
	case path == "math/bits" && len(args) == 1 && args[0].K == VInt:
		switch name {
		case "TrailingZeros32":
			return vInt(int64(bits.TrailingZeros32(uint32(args[0].I)))), true, nil
		case "TrailingZeros64", "TrailingZeros":
			return vInt(int64(bits.TrailingZeros64(uint64(args[0].I)))), true, nil
		case "OnesCount32":
			return vInt(int64(bits.OnesCount32(uint32(args[0].I)))), true, nil
		case "Len8":
			return vInt(int64(bits.Len8(uint8(args[0].I)))), true, nil
		}
	}
	return Val{}, false, nil
}

// pkgVarWritten: some statement of the package assigns to the variable, to one
// of its elements or fields (including init functions).
func (p *Pkg) pkgVarWritten(v *types.Var) bool {
	if p.pkgVarWritten0(v) {
		return true
	}
	_, isArr := v.Type().Underlying().(*types.Array)
	if isRefLike(v.Type()) || isArr {
		w, _ := p.refMayBeWritten(v)
		return w
	}
	return false
}

// pkgVarWritten0: the writes whose target is textually rooted at the variable.
func (p *Pkg) pkgVarWritten0(v *types.Var) bool {
	if p.varWritten == nil {
		p.varWritten = map[*types.Var]bool{}
		root := func(e ast.Expr) *types.Var {
			for {
				switch x := e.(type) {
				case *ast.ParenExpr:
					e = x.X
				case *ast.IndexExpr:
					e = x.X
				case *ast.SelectorExpr:
					if sel := p.Info.Selections[x]; sel != nil {
						e = x.X
						continue
					}
					return nil
				case *ast.StarExpr:
					e = x.X
				case *ast.SliceExpr:
					e = x.X
				case *ast.Ident:
					pv, _ := p.Info.Uses[x].(*types.Var)
					if pv != nil && pv.Parent() == p.P.Types.Scope() {
						return pv
					}
					return nil
				default:
					return nil
				}
			}
		}
		for _, f := range p.P.Syntax {
			ast.Inspect(f, func(n ast.Node) bool {
				switch st := n.(type) {
				case *ast.AssignStmt:
					for _, l := range st.Lhs {
						if pv := root(l); pv != nil {
							p.varWritten[pv] = true
						}
					}
				case *ast.IncDecStmt:
					if pv := root(st.X); pv != nil {
						p.varWritten[pv] = true
					}
				case *ast.RangeStmt:
					if st.Tok == token.ASSIGN {
						for _, l := range []ast.Expr{st.Key, st.Value} {
							if l != nil {
								if pv := root(l); pv != nil {
									p.varWritten[pv] = true
								}
							}
						}
					}
				}
				return true
			})
		}
	}
	return p.varWritten[v]
}

// ---------------------------------------------------------------------------
// partial evaluation: branches under unknown conditions

func valSame(a, b Val) bool {
	if a.K != b.K {
		return false
	}
	switch a.K {
	case VInt, VBool:
		return a.I == b.I
	case VStr, VOpaque:
		return a.S == b.S
	case VRat:
		return a.R.Cmp(b.R) == 0
	case VNil, VNaN:
		return true
	case VTuple, VList:
		if len(a.T) != len(b.T) {
			return false
		}
		for i := range a.T {
			if !valSame(a.T[i], b.T[i]) {
				return false
			}
		}
		return true
	case VStruct:
		if len(a.F) != len(b.F) || a.S != b.S {
			return false
		}
		for k, v := range a.F {
			w, ok := b.F[k]
			if !ok || !valSame(v, w) {
				return false
			}
		}
		return true
	}
	return false
}

// mergeUnk: what two possible values agree on
func mergeUnk(a, b Val) Val {
	if valSame(a, b) {
		return a
	}
	if a.K == VTuple && b.K == VTuple && len(a.T) == len(b.T) {
		out := Val{K: VTuple}
		for i := range a.T {
			out.T = append(out.T, mergeUnk(a.T[i], b.T[i]))
		}
		return out
	}
	if a.K == VStruct && b.K == VStruct && a.S == b.S && len(a.F) == len(b.F) {
		out := Val{K: VStruct, S: a.S, I: a.I, F: map[string]Val{}}
		for k, v := range a.F {
			out.F[k] = mergeUnk(v, b.F[k])
		}
		return out
	}
	return Val{K: VUnk}
}

func (e *cEnv) execUnknownClauses(cls []*ast.CaseClause, orNothing bool, at ast.Node) (ctrl, Val, error) {
	var branches [][]ast.Stmt
	for _, cc := range cls {
		for _, bs := range cc.Body {
			if br, ok := bs.(*ast.BranchStmt); ok && br.Tok == token.FALLTHROUGH {
				return cNext, Val{}, undecidedf(bs, "fallthrough")
			}
		}
		branches = append(branches, cc.Body)
	}
	if orNothing {
		branches = append(branches, nil)
	}
	ct, v, err := e.execUnknown(branches, at)
	if ct == cBreak {
		ct = cNext
	}
	return ct, v, err
}

// execUnknown runs every branch on a copy of the variables and merges the
// outcomes: variables keep the values all branches agree on, a value returned
// by some branches only is remembered and merged into the function's result.
func (e *cEnv) execUnknown(branches [][]ast.Stmt, at ast.Node) (ctrl, Val, error) {
	snap := make(map[types.Object]Val, len(e.vars))
	for k, v := range e.vars {
		snap[k] = v
	}
	type outc struct {
		ct   ctrl
		v    Val
		vars map[types.Object]Val
	}
	var outs []outc
	for _, b := range branches {
		e.vars = make(map[types.Object]Val, len(snap))
		for k, v := range snap {
			e.vars[k] = v
		}
		ct, v, err := e.execBlock(b)
		if err != nil {
			return cNext, Val{}, err
		}
		outs = append(outs, outc{ct, v, e.vars})
	}
	var cont []outc
	var rets []Val
	var flow ctrl = cNext
	first := true
	for _, o := range outs {
		if o.ct == cReturn {
			rets = append(rets, o.v)
			continue
		}
		if first {
			flow, first = o.ct, false
		} else if o.ct != flow {
			return cNext, Val{}, undecidedf(at, "branches under an unknown condition leave a loop in different ways")
		}
		cont = append(cont, o)
	}
	if len(cont) == 0 {
		v := rets[0]
		for _, r := range rets[1:] {
			v = mergeUnk(v, r)
		}
		e.vars = snap
		return cReturn, v, nil
	}
	merged := map[types.Object]Val{}
	for k, v := range cont[0].vars {
		ok := true
		mv := v
		for _, o := range cont[1:] {
			w, has := o.vars[k]
			if !has {
				ok = false
				break
			}
			mv = mergeUnk(mv, w)
		}
		if ok {
			merged[k] = mv
		}
	}
	e.vars = merged
	for _, r := range rets {
		if e.pendingRet == nil {
			rr := r
			e.pendingRet = &rr
		} else {
			m := mergeUnk(*e.pendingRet, r)
			e.pendingRet = &m
		}
	}
	return flow, Val{}, nil
}

// writesRecv: the method assigns to (a field of) its receiver.
func writesRecv(info *types.Info, fd *ast.FuncDecl, ro types.Object) bool {
	w := false
	ast.Inspect(fd.Body, func(x ast.Node) bool {
		switch st := x.(type) {
		case *ast.AssignStmt:
			for _, l := range st.Lhs {
				if nodeMentions(info, l, ro) {
					w = true
				}
			}
		case *ast.IncDecStmt:
			if nodeMentions(info, st.X, ro) {
				w = true
			}
		}
		return true
	})
	return w
}
