package main

// Structure of (*CVSS40).Score, part 4 — the interpolation as a function.
//
//  R04.ranksum  all highest-severity vectors of one EQ level have the same
//               severity-rank sum (in the code's own sevIdx order), so the
//               severity distance of a vector does not depend on WHICH acceptable
//               highest-severity vector the nested search ends up with;
//  R04.cover    every combination of effective values that belongs to a level is
//               dominated (component-wise at least as severe) by one of the
//               level's listed vectors, so the search always finds one;
//  R04.range    with (1) and (2) the severity distance is rank-sum(vector) −
//               rank-sum(level); the exact pre-rounding score
//               lookup − mean(msd·distance/(depth+1)) is then tabulated in exact
//               rationals for every MacroVector and every achievable distance
//               tuple: it stays within [0,10] and (R04.float) is farther from a
//               rounding discontinuity than any float64 evaluation error, except
//               for exact x.x5 ties, which are counted and not decided.
//
// Everything is computed from the code's own tables (lookup, depths, severity
// rows, highest-severity vectors), which the other R04 rules compare with the
// specification.

import (
	"fmt"
	"go/ast"
	"math"
	"math/big"
	"sort"
	"strings"
)

// effective-value domain of a scored v4 metric
func (p *Pkg) v4EffDomain(metric string) []string {
	switch metric {
	case "CR", "IR", "AR":
		var out []string
		for _, v := range p.atomDomain(metric) {
			if v != "X" {
				out = append(out, v)
			}
		}
		return out
	case "E":
		return []string{"A", "P", "U"}
	}
	return p.atomDomain("e" + metric)
}

func (w *World) checkInterp(m *scoreModel, add func(ok bool, rule, inst string, n ast.Node, detail string)) {
	p := m.p
	fd := m.fd
	if m.rank == nil || m.maxes == nil || m.depth1 == nil || m.table == nil {
		add(true, "R04.range", "Score.interp", fd, "not decided in this run: severity rows, highest-severity vectors or depths were not recognised (reported by R04.sev / R04.max / R04.depth)")
		return
	}
	levelsOf := map[string]map[string][]v4tuple{} // EQ -> level -> tuples
	undecided := false
	for _, K := range []string{"1", "2", "36", "4"} {
		ms := eqMetrics[K]
		var doms [][]string
		for _, mm := range ms {
			d := p.v4EffDomain(mm)
			if len(d) == 0 || m.rank[mm] == nil {
				undecided = true
			}
			doms = append(doms, d)
		}
		if undecided {
			break
		}
		levelsOf[K] = map[string][]v4tuple{}
		cur := make([]int, len(ms))
		var rec func(i int)
		rec = func(i int) {
			if i == len(ms) {
				ev := effView{}
				sum := 0
				vals := map[string]string{}
				for j, mm := range ms {
					v := doms[j][cur[j]]
					ev[mm] = v
					vals[mm] = v
					r, ok := m.rank[mm][v]
					if !ok {
						undecided = true
					}
					sum += r
				}
				var lvl string
				switch K {
				case "36":
					lvl = fmt.Sprintf("%d%d", eqOracle[3](ev), eqOracle[6](ev))
				default:
					lvl = fmt.Sprint(eqOracle[int(K[0]-'0')](ev))
				}
				levelsOf[K][lvl] = append(levelsOf[K][lvl], v4tuple{vals, sum})
				return
			}
			for c := range doms[i] {
				cur[i] = c
				rec(i + 1)
			}
		}
		rec(0)
	}
	if undecided {
		add(true, "R04.range", "Score.interp", fd, "not decided in this run: a scored metric has no severity rank (reported by R04.sev)")
		return
	}
	// R04.ranksum + R04.cover
	levelSum := map[string]map[string]int{}
	okStruct := true
	for _, K := range []string{"1", "2", "36", "4"} {
		levelSum[K] = map[string]int{}
		var lvls []string
		for l := range levelsOf[K] {
			lvls = append(lvls, l)
		}
		sort.Strings(lvls)
		for _, l := range lvls {
			inst := "max[EQ" + K + "][" + l + "]"
			maxes := m.maxes[K][l]
			if len(maxes) == 0 {
				okStruct = false
				add(false, "R04.cover", inst, fd, fmt.Sprintf("level %s of EQ%s is reachable (%d value combinations) but has no highest-severity vector", l, K, len(levelsOf[K][l])))
				continue
			}
			sums := map[int]bool{}
			var sumList []string
			for _, mv := range maxes {
				s := 0
				for mm, v := range mv {
					s += m.rank[mm][v]
				}
				sums[s] = true
				sumList = append(sumList, fmt.Sprint(s))
				levelSum[K][l] = s
			}
			if len(sums) == 1 {
				add(true, "R04.ranksum", inst, fd, fmt.Sprintf("%d highest-severity vector(s), all with severity-rank sum %d: the distance does not depend on which acceptable one the search keeps", len(maxes), levelSum[K][l]))
			} else {
				okStruct = false
				add(false, "R04.ranksum", inst, fd, fmt.Sprintf("the highest-severity vectors of this level have different severity-rank sums %v: the score depends on which one the nested search happens to keep (the loops keep the last acceptable EQ1/EQ2/EQ3+6 vector)", sumList))
			}
			uncovered := 0
			ex := ""
			for _, t := range levelsOf[K][l] {
				covered := false
				for _, mv := range maxes {
					dom := true
					for mm, v := range t.vals {
						if m.rank[mm][mv[mm]] > m.rank[mm][v] {
							dom = false
						}
					}
					if dom {
						covered = true
						break
					}
				}
				if !covered {
					uncovered++
					if ex == "" {
						var parts []string
						for _, mm := range eqMetrics[K] {
							parts = append(parts, mm+":"+t.vals[mm])
						}
						ex = strings.Join(parts, "/")
					}
				}
			}
			if uncovered == 0 {
				add(true, "R04.cover", inst, fd, fmt.Sprintf("each of the %d value combinations of this level is dominated by a listed highest-severity vector: the search always succeeds", len(levelsOf[K][l])))
			} else {
				okStruct = false
				add(false, "R04.cover", inst, fd, fmt.Sprintf("%d value combinations of this level (e.g. %s) are dominated by none of the listed vectors: every candidate is skipped and the distances keep their zero value", uncovered, ex))
			}
		}
	}
	if !okStruct {
		return
	}
	// achievable distances per EQ level
	dists := map[string]map[string][]int{}
	for K, byLevel := range levelsOf {
		dists[K] = map[string][]int{}
		for l, ts := range byLevel {
			seen := map[int]bool{}
			for _, t := range ts {
				d := t.sum - levelSum[K][l]
				if !seen[d] {
					seen[d] = true
					dists[K][l] = append(dists[K][l], d)
				}
			}
			sort.Ints(dists[K][l])
		}
	}
	// exact tabulation over MacroVectors x achievable distance tuples
	var keys []string
	for k := range m.table {
		keys = append(keys, k)
	}
	sort.Strings(keys)
	total, ties, negDist := 0, 0, 0
	classVals := map[string]*big.Rat{} // distinct exact pre-rounding values
	classOf := map[string]*big.Rat{}   // "key|d1|d2|d36|d4" -> exact pre-rounding value
	var minV, maxV *big.Rat
	var minEx, maxEx, tieEx string
	minGap := big.NewRat(1, 1) // distance of 10*value to the nearest half-integer, over non-ties
	half := big.NewRat(1, 2)
	ten := big.NewRat(10, 1)
	for _, key := range keys {
		msd, lower := nextLowerMSD(m.table, key)
		lv := map[string]string{"1": key[0:1], "2": key[1:2], "4": key[3:4], "36": key[2:3] + key[5:6]}
		ok := true
		for _, K := range []string{"1", "2", "36", "4"} {
			if len(dists[K][lv[K]]) == 0 || m.depth1[K] == nil || m.depth1[K][lv[K]] == nil {
				ok = false
			}
		}
		if !ok {
			add(false, "R04.range", "Score.key["+key+"]", fd, "MacroVector "+key+" combines levels for which no value combination, depth or highest-severity vector exists")
			continue
		}
		for _, d1 := range dists["1"][lv["1"]] {
			for _, d2 := range dists["2"][lv["2"]] {
				for _, d36 := range dists["36"][lv["36"]] {
					for _, d4 := range dists["4"][lv["4"]] {
						total++
						if d1 < 0 || d2 < 0 || d36 < 0 || d4 < 0 {
							negDist++
						}
						sum := new(big.Rat)
						for _, t := range []struct {
							K string
							d int
						}{{"1", d1}, {"2", d2}, {"36", d36}, {"4", d4}} {
							x := new(big.Rat).Mul(msd[t.K], big.NewRat(int64(t.d), 1))
							x.Quo(x, m.depth1[t.K][lv[t.K]])
							sum.Add(sum, x)
						}
						v := new(big.Rat).Set(m.table[key])
						if lower != 0 {
							v.Sub(v, new(big.Rat).Quo(sum, big.NewRat(int64(lower), 1)))
						}
						desc := fmt.Sprintf("MacroVector %s, distances EQ1=%d EQ2=%d EQ3+6=%d EQ4=%d: exact value %s", key, d1, d2, d36, d4, v.FloatString(6))
						if minV == nil || v.Cmp(minV) < 0 {
							minV, minEx = v, desc
						}
						if maxV == nil || v.Cmp(maxV) > 0 {
							maxV, maxEx = v, desc
						}
						classVals[v.RatString()] = v
						classOf[fmt.Sprintf("%s|%d|%d|%d|%d", key, d1, d2, d36, d4)] = v
						x10 := new(big.Rat).Mul(v, ten)
						fr := new(big.Rat).Sub(x10, ratFloor(x10))
						gap := new(big.Rat).Sub(fr, half)
						gap.Abs(gap)
						if gap.Sign() == 0 {
							ties++
							if tieEx == "" {
								tieEx = desc
							}
						} else if gap.Cmp(minGap) < 0 {
							minGap = gap
						}
					}
				}
			}
		}
	}
	if total == 0 {
		return
	}
	w.checkV4Mono(m, levelsOf, levelSum, classOf, add)
	okRange := minV.Sign() >= 0 && maxV.Cmp(ten) <= 0 && negDist == 0
	add(okRange, "R11.range", "Score.interp", fd, fmt.Sprintf("exact pre-rounding v4 score of all %d classes lies in [%s, %s]: within the 0–10 scale", total, minV.FloatString(4), maxV.FloatString(4)))
	add(okRange, "R04.range", "Score.interp", fd, fmt.Sprintf("%d (MacroVector, achievable distance tuple) classes tabulated exactly: pre-rounding score in [%s, %s] (min at %s; max at %s); negative distances: %d", total, minV.FloatString(4), maxV.FloatString(4), minEx, maxEx, negDist))
	// R04.round: the rounding helper, evaluated under the float64 error model on
	// every distinct exact value (the value reaches it with an evaluation error
	// below 1e-12: lookup − (Σ msd·d/(depth+1))/lower is a dozen operations on
	// numbers <= 10), returns exactly the half-up one-decimal rounding.
	gapF, _ := minGap.Float64()
	if m.roundTree == nil {
		add(true, "R04.float", "Score.interp", fd, "not decided in this run: rounding helper not recognised (reported by R04.round)")
	} else {
		root, err := compileF(m.roundTree, nil, nil, nil, nil)
		if err != nil {
			add(false, "R04.round", "round", m.roundFn, "cannot model the rounding helper (undecided): "+err.Error())
		} else {
			mono := monotoneTree(m.roundTree)
			eps := big.NewRat(1, 100_000_000_000) // 1e-11 >> any float64 evaluation error of the pre-rounding value and of the helper's own operations
			wrong, unstable := 0, 0
			wrongEx, unstEx := "", ""
			env := &rtEnv{}
			for _, v := range classVals {
				x10 := new(big.Rat).Mul(v, ten)
				want := new(big.Rat).Quo(ratFloor(new(big.Rat).Add(x10, half)), ten)
				if mono {
					// a monotone helper maps the whole interval [v-eps, v+eps] between its images of the endpoints
					lo, err1 := env.eval(m.roundTree, map[string]*big.Rat{"x": new(big.Rat).Sub(v, eps)}, nil)
					hi, err2 := env.eval(m.roundTree, map[string]*big.Rat{"x": new(big.Rat).Add(v, eps)}, nil)
					if err1 != nil || err2 != nil {
						unstable++
						continue
					}
					switch {
					case lo.Cmp(hi) != 0:
						unstable++
						if unstEx == "" {
							unstEx = fmt.Sprintf("exact value %s: values just below it give %s, values just above give %s", v.FloatString(6), lo.FloatString(1), hi.FloatString(1))
						}
					case lo.Cmp(want) != 0:
						wrong++
						if wrongEx == "" {
							wrongEx = fmt.Sprintf("exact value %s is rounded to %s, half-up gives %s", v.FloatString(6), lo.FloatString(1), want.FloatString(1))
						}
					}
					continue
				}
				f, _ := v.Float64()
				st := fstats{}
				r := root.eval(nil, fval{v: f, e: 1e-12}, &st)
				wf, _ := want.Float64()
				if st.unstable > 0 {
					unstable++
					if unstEx == "" {
						unstEx = fmt.Sprintf("exact value %s (%s)", v.FloatString(6), st.why)
					}
					continue
				}
				if math.Abs(r.v-wf) > 1e-9 {
					wrong++
					if wrongEx == "" {
						wrongEx = fmt.Sprintf("exact value %s is rounded to %.1f, half-up gives %.1f", v.FloatString(6), r.v, wf)
					}
				}
			}
			how := "float64 error model"
			if mono {
				how = "monotone helper, exact evaluation at value ± 1e-11"
			}
			switch {
			case wrong > 0:
				add(false, "R04.round", "round["+m.roundFn.Name.Name+"]", m.roundFn, fmt.Sprintf("%d of %d distinct pre-rounding values are not rounded half-up to one decimal, e.g. %s", wrong, len(classVals), wrongEx))
			case unstable > 0:
				add(false, "R04.round", "round["+m.roundFn.Name.Name+"]", m.roundFn, fmt.Sprintf("%d of %d distinct pre-rounding values are rounded half-up whatever the float64 evaluation error (%s); %d sit on a discontinuity of the helper (exact x.x5 ties: %d classes) whose required result is the upper tenth (half-up) — the helper returns the lower or the upper tenth depending on the sign of the float64 error of `lookup - mean`, so half-up rounding is not guaranteed (it demonstrably fails: see known-findings F2); e.g. %s", len(classVals)-unstable, len(classVals), how, unstable, ties, unstEx))
			default:
				add(true, "R04.round", "round["+m.roundFn.Name.Name+"]", m.roundFn, fmt.Sprintf("all %d distinct exact pre-rounding values (incl. the %d exact x.x5 tie classes) are rounded half-up to one decimal whatever the float64 evaluation error (%s)", len(classVals), ties, how))
			}
			add(true, "R04.float", "Score.interp", fd, fmt.Sprintf("%d classes; %d exact x.x5 ties; all other classes keep 10·value at least %.3g away from a half-integer", total, ties, gapF))
		}
	}
	w.Extra["v4_interp"] = map[string]any{"classes": total, "exact_ties": ties, "min": minV.FloatString(6), "max": maxV.FloatString(6), "min_gap_to_half_integer": gapF}
}

// monotoneTree: the tree is a non-decreasing function of its argument x, by
// construction from non-decreasing steps (rounding, truncation, positive
// scaling, constant offsets).
func monotoneTree(t *Ex) bool {
	posConst := func(e *Ex) bool { return e.Op == "const" && e.C.Sign() > 0 }
	switch t.Op {
	case "const":
		return true
	case "sym":
		return t.Name == "x"
	case "sum":
		for _, a := range t.Args {
			if !monotoneTree(a) {
				return false
			}
		}
		return true
	case "prod":
		nonConst := 0
		for _, a := range t.Args {
			if a.Op == "const" {
				if a.C.Sign() < 0 {
					return false
				}
				continue
			}
			nonConst++
			if !monotoneTree(a) {
				return false
			}
		}
		return nonConst <= 1
	case "div":
		return monotoneTree(t.Args[0]) && posConst(t.Args[1])
	case "call":
		switch t.Name {
		case "Round", "RoundToEven", "Floor", "Ceil", "int", "float":
			return len(t.Args) == 1 && monotoneTree(t.Args[0])
		case "idiv":
			return len(t.Args) == 2 && monotoneTree(t.Args[0]) && posConst(t.Args[1])
		}
	}
	return false
}

type v4tuple struct {
	vals map[string]string
	sum  int
}

// checkV4Mono (R12.v4real): with distance = rank-sum(vector) − rank-sum(level)
// (R04.ranksum/R04.cover) the v4 score is a function of, per EQ, the level and
// the distance (plus "all impacts None" for the 0.0 shortcut). Every
// single-metric step to the next more severe value is examined for every
// combination of the other EQs: the half-up rounded exact score must not
// decrease. Exact rationals throughout (real arithmetic; the float64 side is
// R04.round).
func (w *World) checkV4Mono(m *scoreModel, levelsOf map[string]map[string][]v4tuple, levelSum map[string]map[string]int, classOf map[string]*big.Rat, add func(ok bool, rule, inst string, n ast.Node, detail string)) {
	if w.Wants != nil && !w.Wants("R12.v4real") {
		return
	}
	fd := m.fd
	type desc struct {
		level string
		dist  int
		allN  bool
	}
	type step struct {
		from, to desc
		what     string
	}
	groups := []string{"1", "2", "36", "4"}
	descs := map[string][]desc{}
	steps := map[string][]step{}
	impact := map[string]bool{"VC": true, "VI": true, "VA": true, "SC": true, "SI": true, "SA": true}
	for _, K := range groups {
		index := map[string]desc{}
		keyOf := func(vals map[string]string) string {
			var parts []string
			for _, mm := range eqMetrics[K] {
				parts = append(parts, vals[mm])
			}
			return strings.Join(parts, "/")
		}
		seen := map[desc]bool{}
		for lvl, ts := range levelsOf[K] {
			for _, t := range ts {
				allN := true
				for mm, v := range t.vals {
					if impact[mm] && v != "N" {
						allN = false
					}
				}
				if K != "36" && K != "4" {
					allN = false
				}
				d := desc{lvl, t.sum - levelSum[K][lvl], allN}
				index[keyOf(t.vals)] = d
				if !seen[d] {
					seen[d] = true
					descs[K] = append(descs[K], d)
				}
			}
		}
		for _, ts := range levelsOf[K] {
			for _, t := range ts {
				for _, mm := range eqMetrics[K] {
					r := m.rank[mm][t.vals[mm]]
					if r == 0 {
						continue
					}
					// next more severe value: rank r-1 in the code's severity row
					next := ""
					for v, rr := range m.rank[mm] {
						if rr == r-1 {
							next = v
						}
					}
					if next == "" {
						continue
					}
					nv := map[string]string{}
					for a, b := range t.vals {
						nv[a] = b
					}
					nv[mm] = next
					to, ok := index[keyOf(nv)]
					if !ok {
						continue
					}
					steps[K] = append(steps[K], step{index[keyOf(t.vals)], to, fmt.Sprintf("%s with %s:%s->%s", keyOf(t.vals), mm, t.vals[mm], next)})
				}
			}
		}
	}
	ten := big.NewRat(10, 1)
	half := big.NewRat(1, 2)
	score := func(d map[string]desc, e int) (*big.Rat, bool) {
		if d["36"].allN && d["4"].allN {
			return new(big.Rat), true
		}
		key := d["1"].level + d["2"].level + d["36"].level[0:1] + d["4"].level + fmt.Sprint(e) + d["36"].level[1:2]
		v, ok := classOf[fmt.Sprintf("%s|%d|%d|%d|%d", key, d["1"].dist, d["2"].dist, d["36"].dist, d["4"].dist)]
		if !ok {
			return nil, false
		}
		x := new(big.Rat).Mul(v, ten)
		return new(big.Rat).Quo(ratFloor(x.Add(x, half)), ten), true
	}
	// dense table of rounded scores (in tenths; -1 = no class) over descriptor indexes
	n1, n2, n36, n4 := len(descs["1"]), len(descs["2"]), len(descs["36"]), len(descs["4"])
	tab := make([]int32, n1*n2*n36*n4*3)
	at := func(i1, i2, i36, i4, e int) int { return (((i1*n2+i2)*n36+i36)*n4+i4)*3 + e }
	for i1, a := range descs["1"] {
		for i2, b := range descs["2"] {
			for i36, c := range descs["36"] {
				for i4, d4 := range descs["4"] {
					for e := 0; e < 3; e++ {
						s, ok := score(map[string]desc{"1": a, "2": b, "36": c, "4": d4}, e)
						if !ok {
							tab[at(i1, i2, i36, i4, e)] = -1
							continue
						}
						x := new(big.Rat).Mul(s, ten)
						tab[at(i1, i2, i36, i4, e)] = int32(x.Num().Int64())
					}
				}
			}
		}
	}
	idxOf := map[string]map[desc]int{}
	for _, K := range groups {
		idxOf[K] = map[desc]int{}
		for i, d := range descs[K] {
			idxOf[K][d] = i
		}
	}
	nSteps, bad, missing := 0, 0, 0
	first := ""
	dims := map[string]int{"1": n1, "2": n2, "36": n36, "4": n4}
	for _, K := range groups {
		for _, st := range steps[K] {
			fi, ti := idxOf[K][st.from], idxOf[K][st.to]
			var ix [4]int // indexes for groups in order 1,2,36,4
			var rec func(g int)
			rec = func(g int) {
				if g == 4 {
					for e := 0; e < 3; e++ {
						from, to := ix, ix
						for gi, G := range groups {
							if G == K {
								from[gi], to[gi] = fi, ti
							}
						}
						s1 := tab[at(from[0], from[1], from[2], from[3], e)]
						s2 := tab[at(to[0], to[1], to[2], to[3], e)]
						if s1 < 0 || s2 < 0 {
							missing++
							continue
						}
						nSteps++
						if s2 < s1 {
							bad++
							if first == "" {
								first = fmt.Sprintf("EQ%s %s (other EQs at descriptor indexes %v, EQ5 level %d): %.1f -> %.1f", K, st.what, ix, e, float64(s1)/10, float64(s2)/10)
							}
						}
					}
					return
				}
				if groups[g] == K {
					rec(g + 1)
					return
				}
				for i := 0; i < dims[groups[g]]; i++ {
					ix[g] = i
					rec(g + 1)
				}
			}
			rec(0)
		}
	}
	// E steps: eq5 level e -> e-1 (U -> P -> A) with everything else fixed
	for i1 := 0; i1 < n1; i1++ {
		for i2 := 0; i2 < n2; i2++ {
			for i36 := 0; i36 < n36; i36++ {
				for i4 := 0; i4 < n4; i4++ {
					for e := 2; e >= 1; e-- {
						s1, s2 := tab[at(i1, i2, i36, i4, e)], tab[at(i1, i2, i36, i4, e-1)]
						if s1 < 0 || s2 < 0 {
							missing++
							continue
						}
						nSteps++
						if s2 < s1 {
							bad++
							if first == "" {
								first = fmt.Sprintf("E from level %d to %d (descriptor indexes %d %d %d %d): %.1f -> %.1f", e, e-1, i1, i2, i36, i4, float64(s1)/10, float64(s2)/10)
							}
						}
					}
				}
			}
		}
	}
	switch {
	case missing > 0:
		add(true, "R12.v4real", "Score.monotone", fd, fmt.Sprintf("not decided in this run: %d (level, distance) combinations have no tabulated class", missing))
	case bad == 0:
		add(true, "R12.v4real", "Score.monotone", fd, fmt.Sprintf("%d single-metric severity steps (every value combination of the stepped EQ x every (level, distance) class of the other EQs x E) examined on the exact half-up rounded score: none lowers it", nSteps))
	default:
		add(false, "R12.v4real", "Score.monotone", fd, fmt.Sprintf("%d of %d single-metric severity steps lower the exact score, e.g. %s", bad, nSteps, first))
	}
	w.Extra["v4_monotone_steps"] = nSteps
}
