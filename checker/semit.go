package main

// Symbolic emission model (Vector): Vector() is interpreted over symbolic
// strings. The only symbolic inputs are the strings Get prints for each metric
// (`GV(label)`), everything else (constants, the order table, loop counters) is
// concrete. A byte buffer is a sequence of pieces — literal text, GV(label), or
// a guarded alternative — and an `if` on a symbolic condition executes both
// branches on copies of the state and merges them (buffers keep their common
// prefix and guard the rest). The result is the exact shape of the string
// Vector() builds, for every object, whatever helpers, loops or tables the
// implementation uses; it is converted to the EmitModel the R02.*/R08.* rules
// are written against. Nothing is executed by the Go runtime.

import (
	"fmt"
	"go/ast"
	"go/token"
	"go/types"
	"sort"
	"strings"
)

type sk uint8

const (
	skConc   sk = iota // concrete evaluator value in c
	skGet              // the string Get prints for metric `label`
	skBool             // symbolic boolean f
	skBuf              // byte buffer (or its string view): pieces
	skPtr              // pointer to a local variable
	skRecv             // the receiver object (value or pointer)
	skTuple            // multi-value
	skIte              // f ? a : b
	skUnk              // unknown number (results of the sizing function)
	skStruct           // record of values (flag sets, typed error literals): fields
	skBits             // integer whose bits are formulas (bit sets): bits, LSB first
	skArr              // fixed array of values: elems
	skLin              // integer as a linear form: lbase + Σ [guard]·k (+ len(GV(label))): lterms
)

type sval struct {
	k      sk
	c      Val
	label  string
	f      *bform
	pieces []piece
	mk     *ast.CallExpr
	ref    *sref
	t      []sval
	a, b   *sval
	// skStruct
	typ    string // name of the struct type
	fields map[string]sval
	isPtr  bool // built as &T{…}: a non-nil pointer
	// skBits / skArr
	bits  []*bform
	elems []sval
	// skLin
	lbase  int64
	lterms []linTerm
	// skUnk: the unknown number is known to be at least one (the length of a
	// buffer that already holds a non-empty literal)
	minOne bool
}

type linTerm struct {
	guard *bform // nil = always
	k     int64
	lenOf string // when set, the term is len(GV(lenOf)) instead of k
}

// semitLinearInts: integers that differ between merged branches become linear
// forms (sizing functions) instead of bit vectors (bit sets). Set only while a
// sizing function is interpreted.
var semitLinearInts bool

func asLin(v sval) (sval, bool) {
	switch {
	case v.k == skLin:
		return v, true
	case v.k == skConc && v.c.K == VInt:
		return sval{k: skLin, lbase: v.c.I}, true
	}
	return sval{}, false
}

func linTermEq(a, b linTerm) bool {
	ga, gb := "", ""
	if a.guard != nil {
		ga = a.guard.String()
	}
	if b.guard != nil {
		gb = b.guard.String()
	}
	return ga == gb && a.k == b.k && a.lenOf == b.lenOf
}

type sref struct {
	depth int
	obj   types.Object
	path  []spath // fields / array elements below the variable
}

type spath struct {
	field string
	idx   int
}

type piece struct {
	lit   string   // literal text (guard == nil, label == "")
	src   ast.Expr // expression the literal came from
	label string   // GV(label)
	guard *bform   // guarded alternative
	then  []piece
	els   []piece
	at    ast.Node
}

// boolean formulas over atoms GV(label) == lit
type bform struct {
	op    string // "atom", "not", "and", "or", "true", "false"
	label string
	lit   string
	x, y  *bform
	str   string // cached String()
}

func bAtom(l, s string) *bform { return &bform{op: "atom", label: l, lit: s} }
func bNot(x *bform) *bform {
	switch x.op {
	case "true":
		return &bform{op: "false"}
	case "false":
		return &bform{op: "true"}
	case "not":
		return x.x
	}
	return &bform{op: "not", x: x}
}
func bAnd(x, y *bform) *bform {
	if x == nil || x.op == "true" {
		return y
	}
	if y == nil || y.op == "true" {
		return x
	}
	if x.op == "false" || y.op == "false" {
		return &bform{op: "false"}
	}
	return &bform{op: "and", x: x, y: y}
}
func bOr(x, y *bform) *bform {
	if x == nil || y == nil {
		return nil
	}
	if x.op == "true" || y.op == "true" {
		return &bform{op: "true"}
	}
	if x.op == "false" {
		return y
	}
	if y.op == "false" {
		return x
	}
	return &bform{op: "or", x: x, y: y}
}

func (f *bform) String() string {
	if f == nil {
		return "true"
	}
	if f.str == "" {
		f.str = f.render()
	}
	return f.str
}

func (f *bform) render() string {
	switch f.op {
	case "atom":
		return fmt.Sprintf("%s==%q", f.label, f.lit)
	case "not":
		return "!(" + f.x.String() + ")"
	case "and":
		return "(" + f.x.String() + " && " + f.y.String() + ")"
	case "or":
		return "(" + f.x.String() + " || " + f.y.String() + ")"
	}
	return f.op
}

func (f *bform) labels(into map[string]bool) {
	if f == nil {
		return
	}
	switch f.op {
	case "atom":
		into[f.label] = true
	case "not":
		f.x.labels(into)
	case "and", "or":
		f.x.labels(into)
		f.y.labels(into)
	}
}

func (f *bform) lits(label string, into map[string]bool) {
	if f == nil {
		return
	}
	switch f.op {
	case "atom":
		if f.label == label {
			into[f.lit] = true
		}
	case "not":
		f.x.lits(label, into)
	case "and", "or":
		f.x.lits(label, into)
		f.y.lits(label, into)
	}
}

func (f *bform) eval(asg map[string]string) bool {
	if f == nil {
		return true
	}
	switch f.op {
	case "atom":
		return asg[f.label] == f.lit
	case "not":
		return !f.x.eval(asg)
	case "and":
		return f.x.eval(asg) && f.y.eval(asg)
	case "or":
		return f.x.eval(asg) || f.y.eval(asg)
	case "true":
		return true
	}
	return false
}

// forAll enumerates every assignment of the formula's labels to the strings
// Get can print for them, plus one string that is none of the literals.
func bformsForAll(gm *GetModel, fs []*bform, fn func(asg map[string]string) bool) bool {
	ls := map[string]bool{}
	for _, f := range fs {
		f.labels(ls)
	}
	var labels []string
	for l := range ls {
		labels = append(labels, l)
	}
	sort.Strings(labels)
	doms := make([][]string, len(labels))
	total := 1
	for i, l := range labels {
		set := map[string]bool{"\x00other": true}
		if ga := gm.ByLabel[l]; ga != nil {
			for _, s := range ga.Table {
				set[s] = true
			}
		}
		for _, f := range fs {
			f.lits(l, set)
		}
		for s := range set {
			doms[i] = append(doms[i], s)
		}
		sort.Strings(doms[i])
		total *= len(doms[i])
		if total > 2_000_000 {
			return false
		}
	}
	asg := map[string]string{}
	var rec func(i int) bool
	rec = func(i int) bool {
		if i == len(labels) {
			return fn(asg)
		}
		for _, s := range doms[i] {
			asg[labels[i]] = s
			if !rec(i + 1) {
				return false
			}
		}
		return true
	}
	return rec(0)
}

func (f *bform) taut(gm *GetModel) bool {
	if f == nil {
		return true
	}
	return bformsForAll(gm, []*bform{f}, func(a map[string]string) bool { return f.eval(a) })
}

func bEquiv(gm *GetModel, f, g *bform) bool {
	return bformsForAll(gm, []*bform{f, g}, func(a map[string]string) bool { return f.eval(a) == g.eval(a) })
}

// ---------------------------------------------------------------------------

type sframe struct {
	vars map[types.Object]sval
	fd   *ast.FuncDecl
}

type sstate struct {
	frames []*sframe
}

func (s *sstate) fork() *sstate {
	n := &sstate{}
	for _, f := range s.frames {
		nf := &sframe{vars: make(map[types.Object]sval, len(f.vars)), fd: f.fd}
		for k, v := range f.vars {
			nf.vars[k] = v
		}
		n.frames = append(n.frames, nf)
	}
	return n
}

func (s *sstate) top() *sframe { return s.frames[len(s.frames)-1] }

type sctrl uint8

const (
	scNext sctrl = iota
	scBreak
	scContinue
	scReturn
)

type sout struct {
	ctrl     sctrl
	st       *sstate
	cond     *bform // nil = true
	ret      sval
	leftLoop bool
}

type semit struct {
	p     *Pkg
	gm    *GetModel
	getFn *ast.FuncDecl
	steps int
	// calls whose result could not be interpreted and is a number: sizing
	unkCalls []*ast.CallExpr
	depth    int
	// table reads with a symbolic index: the condition under which the index is inside the table
	oob []oobCheck
	// path condition of the statement being executed (nil = true)
	pc *bform
	// the interpreted code read receiver bytes directly (pieces may need lifting)
	readBytes bool
	// interpreting a sizing function: integer helpers over the receiver are inlined
	sizing bool
	// the call whose result is the buffer's capacity, when it was located
	sizingCall *ast.CallExpr
}

type oobCheck struct {
	at      ast.Node
	inRange *bform
	pc      *bform
}

// bitsEqConst: the bit vector equals the constant
func bitsEqConst(bits []*bform, k int64) *bform {
	var f *bform = &bform{op: "true"}
	if k < 0 || (len(bits) < 63 && k>>uint(len(bits)) != 0) {
		return &bform{op: "false"}
	}
	for i, b := range bits {
		if k>>uint(i)&1 == 1 {
			f = bAnd(f, b)
		} else {
			f = bAnd(f, bNot(b))
		}
	}
	return f
}

func bitsNonZero(bits []*bform) *bform {
	var f *bform = &bform{op: "false"}
	for _, b := range bits {
		f = bOr(f, b)
	}
	return f
}

type semitErr struct {
	at  ast.Node
	msg string
}

func (e *semitErr) Error() string { return e.msg }

func serr(at ast.Node, f string, a ...any) error {
	return &semitErr{at: at, msg: fmt.Sprintf(f, a...)}
}

func conc(v Val) sval { return sval{k: skConc, c: v} }

func piecesEqual(a, b []piece) bool {
	if len(a) != len(b) {
		return false
	}
	for i := range a {
		if !pieceEqual(a[i], b[i]) {
			return false
		}
	}
	return true
}

func pieceEqual(a, b piece) bool {
	if a.lit != b.lit || a.label != b.label || (a.guard == nil) != (b.guard == nil) {
		return false
	}
	if a.guard != nil {
		if a.guard.String() != b.guard.String() {
			return false
		}
		return piecesEqual(a.then, b.then) && piecesEqual(a.els, b.els)
	}
	return true
}

func svalEqual(a, b sval) bool {
	if a.k != b.k {
		return false
	}
	switch a.k {
	case skConc:
		if a.c.K != b.c.K {
			return false
		}
		switch a.c.K {
		case VInt, VBool:
			return a.c.I == b.c.I
		case VStr, VOpaque:
			return a.c.S == b.c.S
		case VNil, VUnk:
			return true
		case VRat:
			return a.c.R.Cmp(b.c.R) == 0
		case VList, VTuple:
			if len(a.c.T) != len(b.c.T) {
				return false
			}
			for i := range a.c.T {
				if !svalEqual(conc(a.c.T[i]), conc(b.c.T[i])) {
					return false
				}
			}
			return true
		}
		return false
	case skGet:
		return a.label == b.label
	case skBool:
		return a.f.String() == b.f.String()
	case skBuf:
		return piecesEqual(a.pieces, b.pieces)
	case skPtr:
		if a.ref.depth != b.ref.depth || a.ref.obj != b.ref.obj || len(a.ref.path) != len(b.ref.path) {
			return false
		}
		for i := range a.ref.path {
			if a.ref.path[i] != b.ref.path[i] {
				return false
			}
		}
		return true
	case skRecv, skUnk:
		return true
	case skTuple:
		if len(a.t) != len(b.t) {
			return false
		}
		for i := range a.t {
			if !svalEqual(a.t[i], b.t[i]) {
				return false
			}
		}
		return true
	case skIte:
		return a.f.String() == b.f.String() && svalEqual(*a.a, *b.a) && svalEqual(*a.b, *b.b)
	case skStruct:
		if a.typ != b.typ || a.isPtr != b.isPtr || len(a.fields) != len(b.fields) {
			return false
		}
		for k, v := range a.fields {
			w, ok := b.fields[k]
			if !ok || !svalEqual(v, w) {
				return false
			}
		}
		return true
	case skBits:
		if len(a.bits) != len(b.bits) {
			return false
		}
		for i := range a.bits {
			if a.bits[i].String() != b.bits[i].String() {
				return false
			}
		}
		return true
	case skArr:
		if len(a.elems) != len(b.elems) {
			return false
		}
		for i := range a.elems {
			if !svalEqual(a.elems[i], b.elems[i]) {
				return false
			}
		}
		return true
	case skLin:
		if a.lbase != b.lbase || len(a.lterms) != len(b.lterms) {
			return false
		}
		for i := range a.lterms {
			if !linTermEq(a.lterms[i], b.lterms[i]) {
				return false
			}
		}
		return true
	}
	return false
}

// mergeVal: the value that is v1 when c holds and v2 otherwise
func mergeVal(c *bform, v1, v2 sval) (sval, error) {
	if svalEqual(v1, v2) {
		return v1, nil
	}
	if v1.k == skBuf && v2.k == skBuf {
		n := 0
		for n < len(v1.pieces) && n < len(v2.pieces) && pieceEqual(v1.pieces[n], v2.pieces[n]) {
			n++
		}
		out := append([]piece(nil), v1.pieces[:n]...)
		out = append(out, piece{guard: c, then: append([]piece(nil), v1.pieces[n:]...), els: append([]piece(nil), v2.pieces[n:]...)})
		mk := v1.mk
		if mk == nil {
			mk = v2.mk
		}
		return sval{k: skBuf, pieces: out, mk: mk}, nil
	}
	if v1.k == skTuple && v2.k == skTuple && len(v1.t) == len(v2.t) {
		out := sval{k: skTuple}
		for i := range v1.t {
			m, err := mergeVal(c, v1.t[i], v2.t[i])
			if err != nil {
				return sval{}, err
			}
			out.t = append(out.t, m)
		}
		return out, nil
	}
	// booleans merge into a formula
	asBool := func(v sval) *bform {
		if v.k == skBool {
			return v.f
		}
		if v.k == skConc && v.c.K == VBool {
			if v.c.I != 0 {
				return &bform{op: "true"}
			}
			return &bform{op: "false"}
		}
		return nil
	}
	if b1, b2 := asBool(v1), asBool(v2); b1 != nil && b2 != nil {
		return sval{k: skBool, f: bOr(bAnd(c, b1), bAnd(bNot(c), b2))}, nil
	}
	if v1.k == skStruct && v2.k == skStruct && v1.typ == v2.typ && v1.isPtr == v2.isPtr {
		out := sval{k: skStruct, typ: v1.typ, isPtr: v1.isPtr, fields: map[string]sval{}}
		for k, a := range v1.fields {
			m, err := mergeVal(c, a, v2.fields[k])
			if err != nil {
				return sval{}, err
			}
			out.fields[k] = m
		}
		return out, nil
	}
	if v1.k == skArr && v2.k == skArr && len(v1.elems) == len(v2.elems) {
		out := sval{k: skArr}
		for i := range v1.elems {
			m, err := mergeVal(c, v1.elems[i], v2.elems[i])
			if err != nil {
				return sval{}, err
			}
			out.elems = append(out.elems, m)
		}
		return out, nil
	}
	if semitLinearInts || v1.k == skLin || v2.k == skLin {
		if l1, ok1 := asLin(v1); ok1 {
			if l2, ok2 := asLin(v2); ok2 {
				n := 0
				for n < len(l1.lterms) && n < len(l2.lterms) && linTermEq(l1.lterms[n], l2.lterms[n]) {
					n++
				}
				out := sval{k: skLin, lbase: l2.lbase, lterms: append([]linTerm(nil), l1.lterms[:n]...)}
				if l1.lbase != l2.lbase {
					out.lterms = append(out.lterms, linTerm{guard: c, k: l1.lbase - l2.lbase})
				}
				for _, tm := range l1.lterms[n:] {
					tm.guard = bAnd(c, tm.guard)
					out.lterms = append(out.lterms, tm)
				}
				for _, tm := range l2.lterms[n:] {
					tm.guard = bAnd(bNot(c), tm.guard)
					out.lterms = append(out.lterms, tm)
				}
				return out, nil
			}
		}
	}
	if v1.k == skConc && v2.k == skConc && v1.c.K == VInt && v2.c.K == VInt && v1.c.I >= 0 && v2.c.I >= 0 {
		v1 = sval{k: skBits, bits: bitsOf(v1.c.I, 64)}
	}
	if b1, b2, ok := bothBits(v1, v2); ok {
		out := sval{k: skBits}
		for i := range b1 {
			out.bits = append(out.bits, bIte(c, b1[i], b2[i]))
		}
		return out, nil
	}
	a, b := v1, v2
	return sval{k: skIte, f: c, a: &a, b: &b}, nil
}

func bIte(c, x, y *bform) *bform {
	if x.String() == y.String() {
		return x
	}
	return bOr(bAnd(c, x), bAnd(bNot(c), y))
}

func bConst(v bool) *bform {
	if v {
		return &bform{op: "true"}
	}
	return &bform{op: "false"}
}

// bitsOf: a concrete integer as w constant bits
func bitsOf(v int64, w int) []*bform {
	out := make([]*bform, w)
	for i := 0; i < w; i++ {
		out[i] = bConst(v>>uint(i)&1 == 1)
	}
	return out
}

// bothBits brings two integer operands (symbolic bits or concrete) to a common width.
func bothBits(a, b sval) ([]*bform, []*bform, bool) {
	isInt := func(v sval) bool { return v.k == skBits || (v.k == skConc && v.c.K == VInt) }
	if !isInt(a) || !isInt(b) || (a.k != skBits && b.k != skBits) {
		return nil, nil, false
	}
	w := 0
	if a.k == skBits {
		w = len(a.bits)
	}
	if b.k == skBits && len(b.bits) > w {
		w = len(b.bits)
	}
	get := func(v sval) []*bform {
		if v.k == skConc {
			return bitsOf(v.c.I, w)
		}
		out := append([]*bform(nil), v.bits...)
		for len(out) < w {
			out = append(out, bConst(false))
		}
		return out
	}
	return get(a), get(b), true
}

func widthOf(t types.Type) int {
	if b, ok := t.Underlying().(*types.Basic); ok {
		switch b.Kind() {
		case types.Uint8, types.Int8:
			return 8
		case types.Uint16, types.Int16:
			return 16
		case types.Uint32, types.Int32:
			return 32
		}
	}
	return 64
}

func mergeStates(c *bform, s1, s2 *sstate) (*sstate, error) {
	if len(s1.frames) != len(s2.frames) {
		return nil, fmt.Errorf("branches end at different call depths")
	}
	out := &sstate{}
	for i := range s1.frames {
		f1, f2 := s1.frames[i], s2.frames[i]
		nf := &sframe{vars: map[types.Object]sval{}, fd: f1.fd}
		for k, v1 := range f1.vars {
			v2, ok := f2.vars[k]
			if !ok {
				continue // declared inside one branch only: dead after the join
			}
			m, err := mergeVal(c, v1, v2)
			if err != nil {
				return nil, err
			}
			nf.vars[k] = m
		}
		out.frames = append(out.frames, nf)
	}
	return out, nil
}

// mergeByCtrl merges the outcomes of each control kind into one.
func mergeByCtrl(outs []sout) ([]sout, error) {
	var res []sout
	for _, k := range []sctrl{scNext, scBreak, scContinue, scReturn} {
		var acc *sout
		for i := range outs {
			o := outs[i]
			if o.ctrl != k {
				continue
			}
			if acc == nil {
				oo := o
				acc = &oo
				continue
			}
			// acc holds under acc.cond, o under o.cond (exclusive)
			sel := acc.cond
			if sel == nil {
				return nil, fmt.Errorf("two unconditional outcomes of the same kind")
			}
			ms, err := mergeStates(sel, acc.st, o.st)
			if err != nil {
				return nil, err
			}
			mr, err := mergeVal(sel, acc.ret, o.ret)
			if err != nil {
				return nil, err
			}
			acc.st, acc.ret = ms, mr
			acc.cond = bOr(acc.cond, o.cond)
		}
		if acc != nil {
			res = append(res, *acc)
		}
	}
	return res, nil
}

// ---------------------------------------------------------------------------
// statements

func (in *semit) execList(st *sstate, list []ast.Stmt) ([]sout, error) {
	cur := []sout{{ctrl: scNext, st: st}}
	var done []sout
	basePC := in.pc
	defer func() { in.pc = basePC }()
	for _, s := range list {
		if len(cur) == 0 {
			break
		}
		var nxt []sout
		for _, o := range cur {
			in.pc = bAnd(basePC, o.cond)
			outs, err := in.exec(o.st, s)
			if err != nil {
				return nil, err
			}
			for _, x := range outs {
				x.cond = bAnd(o.cond, x.cond)
				if x.ctrl == scNext {
					nxt = append(nxt, x)
				} else {
					done = append(done, x)
				}
			}
		}
		m, err := mergeByCtrl(nxt)
		if err != nil {
			return nil, err
		}
		cur = m
	}
	return mergeByCtrl(append(done, cur...))
}

func (in *semit) exec(st *sstate, s ast.Stmt) ([]sout, error) {
	in.steps++
	if in.steps > 200000 {
		return nil, serr(s, "step budget exceeded")
	}
	info := in.p.Info
	next := func() ([]sout, error) { return []sout{{ctrl: scNext, st: st}}, nil }
	switch x := s.(type) {
	case *ast.EmptyStmt:
		return next()
	case *ast.BlockStmt:
		return in.execList(st, x.List)
	case *ast.ExprStmt:
		if _, err := in.eval(st, x.X); err != nil {
			return nil, err
		}
		return next()
	case *ast.DeclStmt:
		gd, ok := x.Decl.(*ast.GenDecl)
		if !ok {
			return nil, serr(s, "declaration outside the emitter language")
		}
		if gd.Tok == token.CONST || gd.Tok == token.TYPE {
			return next()
		}
		for _, sp := range gd.Specs {
			vs := sp.(*ast.ValueSpec)
			for i, nm := range vs.Names {
				obj := info.Defs[nm]
				if obj == nil {
					continue
				}
				if i < len(vs.Values) && len(vs.Values) == len(vs.Names) {
					v, err := in.eval(st, vs.Values[i])
					if err != nil {
						return nil, err
					}
					st.top().vars[obj] = v
				} else if len(vs.Values) == 0 {
					st.top().vars[obj] = in.zeroSym(obj.Type())
				} else {
					return nil, serr(s, "multi-value var declaration")
				}
			}
		}
		return next()
	case *ast.AssignStmt:
		if err := in.assignStmt(st, x); err != nil {
			return nil, err
		}
		return next()
	case *ast.IncDecStmt:
		v, err := in.eval(st, x.X)
		if err != nil {
			return nil, err
		}
		if v.k != skConc || v.c.K != VInt {
			return nil, serr(s, "++/-- on a non-integer")
		}
		d := int64(1)
		if x.Tok == token.DEC {
			d = -1
		}
		if err := in.store(st, x.X, conc(vInt(v.c.I+d))); err != nil {
			return nil, err
		}
		return next()
	case *ast.ReturnStmt:
		var ret sval
		switch len(x.Results) {
		case 0:
			// named results
			fd := st.top().fd
			if fd != nil {
				rs := resultObjs(info, fd)
				if len(rs) == 1 && rs[0] != nil {
					ret = st.top().vars[rs[0]]
				} else if len(rs) > 1 {
					ret = sval{k: skTuple}
					for _, r := range rs {
						ret.t = append(ret.t, st.top().vars[r])
					}
				}
			}
		case 1:
			v, err := in.eval(st, x.Results[0])
			if err != nil {
				return nil, err
			}
			ret = v
		default:
			ret = sval{k: skTuple}
			for _, r := range x.Results {
				v, err := in.eval(st, r)
				if err != nil {
					return nil, err
				}
				ret.t = append(ret.t, v)
			}
		}
		return []sout{{ctrl: scReturn, st: st, ret: ret}}, nil
	case *ast.BranchStmt:
		if x.Label != nil {
			return nil, serr(s, "labelled branch")
		}
		switch x.Tok {
		case token.BREAK:
			return []sout{{ctrl: scBreak, st: st}}, nil
		case token.CONTINUE:
			return []sout{{ctrl: scContinue, st: st}}, nil
		}
		return nil, serr(s, "branch statement outside the emitter language")
	case *ast.IfStmt:
		if x.Init != nil {
			outs, err := in.exec(st, x.Init)
			if err != nil {
				return nil, err
			}
			if len(outs) != 1 || outs[0].ctrl != scNext || outs[0].cond != nil {
				return nil, serr(s, "if-initialiser with control flow")
			}
			st = outs[0].st
		}
		c, err := in.eval(st, x.Cond)
		if err != nil {
			return nil, err
		}
		els := func(s2 *sstate) ([]sout, error) {
			if x.Else == nil {
				return []sout{{ctrl: scNext, st: s2}}, nil
			}
			return in.exec(s2, x.Else)
		}
		if c.k == skConc && c.c.K == VBool {
			if c.c.I != 0 {
				return in.execList(st, x.Body.List)
			}
			return els(st)
		}
		f, ok := asFormula(c)
		if !ok {
			return nil, serr(x.Cond, "condition is neither concrete nor a test on Get strings")
		}
		pc0 := in.pc
		in.pc = bAnd(pc0, f)
		o1, err := in.execList(st.fork(), x.Body.List)
		in.pc = pc0
		if err != nil {
			return nil, err
		}
		in.pc = bAnd(pc0, bNot(f))
		o2, err := els(st.fork())
		in.pc = pc0
		if err != nil {
			return nil, err
		}
		var all []sout
		for _, o := range o1 {
			o.cond = bAnd(f, o.cond)
			all = append(all, o)
		}
		for _, o := range o2 {
			o.cond = bAnd(bNot(f), o.cond)
			all = append(all, o)
		}
		m, err := mergeByCtrl(all)
		if err != nil {
			return nil, serr(s, "%v", err)
		}
		// a single outcome kind covering both branches is unconditional
		for i := range m {
			if m[i].cond != nil && len(m) == 1 {
				m[i].cond = nil
			}
		}
		return m, nil
	case *ast.SwitchStmt:
		if x.Init == nil && x.Tag == nil {
			// switch { case c1: … case c2: … default: … }: an if/else-if chain
			var def *ast.CaseClause
			var clauses []*ast.CaseClause
			for _, cc := range x.Body.List {
				cl := cc.(*ast.CaseClause)
				if cl.List == nil {
					def = cl
				} else {
					clauses = append(clauses, cl)
				}
				for _, bs := range cl.Body {
					if br, ok := bs.(*ast.BranchStmt); ok && br.Tok == token.FALLTHROUGH {
						return nil, serr(bs, "fallthrough")
					}
				}
			}
			var chain ast.Stmt
			if def != nil {
				chain = &ast.BlockStmt{List: def.Body}
			}
			for i := len(clauses) - 1; i >= 0; i-- {
				cl := clauses[i]
				cond := cl.List[0]
				for _, e := range cl.List[1:] {
					cond = &ast.BinaryExpr{X: cond, Op: token.LOR, Y: e}
				}
				chain = &ast.IfStmt{If: cl.Pos(), Cond: cond, Body: &ast.BlockStmt{List: cl.Body}, Else: chain}
			}
			if chain == nil {
				return next()
			}
			outs, err := in.exec(st, chain)
			if err != nil {
				return nil, err
			}
			return unbreak(outs), nil
		}
		if x.Init != nil || x.Tag == nil {
			return nil, serr(s, "switch form outside the emitter language")
		}
		tag, err := in.eval(st, x.Tag)
		if err != nil {
			return nil, err
		}
		if tag.k != skConc {
			// symbolic tag: the chain `if tag == c1 … else if tag == c2 … else default`
			var def *ast.CaseClause
			var clauses []*ast.CaseClause
			for _, cc := range x.Body.List {
				cl := cc.(*ast.CaseClause)
				if cl.List == nil {
					def = cl
				} else {
					clauses = append(clauses, cl)
				}
				for _, bs := range cl.Body {
					if br, ok := bs.(*ast.BranchStmt); ok && br.Tok == token.FALLTHROUGH {
						return nil, serr(bs, "fallthrough")
					}
				}
			}
			var chain ast.Stmt
			if def != nil {
				chain = &ast.BlockStmt{List: def.Body}
			}
			for i := len(clauses) - 1; i >= 0; i-- {
				cl := clauses[i]
				var cond ast.Expr
				for _, e := range cl.List {
					eq := &ast.BinaryExpr{X: x.Tag, Op: token.EQL, Y: e}
					if cond == nil {
						cond = eq
					} else {
						cond = &ast.BinaryExpr{X: cond, Op: token.LOR, Y: eq}
					}
				}
				chain = &ast.IfStmt{If: cl.Pos(), Cond: cond, Body: &ast.BlockStmt{List: cl.Body}, Else: chain}
			}
			if chain == nil {
				return next()
			}
			outs, err := in.exec(st, chain)
			if err != nil {
				return nil, err
			}
			return unbreak(outs), nil
		}
		var def *ast.CaseClause
		for _, cc := range x.Body.List {
			cl := cc.(*ast.CaseClause)
			if cl.List == nil {
				def = cl
				continue
			}
			for _, e := range cl.List {
				v, err := in.eval(st, e)
				if err != nil {
					return nil, err
				}
				if v.k == skConc && svalEqual(v, tag) {
					outs, err := in.execList(st, cl.Body)
					return unbreak(outs), err
				}
			}
		}
		if def != nil {
			outs, err := in.execList(st, def.Body)
			return unbreak(outs), err
		}
		return next()
	case *ast.RangeStmt:
		xv, err := in.eval(st, x.X)
		if err != nil {
			return nil, err
		}
		if xv.k == skArr {
			// a fixed array whose elements hold symbolic values (a table built
			// from the state): one iteration per element
			elems := xv.elems
			return in.runLoop(st, x.Body.List, s, func(st *sstate, i int) (bool, error) {
				if i >= len(elems) {
					return false, nil
				}
				if x.Key != nil {
					if err := in.store(st, x.Key, conc(vInt(int64(i)))); err != nil {
						return false, err
					}
				}
				if x.Value != nil {
					if err := in.store(st, x.Value, elems[i]); err != nil {
						return false, err
					}
				}
				return true, nil
			}, nil)
		}
		if xv.k != skConc {
			return nil, serr(s, "range over a symbolic value")
		}
		var n int
		switch xv.c.K {
		case VList:
			n = len(xv.c.T)
		case VStr:
			n = len(xv.c.S)
		case VInt:
			n = int(xv.c.I)
		default:
			return nil, serr(s, "range over %s", xv.c)
		}
		if n > 4096 {
			return nil, serr(s, "range too long")
		}
		return in.runLoop(st, x.Body.List, s, func(st *sstate, i int) (bool, error) {
			if i >= n {
				return false, nil
			}
			if x.Key != nil {
				if err := in.store(st, x.Key, conc(vInt(int64(i)))); err != nil {
					return false, err
				}
			}
			if x.Value != nil {
				var ev Val
				switch xv.c.K {
				case VList:
					ev = xv.c.T[i]
				case VStr:
					ev = vInt(int64(xv.c.S[i]))
				}
				if err := in.store(st, x.Value, conc(ev)); err != nil {
					return false, err
				}
			}
			return true, nil
		}, nil)
	case *ast.ForStmt:
		if x.Init != nil {
			outs, err := in.exec(st, x.Init)
			if err != nil {
				return nil, err
			}
			st = outs[0].st
		}
		return in.runLoop(st, x.Body.List, s, func(st *sstate, i int) (bool, error) {
			if x.Cond == nil {
				return true, nil
			}
			c, err := in.eval(st, x.Cond)
			if err != nil {
				return false, err
			}
			if c.k != skConc || c.c.K != VBool {
				return false, serr(x.Cond, "loop condition is not concrete")
			}
			return c.c.I != 0, nil
		}, func(st *sstate) error {
			if x.Post == nil {
				return nil
			}
			po, err := in.exec(st, x.Post)
			if err != nil {
				return err
			}
			if len(po) != 1 || po[0].ctrl != scNext {
				return serr(x.Post, "loop post statement with control flow")
			}
			return nil
		})
	}
	return nil, serr(s, "statement %T outside the emitter language", s)
}

func unbreak(outs []sout) []sout {
	for i := range outs {
		if outs[i].ctrl == scBreak {
			outs[i].ctrl = scNext
		}
	}
	m, err := mergeByCtrl(outs)
	if err != nil {
		return outs
	}
	return m
}

// loopBody runs one iteration. It returns the state for the next iteration
// (nil when no path continues), whether the loop is left unconditionally, and
// the outcomes that leave the loop or the function under a condition on
// symbolic values (their conditions are relative to the iteration's entry).
func (in *semit) loopBody(st *sstate, body []ast.Stmt, at ast.Node) (*sstate, *bform, bool, []sout, error) {
	outs, err := in.execList(st, body)
	if err != nil {
		return nil, nil, false, nil, err
	}
	var cont, exits []sout
	for _, o := range outs {
		switch o.ctrl {
		case scNext, scContinue:
			o.ctrl = scNext
			cont = append(cont, o)
		case scBreak:
			if len(outs) == 1 {
				return o.st, nil, true, nil, nil
			}
			o.ctrl = scNext // leaves the loop: continues after it
			o.leftLoop = true
			exits = append(exits, o)
		case scReturn:
			exits = append(exits, o)
		}
	}
	m, err := mergeByCtrl(cont)
	if err != nil {
		return nil, nil, false, nil, serr(at, "%v", err)
	}
	if len(m) == 0 {
		return nil, nil, false, exits, nil
	}
	return m[0].st, m[0].cond, false, exits, nil
}

// runLoop drives the iterations of a loop whose trip count is concrete.
// next(i) prepares iteration i (binds the range variables, tests the loop
// condition) and says whether there is one.
func (in *semit) runLoop(st *sstate, body []ast.Stmt, at ast.Node, next func(st *sstate, i int) (bool, error), post func(st *sstate) error) ([]sout, error) {
	var exits []sout
	var pc *bform // condition, relative to the loop's entry, under which the loop is still running
	basePC := in.pc
	defer func() { in.pc = basePC }()
	for i := 0; ; i++ {
		if i > 4096 {
			return nil, serr(at, "loop does not terminate on the model")
		}
		more, err := next(st, i)
		if err != nil {
			return nil, err
		}
		if !more {
			break
		}
		in.pc = bAnd(basePC, pc)
		nst, cond, left, ex, err := in.loopBody(st, body, at)
		if err != nil {
			return nil, err
		}
		for _, e := range ex {
			e.cond = bAnd(pc, e.cond)
			exits = append(exits, e)
		}
		if left {
			st = nst
			break
		}
		if nst == nil {
			// every path left the loop or the function
			st = nil
			break
		}
		st = nst
		if len(ex) > 0 {
			pc = bAnd(pc, cond)
		}
		if post != nil {
			if err := post(st); err != nil {
				return nil, err
			}
		}
	}
	var outs []sout
	if st != nil {
		outs = append(outs, sout{ctrl: scNext, st: st, cond: pc})
	}
	for _, e := range exits {
		e.leftLoop = false
		outs = append(outs, e)
	}
	if len(outs) == 1 && outs[0].ctrl == scNext {
		outs[0].cond = nil
	}
	return mergeByCtrl(outs)
}

func asFormula(v sval) (*bform, bool) {
	switch v.k {
	case skBool:
		return v.f, true
	case skConc:
		if v.c.K == VBool {
			if v.c.I != 0 {
				return &bform{op: "true"}, true
			}
			return &bform{op: "false"}, true
		}
	case skIte:
		a, ok1 := asFormula(*v.a)
		b, ok2 := asFormula(*v.b)
		if ok1 && ok2 {
			return bOr(bAnd(v.f, a), bAnd(bNot(v.f), b)), true
		}
	}
	return nil, false
}

func isByteSlice(t types.Type) bool {
	s, ok := t.Underlying().(*types.Slice)
	if !ok {
		return false
	}
	b, ok := s.Elem().Underlying().(*types.Basic)
	return ok && b.Kind() == types.Uint8
}

func (in *semit) assignStmt(st *sstate, x *ast.AssignStmt) error {
	if x.Tok != token.ASSIGN && x.Tok != token.DEFINE {
		// op-assign on numbers
		if len(x.Lhs) != 1 || len(x.Rhs) != 1 {
			return serr(x, "op-assignment form")
		}
		l, err := in.eval(st, x.Lhs[0])
		if err != nil {
			return err
		}
		r, err := in.eval(st, x.Rhs[0])
		if err != nil {
			return err
		}
		if l.k == skUnk || r.k == skUnk {
			return in.store(st, x.Lhs[0], sval{k: skUnk})
		}
		if (l.k == skLin || r.k == skLin) && (x.Tok == token.ADD_ASSIGN || x.Tok == token.SUB_ASSIGN) {
			op := token.ADD
			if x.Tok == token.SUB_ASSIGN {
				op = token.SUB
			}
			v, err := in.evalBinary(st, &ast.BinaryExpr{X: x.Lhs[0], Op: op, Y: x.Rhs[0], OpPos: x.TokPos})
			if err != nil {
				return err
			}
			return in.store(st, x.Lhs[0], v)
		}
		if l.k == skBits || r.k == skBits {
			var op token.Token
			switch x.Tok {
			case token.OR_ASSIGN:
				op = token.OR
			case token.AND_ASSIGN:
				op = token.AND
			case token.XOR_ASSIGN:
				op = token.XOR
			case token.AND_NOT_ASSIGN:
				op = token.AND_NOT
			case token.SHL_ASSIGN:
				op = token.SHL
			case token.SHR_ASSIGN:
				op = token.SHR
			case token.ADD_ASSIGN:
				op = token.ADD
			case token.SUB_ASSIGN:
				op = token.SUB
			default:
				return serr(x, "op-assignment %s on a symbolic bit set", x.Tok)
			}
			v, err := in.evalBinary(st, &ast.BinaryExpr{X: x.Lhs[0], Op: op, Y: x.Rhs[0], OpPos: x.TokPos})
			if err != nil {
				return err
			}
			return in.store(st, x.Lhs[0], v)
		}
		if l.k != skConc || r.k != skConc {
			return serr(x, "op-assignment on symbolic values")
		}
		var op token.Token
		switch x.Tok {
		case token.ADD_ASSIGN:
			op = token.ADD
		case token.SUB_ASSIGN:
			op = token.SUB
		case token.MUL_ASSIGN:
			op = token.MUL
		case token.OR_ASSIGN:
			op = token.OR
		case token.AND_ASSIGN:
			op = token.AND
		default:
			return serr(x, "op-assignment %s", x.Tok)
		}
		v, err := newCEnv(in.p, nil).binop(op, l.c, r.c, in.p.Info.TypeOf(x.Lhs[0]), x)
		if err != nil {
			return serr(x, "%v", err)
		}
		return in.store(st, x.Lhs[0], conc(v))
	}
	if len(x.Lhs) == len(x.Rhs) {
		vals := make([]sval, len(x.Rhs))
		for i, r := range x.Rhs {
			v, err := in.eval(st, r)
			if err != nil {
				return err
			}
			vals[i] = v
		}
		for i, l := range x.Lhs {
			if err := in.store(st, l, vals[i]); err != nil {
				return err
			}
		}
		return nil
	}
	if len(x.Rhs) == 1 {
		v, err := in.eval(st, x.Rhs[0])
		if err != nil {
			return err
		}
		if v.k == skIte {
			// a tuple chosen by a condition: distribute
			if v.a.k == skTuple && v.b.k == skTuple && len(v.a.t) == len(x.Lhs) && len(v.b.t) == len(x.Lhs) {
				t := sval{k: skTuple}
				for i := range v.a.t {
					m, err := mergeVal(v.f, v.a.t[i], v.b.t[i])
					if err != nil {
						return err
					}
					t.t = append(t.t, m)
				}
				v = t
			}
		}
		if v.k == skConc && v.c.K == VTuple && len(v.c.T) == len(x.Lhs) {
			t := sval{k: skTuple}
			for _, e := range v.c.T {
				t.t = append(t.t, conc(e))
			}
			v = t
		}
		if v.k != skTuple || len(v.t) != len(x.Lhs) {
			return serr(x, "multi-value assignment from a single value")
		}
		for i, l := range x.Lhs {
			if err := in.store(st, l, v.t[i]); err != nil {
				return err
			}
		}
		return nil
	}
	return serr(x, "assignment shape")
}

func (in *semit) store(st *sstate, lhs ast.Expr, v sval) error {
	info := in.p.Info
	switch l := lhs.(type) {
	case *ast.ParenExpr:
		return in.store(st, l.X, v)
	case *ast.Ident:
		if l.Name == "_" {
			return nil
		}
		obj := info.Defs[l]
		if obj == nil {
			obj = info.Uses[l]
		}
		if obj == nil {
			return serr(lhs, "unresolved identifier %s", l.Name)
		}
		if _, isVar := obj.(*types.Var); !isVar || obj.Parent() == in.p.P.Types.Scope() {
			return serr(lhs, "assignment to the package-level variable %s", l.Name)
		}
		if v.k == skConc && v.c.K == VInt {
			v.c.I = wrapInt(obj.Type(), v.c.I)
		}
		st.top().vars[obj] = v
		return nil
	case *ast.StarExpr, *ast.SelectorExpr, *ast.IndexExpr:
		r, err := in.refOf(st, lhs)
		if err != nil {
			return err
		}
		if err := in.storeRef(st, r, v); err != nil {
			return serr(lhs, "%v", err)
		}
		return nil
	}
	return serr(lhs, "assignment target outside the emitter language")
}

// ---------------------------------------------------------------------------
// references into local variables (fields, array elements, through pointers)

func (in *semit) refOf(st *sstate, e ast.Expr) (*sref, error) {
	info := in.p.Info
	switch x := e.(type) {
	case *ast.ParenExpr:
		return in.refOf(st, x.X)
	case *ast.Ident:
		obj := info.Uses[x]
		if obj == nil {
			obj = info.Defs[x]
		}
		if _, ok := st.top().vars[obj]; !ok {
			return nil, serr(e, "%s has no value", x.Name)
		}
		return &sref{depth: len(st.frames) - 1, obj: obj}, nil
	case *ast.StarExpr:
		v, err := in.eval(st, x.X)
		if err != nil {
			return nil, err
		}
		if v.k != skPtr {
			return nil, serr(e, "dereference of something that is not a pointer to a local")
		}
		return v.ref, nil
	case *ast.SelectorExpr:
		sel := info.Selections[x]
		if sel == nil || sel.Kind() != types.FieldVal {
			return nil, serr(e, "selector is not a field")
		}
		base, err := in.refOf(st, x.X)
		if err != nil {
			return nil, err
		}
		// through a pointer variable: continue in what it points to
		if bv, err := in.load(st, base); err == nil && bv.k == skPtr {
			base = bv.ref
		}
		r := &sref{depth: base.depth, obj: base.obj, path: append(append([]spath(nil), base.path...), spath{field: x.Sel.Name})}
		return r, nil
	case *ast.IndexExpr:
		base, err := in.refOf(st, x.X)
		if err != nil {
			return nil, err
		}
		// p[i] with p a pointer to an array: continue in what it points to
		if bv, err := in.load(st, base); err == nil && bv.k == skPtr {
			base = bv.ref
		}
		i, err := in.eval(st, x.Index)
		if err != nil {
			return nil, err
		}
		if i.k != skConc || i.c.K != VInt {
			return nil, serr(e, "element reference with a symbolic index")
		}
		return &sref{depth: base.depth, obj: base.obj, path: append(append([]spath(nil), base.path...), spath{idx: int(i.c.I), field: "#"})}, nil
	}
	return nil, serr(e, "expression is not addressable in the model")
}

func (in *semit) load(st *sstate, r *sref) (sval, error) {
	if r.depth >= len(st.frames) {
		return sval{}, fmt.Errorf("dangling reference")
	}
	v, ok := st.frames[r.depth].vars[r.obj]
	if !ok {
		return sval{}, fmt.Errorf("reference to a variable without value")
	}
	for _, pe := range r.path {
		switch {
		case pe.field == "#":
			if v.k == skBuf && pe.idx == 0 {
				continue // &b[0]: the buffer's storage
			}
			if v.k != skArr || pe.idx < 0 || pe.idx >= len(v.elems) {
				return sval{}, fmt.Errorf("element %d of something that is not an array of that size", pe.idx)
			}
			v = v.elems[pe.idx]
		default:
			if v.k != skStruct {
				return sval{}, fmt.Errorf("field %s of something that is not a record", pe.field)
			}
			f, ok := v.fields[pe.field]
			if !ok {
				return sval{}, fmt.Errorf("record has no field %s", pe.field)
			}
			v = f
		}
	}
	return v, nil
}

func setPath(v sval, path []spath, nv sval) (sval, error) {
	if len(path) == 0 {
		return nv, nil
	}
	pe := path[0]
	if pe.field == "#" {
		if v.k != skArr || pe.idx < 0 || pe.idx >= len(v.elems) {
			return sval{}, fmt.Errorf("store to element %d of something that is not an array of that size", pe.idx)
		}
		out := v
		out.elems = append([]sval(nil), v.elems...)
		e, err := setPath(v.elems[pe.idx], path[1:], nv)
		if err != nil {
			return sval{}, err
		}
		out.elems[pe.idx] = e
		return out, nil
	}
	if v.k != skStruct {
		return sval{}, fmt.Errorf("store to field %s of something that is not a record", pe.field)
	}
	out := v
	out.fields = make(map[string]sval, len(v.fields))
	for k, f := range v.fields {
		out.fields[k] = f
	}
	e, err := setPath(v.fields[pe.field], path[1:], nv)
	if err != nil {
		return sval{}, err
	}
	out.fields[pe.field] = e
	return out, nil
}

func (in *semit) storeRef(st *sstate, r *sref, nv sval) error {
	if r.depth >= len(st.frames) {
		return fmt.Errorf("dangling reference")
	}
	root := st.frames[r.depth].vars[r.obj]
	out, err := setPath(root, r.path, nv)
	if err != nil {
		return err
	}
	st.frames[r.depth].vars[r.obj] = out
	return nil
}

// zeroSym: the zero value of a type as a model value
func (in *semit) zeroSym(t types.Type) sval {
	if isByteSlice(t) {
		return sval{k: skBuf}
	}
	switch u := t.Underlying().(type) {
	case *types.Struct:
		name := ""
		if n, ok := t.(*types.Named); ok {
			name = n.Obj().Name()
		}
		out := sval{k: skStruct, typ: name, fields: map[string]sval{}}
		for i := 0; i < u.NumFields(); i++ {
			out.fields[u.Field(i).Name()] = in.zeroSym(u.Field(i).Type())
		}
		return out
	case *types.Array:
		if u.Len() <= 4096 {
			out := sval{k: skArr}
			for i := int64(0); i < u.Len(); i++ {
				out.elems = append(out.elems, in.zeroSym(u.Elem()))
			}
			return out
		}
	}
	return conc(zeroOf(t))
}

// ---------------------------------------------------------------------------
// expressions

func (in *semit) lookup(st *sstate, obj types.Object) (sval, bool) {
	v, ok := st.top().vars[obj]
	return v, ok
}

func (in *semit) eval(st *sstate, e ast.Expr) (sval, error) {
	in.steps++
	if in.steps > 200000 {
		return sval{}, serr(e, "step budget exceeded")
	}
	p := in.p
	info := p.Info
	if tv, ok := info.Types[e]; ok && tv.Value != nil {
		if v, ok := constVal(tv); ok {
			return conc(v), nil
		}
	}
	switch n := e.(type) {
	case *ast.ParenExpr:
		return in.eval(st, n.X)
	case *ast.Ident:
		if isNilIdent(info, n) {
			return conc(Val{K: VNil}), nil
		}
		obj := info.Uses[n]
		if obj == nil {
			obj = info.Defs[n]
		}
		if v, ok := in.lookup(st, obj); ok {
			return v, nil
		}
		if pv, isVar := obj.(*types.Var); isVar && obj.Parent() == p.P.Types.Scope() {
			if init := p.pkgVarInit(pv); init != nil {
				if lv, ok := p.listValue(init); ok {
					return conc(lv), nil
				}
			}
			return sval{}, serr(e, "package-level variable %s is not a table of constants", n.Name)
		}
		return sval{}, serr(e, "identifier %s has no value", n.Name)
	case *ast.UnaryExpr:
		switch n.Op {
		case token.AND:
			switch t := n.X.(type) {
			case *ast.Ident:
				obj := info.Uses[t]
				v, ok := in.lookup(st, obj)
				if !ok {
					return sval{}, serr(e, "address of %s, which has no value", t.Name)
				}
				if v.k == skRecv {
					return v, nil
				}
				return sval{k: skPtr, ref: &sref{depth: len(st.frames) - 1, obj: obj}}, nil
			case *ast.IndexExpr:
				// &b[0]: the buffer's storage
				if id, ok := t.X.(*ast.Ident); ok {
					obj := info.Uses[id]
					if v, ok := in.lookup(st, obj); ok && v.k == skBuf {
						if i, err := in.eval(st, t.Index); err == nil && i.k == skConc && i.c.K == VInt && i.c.I == 0 {
							return sval{k: skPtr, ref: &sref{depth: len(st.frames) - 1, obj: obj}}, nil
						}
					}
				}
				// &table[i]: the (immutable) element itself
				if v, err := in.eval(st, t); err == nil && v.k == skConc && (v.c.K == VStruct || v.c.K == VList) {
					return v, nil
				}
			case *ast.CompositeLit:
				v, err := in.eval(st, t)
				if err != nil {
					return sval{}, err
				}
				if v.k == skStruct {
					v.isPtr = true
				}
				return v, nil
			case *ast.SelectorExpr:
				r, err := in.refOf(st, t)
				if err != nil {
					return sval{}, err
				}
				return sval{k: skPtr, ref: r}, nil
			}
			return sval{}, serr(e, "address-of form outside the emitter language")
		case token.NOT:
			v, err := in.eval(st, n.X)
			if err != nil {
				return sval{}, err
			}
			if v.k == skConc && v.c.K == VBool {
				return conc(vBool(v.c.I == 0)), nil
			}
			if f, ok := asFormula(v); ok {
				return sval{k: skBool, f: bNot(f)}, nil
			}
			return sval{}, serr(e, "negation of a non-boolean")
		case token.SUB, token.ADD:
			v, err := in.eval(st, n.X)
			if err != nil {
				return sval{}, err
			}
			if v.k == skConc && v.c.K == VInt {
				if n.Op == token.SUB {
					return conc(vInt(-v.c.I)), nil
				}
				return v, nil
			}
		case token.XOR:
			// bitwise complement, within the width of the operand's type
			v, err := in.eval(st, n.X)
			if err != nil {
				return sval{}, err
			}
			wdt := intWidth(info.TypeOf(n.X))
			if v.k == skConc && v.c.K == VInt && wdt < 64 {
				return conc(vInt(int64(^uint64(v.c.I) & (uint64(1)<<uint(wdt) - 1)))), nil
			}
			if v.k == skBits {
				out := sval{k: skBits}
				for i := 0; i < wdt && i < 64; i++ {
					if i < len(v.bits) {
						out.bits = append(out.bits, bNot(v.bits[i]))
					} else {
						out.bits = append(out.bits, &bform{op: "true"})
					}
				}
				return out, nil
			}
		}
		return sval{}, serr(e, "unary %s outside the emitter language", n.Op)
	case *ast.StarExpr:
		v, err := in.eval(st, n.X)
		if err != nil {
			return sval{}, err
		}
		switch v.k {
		case skPtr:
			lv, err := in.load(st, v.ref)
			if err != nil {
				return sval{}, serr(e, "%v", err)
			}
			return lv, nil
		case skRecv:
			return v, nil
		case skStruct:
			if v.isPtr {
				v.isPtr = false
				return v, nil
			}
		}
		return sval{}, serr(e, "dereference of something that is not a pointer to a local")
	case *ast.BinaryExpr:
		return in.evalBinary(st, n)
	case *ast.CallExpr:
		return in.evalCall(st, n)
	case *ast.IndexExpr:
		a, err := in.eval(st, n.X)
		if err != nil {
			return sval{}, err
		}
		i, err := in.eval(st, n.Index)
		if err != nil {
			return sval{}, err
		}
		if a.k == skConc && i.k == skConc && i.c.K == VInt {
			switch a.c.K {
			case VList:
				if i.c.I < 0 || int(i.c.I) >= len(a.c.T) {
					return sval{}, serr(e, "index %d out of range [0,%d): Vector would panic", i.c.I, len(a.c.T))
				}
				return conc(a.c.T[i.c.I]), nil
			case VStr:
				if i.c.I < 0 || int(i.c.I) >= len(a.c.S) {
					return sval{}, serr(e, "index %d out of range of a string: Vector would panic", i.c.I)
				}
				return conc(vInt(int64(a.c.S[i.c.I]))), nil
			}
		}
		if a.k == skPtr {
			if lv, err := in.load(st, a.ref); err == nil {
				a = lv
			}
		}
		if a.k == skArr && i.k == skConc && i.c.K == VInt {
			if i.c.I < 0 || int(i.c.I) >= len(a.elems) {
				return sval{}, serr(e, "index %d out of range [0,%d): the code would panic", i.c.I, len(a.elems))
			}
			return a.elems[i.c.I], nil
		}
		if i.k == skBits && (a.k == skArr || (a.k == skConc && a.c.K == VList)) {
			// a table entry chosen by a symbolic index: a chain of alternatives;
			// an index outside the table is a panic, reported when it is possible
			n := len(a.elems)
			if a.k == skConc {
				n = len(a.c.T)
			}
			get := func(k int) sval {
				if a.k == skArr {
					return a.elems[k]
				}
				return conc(a.c.T[k])
			}
			inRange := &bform{op: "false"}
			var out *sval
			for k := n - 1; k >= 0; k-- {
				eq := bitsEqConst(i.bits, int64(k))
				inRange = bOr(inRange, eq)
				v := get(k)
				if out == nil {
					out = &v
					continue
				}
				prev := *out
				m, err := mergeVal(eq, v, prev)
				if err != nil {
					return sval{}, err
				}
				out = &m
			}
			if out == nil {
				return sval{}, serr(e, "index into an empty table")
			}
			in.oob = append(in.oob, oobCheck{at: e, inRange: inRange, pc: in.pc})
			return *out, nil
		}
		return sval{}, serr(e, "indexing outside the emitter language")
	case *ast.SelectorExpr:
		if idx, _, ok := p.fieldOf(n); ok {
			// a receiver byte: eight symbolic bits (atoms "B:<field>.<bit>")
			out := sval{k: skBits}
			for b := 0; b < 8; b++ {
				out.bits = append(out.bits, bAtom(fmt.Sprintf("B:%d.%d", idx, b), "1"))
			}
			in.readBytes = true
			return out, nil
		}
		if sel := info.Selections[n]; sel != nil && sel.Kind() == types.FieldVal {
			base, err := in.eval(st, n.X)
			if err != nil {
				return sval{}, err
			}
			if base.k == skPtr {
				lv, err := in.load(st, base.ref)
				if err != nil {
					return sval{}, serr(e, "%v", err)
				}
				base = lv
			}
			if base.k == skConc && base.c.K == VStruct {
				if v, ok := base.c.F[n.Sel.Name]; ok {
					return conc(v), nil
				}
			}
			if base.k == skStruct {
				if v, ok := base.fields[n.Sel.Name]; ok {
					return v, nil
				}
			}
			return sval{}, serr(e, "field selection outside the emitter language")
		}
		return sval{}, serr(e, "selector outside the emitter language")
	case *ast.CompositeLit:
		if tv, ok := info.Types[n]; ok {
			if stt, ok := tv.Type.Underlying().(*types.Struct); ok {
				out := in.zeroSym(tv.Type)
				if out.k != skStruct {
					return sval{}, serr(e, "record literal outside the model")
				}
				for i, el := range n.Elts {
					name := ""
					ve := el
					if kv, ok := el.(*ast.KeyValueExpr); ok {
						id, ok := kv.Key.(*ast.Ident)
						if !ok {
							return sval{}, serr(e, "record literal key")
						}
						name, ve = id.Name, kv.Value
					} else if i < stt.NumFields() {
						name = stt.Field(i).Name()
					}
					v, err := in.eval(st, ve)
					if err != nil {
						return sval{}, err
					}
					out.fields[name] = v
				}
				return out, nil
			}
		}
		if lv, ok := p.listValue(n); ok {
			return conc(lv), nil
		}
		if tv, ok := info.Types[n]; ok {
			_, isArr := tv.Type.Underlying().(*types.Array)
			_, isSl := tv.Type.Underlying().(*types.Slice)
			if isArr || isSl {
				out := sval{k: skArr}
				for _, el := range n.Elts {
					if _, isKV := el.(*ast.KeyValueExpr); isKV {
						return sval{}, serr(e, "keyed literal of non-constants")
					}
					v, err := in.eval(st, el)
					if err != nil {
						return sval{}, err
					}
					out.elems = append(out.elems, v)
				}
				return out, nil
			}
		}
		return sval{}, serr(e, "composite literal of non-constants")
	case *ast.SliceExpr:
		a, err := in.eval(st, n.X)
		if err != nil {
			return sval{}, err
		}
		if a.k == skConc && (a.c.K == VStr || a.c.K == VList) && !n.Slice3 {
			ln := len(a.c.S)
			if a.c.K == VList {
				ln = len(a.c.T)
			}
			lo, hi := 0, ln
			for i, be := range []ast.Expr{n.Low, n.High} {
				if be == nil {
					continue
				}
				v, err := in.eval(st, be)
				if err != nil {
					return sval{}, err
				}
				if v.k != skConc || v.c.K != VInt {
					if a.c.K == VStr && v.k == skBits {
						goto symbolicBounds
					}
					return sval{}, serr(e, "symbolic slice bound")
				}
				if i == 0 {
					lo = int(v.c.I)
				} else {
					hi = int(v.c.I)
				}
			}
			if lo < 0 || hi > ln || lo > hi {
				return sval{}, serr(e, "slice bounds out of range: Vector would panic")
			}
			if a.c.K == VStr {
				return conc(vStr(a.c.S[lo:hi])), nil
			}
			return conc(Val{K: VList, T: a.c.T[lo:hi]}), nil
		}
	symbolicBounds:
		if a.k == skConc && a.c.K == VStr && !n.Slice3 {
			// constant text cut at symbolic positions
			lo, hi := conc(vInt(0)), conc(vInt(int64(len(a.c.S))))
			if n.Low != nil {
				v, err := in.eval(st, n.Low)
				if err != nil {
					return sval{}, err
				}
				lo = v
			}
			if n.High != nil {
				v, err := in.eval(st, n.High)
				if err != nil {
					return sval{}, err
				}
				hi = v
			}
			return in.caseSplit([]sval{lo, hi}, e, func(vs []Val) (sval, error) {
				l, h := vs[0].I, vs[1].I
				if l < 0 || h > int64(len(a.c.S)) || l > h {
					return sval{}, serr(e, "slice bounds [%d:%d] out of range of %q: Vector would panic", l, h, a.c.S)
				}
				return conc(vStr(a.c.S[l:h])), nil
			})
		}
		return sval{}, serr(e, "slicing outside the emitter language")
	}
	return sval{}, serr(e, "expression %T outside the emitter language", e)
}

func (in *semit) evalBinary(st *sstate, n *ast.BinaryExpr) (sval, error) {
	a, err := in.eval(st, n.X)
	if err != nil {
		return sval{}, err
	}
	if n.Op == token.LAND || n.Op == token.LOR {
		if a.k == skConc && a.c.K == VBool {
			if (n.Op == token.LAND) == (a.c.I == 0) {
				return a, nil // short circuit
			}
			return in.eval(st, n.Y)
		}
		fa, ok := asFormula(a)
		if !ok {
			return sval{}, serr(n, "logical operator on a non-boolean")
		}
		b, err := in.eval(st, n.Y)
		if err != nil {
			return sval{}, err
		}
		fb, ok := asFormula(b)
		if !ok {
			return sval{}, serr(n, "logical operator on a non-boolean")
		}
		if n.Op == token.LAND {
			return sval{k: skBool, f: bAnd(fa, fb)}, nil
		}
		return sval{k: skBool, f: bOr(fa, fb)}, nil
	}
	b, err := in.eval(st, n.Y)
	if err != nil {
		return sval{}, err
	}
	atomCount := func(vs ...sval) int {
		at := map[string]bool{}
		for _, v := range vs {
			if v.k == skBits {
				for _, bb := range v.bits {
					bb.labels(at)
				}
			}
		}
		return len(at)
	}
	if semitLinearInts && n.Op == token.MUL && (a.k == skLin || b.k == skLin) {
		// a size scaled by a constant
		l, c := a, b
		if l.k != skLin {
			l, c = b, a
		}
		if c.k == skConc && c.c.K == VInt {
			out := sval{k: skLin, lbase: l.lbase * c.c.I}
			for _, tm := range l.lterms {
				if tm.lenOf != "" && c.c.I != 1 {
					return sval{}, serr(n, "a string length is scaled")
				}
				tm.k *= c.c.I
				out.lterms = append(out.lterms, tm)
			}
			return out, nil
		}
		return sval{}, serr(n, "product of two symbolic sizes")
	}
	if semitLinearInts && (n.Op == token.ADD || n.Op == token.SUB) && (a.k == skBits || b.k == skBits) && (a.k == skLin || b.k == skLin || atomCount(a, b) > 10) {
		// a symbolic small integer added to a size: one guarded constant per case
		var err error
		if a.k == skBits {
			if a, err = in.bitsToLin(a, n); err != nil {
				return sval{}, err
			}
		}
		if b.k == skBits {
			if b, err = in.bitsToLin(b, n); err != nil {
				return sval{}, err
			}
		}
	}
	if (a.k == skLin || b.k == skLin) && (n.Op == token.ADD || n.Op == token.SUB) {
		la, ok1 := asLin(a)
		lb, ok2 := asLin(b)
		if ok1 && ok2 {
			out := sval{k: skLin, lbase: la.lbase, lterms: append([]linTerm(nil), la.lterms...)}
			if n.Op == token.ADD {
				out.lbase += lb.lbase
				out.lterms = append(out.lterms, lb.lterms...)
			} else {
				out.lbase -= lb.lbase
				for _, tm := range lb.lterms {
					if tm.lenOf != "" {
						return sval{}, serr(n, "subtraction of a string length")
					}
					tm.k = -tm.k
					out.lterms = append(out.lterms, tm)
				}
			}
			return out, nil
		}
		return sval{}, serr(n, "arithmetic between a size and a non-integer")
	}
	if n.Op == token.EQL || n.Op == token.NEQ {
		if f, ok := nilCompare(a, b); ok {
			if n.Op == token.NEQ {
				f = bNot(f)
			}
			return formulaVal(f), nil
		}
		if x, y, ok := bothBits(a, b); ok {
			var f *bform = &bform{op: "true"}
			for i := range x {
				f = bAnd(f, bNot(bXor(x[i], y[i])))
			}
			if n.Op == token.NEQ {
				f = bNot(f)
			}
			return formulaVal(f), nil
		}
		f, ok, err := symEq(a, b, n)
		if err != nil {
			return sval{}, err
		}
		if ok {
			if n.Op == token.NEQ {
				f = bNot(f)
			}
			return sval{k: skBool, f: f}, nil
		}
	}
	if x, y, ok := bothBits(a, b); ok {
		out := sval{k: skBits}
		switch n.Op {
		case token.AND:
			for i := range x {
				out.bits = append(out.bits, bAnd(x[i], y[i]))
			}
			return out, nil
		case token.OR:
			for i := range x {
				out.bits = append(out.bits, bOr(x[i], y[i]))
			}
			return out, nil
		case token.XOR:
			for i := range x {
				out.bits = append(out.bits, bXor(x[i], y[i]))
			}
			return out, nil
		case token.AND_NOT:
			for i := range x {
				out.bits = append(out.bits, bAnd(x[i], bNot(y[i])))
			}
			return out, nil
		case token.SHL, token.SHR:
			if b.k != skConc {
				return sval{}, serr(n, "shift by a symbolic amount")
			}
			w := len(a.bits)
			sh := int(b.c.I)
			for i := 0; i < w; i++ {
				j := i - sh
				if n.Op == token.SHR {
					j = i + sh
				}
				if j >= 0 && j < w {
					out.bits = append(out.bits, a.bits[j])
				} else {
					out.bits = append(out.bits, bConst(false))
				}
			}
			return out, nil
		}
		switch n.Op {
		case token.LSS, token.LEQ, token.GTR, token.GEQ:
			lt := func(p, q []*bform) *bform { // unsigned p < q
				var f *bform = &bform{op: "false"}
				for i := 0; i < len(p); i++ { // from LSB upwards: f_i = (¬p_i ∧ q_i) ∨ (p_i ≡ q_i ∧ f_{i-1})
					f = bOr(bAnd(bNot(p[i]), q[i]), bAnd(bNot(bXor(p[i], q[i])), f))
				}
				return f
			}
			var f *bform
			switch n.Op {
			case token.LSS:
				f = lt(x, y)
			case token.GTR:
				f = lt(y, x)
			case token.LEQ:
				f = bNot(lt(y, x))
			default:
				f = bNot(lt(x, y))
			}
			return formulaVal(f), nil
		case token.ADD, token.SUB, token.MUL, token.QUO, token.REM:
			// few symbolic bits: one case per assignment
			return in.caseSplit([]sval{a, b}, n, func(vs []Val) (sval, error) {
				v, err := newCEnv(in.p, nil).binop(n.Op, vs[0], vs[1], in.p.Info.TypeOf(n), n)
				if err != nil {
					return sval{}, serr(n, "%v", err)
				}
				return conc(v), nil
			})
		}
		return sval{}, serr(n, "operator %s on a symbolic bit set", n.Op)
	}
	if a.k == skUnk || b.k == skUnk {
		switch n.Op {
		case token.ADD, token.SUB, token.MUL:
			return sval{k: skUnk}, nil
		}
		// a positive unknown compared with 0
		{
			u, c, flip := a, b, false
			if b.k == skUnk {
				u, c, flip = b, a, true
			}
			if u.k == skUnk && u.minOne && c.k == skConc && c.c.K == VInt && c.c.I == 0 {
				op := n.Op
				if flip {
					op = map[token.Token]token.Token{token.LSS: token.GTR, token.GTR: token.LSS, token.LEQ: token.GEQ, token.GEQ: token.LEQ, token.EQL: token.EQL, token.NEQ: token.NEQ}[op]
				}
				switch op {
				case token.NEQ, token.GTR, token.GEQ:
					return conc(vBool(true)), nil
				case token.EQL, token.LSS, token.LEQ:
					return conc(vBool(false)), nil
				}
			}
		}
		switch n.Op {
		case token.EQL, token.NEQ, token.LSS, token.LEQ, token.GTR, token.GEQ:
			// a test on a number the model does not follow (the sizing value):
			// both outcomes are explored under a fresh atom; it survives only
			// if the results differ between them
			return formulaVal(bAtom(fmt.Sprintf("U:%d", n.Pos()), "1")), nil
		}
		return sval{}, serr(n, "operator %s on an unknown number", n.Op)
	}
	if a.k == skConc && b.k == skConc {
		v, err := newCEnv(in.p, nil).binop(n.Op, a.c, b.c, in.p.Info.TypeOf(n), n)
		if err != nil {
			return sval{}, serr(n, "%v", err)
		}
		return conc(v), nil
	}
	return sval{}, serr(n, "operator %s on symbolic values", n.Op)
}

func bXor(x, y *bform) *bform {
	return bOr(bAnd(x, bNot(y)), bAnd(bNot(x), y))
}

func formulaVal(f *bform) sval {
	switch f.op {
	case "true":
		return conc(vBool(true))
	case "false":
		return conc(vBool(false))
	}
	return sval{k: skBool, f: f}
}

// nilCompare: `a == b` when one side is nil and the other a pointer-like model value
func nilCompare(a, b sval) (*bform, bool) {
	isNil := func(v sval) bool { return v.k == skConc && v.c.K == VNil }
	if isNil(b) {
		a, b = b, a
	}
	if !isNil(a) {
		return nil, false
	}
	var rec func(v sval) (*bform, bool)
	rec = func(v sval) (*bform, bool) {
		switch v.k {
		case skConc:
			if v.c.K == VNil {
				return bConst(true), true
			}
			if v.c.K == VOpaque {
				return bConst(false), true
			}
		case skStruct:
			if v.isPtr {
				return bConst(false), true
			}
		case skPtr, skRecv:
			return bConst(false), true
		case skIte:
			x, ok1 := rec(*v.a)
			y, ok2 := rec(*v.b)
			if ok1 && ok2 {
				return bIte(v.f, x, y), true
			}
		}
		return nil, false
	}
	return rec(b)
}

// symEq: a == b as a formula when one side is a Get string
func symEq(a, b sval, at ast.Node) (*bform, bool, error) {
	if b.k == skGet || b.k == skIte {
		a, b = b, a
	}
	switch a.k {
	case skGet:
		if b.k == skConc && b.c.K == VStr {
			return bAtom(a.label, b.c.S), true, nil
		}
		return nil, false, serr(at, "a Get string is compared with something that is not a constant")
	case skIte:
		f1, ok1, err := symEq(*a.a, b, at)
		if err != nil {
			return nil, false, err
		}
		f2, ok2, err := symEq(*a.b, b, at)
		if err != nil {
			return nil, false, err
		}
		conv := func(v sval, f *bform, ok bool) *bform {
			if ok {
				return f
			}
			if v.k == skConc && b.k == skConc {
				if svalEqual(v, b) {
					return &bform{op: "true"}
				}
				return &bform{op: "false"}
			}
			return nil
		}
		g1, g2 := conv(*a.a, f1, ok1), conv(*a.b, f2, ok2)
		if g1 == nil || g2 == nil {
			return nil, false, serr(at, "comparison of a conditional value")
		}
		return bOr(bAnd(a.f, g1), bAnd(bNot(a.f), g2)), true, nil
	}
	return nil, false, nil
}

func (in *semit) appendPieces(dst []piece, v sval, at ast.Expr) ([]piece, error) {
	switch v.k {
	case skConc:
		if v.c.K == VStr {
			if v.c.S == "" {
				return dst, nil
			}
			return append(dst, piece{lit: v.c.S, src: at, at: at}), nil
		}
	case skGet:
		return append(dst, piece{label: v.label, at: at}), nil
	case skBuf:
		return append(dst, v.pieces...), nil
	case skIte:
		t, err := in.appendPieces(nil, *v.a, at)
		if err != nil {
			return nil, err
		}
		e, err := in.appendPieces(nil, *v.b, at)
		if err != nil {
			return nil, err
		}
		return append(dst, piece{guard: v.f, then: t, els: e, at: at}), nil
	}
	return nil, serr(at, "appended value is neither constant text nor a Get string")
}

func (in *semit) evalCall(st *sstate, n *ast.CallExpr) (sval, error) {
	p := in.p
	info := p.Info
	// conversions
	if tv, ok := info.Types[n.Fun]; ok && tv.IsType() && len(n.Args) == 1 {
		v, err := in.eval(st, n.Args[0])
		if err != nil {
			return sval{}, err
		}
		switch v.k {
		case skBits:
			w := widthOf(tv.Type)
			out := sval{k: skBits}
			for i := 0; i < w; i++ {
				if i < len(v.bits) {
					out.bits = append(out.bits, v.bits[i])
				} else {
					out.bits = append(out.bits, bConst(false))
				}
			}
			return out, nil
		case skStruct, skBool, skArr, skLin:
			return v, nil
		case skBuf, skPtr, skGet, skIte, skRecv:
			// string(b), []byte(s), unsafe.Pointer(&b), (*string)(ptr): same content
			return v, nil
		case skConc:
			if v.c.K == VInt {
				v.c.I = wrapInt(tv.Type, v.c.I)
				if b, ok := tv.Type.Underlying().(*types.Basic); ok && b.Info()&types.IsString != 0 {
					return conc(vStr(string(rune(v.c.I)))), nil
				}
			}
			if v.c.K == VStr && isByteSlice(tv.Type) {
				return sval{k: skBuf, pieces: []piece{{lit: v.c.S, src: n.Args[0], at: n}}}, nil
			}
			return v, nil
		}
		return sval{}, serr(n, "conversion outside the emitter language")
	}
	if id, ok := n.Fun.(*ast.Ident); ok {
		if _, isB := info.Uses[id].(*types.Builtin); isB {
			switch id.Name {
			case "make":
				if len(n.Args) >= 2 && isByteSlice(info.TypeOf(n.Args[0])) {
					ln, err := in.eval(st, n.Args[1])
					if err != nil {
						return sval{}, err
					}
					if ln.k != skConc || ln.c.K != VInt || ln.c.I != 0 {
						return sval{}, serr(n, "the buffer is made with a non-zero length: it starts with zero bytes")
					}
					if len(n.Args) == 3 {
						if _, err := in.eval(st, n.Args[2]); err != nil {
							return sval{}, err
						}
					}
					return sval{k: skBuf, mk: n}, nil
				}
				return sval{}, serr(n, "make of something other than the byte buffer")
			case "append":
				if len(n.Args) == 0 {
					break
				}
				dst, err := in.eval(st, n.Args[0])
				if err != nil {
					return sval{}, err
				}
				if dst.k == skConc && dst.c.K == VNil {
					dst = sval{k: skBuf}
				}
				if dst.k != skBuf {
					return sval{}, serr(n, "append to something that is not the byte buffer")
				}
				out := append([]piece(nil), dst.pieces...)
				if n.Ellipsis.IsValid() {
					if len(n.Args) != 2 {
						return sval{}, serr(n, "append form")
					}
					v, err := in.eval(st, n.Args[1])
					if err != nil {
						return sval{}, err
					}
					out, err = in.appendPieces(out, v, n.Args[1])
					if err != nil {
						return sval{}, err
					}
				} else {
					for _, a := range n.Args[1:] {
						v, err := in.eval(st, a)
						if err != nil {
							return sval{}, err
						}
						if v.k != skConc || v.c.K != VInt || v.c.I < 0 || v.c.I > 255 {
							return sval{}, serr(a, "appended byte is not a constant")
						}
						out = append(out, piece{lit: string([]byte{byte(v.c.I)}), src: a, at: a})
					}
				}
				return sval{k: skBuf, pieces: out, mk: dst.mk}, nil
			case "len", "cap":
				v, err := in.eval(st, n.Args[0])
				if err != nil {
					return sval{}, err
				}
				if v.k == skConc {
					switch v.c.K {
					case VStr:
						return conc(vInt(int64(len(v.c.S)))), nil
					case VList:
						return conc(vInt(int64(len(v.c.T)))), nil
					}
				}
				if v.k == skGet && semitLinearInts {
					return sval{k: skLin, lterms: []linTerm{{lenOf: v.label}}}, nil
				}
				if v.k == skBuf && id.Name == "len" {
					// an empty buffer has length 0; one that holds an unconditional
					// non-empty literal has a positive length
					if len(v.pieces) == 0 {
						return conc(vInt(0)), nil
					}
					for _, pc := range v.pieces {
						if pc.guard == nil && pc.label == "" && pc.lit != "" {
							return sval{k: skUnk, minOne: true}, nil
						}
					}
				}
				if v.k == skGet || v.k == skBuf || v.k == skIte {
					return sval{k: skUnk}, nil
				}
				return sval{}, serr(n, "len of an unexpected value")
			case "panic":
				return sval{}, serr(n, "Vector can reach panic(...)")
			}
			return sval{}, serr(n, "builtin %s outside the emitter language", id.Name)
		}
	}
	unsafeName := ""
	if se, ok := n.Fun.(*ast.SelectorExpr); ok {
		if pk, ok := se.X.(*ast.Ident); ok {
			if pn, ok := info.Uses[pk].(*types.PkgName); ok && pn.Imported().Path() == "unsafe" {
				unsafeName = se.Sel.Name
			}
		}
	}
	fn := calleeOf(info, n)
	if fn == nil && unsafeName == "" {
		return sval{}, serr(n, "call of an unresolved function")
	}
	if unsafeName != "" || (fn.Pkg() != nil && fn.Pkg().Path() == "unsafe") {
		if unsafeName == "" {
			unsafeName = fn.Name()
		}
		switch unsafeName {
		case "String":
			// unsafe.String(&b[0], n): the buffer's bytes
			v, err := in.eval(st, n.Args[0])
			if err != nil {
				return sval{}, err
			}
			if v.k == skPtr {
				return st.frames[v.ref.depth].vars[v.ref.obj], nil
			}
		case "SliceData":
			v, err := in.eval(st, n.Args[0])
			if err != nil {
				return sval{}, err
			}
			if v.k == skBuf {
				if id, ok := n.Args[0].(*ast.Ident); ok {
					return sval{k: skPtr, ref: &sref{depth: len(st.frames) - 1, obj: info.Uses[id]}}, nil
				}
			}
		}
		return sval{}, serr(n, "unsafe.%s form outside the emitter language", unsafeName)
	}
	if fn.Pkg() != nil && fn.Pkg().Path() == "math/bits" && strings.HasPrefix(fn.Name(), "TrailingZeros") && len(n.Args) == 1 {
		v, err := in.eval(st, n.Args[0])
		if err != nil {
			return sval{}, err
		}
		if v.k == skBits {
			// value k iff bit k is the lowest set bit; the width when none is set
			w := len(v.bits)
			switch strings.TrimPrefix(fn.Name(), "TrailingZeros") {
			case "8":
				w = 8
			case "16":
				w = 16
			case "32":
				w = 32
			}
			for len(v.bits) < w {
				v.bits = append(append([]*bform(nil), v.bits...), bConst(false))
			}
			res := sval{k: skBits, bits: bitsOf(0, 8)}
			none := &bform{op: "true"}
			for k := 0; k <= w; k++ {
				var isK *bform
				if k < w {
					isK = bAnd(none, v.bits[k])
					none = bAnd(none, bNot(v.bits[k]))
				} else {
					isK = none
				}
				for b := 0; b < 8; b++ {
					if k>>uint(b)&1 == 1 {
						res.bits[b] = bOr(res.bits[b], isK)
					}
				}
			}
			return res, nil
		}
	}
	if fn.Pkg() != p.P.Types {
		// pure library functions on concrete arguments
		var args []Val
		for _, a := range n.Args {
			v, err := in.eval(st, a)
			if err != nil {
				return sval{}, err
			}
			if v.k != skConc {
				return sval{}, serr(n, "library call %s on symbolic values", fn.FullName())
			}
			args = append(args, v.c)
		}
		if v, ok, err := stdlibSummary(fn, args, n); ok && err == nil {
			return conc(v), nil
		}
		return sval{}, serr(n, "library call %s outside the emitter language", fn.FullName())
	}
	fd := p.FuncObj[fn]
	if fd == nil || fd.Body == nil {
		return sval{}, serr(n, "call of %s, which has no body", fn.Name())
	}
	// receiver
	var recv sval
	hasRecv := false
	if se, ok := n.Fun.(*ast.SelectorExpr); ok && fd.Recv != nil {
		v, err := in.eval(st, se.X)
		if err != nil {
			return sval{}, err
		}
		recv, hasRecv = v, true
		// x.M() with a pointer receiver on an addressable value: &x
		if ro := p.recvObj(fd); ro != nil {
			_, ptrRecv := ro.Type().(*types.Pointer)
			switch {
			case ptrRecv && recv.k != skPtr && recv.k != skRecv:
				if r, err := in.refOf(st, se.X); err == nil {
					recv = sval{k: skPtr, ref: r}
				}
			case !ptrRecv && recv.k == skPtr:
				if lv, err := in.load(st, recv.ref); err == nil {
					recv = lv
				}
			}
		}
	}
	var args []sval
	for _, a := range n.Args {
		v, err := in.eval(st, a)
		if err != nil {
			return sval{}, err
		}
		args = append(args, v)
	}
	// the primitive: Get on the receiver
	if hasRecv && recv.k == skRecv && fd == in.getFn {
		if len(args) == 1 && args[0].k == skConc && args[0].c.K == VStr {
			if in.gm.ByLabel[args[0].c.S] != nil {
				return sval{k: skTuple, t: []sval{{k: skGet, label: args[0].c.S}, conc(Val{K: VNil})}}, nil
			}
			return sval{}, serr(n, "Get is asked for %q, which it does not know", args[0].c.S)
		}
		return sval{}, serr(n, "Get is called with a non-constant abbreviation")
	}
	// a numeric helper over the receiver alone (the sizing function): its value
	// can only size the buffer; it is interpreted on its own (sizingLinear)
	if !in.sizing && in.sizingCall != nil && n == in.sizingCall {
		in.unkCalls = append(in.unkCalls, n)
		return sval{k: skUnk}, nil
	}
	if !in.sizing && in.sizingCall == nil {
		if sig, ok := fn.Type().(*types.Signature); ok && sig.Results().Len() == 1 {
			if b, ok := sig.Results().At(0).Type().Underlying().(*types.Basic); ok && b.Info()&types.IsInteger != 0 && b.Kind() != types.Uint8 {
				onlyRecv := (hasRecv && recv.k == skRecv) || len(args) > 0
				for _, a := range args {
					if a.k != skRecv {
						onlyRecv = false
					}
				}
				if onlyRecv {
					in.unkCalls = append(in.unkCalls, n)
					return sval{k: skUnk}, nil
				}
			}
		}
	}
	res, err := in.inline(st, fd, recv, hasRecv, args, n)
	if err != nil {
		// a numeric helper over the receiver's bytes (the sizing function)
		if sig, ok := fn.Type().(*types.Signature); ok && sig.Results().Len() == 1 {
			if b, ok := sig.Results().At(0).Type().Underlying().(*types.Basic); ok && b.Info()&types.IsInteger != 0 {
				onlyRecv := true
				for _, a := range args {
					if a.k != skRecv {
						onlyRecv = false
					}
				}
				if onlyRecv {
					in.unkCalls = append(in.unkCalls, n)
					return sval{k: skUnk}, nil
				}
			}
		}
		return sval{}, err
	}
	return res, nil
}

func (in *semit) inline(st *sstate, fd *ast.FuncDecl, recv sval, hasRecv bool, args []sval, at ast.Node) (sval, error) {
	info := in.p.Info
	if in.depth > 8 {
		return sval{}, serr(at, "call depth exceeded")
	}
	in.depth++
	defer func() { in.depth-- }()
	params := paramObjs(info, fd)
	if len(params) != len(args) {
		return sval{}, serr(at, "arity mismatch calling %s", fd.Name.Name)
	}
	work := st.fork()
	fr := &sframe{vars: map[types.Object]sval{}, fd: fd}
	if hasRecv {
		if ro := in.p.recvObj(fd); ro != nil {
			fr.vars[ro] = recv
		}
	}
	for i, po := range params {
		if po != nil {
			fr.vars[po] = args[i]
		}
	}
	for _, r := range resultObjs(info, fd) {
		if r != nil {
			fr.vars[r] = in.zeroSym(r.Type())
		}
	}
	work.frames = append(work.frames, fr)
	outs, err := in.execList(work, fd.Body.List)
	if err != nil {
		return sval{}, err
	}
	for i := range outs {
		if outs[i].ctrl == scNext {
			outs[i].ctrl = scReturn
		}
		if outs[i].ctrl != scReturn {
			return sval{}, serr(at, "break/continue escapes %s", fd.Name.Name)
		}
	}
	m, err := mergeByCtrl(outs)
	if err != nil {
		return sval{}, serr(at, "%v", err)
	}
	if len(m) != 1 {
		return sval{}, serr(at, "%s has no outcome", fd.Name.Name)
	}
	if m[0].cond != nil && !m[0].cond.taut(in.gm) {
		return sval{}, serr(at, "%s does not return on every path", fd.Name.Name)
	}
	// commit the callee's effects on the caller's frames
	res := m[0].st
	st.frames = res.frames[:len(res.frames)-1]
	return m[0].ret, nil
}

// ---------------------------------------------------------------------------
// from pieces to the emission model

// semanticEmitModel interprets Vector symbolically. It returns nil and the
// reason when the function is outside the interpreter's language.
func (p *Pkg) semanticEmitModel() (*EmitModel, error) {
	fd := p.method("Vector")
	if fd == nil || fd.Body == nil {
		return nil, fmt.Errorf("no Vector method")
	}
	gm := p.GetModel()
	in := &semit{p: p, gm: gm, getFn: p.method("Get")}
	if in.getFn == nil {
		return nil, fmt.Errorf("no Get method")
	}
	// the call that sizes the buffer is located syntactically: only its value stays opaque
	{
		pre := &EmitModel{Fn: fd}
		p.locateBuffer(pre)
		in.sizingCall = pre.LenCall
	}
	st := &sstate{frames: []*sframe{{vars: map[types.Object]sval{}, fd: fd}}}
	if ro := p.recvObj(fd); ro != nil {
		st.top().vars[ro] = sval{k: skRecv}
	}
	outs, err := in.execList(st, fd.Body.List)
	if err != nil {
		return nil, err
	}
	var ret *sout
	for i := range outs {
		if outs[i].ctrl == scReturn {
			ret = &outs[i]
		}
	}
	if ret == nil || len(outs) != 1 {
		return nil, fmt.Errorf("Vector does not end in a single return")
	}
	if ret.cond != nil && !ret.cond.taut(gm) {
		return nil, fmt.Errorf("Vector does not return on every path")
	}
	rv := ret.ret
	if rv.k == skPtr {
		rv = ret.st.frames[rv.ref.depth].vars[rv.ref.obj]
	}
	if rv.k != skBuf {
		return nil, fmt.Errorf("Vector's result is not the bytes of its buffer")
	}
	if in.readBytes || hasBitAtoms(rv.pieces) {
		sm := p.SetModel()
		lf := &lifter{p: p, sm: sm, gm: gm}
		lifted, err := lf.liftList(rv.pieces)
		if err != nil {
			return nil, err
		}
		rv.pieces = lifted
	}
	em := &EmitModel{Fn: fd, Semantic: true}
	em.MakeCall = rv.mk
	p.locateBuffer(em)
	if em.LenCall == nil && len(in.unkCalls) > 0 {
		em.LenCall = in.unkCalls[0]
	}
	bad := func(n ast.Node, f string, a ...any) {
		if n == nil {
			n = fd
		}
		em.Problems = append(em.Problems, problem{n, fmt.Sprintf(f, a...)})
	}
	// literal chunks waiting for the value they prefix
	var pend []piece
	flushPrefix := func() string {
		s := ""
		for _, c := range pend {
			s += c.lit
		}
		pend = nil
		return s
	}
	headerConst := func(c piece) bool {
		id, ok := c.src.(*ast.Ident)
		if !ok {
			return false
		}
		_, isConst := p.Info.Uses[id].(*types.Const)
		return isConst
	}
	first := true
	takePrefix := func() string {
		if first {
			first = false
			// the header is the leading chunk when it is a named constant, or
			// when further chunks separate it from the first value
			// (a version without a header only has one if a named constant is written first)
			if len(pend) > 0 && (headerConst(pend[0]) || (len(pend) > 1 && vocab[p.Key].Header != "")) && em.Header == "" {
				em.Header = pend[0].lit
				em.HeaderPos = pend[0].at
				pend = pend[1:]
			}
		}
		return flushPrefix()
	}
	var units func(ps []piece, group int, inGuard bool) bool
	units = func(ps []piece, group int, inGuard bool) bool {
		for _, c := range ps {
			switch {
			case c.guard != nil:
				return false
			case c.label != "":
				em.Entries = append(em.Entries, EmitEntry{Prefix: takePrefix(), Label: c.label, Group: group, Call: c.at})
			default:
				pend = append(pend, c)
			}
		}
		return true
	}
	for _, c := range rv.pieces {
		if c.guard == nil {
			units([]piece{c}, -1, false)
			continue
		}
		if len(pend) > 0 {
			bad(c.at, "constant text %q is written unconditionally before a conditional metric", flushPrefix())
		}
		g, body := c.guard, c.then
		if len(c.then) == 0 && len(c.els) > 0 {
			g, body = bNot(c.guard), c.els
		} else if len(c.els) > 0 {
			bad(c.at, "both branches of a condition write to the buffer")
			continue
		}
		if len(body) == 0 {
			continue
		}
		ls := map[string]bool{}
		g.labels(ls)
		n0 := len(em.Entries)
		// values written by the body
		var bodyLabels []string
		for _, b := range body {
			if b.label != "" {
				bodyLabels = append(bodyLabels, b.label)
			}
		}
		if len(bodyLabels) == 1 && len(ls) == 1 && ls[bodyLabels[0]] {
			if !units(body, -1, true) {
				bad(c.at, "nested conditions in the emission of %s", bodyLabels[0])
				continue
			}
			if len(pend) > 0 {
				bad(c.at, "constant text %q follows the value of %s inside its condition", flushPrefix(), bodyLabels[0])
			}
			// the strings for which nothing is written
			l := bodyLabels[0]
			set := map[string]bool{}
			if ga := gm.ByLabel[l]; ga != nil {
				for _, s := range ga.Table {
					set[s] = true
				}
			}
			g.lits(l, set)
			var skip []string
			for s := range set {
				if !g.eval(map[string]string{l: s}) {
					skip = append(skip, s)
				}
			}
			sort.Strings(skip)
			for i := n0; i < len(em.Entries); i++ {
				em.Entries[i].Skip = skip
			}
			continue
		}
		// a group: written in full iff some tested metric differs from a constant
		gi := len(em.Groups)
		grp := EmitGroup{If: c.at}
		var want *bform = &bform{op: "false"}
		var gl []string
		for l := range ls {
			gl = append(gl, l)
		}
		sort.Strings(gl)
		okG := true
		for _, l := range gl {
			lits := map[string]bool{}
			g.lits(l, lits)
			if len(lits) != 1 {
				okG = false
				break
			}
			for s := range lits {
				grp.CondLabels = append(grp.CondLabels, l)
				grp.CondConst = append(grp.CondConst, s)
				want = bOr(want, bNot(bAtom(l, s)))
			}
		}
		if !okG || !bEquiv(gm, g, want) {
			bad(c.at, "the condition %s of a group of metrics is not `some tested value differs from its constant`", g)
			continue
		}
		// keep the order in which the body writes the tested labels
		sort.SliceStable(grp.CondLabels, func(i, j int) bool {
			return indexOf(bodyLabels, grp.CondLabels[i]) < indexOf(bodyLabels, grp.CondLabels[j])
		})
		em.Groups = append(em.Groups, grp)
		if !units(body, gi, true) {
			bad(c.at, "nested conditions inside a group of metrics")
		}
		if len(pend) > 0 {
			bad(c.at, "constant text %q ends a group of metrics", flushPrefix())
		}
	}
	if first {
		takePrefix()
	}
	if len(pend) > 0 {
		bad(fd, "Vector ends with the constant text %q", flushPrefix())
	}
	// "CVSS:3.0" then "/AV:…" is the same text as "CVSS:3.0/" then "AV:…": the
	// separator belongs to the header the specification states
	if want := vocab[p.Key].Header; strings.HasSuffix(want, "/") && em.Header+"/" == want && len(em.Entries) > 0 && strings.HasPrefix(em.Entries[0].Prefix, "/") && em.Entries[0].Group < 0 {
		em.Header += "/"
		em.Entries[0].Prefix = em.Entries[0].Prefix[1:]
	}
	return em, nil
}

func indexOf(xs []string, s string) int {
	for i, x := range xs {
		if x == s {
			return i
		}
	}
	return len(xs)
}

// locateBuffer finds Vector's buffer variable, the make call and the sizing
// call syntactically (for the rules about the buffer itself).
func (p *Pkg) locateBuffer(em *EmitModel) {
	info := p.Info
	fd := em.Fn
	def := map[types.Object]ast.Expr{}
	ast.Inspect(fd.Body, func(n ast.Node) bool {
		as, ok := n.(*ast.AssignStmt)
		if !ok || len(as.Lhs) != len(as.Rhs) {
			return true
		}
		for i, l := range as.Lhs {
			if o := identObj(info, l); o != nil && as.Tok == token.DEFINE {
				def[o] = as.Rhs[i]
			}
			call, ok := as.Rhs[i].(*ast.CallExpr)
			if !ok {
				continue
			}
			if id, ok := call.Fun.(*ast.Ident); ok && id.Name == "make" {
				if _, isB := info.Uses[id].(*types.Builtin); isB && len(call.Args) >= 1 && isByteSlice(info.TypeOf(call.Args[0])) {
					if em.BufObj == nil {
						em.BufObj = identObj(info, l)
					}
					if em.MakeCall == nil {
						em.MakeCall = call
					}
				}
			}
		}
		return true
	})
	if em.MakeCall != nil && len(em.MakeCall.Args) == 3 {
		c := em.MakeCall.Args[2]
		if o := identObj(info, c); o != nil {
			if d, ok := def[o]; ok {
				c = d
			}
		}
		// the buffer is made by a constructor helper `newBuf(capacity)`: the
		// capacity is what Vector passes for that parameter
		if o := identObj(info, c); o != nil && !(fd.Pos() <= em.MakeCall.Pos() && em.MakeCall.End() <= fd.End()) {
			for _, h := range p.Funcs {
				if h.Body == nil || !(h.Pos() <= em.MakeCall.Pos() && em.MakeCall.End() <= h.End()) {
					continue
				}
				for k, po := range paramObjs(info, h) {
					if po != o || assignedIn(info, h.Body, po) {
						continue
					}
					ast.Inspect(fd.Body, func(n ast.Node) bool {
						if call, ok := n.(*ast.CallExpr); ok && len(call.Args) > k {
							if fn := calleeOf(info, call); fn != nil && p.FuncObj[fn] == h {
								c = call.Args[k]
								if ao := identObj(info, c); ao != nil {
									if d, ok := def[ao]; ok {
										c = d
									}
								}
							}
						}
						return true
					})
				}
			}
		}
		if call, ok := c.(*ast.CallExpr); ok {
			if fn := calleeOf(info, call); fn != nil && fn.Pkg() == p.P.Types {
				em.LenCall = call
			}
		}
		if fd.Pos() <= c.Pos() && c.End() <= fd.End() {
			em.CapExpr = c
		}
	}
}

var _ = strings.Join

// ---------------------------------------------------------------------------
// lifting: pieces whose conditions and texts depend on receiver *bits* are
// re-expressed over the strings Get prints, by enumeration of the codes of the
// metrics that own those bits (Set model). After lifting, a value chosen from
// a table by a metric's bits is the piece GV(metric), and a test on a metric's
// bits is a formula over GV(metric) == "…" atoms.

type lifter struct {
	p  *Pkg
	sm *SetModel
	gm *GetModel
}

func (l *lifter) atomMetric(label string) (string, bool) {
	if !strings.HasPrefix(label, "B:") {
		return label, true
	}
	var f, b int
	if _, err := fmt.Sscanf(label, "B:%d.%d", &f, &b); err != nil {
		return "", false
	}
	if m := l.sm.Owner[BitPos{f, b}]; m != nil {
		return m.Label, true
	}
	return "", false
}

func pieceAtoms(ps []piece, into map[string]bool) {
	for _, c := range ps {
		if c.label != "" {
			into[c.label] = true
		}
		if c.guard != nil {
			c.guard.labels(into)
			pieceAtoms(c.then, into)
			pieceAtoms(c.els, into)
		}
	}
}

func hasBitAtoms(ps []piece) bool {
	at := map[string]bool{}
	pieceAtoms(ps, at)
	for a := range at {
		if strings.HasPrefix(a, "B:") {
			return true
		}
	}
	return false
}

func (l *lifter) metricsOf(ps []piece) ([]string, error) {
	at := map[string]bool{}
	pieceAtoms(ps, at)
	set := map[string]bool{}
	for a := range at {
		m, ok := l.atomMetric(a)
		if !ok {
			return nil, fmt.Errorf("Vector reads receiver bit %s, which belongs to no metric", strings.TrimPrefix(a, "B:"))
		}
		set[m] = true
	}
	var out []string
	for m := range set {
		out = append(out, m)
	}
	sort.Strings(out)
	return out, nil
}

// assignment for a choice of codes: GV(label) and the bits of its field
func (l *lifter) assignment(codes map[string]int) (map[string]string, error) {
	asg := map[string]string{}
	for label, c := range codes {
		m := l.sm.ByLabel[label]
		ga := l.gm.ByLabel[label]
		if m == nil || ga == nil || !m.encOK {
			return nil, fmt.Errorf("no layout for %s", label)
		}
		asg[label] = ga.Table[c]
		for pos := range m.W {
			asg[fmt.Sprintf("B:%d.%d", pos.F, pos.B)] = "0"
		}
		for j, pos := range m.Enc {
			if c>>uint(j)&1 == 1 {
				asg[fmt.Sprintf("B:%d.%d", pos.F, pos.B)] = "1"
			}
		}
	}
	return asg, nil
}

func evalPieces(ps []piece, asg map[string]string) string {
	s := ""
	for _, c := range ps {
		switch {
		case c.guard != nil:
			if c.guard.eval(asg) {
				s += evalPieces(c.then, asg)
			} else {
				s += evalPieces(c.els, asg)
			}
		case c.label != "":
			s += asg[c.label]
		default:
			s += c.lit
		}
	}
	return s
}

func (l *lifter) forCodes(metrics []string, fn func(codes map[string]int, asg map[string]string) error) error {
	total := 1
	for _, m := range metrics {
		mm := l.sm.ByLabel[m]
		if mm == nil {
			return fmt.Errorf("Vector depends on %s, which Set does not know", m)
		}
		total *= len(mm.List)
		if total > 50000 {
			return fmt.Errorf("a condition of Vector couples too many metrics (%v)", metrics)
		}
	}
	codes := map[string]int{}
	var rec func(i int) error
	rec = func(i int) error {
		if i == len(metrics) {
			asg, err := l.assignment(codes)
			if err != nil {
				return err
			}
			return fn(codes, asg)
		}
		for c := range l.sm.ByLabel[metrics[i]].List {
			codes[metrics[i]] = c
			if err := rec(i + 1); err != nil {
				return err
			}
		}
		return nil
	}
	return rec(0)
}

// liftFormula: the same condition over GV atoms
func (l *lifter) liftFormula(f *bform) (*bform, error) {
	at := map[string]bool{}
	f.labels(at)
	bits := false
	for a := range at {
		if strings.HasPrefix(a, "B:") {
			bits = true
		}
	}
	if !bits {
		return f, nil
	}
	ms, err := l.metricsOf([]piece{{guard: f}})
	if err != nil {
		return nil, err
	}
	// frequent case: "some tested metric is defined"
	var anyDefined *bform = &bform{op: "false"}
	for _, m := range ms {
		anyDefined = bOr(anyDefined, bNot(bAtom(m, l.gm.ByLabel[m].Table[0])))
	}
	isAnyDefined := true
	var dnf *bform = &bform{op: "false"}
	err = l.forCodes(ms, func(codes map[string]int, asg map[string]string) error {
		v := f.eval(asg)
		if v != anyDefined.eval(asg) {
			isAnyDefined = false
		}
		if v {
			var term *bform = &bform{op: "true"}
			for _, m := range ms {
				term = bAnd(term, bAtom(m, asg[m]))
			}
			dnf = bOr(dnf, term)
		}
		return nil
	})
	if err != nil {
		return nil, err
	}
	if isAnyDefined {
		return anyDefined, nil
	}
	return dnf, nil
}

func (l *lifter) liftList(ps []piece) ([]piece, error) {
	var out []piece
	for _, c := range ps {
		if c.guard == nil || !hasBitAtoms([]piece{c}) {
			if c.guard != nil {
				// no bits below; still normalise the bodies
				t, err := l.liftList(c.then)
				if err != nil {
					return nil, err
				}
				e, err := l.liftList(c.els)
				if err != nil {
					return nil, err
				}
				c.then, c.els = t, e
			}
			out = append(out, c)
			continue
		}
		ms, err := l.metricsOf([]piece{c})
		if err != nil {
			return nil, err
		}
		if len(ms) == 1 {
			// the text written as a function of the metric's code
			m := ms[0]
			ga := l.gm.ByLabel[m]
			prefix, havePrefix := "", false
			var shown *bform = &bform{op: "false"}
			allShown := true
			err := l.forCodes(ms, func(codes map[string]int, asg map[string]string) error {
				o := evalPieces([]piece{c}, asg)
				val := ga.Table[codes[m]]
				if o == "" {
					allShown = false
					return nil
				}
				if !strings.HasSuffix(o, val) || val == "" {
					return fmt.Errorf("for %s=%q Vector writes %q, which does not end with the string Get prints", m, val, o)
				}
				pre := strings.TrimSuffix(o, val)
				if havePrefix && pre != prefix {
					return fmt.Errorf("the text before the value of %s depends on the value (%q / %q)", m, prefix, pre)
				}
				prefix, havePrefix = pre, true
				shown = bOr(shown, bAtom(m, val))
				return nil
			})
			if err != nil {
				return nil, err
			}
			var body []piece
			if prefix != "" {
				body = append(body, piece{lit: prefix, at: c.at})
			}
			body = append(body, piece{label: m, at: c.at})
			if !havePrefix {
				continue // never writes anything
			}
			if allShown {
				out = append(out, body...)
			} else {
				out = append(out, piece{guard: shown, then: body, at: c.at})
			}
			continue
		}
		// several metrics: a conditional group; lift the condition, normalise the bodies
		g, err := l.liftFormula(c.guard)
		if err != nil {
			return nil, err
		}
		t, err := l.liftList(c.then)
		if err != nil {
			return nil, err
		}
		e, err := l.liftList(c.els)
		if err != nil {
			return nil, err
		}
		out = append(out, piece{guard: g, then: t, els: e, at: c.at})
	}
	return out, nil
}

// caseSplit evaluates fn once per assignment of the atoms the symbolic
// integers depend on (at most 2^10 cases), skipping assignments the current
// path condition excludes, and merges the results.
// bitsToLin: Σ over the assignments of the value's atoms of [assignment]·value
func (in *semit) bitsToLin(v sval, at ast.Node) (sval, error) {
	atoms := map[string]bool{}
	for _, b := range v.bits {
		b.labels(atoms)
	}
	var names []string
	for a := range atoms {
		names = append(names, a)
	}
	sort.Strings(names)
	if len(names) > 10 {
		return sval{}, serr(at, "a size term depends on %d symbolic bits", len(names))
	}
	out := sval{k: skLin}
	asg := map[string]string{}
	for m := 0; m < 1<<uint(len(names)); m++ {
		var minterm *bform = &bform{op: "true"}
		for i, nm := range names {
			lit := bAtom(nm, "1")
			if m>>uint(i)&1 == 1 {
				asg[nm] = "1"
				minterm = bAnd(minterm, lit)
			} else {
				asg[nm] = "0"
				minterm = bAnd(minterm, bNot(lit))
			}
		}
		c := concretize(v, asg)
		if c.k != skConc || c.c.K != VInt {
			return sval{}, serr(at, "size term is not an integer")
		}
		if c.c.I != 0 {
			g := minterm
			if len(names) == 0 {
				g = nil
			}
			out.lterms = append(out.lterms, linTerm{guard: g, k: c.c.I})
		}
	}
	return out, nil
}

func (in *semit) caseSplit(args []sval, at ast.Node, fn func(vs []Val) (sval, error)) (sval, error) {
	// inside a case split integers merge into bit vectors (the split is over bits)
	if semitLinearInts {
		semitLinearInts = false
		defer func() { semitLinearInts = true }()
	}
	atoms := map[string]bool{}
	for _, a := range args {
		if a.k == skBits {
			for _, b := range a.bits {
				b.labels(atoms)
			}
		}
	}
	var names []string
	for a := range atoms {
		names = append(names, a)
	}
	sort.Strings(names)
	if len(names) > 10 {
		return sval{}, serr(at, "an operation depends on %d symbolic bits", len(names))
	}
	var out *sval
	asg := map[string]string{}
	for m := 0; m < 1<<uint(len(names)); m++ {
		var minterm *bform = &bform{op: "true"}
		for i, nm := range names {
			lit := bAtom(nm, "1")
			if m>>uint(i)&1 == 1 {
				asg[nm] = "1"
				minterm = bAnd(minterm, lit)
			} else {
				asg[nm] = "0"
				minterm = bAnd(minterm, bNot(lit))
			}
		}
		if in.pc != nil && pcExcludes(in.pc, asg) {
			continue
		}
		vs := make([]Val, len(args))
		for i, a := range args {
			c := concretize(a, asg)
			if c.k != skConc {
				return sval{}, serr(at, "operand is not an integer")
			}
			vs[i] = c.c
		}
		r, err := fn(vs)
		if err != nil {
			return sval{}, err
		}
		if out == nil {
			rr := r
			out = &rr
			continue
		}
		mv, err := mergeVal(minterm, r, *out)
		if err != nil {
			return sval{}, err
		}
		out = &mv
	}
	if out == nil {
		return sval{}, serr(at, "no feasible case")
	}
	return *out, nil
}

// pcExcludes: the path condition is false under this (partial) assignment of
// atoms — decided only when the condition mentions no other atom.
func pcExcludes(pc *bform, asg map[string]string) bool {
	at := map[string]bool{}
	pc.labels(at)
	for a := range at {
		if _, ok := asg[a]; !ok {
			return false
		}
	}
	return !pc.eval(asg)
}

// ---------------------------------------------------------------------------
// sizing functions

// sizingLinear interprets the sizing function Vector uses (lenVec) on a
// symbolic receiver and returns its result as a linear form
// base + Σ [condition]·k (+ string lengths), together with, per term, the
// metrics its condition depends on.
func (p *Pkg) sizingLinear(fd *ast.FuncDecl) (sval, [][]string, error) {
	semitLinearInts = true
	defer func() { semitLinearInts = false }()
	gm := p.GetModel()
	in := &semit{p: p, gm: gm, getFn: p.method("Get"), sizing: true}
	st := &sstate{frames: []*sframe{{vars: map[types.Object]sval{}}}}
	params := paramObjs(p.Info, fd)
	var args []sval
	for range params {
		args = append(args, sval{k: skRecv})
	}
	hasRecv := fd.Recv != nil
	res, err := in.inline(st, fd, sval{k: skRecv}, hasRecv, args, fd)
	if err != nil {
		return sval{}, nil, err
	}
	lin, ok := asLin(res)
	if !ok {
		return sval{}, nil, fmt.Errorf("the sizing function's result is not a sum of constants and string lengths")
	}
	lf := &lifter{p: p, sm: p.SetModel(), gm: gm}
	var sets [][]string
	for _, tm := range lin.lterms {
		at := map[string]bool{}
		if tm.guard != nil {
			tm.guard.labels(at)
		}
		if tm.lenOf != "" {
			at[tm.lenOf] = true
		}
		set := map[string]bool{}
		for a := range at {
			m, ok := lf.atomMetric(a)
			if !ok {
				return sval{}, nil, fmt.Errorf("the sizing function tests receiver bit %s, which belongs to no metric", strings.TrimPrefix(a, "B:"))
			}
			set[m] = true
		}
		var ms []string
		for m := range set {
			ms = append(ms, m)
		}
		sort.Strings(ms)
		sets = append(sets, ms)
	}
	return lin, sets, nil
}
