package main

// Pass U (un-hoisting of loop-invariant ranks).
//
//	h := rank(tab[M], V)                         (once, before the loops)
//	…
//	d := h - rank(tab[M], D)                     (inside the loops)
//
// becomes
//
//	d := zzRankDiff_(M, V, D)
//
// with the synthesised function
//
//	func zzRankDiff_(m TM, a, b TV) R { return rank(tab[m], a) - rank(tab[m], b) }
//
// appended to the file. The rewrite is an equivalence when
//   - h is a local assigned exactly once, by that definition, at the top level
//     of the function (it dominates every later statement);
//   - V is stable: a local or parameter that is not assigned from the
//     definition of h on (textually; the definition is a top-level statement
//     of a function without goto, and no function literal assigns V) and
//     never has its address taken, or a field path of such a variable of struct (not
//     pointer) type no field of which is assigned in the function; and V's
//     identifiers resolve to the same objects at the use;
//   - M is a constant, the same at both sites; rank and tab are the same
//     package-level function and variable at both sites, and tab is written
//     nowhere in the package, directly or through an alias (aliasw.go).
//
// rank is called with the same arguments as before, once more per iteration:
// the result is unchanged provided rank is a function of its arguments; the
// rules that consume the normal form establish that (checkSeverityDistance
// demands a linear scan or tabulates the function).
//
// rank(tab[M], X) may also be written w(M, X) with a thin wrapper
//
//	func w(m, v) R { return rank(tab[m], v) }
//
// The definition of h is removed when no other use remains.

import (
	"fmt"
	"go/ast"
	"go/token"
	"go/types"
	"strings"
)

type rankHoist struct {
	obj   types.Object
	fn    *types.Func
	tab   *types.Var
	m     uint64
	mExpr ast.Expr
	v     ast.Expr
	// where it is defined
	assign *ast.AssignStmt
	decl   *ast.DeclStmt
	spec   *ast.ValueSpec
	idx    int
	uses   int // rewritten uses
}

// rankCall recognises fn(tab[M], X) with fn a package-level function of this
// package, tab a package-level variable and M a constant.
func (n *normalizer) rankCall(e ast.Expr) (fn *types.Func, tab *types.Var, m uint64, mExpr, x ast.Expr, ok bool) {
	p := n.p
	info := p.Info
	call, isCall := ast.Unparen(e).(*ast.CallExpr)
	if !isCall || len(call.Args) != 2 || call.Ellipsis.IsValid() {
		return
	}
	fn = calleeOf(info, call)
	if fn == nil || fn.Pkg() != p.P.Types || p.FuncObj[fn] == nil {
		return
	}
	if sig, _ := fn.Type().(*types.Signature); sig == nil || sig.Recv() != nil || sig.Results().Len() != 1 {
		return
	}
	ix, isIx := ast.Unparen(call.Args[0]).(*ast.IndexExpr)
	if !isIx {
		// a thin wrapper: func w(m, v) R { return fn(tab[m], v) }
		wfd := p.FuncObj[fn]
		ps := paramObjs(info, wfd)
		if len(ps) != 2 || wfd.Body == nil || len(wfd.Body.List) != 1 {
			return
		}
		rs, isRet := wfd.Body.List[0].(*ast.ReturnStmt)
		if !isRet || len(rs.Results) != 1 {
			return
		}
		ic, isCall := ast.Unparen(rs.Results[0]).(*ast.CallExpr)
		if !isCall || len(ic.Args) != 2 || ic.Ellipsis.IsValid() || identObj(info, ast.Unparen(ic.Args[1])) != ps[1] {
			return
		}
		ifn := calleeOf(info, ic)
		iix, isIx := ast.Unparen(ic.Args[0]).(*ast.IndexExpr)
		if ifn == nil || ifn.Pkg() != p.P.Types || p.FuncObj[ifn] == nil || !isIx || identObj(info, ast.Unparen(iix.Index)) != ps[0] {
			return
		}
		if sig, _ := ifn.Type().(*types.Signature); sig == nil || sig.Recv() != nil || sig.Results().Len() != 1 {
			return
		}
		tv, isVar := identObj(info, ast.Unparen(iix.X)).(*types.Var)
		if !isVar || tv.Parent() != p.P.Types.Scope() {
			return
		}
		c, isC := constUint(info, call.Args[0])
		if !isC || p.pkgVarWritten(tv) {
			return
		}
		// the wrapper's parameter types are those of the synthesised function
		if !types.Identical(ps[1].Type(), ifn.Type().(*types.Signature).Params().At(1).Type()) {
			return
		}
		return ifn, tv, c, call.Args[0], call.Args[1], true
	}
	tv, isVar := identObj(info, ast.Unparen(ix.X)).(*types.Var)
	if !isVar || tv.Parent() != p.P.Types.Scope() {
		return
	}
	c, isC := constUint(info, ix.Index)
	if !isC || p.pkgVarWritten(tv) {
		return
	}
	return fn, tv, c, ix.Index, call.Args[1], true
}

// stableExpr: see the pass comment.
func (n *normalizer) stableExpr(fd *ast.FuncDecl, e ast.Expr, from token.Pos) bool {
	info := n.p.Info
	e = ast.Unparen(e)
	root := e
	depth := 0
	for {
		if se, ok := root.(*ast.SelectorExpr); ok {
			if sel := info.Selections[se]; sel == nil || sel.Kind() != types.FieldVal || sel.Indirect() {
				return false
			}
			root = ast.Unparen(se.X)
			depth++
			continue
		}
		break
	}
	id, ok := root.(*ast.Ident)
	if !ok {
		return false
	}
	v, ok := info.Uses[id].(*types.Var)
	if !ok || v.Parent() == n.p.P.Types.Scope() || v.IsField() {
		return false
	}
	if assignedFrom(info, fd, v, from) {
		return false
	}
	if depth > 0 {
		if _, isPtr := v.Type().Underlying().(*types.Pointer); isPtr {
			return false
		}
		// no field of the variable is assigned, no method with a pointer
		// receiver is called on it
		bad := false
		rootOf := func(x ast.Expr) types.Object {
			for {
				switch y := ast.Unparen(x).(type) {
				case *ast.SelectorExpr:
					x = y.X
				case *ast.IndexExpr:
					x = y.X
				case *ast.StarExpr:
					x = y.X
				default:
					return identObj(info, ast.Unparen(x))
				}
			}
		}
		ast.Inspect(fd.Body, func(x ast.Node) bool {
			switch s := x.(type) {
			case *ast.AssignStmt:
				for _, l := range s.Lhs {
					if _, isId := ast.Unparen(l).(*ast.Ident); !isId && rootOf(l) == types.Object(v) {
						bad = true
					}
				}
			case *ast.IncDecStmt:
				if _, isId := ast.Unparen(s.X).(*ast.Ident); !isId && rootOf(s.X) == types.Object(v) {
					bad = true
				}
			case *ast.UnaryExpr:
				if s.Op == token.AND && rootOf(s.X) == types.Object(v) {
					bad = true
				}
			case *ast.CallExpr:
				if se, ok := s.Fun.(*ast.SelectorExpr); ok {
					if sel := info.Selections[se]; sel != nil && sel.Kind() == types.MethodVal && rootOf(se.X) == types.Object(v) {
						if f, ok := sel.Obj().(*types.Func); ok {
							if sig, _ := f.Type().(*types.Signature); sig != nil && sig.Recv() != nil {
								if _, isPtr := sig.Recv().Type().(*types.Pointer); isPtr {
									bad = true
								}
							}
						}
					}
				}
			}
			return !bad
		})
		if bad {
			return false
		}
	}
	return true
}

func (n *normalizer) unhoistPass(fd *ast.FuncDecl) (bool, error) {
	p := n.p
	info := p.Info
	if fd.Body == nil {
		return false, nil
	}
	hoists := map[types.Object]*rankHoist{}
	consider := func(l ast.Expr, r ast.Expr, h rankHoist) {
		id, ok := l.(*ast.Ident)
		if !ok || id.Name == "_" {
			return
		}
		o := info.Defs[id]
		if o == nil {
			return
		}
		fn, tab, m, mExpr, v, ok := n.rankCall(r)
		if !ok || assignedIn(info, fd.Body, o) || !n.stableExpr(fd, v, r.Pos()) {
			return
		}
		h.obj, h.fn, h.tab, h.m, h.mExpr, h.v = o, fn, tab, m, mExpr, v
		hoists[o] = &h
	}
	for _, s := range fd.Body.List {
		switch st := s.(type) {
		case *ast.AssignStmt:
			if st.Tok == token.DEFINE && len(st.Lhs) == len(st.Rhs) {
				for i := range st.Lhs {
					consider(st.Lhs[i], st.Rhs[i], rankHoist{assign: st, idx: i})
				}
			}
		case *ast.DeclStmt:
			gd, ok := st.Decl.(*ast.GenDecl)
			if !ok || gd.Tok != token.VAR {
				continue
			}
			for _, sp := range gd.Specs {
				vs, ok := sp.(*ast.ValueSpec)
				if !ok || len(vs.Names) != len(vs.Values) {
					continue
				}
				for i := range vs.Names {
					consider(vs.Names[i], vs.Values[i], rankHoist{decl: st, spec: vs, idx: i})
				}
			}
		}
	}
	if len(hoists) == 0 {
		return false, nil
	}
	// uses
	type site struct {
		be *ast.BinaryExpr
		h  *rankHoist
		d  ast.Expr
		m  ast.Expr
	}
	var sites []site
	inLoop := 0
	var visit func(x ast.Node) bool
	visit = func(x ast.Node) bool {
		switch s := x.(type) {
		case *ast.ForStmt, *ast.RangeStmt:
			inLoop++
			var body *ast.BlockStmt
			if f, ok := s.(*ast.ForStmt); ok {
				body = f.Body
			} else {
				body = s.(*ast.RangeStmt).Body
			}
			ast.Inspect(body, visit)
			inLoop--
			return false
		case *ast.BinaryExpr:
			if inLoop == 0 || s.Op != token.SUB {
				return true
			}
			h := hoists[identObj(info, ast.Unparen(s.X))]
			if h == nil {
				return true
			}
			if _, isId := ast.Unparen(s.X).(*ast.Ident); !isId {
				return true
			}
			fn, tab, m, mExpr, d, ok := n.rankCall(s.Y)
			if !ok || fn != h.fn || tab != h.tab || m != h.m {
				return true
			}
			sites = append(sites, site{s, h, d, mExpr})
		}
		return true
	}
	ast.Inspect(fd.Body, visit)
	if len(sites) == 0 {
		return false, nil
	}
	// the identifiers of V resolve to the same objects at the use
	sameAt := func(e ast.Expr, pos token.Pos) bool {
		ok := true
		ast.Inspect(e, func(x ast.Node) bool {
			id, isId := x.(*ast.Ident)
			if !isId {
				return true
			}
			o := info.Uses[id]
			if o == nil {
				return true
			}
			if _, isField := o.(*types.Var); isField && o.(*types.Var).IsField() {
				return true
			}
			sc := p.P.Types.Scope().Innermost(pos)
			if sc == nil {
				ok = false
				return false
			}
			if _, got := sc.LookupParent(id.Name, pos); got != o {
				ok = false
			}
			return ok
		})
		return ok
	}
	// one synthesised function per (fn, tab)
	type key struct {
		fn  *types.Func
		tab *types.Var
	}
	synth := map[key]string{}
	var order []key
	changed := false
	qual := func(pk *types.Package) string {
		if pk == p.P.Types {
			return ""
		}
		return pk.Name()
	}
	for _, st := range sites {
		if !sameAt(st.h.v, st.be.Pos()) {
			continue
		}
		k := key{st.h.fn, st.h.tab}
		name, ok := synth[k]
		if !ok {
			name = fmt.Sprintf("zzRankDiff%d_", len(synth))
			if p.P.Types.Scope().Lookup(name) != nil {
				return false, nil
			}
			synth[k] = name
			order = append(order, k)
		}
		vt, err := n.exprText(st.h.v, nil)
		if err != nil {
			return false, err
		}
		dt, err := n.exprText(st.d, nil)
		if err != nil {
			return false, err
		}
		mt, err := n.exprText(st.m, nil)
		if err != nil {
			return false, err
		}
		if err := n.edit(st.be.Pos(), st.be.End(), fmt.Sprintf("%s(%s, %s, %s)", name, mt, vt, dt)); err != nil {
			return false, err
		}
		st.h.uses++
		changed = true
	}
	if !changed {
		return false, nil
	}
	// remove the definitions that have no other use
	otherUses := map[types.Object]int{}
	rewritten := map[*ast.Ident]bool{}
	for _, st := range sites {
		if id, ok := ast.Unparen(st.be.X).(*ast.Ident); ok && st.h.uses > 0 {
			rewritten[id] = true
		}
	}
	ast.Inspect(fd.Body, func(x ast.Node) bool {
		if id, ok := x.(*ast.Ident); ok && !rewritten[id] {
			if o := info.Uses[id]; o != nil && hoists[o] != nil {
				otherUses[o]++
			}
		}
		return true
	})
	dead := func(h *rankHoist) bool { return h != nil && h.uses > 0 && otherUses[h.obj] == 0 }
	doneAssign := map[*ast.AssignStmt]bool{}
	doneDecl := map[*ast.DeclStmt]bool{}
	for _, h := range hoists {
		if !dead(h) {
			continue
		}
		if h.assign != nil && !doneAssign[h.assign] {
			doneAssign[h.assign] = true
			var ls, rs []string
			for i := range h.assign.Lhs {
				if dead(hoists[identObjDef(info, h.assign.Lhs[i])]) {
					continue
				}
				lt, err := n.exprText(h.assign.Lhs[i], nil)
				if err != nil {
					return false, err
				}
				rt, err := n.exprText(h.assign.Rhs[i], nil)
				if err != nil {
					return false, err
				}
				ls, rs = append(ls, lt), append(rs, rt)
			}
			text := ""
			if len(ls) > 0 {
				text = strings.Join(ls, ", ") + " := " + strings.Join(rs, ", ")
			}
			if err := n.edit(h.assign.Pos(), h.assign.End(), text); err != nil {
				return false, err
			}
		}
		if h.decl != nil && !doneDecl[h.decl] {
			doneDecl[h.decl] = true
			gd := h.decl.Decl.(*ast.GenDecl)
			var specs []string
			for _, sp := range gd.Specs {
				vs, ok := sp.(*ast.ValueSpec)
				if !ok {
					return false, nil
				}
				if len(vs.Names) != len(vs.Values) {
					t, err := n.exprText(vs, nil)
					if err != nil {
						return false, err
					}
					specs = append(specs, t)
					continue
				}
				var ls, rs []string
				for i := range vs.Names {
					if dead(hoists[info.Defs[vs.Names[i]]]) {
						continue
					}
					rt, err := n.exprText(vs.Values[i], nil)
					if err != nil {
						return false, err
					}
					ls, rs = append(ls, vs.Names[i].Name), append(rs, rt)
				}
				if len(ls) == 0 {
					continue
				}
				tt := ""
				if vs.Type != nil {
					t, err := n.exprText(vs.Type, nil)
					if err != nil {
						return false, err
					}
					tt = " " + t
				}
				specs = append(specs, strings.Join(ls, ", ")+tt+" = "+strings.Join(rs, ", "))
			}
			text := ""
			if len(specs) > 0 {
				text = "var (\n" + strings.Join(specs, "\n") + "\n)"
			}
			if err := n.edit(h.decl.Pos(), h.decl.End(), text); err != nil {
				return false, err
			}
		}
	}
	// the synthesised functions, appended to the file of fd
	fname, _ := n.file(fd.Pos())
	src, err := n.source(fname)
	if err != nil {
		return false, err
	}
	var sb strings.Builder
	for _, k := range order {
		sig := k.fn.Type().(*types.Signature)
		var mT types.Type
		switch t := k.tab.Type().Underlying().(type) {
		case *types.Slice, *types.Array:
			mT = types.Typ[types.Int]
		case *types.Map:
			mT = t.Key()
		default:
			return false, nil
		}
		// the constant index keeps its own type when it has one
		for _, st := range sites {
			if st.h.fn == k.fn && st.h.tab == k.tab {
				if tv, ok := info.Types[st.m]; ok && tv.Type != nil {
					if b, isB := tv.Type.(*types.Basic); !isB || b.Info()&types.IsUntyped == 0 {
						mT = tv.Type
					}
				}
				break
			}
		}
		q := func(pk *types.Package) string { return qual(pk) }
		vT := types.TypeString(sig.Params().At(1).Type(), q)
		rT := types.TypeString(sig.Results().At(0).Type(), q)
		fmt.Fprintf(&sb, "\nfunc %s(m %s, a, b %s) %s {\n\treturn %s(%s[m], a) - %s(%s[m], b)\n}\n",
			synth[k], types.TypeString(mT, q), vT, rT, k.fn.Name(), k.tab.Name(), k.fn.Name(), k.tab.Name())
	}
	n.edits[fname] = append(n.edits[fname], textEdit{len(src), len(src), sb.String()})
	cnt := 0
	for _, h := range hoists {
		cnt += h.uses
	}
	n.notes = append(n.notes, fmt.Sprintf("U: %d rank differences h − %s(%s[M], D) with h := %s(%s[M], V) hoisted out of the loops rewritten as calls of the synthesised difference function", cnt, order[0].fn.Name(), order[0].tab.Name(), order[0].fn.Name(), order[0].tab.Name()))
	return true, nil
}

func identObjDef(info *types.Info, e ast.Expr) types.Object {
	if id, ok := e.(*ast.Ident); ok {
		return info.Defs[id]
	}
	return nil
}

// assignedFrom: obj is assigned at or after pos, assigned inside a function
// literal, has its address taken anywhere, or the function uses goto.
func assignedFrom(info *types.Info, fd *ast.FuncDecl, obj types.Object, pos token.Pos) bool {
	found := false
	var lits []*ast.FuncLit
	ast.Inspect(fd.Body, func(n ast.Node) bool {
		switch s := n.(type) {
		case *ast.FuncLit:
			lits = append(lits, s)
		case *ast.BranchStmt:
			if s.Tok == token.GOTO {
				found = true
			}
		case *ast.UnaryExpr:
			if s.Op == token.AND && identObj(info, ast.Unparen(s.X)) == obj {
				found = true
			}
		case *ast.AssignStmt:
			if s.End() > pos {
				for _, l := range s.Lhs {
					if id, ok := l.(*ast.Ident); ok {
						if s.Tok == token.DEFINE && info.Defs[id] != nil {
							continue
						}
						if info.Uses[id] == obj {
							found = true
						}
					}
				}
			}
		case *ast.IncDecStmt:
			if s.End() > pos && identObj(info, s.X) == obj {
				found = true
			}
		case *ast.RangeStmt:
			if s.End() > pos && s.Tok == token.ASSIGN {
				if (s.Key != nil && identObj(info, s.Key) == obj) || (s.Value != nil && identObj(info, s.Value) == obj) {
					found = true
				}
			}
		}
		return !found
	})
	for _, l := range lits {
		if assignedIn(info, l.Body, obj) {
			return true
		}
	}
	return found
}

// Pass E (early exit folded into the mean).
//
//	if C { return F(X) }                 (top level, X a float64 local)
//	…
//	M := E                               (top level, M assigned once)
//	return F(X - M)                      (last statement)
//
// becomes
//
//	…
//	M := 0.
//	if !C { M = E }
//	return F(X - M)
//
// On the paths where C holds the original returns F(X); the rewritten
// function goes on and returns F(X − 0.), and x − (+0) is x for every float64
// (−0 − +0 = −0, NaN stays NaN), provided X and the variables of C are not
// assigned from the early exit on (checked; function without goto, no
// function literal assigning them). On the other paths the statements are the
// same. Verdicts on the value returned carry over; the statements between the
// exit and the end run on more paths in the rewritten function than in the
// original, so a verdict that they cannot fail carries over as well.
func (n *normalizer) earlyExitPass(fd *ast.FuncDecl) (bool, error) {
	p := n.p
	info := p.Info
	if fd.Body == nil || len(fd.Body.List) < 3 {
		return false, nil
	}
	list := fd.Body.List
	last, ok := list[len(list)-1].(*ast.ReturnStmt)
	if !ok || len(last.Results) != 1 {
		return false, nil
	}
	retOf := func(e ast.Expr) (*types.Func, ast.Expr) {
		c, ok := ast.Unparen(e).(*ast.CallExpr)
		if !ok || len(c.Args) != 1 || c.Ellipsis.IsValid() {
			return nil, nil
		}
		fn := calleeOf(info, c)
		if fn == nil || fn.Pkg() != p.P.Types {
			return nil, nil
		}
		return fn, ast.Unparen(c.Args[0])
	}
	f2, arg2 := retOf(last.Results[0])
	be, ok := arg2.(*ast.BinaryExpr)
	if f2 == nil || !ok || be.Op != token.SUB {
		return false, nil
	}
	xo, _ := identObj(info, ast.Unparen(be.X)).(*types.Var)
	mo, _ := identObj(info, ast.Unparen(be.Y)).(*types.Var)
	if xo == nil || mo == nil {
		return false, nil
	}
	isF64 := func(t types.Type) bool {
		b, ok := t.Underlying().(*types.Basic)
		return ok && b.Kind() == types.Float64
	}
	if !isF64(xo.Type()) || !isF64(mo.Type()) {
		return false, nil
	}
	// M := E, top level, assigned once
	var mdef *ast.AssignStmt
	mi := -1
	for i, s := range list {
		if as, ok := s.(*ast.AssignStmt); ok && as.Tok == token.DEFINE && len(as.Lhs) == 1 && len(as.Rhs) == 1 {
			if id, ok := as.Lhs[0].(*ast.Ident); ok && info.Defs[id] == types.Object(mo) {
				mdef, mi = as, i
			}
		}
	}
	if mdef == nil || assignedIn(info, fd.Body, mo) {
		return false, nil
	}
	// the early exit
	for i, s := range list[:mi] {
		ifs, ok := s.(*ast.IfStmt)
		if !ok || ifs.Init != nil || ifs.Else != nil || len(ifs.Body.List) != 1 {
			continue
		}
		rs, ok := ifs.Body.List[0].(*ast.ReturnStmt)
		if !ok || len(rs.Results) != 1 {
			continue
		}
		f1, arg1 := retOf(rs.Results[0])
		if f1 == nil || f1 != f2 || identObj(info, arg1) != types.Object(xo) {
			continue
		}
		// C: a comparison of locals and constants, all stable from here on
		okC := true
		ast.Inspect(ifs.Cond, func(x ast.Node) bool {
			switch y := x.(type) {
			case *ast.CallExpr, *ast.IndexExpr, *ast.StarExpr, *ast.SelectorExpr, *ast.FuncLit:
				okC = false
			case *ast.Ident:
				if v, isVar := info.Uses[y].(*types.Var); isVar {
					if v.Parent() == p.P.Types.Scope() || v.IsField() || assignedFrom(info, fd, v, ifs.Pos()) {
						okC = false
					}
				}
			}
			return okC
		})
		if !okC || assignedFrom(info, fd, xo, ifs.Pos()) {
			continue
		}
		// the uses of M lie after its definition only (it is defined there), and
		// the definition is not inside the early exit
		_ = i
		ct, err := n.exprText(ifs.Cond, nil)
		if err != nil {
			return false, err
		}
		neg := "!(" + ct + ")"
		if cb, ok := ast.Unparen(ifs.Cond).(*ast.BinaryExpr); ok {
			inv := map[token.Token]string{token.EQL: "!=", token.NEQ: "==", token.LSS: ">=", token.GEQ: "<", token.GTR: "<=", token.LEQ: ">"}
			if op, has := inv[cb.Op]; has {
				isFloat := false
				for _, side := range []ast.Expr{cb.X, cb.Y} {
					if tv, ok := info.Types[side]; ok && tv.Type != nil {
						if b, ok := tv.Type.Underlying().(*types.Basic); ok && b.Info()&types.IsFloat != 0 {
							isFloat = true // NaN: only == and != negate exactly
						}
					}
				}
				if !isFloat || cb.Op == token.EQL || cb.Op == token.NEQ {
					lt, err1 := n.exprText(cb.X, nil)
					rt, err2 := n.exprText(cb.Y, nil)
					if err1 == nil && err2 == nil {
						neg = lt + " " + op + " " + rt
					}
				}
			}
		}
		et, err := n.exprText(mdef.Rhs[0], nil)
		if err != nil {
			return false, err
		}
		if err := n.edit(ifs.Pos(), ifs.End(), ""); err != nil {
			return false, err
		}
		if err := n.edit(mdef.Pos(), mdef.End(), fmt.Sprintf("%s := 0.\n\tif %s {\n\t\t%s = %s\n\t}", mo.Name(), neg, mo.Name(), et)); err != nil {
			return false, err
		}
		n.notes = append(n.notes, fmt.Sprintf("E: the early exit `if %s { return %s(%s) }` is folded into `%s` (0 when the condition holds: x − 0 = x)", ct, f1.Name(), xo.Name(), mo.Name()))
		return true, nil
	}
	return false, nil
}
