package main

// May a package-level table be written through an alias?
//
// pkgVarWritten (frag.go) sees the writes whose target is rooted, textually,
// at the package-level variable. A slice or map is also written through any
// alias of it: a local (`w := weights; w[1] = x`), a reslice handed to append
// (`append(w[:1], …)` overwrites the shared backing array in place), the
// destination of copy, a callee that stores through its parameter, a second
// table built from slices of the first. Every rule that evaluates code against
// the *initialiser* of a table (weights, value lists, order tables, the v4
// tables) and C14's "no write to package-level state" need the stronger fact.
//
// refMayBeWritten is a flow-insensitive, conservative escape analysis over the
// AST: every occurrence of the variable (and, transitively, of every alias —
// locals assigned from it, range variables over tables of slices, parameters it
// is passed to, tables whose initialiser slices it) must be in a *read
// position*. Anything not recognised as a read counts as a possible write.

import (
	"go/ast"
	"go/token"
	"go/types"
)

func isRefLike(t types.Type) bool {
	switch t.Underlying().(type) {
	case *types.Slice, *types.Map, *types.Pointer, *types.Chan:
		return true
	}
	return false
}

func (p *Pkg) parentMap() map[ast.Node]ast.Node {
	if p.parents != nil {
		return p.parents
	}
	p.parents = map[ast.Node]ast.Node{}
	for _, f := range p.P.Syntax {
		var stack []ast.Node
		ast.Inspect(f, func(n ast.Node) bool {
			if n == nil {
				stack = stack[:len(stack)-1]
				return true
			}
			if len(stack) > 0 {
				p.parents[n] = stack[len(stack)-1]
			}
			stack = append(stack, n)
			return true
		})
	}
	return p.parents
}

// readOnlyExternal: functions of other packages that only read their slice,
// map or pointer arguments.
func readOnlyExternal(fn *types.Func) bool {
	if fn == nil || fn.Pkg() == nil {
		return false
	}
	switch fn.Pkg().Path() {
	case "strings", "math", "unicode", "unicode/utf8", "strconv", "errors":
		return true
	case "bytes":
		switch fn.Name() {
		case "IndexByte", "Index", "Equal", "Contains", "HasPrefix", "HasSuffix", "Compare", "Count", "IndexAny", "LastIndexByte", "LastIndex", "ContainsAny", "ContainsRune", "IndexRune":
			return true
		}
	case "slices":
		switch fn.Name() {
		case "Index", "Contains", "IndexFunc", "ContainsFunc", "Equal", "BinarySearch", "BinarySearchFunc", "Max", "Min", "Compare":
			return true
		}
	case "sort":
		switch fn.Name() {
		case "Search", "SearchInts", "SearchStrings", "SearchFloat64s", "SliceIsSorted", "IsSorted":
			return true
		}
	case "fmt":
		switch fn.Name() {
		case "Sprintf", "Sprint", "Sprintln", "Errorf":
			return true
		}
	}
	return false
}

// refMayBeWritten reports whether the storage reachable from obj (a variable
// holding a slice, map, pointer, or an array that may be sliced) can be written
// through obj or an alias of it, and a reason.
func (p *Pkg) refMayBeWritten(obj types.Object) (bool, string) {
	if p.aliasMemo == nil {
		p.aliasMemo = map[types.Object]*aliasVerdict{}
	}
	if v, ok := p.aliasMemo[obj]; ok {
		return v.written, v.why // in-progress entries read as "not written" (coinductive)
	}
	v := &aliasVerdict{}
	p.aliasMemo[obj] = v
	parents := p.parentMap()
	info := p.Info
	var ids []*ast.Ident
	for id, o := range info.Uses {
		if o == obj {
			ids = append(ids, id)
		}
	}
	mark := func(n ast.Node, why string) {
		if !v.written {
			v.written = true
			v.why = why + " at " + p.pos(n)
		}
	}
	for _, id := range ids {
		if v.written {
			break
		}
		p.classifyUse(ast.Expr(id), obj, parents, mark)
	}
	return v.written, v.why
}

type aliasVerdict struct {
	written bool
	why     string
}

// classifyUse follows the value of expression e (rooted at root) upwards.
func (p *Pkg) classifyUse(e ast.Expr, root types.Object, parents map[ast.Node]ast.Node, mark func(ast.Node, string)) {
	info := p.Info
	typeOf := func(x ast.Expr) types.Type {
		if tv, ok := info.Types[x]; ok && tv.Type != nil {
			return tv.Type
		}
		if id, ok := x.(*ast.Ident); ok {
			if o := info.Uses[id]; o != nil {
				return o.Type()
			}
		}
		return nil
	}
	aliasVar := func(at ast.Node, lhs ast.Expr) {
		id, ok := ast.Unparen(lhs).(*ast.Ident)
		if !ok {
			mark(at, "stored into "+types.ExprString(lhs))
			return
		}
		if id.Name == "_" {
			return
		}
		o := info.Defs[id]
		if o == nil {
			o = info.Uses[id]
		}
		v, _ := o.(*types.Var)
		if v == nil {
			mark(at, "assigned to "+id.Name)
			return
		}
		if w, why := p.refMayBeWritten(v); w {
			mark(at, "aliased by "+id.Name+", which is "+why)
		}
	}
	cur := e
	for {
		par := parents[cur]
		t := typeOf(cur)
		carries := t != nil && isRefLike(t)
		_, isArr := func() (types.Type, bool) {
			if t == nil {
				return nil, false
			}
			_, ok := t.Underlying().(*types.Array)
			return t, ok
		}()
		_, isStruct := func() (types.Type, bool) {
			if t == nil {
				return nil, false
			}
			_, ok := t.Underlying().(*types.Struct)
			return t, ok
		}()
		switch pn := par.(type) {
		case *ast.ParenExpr:
			cur = pn
			continue
		case *ast.IndexExpr:
			if pn.X != cur {
				return // used as an index
			}
			cur = pn
			continue
		case *ast.SliceExpr:
			if pn.X != cur {
				return // used as a bound
			}
			cur = pn
			continue
		case *ast.SelectorExpr:
			if pn.X != cur {
				return
			}
			if sel := info.Selections[pn]; sel != nil && sel.Kind() != types.FieldVal {
				// method value / call on it: a method of a package type may write through a pointer receiver
				if fn, ok := sel.Obj().(*types.Func); ok {
					if fd := p.FuncObj[fn]; fd != nil {
						if ro := p.recvObj(fd); ro != nil {
							if _, isPtr := ro.Type().(*types.Pointer); isPtr || carries {
								if w, why := p.refMayBeWritten(ro); w {
									mark(pn, "receiver of "+fn.Name()+", which is "+why)
								}
							}
							return
						}
					}
				}
				mark(pn, "method call on the value")
				return
			}
			cur = pn
			continue
		case *ast.StarExpr:
			cur = pn
			continue
		case *ast.UnaryExpr:
			if pn.Op == token.AND {
				// &table[i]: the pointer is an alias like any other (m := &table[i]; m.pre …)
				cur = pn
				continue
			}
			return
		case *ast.BinaryExpr:
			return // compared or used arithmetically: a read
		case *ast.KeyValueExpr:
			if pn.Key == cur {
				return
			}
			cur2 := parents[pn]
			if cl, ok := cur2.(*ast.CompositeLit); ok && (carries || isArr) {
				p.aliasThroughLiteral(cl, parents, mark)
			}
			return
		case *ast.CompositeLit:
			if carries {
				p.aliasThroughLiteral(pn, parents, mark)
			}
			return
		case *ast.CallExpr:
			if pn.Fun == cur {
				return // calling a function value
			}
			argIdx := -1
			for i, a := range pn.Args {
				if a == cur {
					argIdx = i
				}
			}
			if argIdx < 0 {
				return
			}
			if tv, ok := info.Types[pn.Fun]; ok && tv.IsType() {
				// conversion: to string copies, otherwise the same storage
				if bt, ok := tv.Type.Underlying().(*types.Basic); ok && bt.Info()&types.IsString != 0 {
					return
				}
				cur = pn
				continue
			}
			if id, ok := pn.Fun.(*ast.Ident); ok {
				if _, isB := info.Uses[id].(*types.Builtin); isB {
					switch id.Name {
					case "len", "cap", "min", "max", "print", "println", "panic", "delete":
						if id.Name == "delete" && argIdx == 0 {
							mark(pn, "delete on the map")
						}
						return
					case "append":
						if argIdx != 0 {
							return // elements are copied out
						}
						// append(g, …) on the bare package-level variable whose initialiser is a
						// literal (cap == len) reallocates; any reslice or alias may have spare
						// capacity and is then overwritten in place
						if bare, ok := ast.Unparen(pn.Args[0]).(*ast.Ident); ok {
							if gv, ok := info.Uses[bare].(*types.Var); ok && gv.Parent() == p.P.Types.Scope() {
								if init := p.pkgVarInit(gv); init != nil {
									if _, isLit := init.(*ast.CompositeLit); isLit && !p.pkgVarWritten0(gv) {
										// the result is a fresh slice
										return
									}
								}
							}
						}
						mark(pn, "append on a reslice or alias writes the shared backing array in place")
						return
					case "copy":
						if argIdx == 0 {
							mark(pn, "destination of copy")
						}
						return
					case "clear":
						mark(pn, "clear")
						return
					}
					mark(pn, "builtin "+id.Name)
					return
				}
			}
			if !carries && !isArr && !isStruct {
				return // a scalar or string element is passed: a copy
			}
			if isArr || (isStruct && !carries) {
				return // arrays and structs are passed by value
			}
			fn := calleeOf(info, pn)
			if fn == nil {
				mark(pn, "passed to a dynamic call")
				return
			}
			if fn.Pkg() != p.P.Types {
				if !readOnlyExternal(fn) {
					mark(pn, "passed to "+fn.FullName())
				}
				return
			}
			fd := p.FuncObj[fn]
			if fd == nil {
				mark(pn, "passed to "+fn.Name())
				return
			}
			params := paramObjs(info, fd)
			sig := fn.Type().(*types.Signature)
			pi := argIdx
			if sig.Variadic() && pi >= len(params)-1 {
				pi = len(params) - 1
			}
			if pi >= len(params) || params[pi] == nil {
				return // unnamed parameter: cannot be used
			}
			if w, why := p.refMayBeWritten(params[pi]); w {
				mark(pn, "passed to "+fn.Name()+", whose parameter is "+why)
			}
			return
		case *ast.AssignStmt:
			// on the left: a write when cur is an element/field path of the root
			for _, l := range pn.Lhs {
				if l == cur {
					if _, isId := ast.Unparen(cur).(*ast.Ident); isId && pn.Tok != token.DEFINE {
						// the variable itself is re-bound: for a local alias harmless, for the
						// package-level variable reported by pkgVarWritten
						return
					}
					if _, isId := ast.Unparen(cur).(*ast.Ident); isId {
						return
					}
					mark(pn, "assigned through "+types.ExprString(cur))
					return
				}
			}
			if !carries {
				if isArr {
					return // array copy
				}
				if !isStruct {
					return
				}
			}
			if pn.Tok != token.ASSIGN && pn.Tok != token.DEFINE {
				return
			}
			for i, r := range pn.Rhs {
				if r == cur {
					if len(pn.Lhs) == len(pn.Rhs) {
						aliasVar(pn, pn.Lhs[i])
					} else {
						for _, l := range pn.Lhs {
							aliasVar(pn, l)
						}
					}
				}
			}
			return
		case *ast.ValueSpec:
			if !carries {
				return
			}
			for i, r := range pn.Values {
				if r == cur && i < len(pn.Names) {
					aliasVar(pn, pn.Names[i])
				}
			}
			return
		case *ast.IncDecStmt:
			if _, isId := ast.Unparen(cur).(*ast.Ident); !isId {
				mark(pn, "incremented through "+types.ExprString(cur))
			}
			return
		case *ast.RangeStmt:
			if pn.X != cur {
				return
			}
			// the value variable copies the element; it aliases when elements are slices/maps/pointers
			if pn.Value != nil && t != nil {
				var et types.Type
				switch u := t.Underlying().(type) {
				case *types.Slice:
					et = u.Elem()
				case *types.Array:
					et = u.Elem()
				case *types.Map:
					et = u.Elem()
				case *types.Pointer:
					if a, ok := u.Elem().Underlying().(*types.Array); ok {
						et = a.Elem()
					}
				}
				if et != nil && isRefLike(et) {
					aliasVar(pn, pn.Value)
				}
			}
			return
		case *ast.ReturnStmt:
			if !carries {
				return
			}
			// handed to the caller: for an unexported function the value is followed at
			// every call site; an exported one hands it to code that is not analysed
			k := -1
			for i, r := range pn.Results {
				if r == cur {
					k = i
				}
			}
			var fd *ast.FuncDecl
			for n := ast.Node(pn); n != nil; n = parents[n] {
				if f, ok := n.(*ast.FuncDecl); ok {
					fd = f
					break
				}
				if _, isLit := n.(*ast.FuncLit); isLit {
					break
				}
			}
			if fd == nil || k < 0 || ast.IsExported(fd.Name.Name) {
				mark(pn, "returned to a caller outside the analysis")
				return
			}
			fobj := info.Defs[fd.Name]
			for id, o := range info.Uses {
				if o != fobj {
					continue
				}
				var call *ast.CallExpr
				switch cp := parents[id].(type) {
				case *ast.CallExpr:
					if cp.Fun == ast.Expr(id) {
						call = cp
					}
				case *ast.SelectorExpr:
					if c2, ok := parents[cp].(*ast.CallExpr); ok && c2.Fun == ast.Expr(cp) {
						call = c2
					}
				}
				if call == nil {
					mark(id, "the function returning it is used as a value")
					return
				}
				if len(pn.Results) == 1 {
					p.classifyUse(call, root, parents, mark)
					continue
				}
				if as, ok := parents[call].(*ast.AssignStmt); ok && len(as.Rhs) == 1 && k < len(as.Lhs) {
					aliasVar(as, as.Lhs[k])
				} else {
					mark(call, "one of several results")
				}
			}
			return
		case *ast.SendStmt, *ast.GoStmt, *ast.DeferStmt:
			if carries {
				mark(par, "escapes")
			}
			return
		case *ast.TypeAssertExpr:
			cur = pn
			continue
		case *ast.ExprStmt, *ast.IfStmt, *ast.SwitchStmt, *ast.CaseClause, *ast.ForStmt, *ast.BlockStmt, nil:
			return
		default:
			if carries {
				mark(par, "used in a construct the alias analysis does not follow")
			}
			return
		}
	}
}

// aliasThroughLiteral: the value is stored in a composite literal. When that
// literal (possibly nested) is the initialiser of a package-level variable, the
// variable aliases it; anywhere else the value escapes.
func (p *Pkg) aliasThroughLiteral(cl *ast.CompositeLit, parents map[ast.Node]ast.Node, mark func(ast.Node, string)) {
	var n ast.Node = cl
	for {
		par := parents[n]
		switch pn := par.(type) {
		case *ast.CompositeLit, *ast.KeyValueExpr, *ast.ParenExpr:
			n = par
			continue
		case *ast.UnaryExpr:
			n = par
			continue
		case *ast.ValueSpec:
			for i, v := range pn.Values {
				if v == n && i < len(pn.Names) {
					if o, ok := p.Info.Defs[pn.Names[i]].(*types.Var); ok && o.Parent() == p.P.Types.Scope() {
						if p.pkgVarWritten0(o) {
							mark(pn, "part of "+o.Name()+", which is written")
							return
						}
						if w, why := p.refMayBeWritten(o); w {
							mark(pn, "part of "+o.Name()+", which is "+why)
						}
						return
					}
				}
			}
			mark(cl, "stored in a composite literal")
			return
		default:
			mark(cl, "stored in a composite literal")
			return
		}
	}
}
