package main

// Semantic model of the v3 "defined once / all mandatory present" mechanism.
//
// ParseVector (v3) calls, for every element, a method X.M(abv) on a local of a
// package type (today: kvm.Set on a struct of booleans) and, after the loop,
// inspects X to report a missing mandatory metric. Whatever the representation
// (struct of flags, bit set, array of booleans…), the mechanism is right iff,
// with D(l) = "l was given before":
//
//   (a) M(l) on a state where D(l) holds returns &ErrDefinedN{Abv: l};
//   (b) M(l) on a state where D(l) does not hold returns nil and leaves the
//       state of D ∪ {l};
//   (c) M(unknown) returns a non-nil error (*ErrInvalidMetric naming it);
//   (d) the statements after the loop return (nil, &ErrMissing{Abv: some
//       missing mandatory metric}) when one is missing and (object, nil) otherwise.
//
// The method and the tail are interpreted by the symbolic interpreter of
// semit.go on the *generic* state G(D): built from the zero value by applying
// M(l) under the symbolic condition D(l) for every label in turn, so that
// every flag / bit is a formula over the atoms D(·). (b) is checked as
// "M(l) applied to G equals G with D(l) forced to true", which makes G(D) the
// state reached by every sequence of distinct abbreviations (induction on the
// sequence, any order). Formulas are compared by truth tables over the atoms
// they mention.

import (
	"fmt"
	"go/ast"
	"go/token"
	"go/types"
	"sort"
	"strings"
)

type KvmSem struct {
	Decided             bool
	Why                 string // when not decided
	Call                *ast.CallExpr
	Fn                  *ast.FuncDecl
	RecvVar             types.Object
	StateArg, AbvArg    int      // f(&X, abv): positions of the state and abbreviation arguments (StateArg < 0: method call)
	Labels              []string // abbreviations M accepts on the zero state
	DupOK               bool
	DupWhy              string
	StepOK              bool
	StepWhy             string
	UnkNonNil, UnkTyped bool
	UnkWhy              string
	TailOK              bool
	TailWhy             string
	Missing             map[string]bool // mandatory label -> reported when it alone is missing
	NoPanic             bool
	PanicWhy            string
}

func dAtom(l string) *bform { return bAtom("D:"+l, "1") }

// concretize evaluates a model value under an assignment of the atoms.
func concretize(v sval, asg map[string]string) sval {
	switch v.k {
	case skIte:
		if v.f.eval(asg) {
			return concretize(*v.a, asg)
		}
		return concretize(*v.b, asg)
	case skBool:
		return conc(vBool(v.f.eval(asg)))
	case skBits:
		var x int64
		for i, b := range v.bits {
			if i < 63 && b.eval(asg) {
				x |= 1 << uint(i)
			}
		}
		return conc(vInt(x))
	case skStruct:
		out := v
		out.fields = map[string]sval{}
		for k, f := range v.fields {
			out.fields[k] = concretize(f, asg)
		}
		return out
	case skArr:
		out := sval{k: skArr}
		for _, e := range v.elems {
			out.elems = append(out.elems, concretize(e, asg))
		}
		return out
	case skTuple:
		out := sval{k: skTuple}
		for _, e := range v.t {
			out.t = append(out.t, concretize(e, asg))
		}
		return out
	}
	return v
}

func atomsOf(v sval, into map[string]bool) {
	switch v.k {
	case skIte:
		v.f.labels(into)
		atomsOf(*v.a, into)
		atomsOf(*v.b, into)
	case skBool:
		v.f.labels(into)
	case skBits:
		for _, b := range v.bits {
			b.labels(into)
		}
	case skStruct:
		for _, f := range v.fields {
			atomsOf(f, into)
		}
	case skArr:
		for _, e := range v.elems {
			atomsOf(e, into)
		}
	case skTuple:
		for _, e := range v.t {
			atomsOf(e, into)
		}
	}
}

// forAllAtoms enumerates the assignments of the given atoms ("D:x" → "1"/"0").
func forAllAtoms(atoms map[string]bool, fixed map[string]string, fn func(asg map[string]string) bool) bool {
	var names []string
	for a := range atoms {
		if _, isFixed := fixed[a]; !isFixed {
			names = append(names, a)
		}
	}
	sort.Strings(names)
	if len(names) > 20 {
		return false
	}
	asg := map[string]string{}
	for k, v := range fixed {
		asg[k] = v
	}
	for m := 0; m < 1<<uint(len(names)); m++ {
		for i, n := range names {
			if m>>uint(i)&1 == 1 {
				asg[n] = "1"
			} else {
				asg[n] = "0"
			}
		}
		if !fn(asg) {
			return false
		}
	}
	return true
}

func isErrStruct(v sval, typ string) bool {
	return v.k == skStruct && v.isPtr && v.typ == typ
}

func abvOf(v sval) (string, bool) {
	f, ok := v.fields["Abv"]
	if !ok || f.k != skConc || f.c.K != VStr {
		return "", false
	}
	return f.c.S, true
}

func describe(v sval) string {
	switch v.k {
	case skConc:
		return v.c.String()
	case skStruct:
		s := v.typ + "{"
		var ks []string
		for k := range v.fields {
			ks = append(ks, k)
		}
		sort.Strings(ks)
		for i, k := range ks {
			if i > 0 {
				s += ", "
			}
			s += k + ": " + describe(v.fields[k])
		}
		s += "}"
		if v.isPtr {
			s = "&" + s
		}
		return s
	case skTuple:
		var ps []string
		for _, e := range v.t {
			ps = append(ps, describe(e))
		}
		return "(" + strings.Join(ps, ", ") + ")"
	}
	return fmt.Sprintf("<model value %d>", v.k)
}

// kvmSem computes the semantic model for the package (cached per parse model).
func (p *Pkg) kvmSem(m *parseModel) *KvmSem {
	if m.kvmSem != nil {
		return m.kvmSem
	}
	ks := &KvmSem{Missing: map[string]bool{}}
	m.kvmSem = ks
	info := p.Info
	ov := vocab[p.Key]
	if m.loop == nil || m.abvObj == nil {
		ks.Why = "element loop not recognised"
		return ks
	}
	// the defined-once call: X.M(abv) or f(&X, abv) in the loop, X a local of a
	// package type other than the vector type
	localOfPkgType := func(e ast.Expr) *types.Var {
		if u, ok := e.(*ast.UnaryExpr); ok && u.Op == token.AND {
			e = u.X
		}
		rv, _ := identObj(info, e).(*types.Var)
		if rv == nil || rv.Parent() == p.P.Types.Scope() || rv.IsField() {
			return nil
		}
		t := rv.Type()
		if pt, ok := t.(*types.Pointer); ok {
			t = pt.Elem()
		}
		named, ok := t.(*types.Named)
		if !ok || named.Obj().Pkg() != p.P.Types || types.Identical(named, p.T) {
			return nil
		}
		return rv
	}
	ks.StateArg, ks.AbvArg = -1, 0
	ast.Inspect(m.loop, func(n ast.Node) bool {
		c, ok := n.(*ast.CallExpr)
		if !ok || ks.Call != nil || c == m.setCall {
			return true
		}
		fn := calleeOf(info, c)
		if fn == nil || p.FuncObj[fn] == nil {
			return true
		}
		abvIdx := -1
		for i, a := range c.Args {
			if identObj(info, a) == m.abvObj {
				abvIdx = i
			}
		}
		if abvIdx < 0 {
			return true
		}
		if se, ok := c.Fun.(*ast.SelectorExpr); ok && len(c.Args) == 1 && p.FuncObj[fn].Recv != nil {
			if rv := localOfPkgType(se.X); rv != nil {
				ks.Call, ks.Fn, ks.RecvVar, ks.AbvArg = c, p.FuncObj[fn], rv, 0
			}
			return true
		}
		if p.FuncObj[fn].Recv == nil && len(c.Args) == 2 {
			if rv := localOfPkgType(c.Args[1-abvIdx]); rv != nil {
				_, amp := c.Args[1-abvIdx].(*ast.UnaryExpr)
				_, isPtr := rv.Type().(*types.Pointer)
				if amp || isPtr {
					ks.Call, ks.Fn, ks.RecvVar, ks.AbvArg, ks.StateArg = c, p.FuncObj[fn], rv, abvIdx, 1-abvIdx
				}
			}
		}
		return true
	})
	if ks.Call == nil {
		ks.Why = "no call X.M(abbreviation) or f(&X, abbreviation) on a local of a package type in the element loop"
		return ks
	}
	gm := p.GetModel()
	newIn := func() *semit { return &semit{p: p, gm: gm, getFn: p.method("Get")} }
	rt := ks.RecvVar.Type()
	if pt, ok := rt.(*types.Pointer); ok {
		rt = pt.Elem()
	}
	// run M(label) on a state; returns the result value and the state after it
	run := func(state sval, label string) (sval, sval, *semit, error) {
		in := newIn()
		st := &sstate{frames: []*sframe{{vars: map[types.Object]sval{ks.RecvVar: state}, fd: m.fd}}}
		var recv sval
		var res sval
		var err error
		if ks.StateArg >= 0 {
			args := make([]sval, 2)
			args[ks.AbvArg] = conc(vStr(label))
			args[ks.StateArg] = sval{k: skPtr, ref: &sref{depth: 0, obj: ks.RecvVar}}
			res, err = in.inline(st, ks.Fn, sval{}, false, args, ks.Call)
		} else {
			if ro := p.recvObj(ks.Fn); ro != nil {
				if _, ptr := ro.Type().(*types.Pointer); ptr {
					recv = sval{k: skPtr, ref: &sref{depth: 0, obj: ks.RecvVar}}
				} else {
					recv = state
				}
			}
			res, err = in.inline(st, ks.Fn, recv, true, []sval{conc(vStr(label))}, ks.Call)
		}
		if err != nil {
			return sval{}, sval{}, in, err
		}
		return res, st.frames[0].vars[ks.RecvVar], in, nil
	}
	zero := newIn().zeroSym(rt)
	// labels accepted on the zero state
	cands := map[string]bool{}
	for _, om := range ov.list {
		cands[om.Abv] = true
	}
	ast.Inspect(ks.Fn.Body, func(n ast.Node) bool {
		if cc, ok := n.(*ast.CaseClause); ok {
			for _, e := range cc.List {
				if s, ok := constString(info, e); ok {
					cands[s] = true
				}
			}
		}
		return true
	})
	var cl []string
	for l := range cands {
		cl = append(cl, l)
	}
	sort.Strings(cl)
	for _, l := range cl {
		res, _, _, err := run(zero, l)
		if err != nil {
			ks.Why = "cannot interpret " + ks.Fn.Name.Name + ": " + err.Error() + posSuffix(p, err)
			return ks
		}
		if res.k == skConc && res.c.K == VNil {
			ks.Labels = append(ks.Labels, l)
		}
	}
	// generic state
	G := zero
	for _, l := range ks.Labels {
		_, post, _, err := run(G, l)
		if err != nil {
			ks.Why = "cannot interpret " + ks.Fn.Name.Name + ": " + err.Error() + posSuffix(p, err)
			return ks
		}
		mg, err := mergeVal(dAtom(l), post, G)
		if err != nil {
			ks.Why = err.Error()
			return ks
		}
		G = mg
	}
	ks.Decided = true
	ks.NoPanic = true
	checkOOB := func(in *semit, what string) {
		for _, o := range in.oob {
			f := bOr(bNot(orTrue(o.pc)), o.inRange)
			at := map[string]bool{}
			f.labels(at)
			if !forAllAtoms(at, nil, func(a map[string]string) bool { return f.eval(a) }) {
				ks.NoPanic = false
				ks.PanicWhy = what + ": a table is read at " + p.pos(o.at) + " with an index that can lie outside it"
			}
		}
	}
	// (a), (b)
	ks.DupOK, ks.StepOK = true, true
	ks.DupWhy = fmt.Sprintf("for each of the %d abbreviations: given twice -> &ErrDefinedN naming it", len(ks.Labels))
	ks.StepWhy = "a first occurrence returns nil and yields exactly the state of the enlarged set (so the state depends on the set of abbreviations seen, in any order)"
	for _, l := range ks.Labels {
		res, post, in, err := run(G, l)
		if err != nil {
			ks.Decided = false
			ks.Why = err.Error() + posSuffix(p, err)
			return ks
		}
		checkOOB(in, ks.Fn.Name.Name+"("+l+")")
		at := map[string]bool{"D:" + l: true}
		atomsOf(res, at)
		// (a)
		forAllAtoms(at, map[string]string{"D:" + l: "1"}, func(a map[string]string) bool {
			r := concretize(res, a)
			if !isErrStruct(r, "ErrDefinedN") {
				ks.DupOK = false
				ks.DupWhy = fmt.Sprintf("%s given a second time: %s returns %s instead of &ErrDefinedN{Abv: %q}", l, ks.Fn.Name.Name, describe(r), l)
				return false
			}
			if s, ok := abvOf(r); !ok || s != l {
				ks.DupOK = false
				ks.DupWhy = fmt.Sprintf("%s given a second time: the error names %q", l, s)
				return false
			}
			return true
		})
		// (b)
		forAllAtoms(at, map[string]string{"D:" + l: "0"}, func(a map[string]string) bool {
			r := concretize(res, a)
			if r.k != skConc || r.c.K != VNil {
				ks.StepOK = false
				ks.StepWhy = fmt.Sprintf("%s given for the first time is refused with %s (it is taken for another metric already seen)", l, describe(r))
				return false
			}
			return true
		})
		at2 := map[string]bool{"D:" + l: true}
		atomsOf(post, at2)
		atomsOf(G, at2)
		if len(at2) <= 20 {
			// whole-state comparison when few atoms are involved; otherwise per component below
		}
		if !stateStep(post, G, l) {
			ks.StepOK = false
			ks.StepWhy = fmt.Sprintf("after a first %s the state is not that of `the same metrics plus %s`: a later repeat or a missing metric is misjudged", l, l)
		}
	}
	// (c)
	{
		res, _, in, err := run(G, "\x00unknown")
		if err != nil {
			ks.Decided = false
			ks.Why = err.Error() + posSuffix(p, err)
			return ks
		}
		checkOOB(in, ks.Fn.Name.Name+"(unknown)")
		at := map[string]bool{}
		atomsOf(res, at)
		ks.UnkNonNil, ks.UnkTyped = true, true
		ks.UnkWhy = "an unknown abbreviation is refused with &ErrInvalidMetric naming it"
		forAllAtoms(at, nil, func(a map[string]string) bool {
			r := concretize(res, a)
			if r.k == skConc && r.c.K == VNil {
				ks.UnkNonNil, ks.UnkTyped = false, false
				ks.UnkWhy = "an unknown abbreviation is accepted by " + ks.Fn.Name.Name
				return false
			}
			if s, ok := abvOf(r); !isErrStruct(r, "ErrInvalidMetric") || !ok || s != "\x00unknown" {
				ks.UnkTyped = false
				ks.UnkWhy = "an unknown abbreviation is refused with " + strings.ReplaceAll(describe(r), "\x00unknown", "<abv>") + ", the documented error is &ErrInvalidMetric{Abv: <abv>}"
			}
			return true
		})
	}
	// (d) the statements after the loop
	var post []ast.Stmt
	seen := false
	for _, s := range m.fd.Body.List {
		if s == m.loopTop {
			seen = true
			continue
		}
		if seen {
			post = append(post, s)
		}
	}
	in := newIn()
	st := &sstate{frames: []*sframe{{vars: map[types.Object]sval{ks.RecvVar: G}, fd: m.fd}}}
	if m.objVar != nil {
		st.top().vars[m.objVar] = conc(Val{K: VOpaque, S: "obj"})
	}
	// error variables declared before the loop (single-exit style: `err = …;
	// break`, one test after the loop): when the loop ends normally they are
	// nil — every failure leaves it (R01.prop decides that separately)
	for _, s := range m.fd.Body.List {
		if s == m.loopTop {
			break
		}
		ast.Inspect(s, func(n ast.Node) bool {
			if id, ok := n.(*ast.Ident); ok {
				if o, ok := info.Defs[id].(*types.Var); ok && o != nil && !o.IsField() {
					if _, isIface := o.Type().Underlying().(*types.Interface); isIface {
						if _, has := st.top().vars[o]; !has {
							st.top().vars[o] = conc(Val{K: VNil})
						}
					}
				}
			}
			return true
		})
	}
	outs, err := in.execList(st, post)
	if err != nil {
		ks.TailWhy = "cannot interpret the statements after the element loop: " + err.Error() + posSuffix(p, err)
		return ks
	}
	merged, err := mergeByCtrl(outs)
	if err != nil || len(merged) != 1 || merged[0].ctrl != scReturn {
		ks.TailWhy = "the statements after the element loop do not end in a return on every path"
		return ks
	}
	checkOOB(in, "after the loop")
	ret := merged[0].ret
	var mand []string
	for _, om := range ov.list {
		if om.Mandatory {
			mand = append(mand, om.Abv)
		}
	}
	at := map[string]bool{}
	atomsOf(ret, at)
	for _, l := range mand {
		at["D:"+l] = true
	}
	ks.TailOK = true
	ks.TailWhy = fmt.Sprintf("after the loop: every subset of the %d mandatory metrics examined (%d assignments): success iff all were given, otherwise &ErrMissing naming a missing one", len(mand), 1<<uint(len(at)))
	for _, l := range mand {
		ks.Missing[l] = true
	}
	okEnum := forAllAtoms(at, nil, func(a map[string]string) bool {
		r := concretize(ret, a)
		var missing []string
		for _, l := range mand {
			if a["D:"+l] != "1" {
				missing = append(missing, l)
			}
		}
		if r.k != skTuple || len(r.t) != 2 {
			ks.TailOK = false
			ks.TailWhy = "the statements after the loop return " + describe(r)
			return false
		}
		obj, e := r.t[0], r.t[1]
		if len(missing) == 0 {
			if !(obj.k == skConc && obj.c.K == VOpaque) || !(e.k == skConc && e.c.K == VNil) {
				ks.TailOK = false
				ks.TailWhy = "with every mandatory metric given the function returns " + describe(r) + " instead of (object, nil)"
				return false
			}
			return true
		}
		name, hasName := abvOf(e)
		okE := isErrStruct(e, "ErrMissing") && hasName && indexOf(missing, name) < len(missing) && obj.k == skConc && obj.c.K == VNil
		if !okE {
			ks.TailOK = false
			if len(missing) == 1 {
				ks.Missing[missing[0]] = false
			}
			ks.TailWhy = fmt.Sprintf("with %v missing the function returns %s instead of (nil, &ErrMissing naming a missing metric)", missing, describe(r))
			return len(missing) > 1 // keep looking for single-metric cases to attribute
		}
		return true
	})
	if !okEnum && ks.TailOK {
		ks.TailOK = false
		ks.TailWhy = "too many atoms to enumerate the statements after the loop"
	}
	return ks
}

func orTrue(f *bform) *bform {
	if f == nil {
		return &bform{op: "true"}
	}
	return f
}

// stateStep: post (the state after M(l) on G) equals G with D(l) forced to
// true, for every assignment with D(l) false — compared component by component,
// each over the atoms it mentions.
func stateStep(post, G sval, l string) bool {
	switch {
	case post.k == skStruct && G.k == skStruct:
		for k, f := range G.fields {
			if !stateStep(post.fields[k], f, l) {
				return false
			}
		}
		return true
	case post.k == skArr && G.k == skArr && len(post.elems) == len(G.elems):
		for i := range G.elems {
			if !stateStep(post.elems[i], G.elems[i], l) {
				return false
			}
		}
		return true
	case post.k == skBits || G.k == skBits:
		x, y, ok := bothBits(post, G)
		if !ok {
			return false
		}
		for i := range x {
			if !stateStep(sval{k: skBool, f: x[i]}, sval{k: skBool, f: y[i]}, l) {
				return false
			}
		}
		return true
	}
	at := map[string]bool{"D:" + l: true}
	atomsOf(post, at)
	atomsOf(G, at)
	return forAllAtoms(at, map[string]string{"D:" + l: "0"}, func(a map[string]string) bool {
		got := concretize(post, a)
		b := map[string]string{}
		for k, v := range a {
			b[k] = v
		}
		b["D:"+l] = "1"
		want := concretize(G, b)
		return svalEqual(got, want)
	})
}
