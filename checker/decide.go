package main

// Rule groups built on the M7 evaluator: rating (C15), nomenclature (C16),
// sizing (R17.len).

import (
	"fmt"
	"go/ast"
	"go/token"
	"go/types"
	"math/big"
	"sort"
	"strings"
)

// ---------------------------------------------------------------------------
// C15 Rating

type ratingRow struct {
	Region string
	Rep    *big.Rat
	Str    string
	Err    string // "" = nil
}

func ratingOracle(x *big.Rat) (string, string) {
	// thresholds as float64 values: for a float64 x, x >= 1/10 <=> x >= float64(0.1)
	r := func(s string) *big.Rat { v, _ := new(big.Rat).SetString(s); return f64(v) }
	switch {
	case x.Cmp(r("0")) < 0 || x.Cmp(r("10")) > 0:
		return "", "ErrOutOfBoundsScore"
	case x.Cmp(r("0.1")) < 0:
		return "NONE", ""
	case x.Cmp(r("4")) < 0:
		return "LOW", ""
	case x.Cmp(r("7")) < 0:
		return "MEDIUM", ""
	case x.Cmp(r("9")) < 0:
		return "HIGH", ""
	}
	return "CRITICAL", ""
}

func (w *World) rulesRating(out *[]Obligation) {
	tables := map[string]string{}
	for _, k := range []string{"30", "31", "40"} {
		p := w.Pkgs[k]
		add := func(ok bool, rule, inst string, n ast.Node, detail string) {
			*out = append(*out, Obligation{Rule: rule, Instance: k + "." + inst, Pos: p.pos(n), OK: ok, Detail: detail, NonTrivial: true})
		}
		fd := p.Funcs["Rating"]
		if fd == nil || fd.Body == nil {
			*out = append(*out, Obligation{Rule: "R15.region", Instance: k + ".Rating", Pos: k, OK: false, Detail: "no Rating function", NonTrivial: true})
			continue
		}
		params := paramObjs(p.Info, fd)
		if len(params) != 1 {
			add(false, "R15.region", "Rating", fd, "Rating does not take exactly one score: undecided")
			continue
		}
		score := params[0]
		// every use of the parameter is an operand of a comparison with a constant
		// (or with an entry of a constant table), in Rating itself or in a package
		// function the score is handed to
		consts := map[string]*big.Rat{}
		okUses := true
		var scan func(fd *ast.FuncDecl, score types.Object, depth int)
		scan = func(fd *ast.FuncDecl, score types.Object, depth int) {
			var stack []ast.Node
			ast.Inspect(fd.Body, func(n ast.Node) bool {
				if n == nil {
					stack = stack[:len(stack)-1]
					return false
				}
				stack = append(stack, n)
				id, ok := n.(*ast.Ident)
				if !ok || p.Info.Uses[id] != score {
					return true
				}
				// find parent skipping parens
				i := len(stack) - 2
				for i >= 0 {
					if _, isP := stack[i].(*ast.ParenExpr); isP {
						i--
						continue
					}
					break
				}
				if i >= 0 {
					if call, isC := stack[i].(*ast.CallExpr); isC && depth < 4 {
						if fn := calleeOf(p.Info, call); fn != nil && fn.Pkg() == p.P.Types {
							if g := p.FuncObj[fn]; g != nil && g.Body != nil {
								gp := paramObjs(p.Info, g)
								for ai, a := range call.Args {
									if a == stack[i+1] && ai < len(gp) && gp[ai] != nil {
										if assignedIn(p.Info, g.Body, gp[ai]) {
											okUses = false
											add(false, "R15.region", "Rating.use", g, "the score is reassigned in "+g.Name.Name+": undecided")
										}
										scan(g, gp[ai], depth+1)
										return true
									}
								}
							}
						}
					}
				}
				be, isB := stack[i].(*ast.BinaryExpr)
				if i < 0 || !isB {
					okUses = false
					add(false, "R15.region", "Rating.use", id, "the score is used other than in a comparison with a constant: the region argument does not apply (undecided)")
					return true
				}
				switch be.Op {
				case token.LSS, token.LEQ, token.GTR, token.GEQ, token.EQL, token.NEQ:
				default:
					okUses = false
					add(false, "R15.region", "Rating.use", id, "the score is used in arithmetic: undecided")
					return true
				}
				other := be.Y
				if ast.Node(be.Y) == stack[i+1] {
					other = be.X
				}
				tv := p.Info.Types[other]
				v, ok := constVal(tv)
				if !ok || (v.K != VRat && v.K != VInt) {
					if leaves, ok := tableOperandLeaves(p, fd, other); ok {
						for _, l := range leaves {
							r := f64(l)
							consts[r.RatString()] = r
						}
						return true
					}
					okUses = false
					add(false, "R15.region", "Rating.use", id, "the score is compared with a value that is neither a constant nor an entry of a constant table: undecided")
					return true
				}
				r := f64(toRat(v))
				consts[r.RatString()] = r
				return true
			})
		}
		scan(fd, score, 0)
		if assignedIn(p.Info, fd.Body, score) {
			okUses = false
			add(false, "R15.region", "Rating.use", fd, "the score parameter is reassigned: undecided")
		}
		if !okUses {
			continue
		}
		for _, s := range []string{"0", "1/10", "4", "7", "9", "10"} {
			r, _ := new(big.Rat).SetString(s)
			r = f64(r)
			consts[r.RatString()] = r
		}
		var cs []*big.Rat
		for _, r := range consts {
			cs = append(cs, r)
		}
		sort.Slice(cs, func(i, j int) bool { return cs[i].Cmp(cs[j]) < 0 })
		type region struct {
			name string
			rep  *big.Rat
		}
		var regs []region
		one := big.NewRat(1, 1)
		regs = append(regs, region{fmt.Sprintf("(-inf,%s)", cs[0].FloatString(4)), new(big.Rat).Sub(cs[0], one)})
		for i, c := range cs {
			regs = append(regs, region{fmt.Sprintf("{%s}", c.FloatString(4)), c})
			if i+1 < len(cs) {
				mid := new(big.Rat).Add(c, cs[i+1])
				mid.Quo(mid, big.NewRat(2, 1))
				regs = append(regs, region{fmt.Sprintf("(%s,%s)", c.FloatString(4), cs[i+1].FloatString(4)), mid})
			}
		}
		regs = append(regs, region{fmt.Sprintf("(%s,+inf)", cs[len(cs)-1].FloatString(4)), new(big.Rat).Add(cs[len(cs)-1], one)})
		var tbl []string
		for _, rg := range regs {
			env := newCEnv(p, nil)
			env.loops = true
			v, err := env.callFunc(fd, []Val{{K: VRat, R: rg.rep}}, fd)
			inst := "Rating" + rg.name
			if err != nil {
				add(false, "R15.region", inst, fd, "cannot decide: "+err.Error())
				continue
			}
			gotS, gotE := "?", "?"
			if v.K == VTuple && len(v.T) == 2 && v.T[0].K == VStr {
				gotS = v.T[0].S
				switch v.T[1].K {
				case VNil:
					gotE = ""
				case VOpaque:
					gotE = v.T[1].S
				}
			}
			wantS, wantE := ratingOracle(rg.rep)
			tbl = append(tbl, fmt.Sprintf("%s->%q/%s", rg.name, gotS, gotE))
			if gotS == wantS && gotE == wantE {
				add(true, "R15.region", inst, fd, fmt.Sprintf("every score in %s yields (%q, %s)", rg.name, gotS, map[bool]string{true: "nil", false: gotE}[gotE == ""]))
			} else {
				add(false, "R15.region", inst, fd, fmt.Sprintf("scores in %s yield (%q, %s); the specification scale requires (%q, %s)", rg.name, gotS, orNil(gotE), wantS, orNil(wantE)))
			}
		}
		tables[k] = strings.Join(tbl, " ")
		// the error is the package's sentinel object
		if v, _ := p.pkgVar("ErrOutOfBoundsScore"); v == nil {
			add(false, "R15.sentinel", "ErrOutOfBoundsScore", fd, "package has no ErrOutOfBoundsScore variable")
		} else {
			add(true, "R15.sentinel", "ErrOutOfBoundsScore", fd, "out-of-range result is the package-level ErrOutOfBoundsScore object")
		}
	}
	same := tables["30"] == tables["31"] && tables["31"] == tables["40"] && tables["30"] != ""
	*out = append(*out, Obligation{Rule: "R15.same", Instance: "30~31~40.Rating", Pos: "30,31,40", OK: same, NonTrivial: true,
		Detail: map[bool]string{true: "the three canonical region tables are identical", false: "the region tables of the three packages differ: " + fmt.Sprint(tables)}[same]})
}

// f64 rounds a rational to the nearest float64 (scores and typed constants are float64).
func f64(r *big.Rat) *big.Rat {
	f, _ := r.Float64()
	return new(big.Rat).SetFloat64(f)
}

func orNil(s string) string {
	if s == "" {
		return "nil"
	}
	return s
}

// ---------------------------------------------------------------------------
// C16 Nomenclature

func (w *World) rulesNomenclature(out *[]Obligation) {
	p := w.Pkgs["40"]
	ov := vocab["40"]
	sm := p.SetModel()
	add := func(ok bool, rule, inst string, n ast.Node, detail string) {
		*out = append(*out, Obligation{Rule: rule, Instance: "40." + inst, Pos: p.pos(n), OK: ok, Detail: detail, NonTrivial: true})
	}
	fd := p.method("Nomenclature")
	if fd == nil {
		*out = append(*out, Obligation{Rule: "R16.table", Instance: "40.Nomenclature", Pos: "40", OK: false, Detail: "no Nomenclature method", NonTrivial: true})
		return
	}
	// all byte reads — in Nomenclature and in every package function it calls —
	// are classified: inside a whole-field "some bit set" predicate (then only
	// the definedness of the metric matters), or not (then every code of the
	// metric is enumerated)
	var fns []*ast.FuncDecl
	seenFn := map[*ast.FuncDecl]bool{}
	work := []*ast.FuncDecl{fd}
	for len(work) > 0 {
		f := work[len(work)-1]
		work = work[:len(work)-1]
		if seenFn[f] || f.Body == nil {
			continue
		}
		seenFn[f] = true
		fns = append(fns, f)
		ast.Inspect(f.Body, func(n ast.Node) bool {
			if c, ok := n.(*ast.CallExpr); ok {
				if fn := calleeOf(p.Info, c); fn != nil && fn.Pkg() == p.P.Types {
					if d := p.FuncObj[fn]; d != nil {
						work = append(work, d)
					}
				}
			}
			return true
		})
	}
	// accessors: methods of the object whose body is `return <pure selection of
	// receiver bits>`. Their reads are accounted for where they are called.
	accessor := map[*ast.FuncDecl][]BitPos{}
	for _, f := range fns {
		if f == fd || f.Recv == nil || len(f.Body.List) != 1 {
			continue
		}
		rs, ok := f.Body.List[0].(*ast.ReturnStmt)
		if !ok || len(rs.Results) != 1 {
			continue
		}
		if tv, ok := p.Info.Types[rs.Results[0]]; !ok || !isUint8(tv.Type) {
			continue
		}
		if bs, ok := p.orBits(rs.Results[0]); ok {
			accessor[f] = bs
		}
	}
	if len(accessor) > 0 {
		var keep []*ast.FuncDecl
		for _, f := range fns {
			if _, isAcc := accessor[f]; !isAcc {
				keep = append(keep, f)
			}
		}
		fns = keep
	}
	// integer locals defined once as an OR of bit selections (t := c.u2 & 0x0C):
	// a later `t != 0` tests those bits
	bitLocals := map[types.Object][]BitPos{}
	localDef := map[ast.Node]bool{}
	for _, f := range fns {
		ast.Inspect(f.Body, func(n ast.Node) bool {
			as, ok := n.(*ast.AssignStmt)
			if !ok || as.Tok != token.DEFINE || len(as.Lhs) != len(as.Rhs) {
				return true
			}
			for i, l := range as.Lhs {
				o := identObj(p.Info, l)
				if o == nil || assignedIn(p.Info, f.Body, o) {
					continue
				}
				if tv, ok := p.Info.Types[as.Rhs[i]]; !ok || !isUint8(tv.Type) {
					continue
				}
				if bs, ok := p.orBitsL(as.Rhs[i], bitLocals); ok {
					bitLocals[o] = bs
					localDef[as.Rhs[i]] = true
				}
			}
			return true
		})
	}
	involved := map[string]bool{}
	fullEnum := map[string]bool{}
	donePred := map[ast.Expr]bool{}
	nReaders := 0
	// predicates over bit locals: `t != 0`, `t != 0 || e != 0`
	handlePred := func(pred ast.Expr, bits []BitPos) {
		if donePred[pred] {
			return
		}
		donePred[pred] = true
		whole, partial, _ := p.metricsOfBits(bits)
		for _, m := range whole {
			involved[m] = true
		}
		for _, m := range partial {
			involved[m] = true
			fullEnum[m] = true
			if om := ov.byAbv[m]; om != nil && om.Group != "threat" && om.Group != "environmental" {
				add(false, "R16.whole", "Nomenclature["+m+"]", pred, fmt.Sprintf("the test reads a bit of %s, a %s metric, which must not influence the nomenclature", m, om.Group))
			} else {
				add(false, "R16.whole", "Nomenclature["+m+"]", pred, fmt.Sprintf("the test covers only part of the field of %s: some defined value of %s is not noticed", m, m))
			}
		}
	}
	if len(bitLocals) > 0 {
		usedInPred := map[*ast.Ident]bool{}
		for _, f := range fns {
			ast.Inspect(f.Body, func(n ast.Node) bool {
				be, ok := n.(*ast.BinaryExpr)
				if !ok {
					return true
				}
				mentions := false
				ast.Inspect(be, func(x ast.Node) bool {
					if id, ok := x.(*ast.Ident); ok {
						if _, isL := bitLocals[p.Info.Uses[id]]; isL {
							mentions = true
						}
					}
					return true
				})
				if !mentions {
					return true
				}
				if bits, ok := p.anyBits(be, bitLocals); ok {
					handlePred(be, bits)
					ast.Inspect(be, func(x ast.Node) bool {
						if id, ok := x.(*ast.Ident); ok {
							usedInPred[id] = true
						}
						return true
					})
					return false
				}
				return true
			})
			// a bit local used anywhere else carries its bits there: enumerate fully
			ast.Inspect(f.Body, func(n ast.Node) bool {
				if id, ok := n.(*ast.Ident); ok {
					if bs, isL := bitLocals[p.Info.Uses[id]]; isL && !usedInPred[id] {
						_, partial, _ := p.metricsOfBits(bs)
						whole, _, _ := p.metricsOfBits(bs)
						for _, m := range append(whole, partial...) {
							// only when the use is not itself the definition of another bit local
							_ = m
						}
						escapes := true
						for def := range localDef {
							if def.Pos() <= id.Pos() && id.End() <= def.End() {
								escapes = false
							}
						}
						if escapes {
							for _, m := range append(whole, partial...) {
								involved[m] = true
								fullEnum[m] = true
							}
						}
					}
				}
				return true
			})
		}
	}
	for _, f := range fns {
		for _, r := range p.readersIn(f.Body) {
			nReaders++
			// a read inside the definition of a bit local is accounted for by the tests on that local
			inLocalDef := false
			for def := range localDef {
				for _, pn := range r.Path {
					if pn == def {
						inLocalDef = true
					}
				}
			}
			if inLocalDef {
				continue
			}
			var pred ast.Expr
			for i := len(r.Path) - 1; i >= 0; i-- {
				e, ok := r.Path[i].(ast.Expr)
				if !ok {
					break
				}
				if tv, ok := p.Info.Types[e]; ok {
					if b, ok := tv.Type.Underlying().(*types.Basic); ok && b.Info()&types.IsBoolean != 0 {
						pred = e
					}
				}
			}
			var bits []BitPos
			okPred := false
			if pred != nil {
				bits, okPred = p.anyBits(pred, bitLocals)
			}
			if !okPred {
				for _, m := range r.Metrics {
					involved[m] = true
					fullEnum[m] = true
				}
				continue
			}
			if donePred[pred] {
				continue
			}
			donePred[pred] = true
			whole, partial, _ := p.metricsOfBits(bits)
			for _, m := range whole {
				involved[m] = true
			}
			for _, m := range partial {
				involved[m] = true
				fullEnum[m] = true
				if om := ov.byAbv[m]; om != nil && om.Group != "threat" && om.Group != "environmental" {
					add(false, "R16.whole", "Nomenclature["+m+"]", pred, fmt.Sprintf("the test reads a bit of %s, a %s metric, which must not influence the nomenclature", m, om.Group))
				} else {
					add(false, "R16.whole", "Nomenclature["+m+"]", pred, fmt.Sprintf("the test covers only part of the field of %s: some defined value of %s is not noticed", m, m))
				}
			}
		}
	}
	// calls of accessors: inside a "some bit set" predicate, or enumerated fully
	for _, f := range fns {
		var stack []ast.Node
		ast.Inspect(f.Body, func(n ast.Node) bool {
			if n == nil {
				stack = stack[:len(stack)-1]
				return false
			}
			stack = append(stack, n)
			call, ok := n.(*ast.CallExpr)
			if !ok {
				return true
			}
			fn := calleeOf(p.Info, call)
			if fn == nil {
				return true
			}
			bs, isAcc := accessor[p.FuncObj[fn]]
			if !isAcc {
				return true
			}
			nReaders++
			inLocalDef := false
			for def := range localDef {
				if def.Pos() <= call.Pos() && call.End() <= def.End() {
					inLocalDef = true
				}
			}
			if inLocalDef {
				return true
			}
			var pred ast.Expr
			for i := len(stack) - 1; i >= 0; i-- {
				e, ok := stack[i].(ast.Expr)
				if !ok {
					break
				}
				if tv, ok := p.Info.Types[e]; ok {
					if b, ok := tv.Type.Underlying().(*types.Basic); ok && b.Info()&types.IsBoolean != 0 {
						pred = e
					}
				}
			}
			if pred != nil {
				if bits, ok := p.anyBits(pred, bitLocals); ok {
					handlePred(pred, bits)
					return true
				}
			}
			whole, partial, _ := p.metricsOfBits(bs)
			for _, m := range append(whole, partial...) {
				involved[m] = true
				fullEnum[m] = true
			}
			return true
		})
	}
	add(true, "R16.reads", "Nomenclature.reads", fd, fmt.Sprintf("%d byte reads in %d function(s) reachable from Nomenclature classified; %d metrics involved, %d of them enumerated over all their values", nReaders, len(fns), len(involved), len(fullEnum)))
	// oracle sets
	threat := map[string]bool{}
	envm := map[string]bool{}
	for _, m := range ov.list {
		if m.Group == "threat" {
			threat[m.Abv] = true
		}
		if m.Group == "environmental" {
			envm[m.Abv] = true
		}
	}
	all := map[string]bool{}
	for m := range involved {
		all[m] = true
	}
	for m := range threat {
		all[m] = true
	}
	for m := range envm {
		all[m] = true
	}
	var ms []string
	for m := range all {
		ms = append(ms, m)
	}
	sort.Strings(ms)
	// R16.x
	for _, m := range ms {
		if !threat[m] && !envm[m] {
			continue
		}
		sm := sm.ByLabel[m]
		if sm == nil || len(sm.List) == 0 || sm.List[0] != "X" || !sm.encOK {
			add(false, "R16.x", "Set["+m+"]", fd, "code 0 of "+m+" is not X (or its layout is undecided): `some bit set` is not `defined`")
		} else {
			add(true, "R16.x", "Set["+m+"]", sm.Arm, "code 0 is X and the field is a bit permutation of the code: defined <=> some field bit set")
		}
	}
	size := 1
	doms := make([]int, len(ms))
	for i, m := range ms {
		doms[i] = 2
		if fullEnum[m] {
			if mm := sm.ByLabel[m]; mm != nil {
				doms[i] = len(mm.List)
			}
		}
		size *= doms[i]
		if size > 8_000_000 {
			break
		}
	}
	if size > 8_000_000 {
		add(false, "R16.table", "Nomenclature", fd, fmt.Sprintf("%d metrics influence the result: enumeration too large (undecided)", len(ms)))
		return
	}
	// exhaustive enumeration
	n := len(ms)
	bad := 0
	evals := 0
	var firstBad string
	minPop := n + 1
	perMetricOK := map[string]bool{}
	for _, m := range ms {
		perMetricOK[m] = true
	}
	cur := make([]int, n)
	var rec func(i int) bool
	rec = func(i int) bool {
		if i < n {
			for c := 0; c < doms[i]; c++ {
				cur[i] = c
				if !rec(i + 1) {
					return false
				}
			}
			return true
		}
		codes := map[string]int{}
		t, e := false, false
		pop := 0
		for i, m := range ms {
			if cur[i] != 0 {
				codes[m] = cur[i]
				pop++
				if threat[m] {
					t = true
				}
				if envm[m] {
					e = true
				}
			}
		}
		want := "CVSS-B"
		if t {
			want += "T"
		}
		if e {
			want += "E"
		}
		bytes, err := p.bytesFromCodes(codes)
		if err != nil {
			add(false, "R16.table", "Nomenclature", fd, err.Error())
			return false
		}
		v, err := newCEnv(p, bytes).callFunc(fd, nil, fd)
		evals++
		if err != nil {
			add(false, "R16.table", "Nomenclature", fd, "cannot decide: "+err.Error())
			return false
		}
		if v.K != VStr || v.S != want {
			bad++
			if pop < minPop {
				minPop = pop
				var def []string
				for m, c := range codes {
					def = append(def, m+":"+sm.ByLabel[m].List[c])
				}
				sort.Strings(def)
				firstBad = fmt.Sprintf("with exactly {%s} defined Nomenclature returns %s, specification says %q", strings.Join(def, ","), v, want)
			}
			if pop == 1 {
				for m := range codes {
					perMetricOK[m] = false
				}
			}
		}
		return true
	}
	if !rec(0) {
		return
	}
	for _, m := range ms {
		grp := "base/supplemental (must not matter)"
		if threat[m] {
			grp = "threat (adds T)"
		}
		if envm[m] {
			grp = "environmental (adds E)"
		}
		add(perMetricOK[m], "R16.field", "Nomenclature["+m+"]", fd, map[bool]string{true: m + ": " + grp + " — observed correctly", false: m + ": " + grp + " — defining only " + m + " gives the wrong nomenclature"}[perMetricOK[m]])
	}
	if bad == 0 {
		add(true, "R16.table", "Nomenclature", fd, fmt.Sprintf("all %d definedness combinations of %d metrics give the specified nomenclature (other metrics are never read)", evals, n))
	} else {
		add(false, "R16.table", "Nomenclature", fd, fmt.Sprintf("%d of %d combinations wrong; smallest: %s", bad, evals, firstBad))
	}
	w.Extra["nomenclature_evaluations"] = evals
}

// ---------------------------------------------------------------------------
// R17.len: lenVec never undercounts what Vector appends

// depsOf returns the metrics an expression depends on (byte reads through the
// layout, accessor calls with constant labels, and previously analysed locals).
func (p *Pkg) depsOf(e ast.Node, locals map[types.Object]map[string]bool) (map[string]bool, bool) {
	deps := map[string]bool{}
	ok := true
	// byte reads in the expression and in every package function it calls
	// (accessors such as c.msi())
	for _, r := range p.readersTransitive(e) {
		for _, m := range r.Metrics {
			deps[m] = true
		}
	}
	ast.Inspect(e, func(n ast.Node) bool {
		switch x := n.(type) {
		case *ast.CallExpr:
			if l, isGet := p.getLabelOf(x); isGet {
				deps[l] = true
				return false
			}
		case *ast.Ident:
			if o := p.Info.Uses[x]; o != nil {
				if d, has := locals[o]; has {
					for m := range d {
						deps[m] = true
					}
				}
			}
		case *ast.SelectorExpr:
			if _, _, isField := p.fieldOf(x); isField {
				// must have been covered by a reader
				return false
			}
		}
		return true
	})
	return deps, ok
}

func (w *World) rulesLen(out *[]Obligation) {
	for _, k := range w.Order {
		p := w.Pkgs[k]
		ov := vocab[k]
		sm := p.SetModel()
		gm := p.GetModel()
		em := p.EmitModel()
		add := func(ok bool, rule, inst string, n ast.Node, detail string) {
			pos := k
			if n != nil {
				pos = p.pos(n)
			}
			*out = append(*out, Obligation{Rule: rule, Instance: k + "." + inst, Pos: pos, OK: ok, Detail: detail, NonTrivial: true})
		}
		if em.LenCall == nil || em.MakeCall == nil {
			add(false, "R17.len", "Vector.cap", em.Fn, "Vector does not size its buffer with a sizing function: undecided")
			continue
		}
		lenFn := calleeOf(p.Info, em.LenCall)
		lfd := p.FuncObj[lenFn]
		if lfd == nil {
			add(false, "R17.len", "Vector.cap", em.LenCall, "sizing function not found")
			continue
		}
		// make([]byte, 0, l) with l the sizing result
		okMake := len(em.MakeCall.Args) == 3
		if okMake {
			if u, ok := constUint(p.Info, em.MakeCall.Args[1]); !ok || u != 0 {
				okMake = false
			}
		}
		add(okMake, "R17.len", "Vector.make", em.MakeCall, map[bool]string{true: "buffer is make([]byte, 0, <sizing result>)", false: "buffer is not make([]byte, 0, cap)"}[okMake])
		// components: statements of lenVec with their dependency sets
		uf := map[string]string{}
		var find func(x string) string
		find = func(x string) string {
			if uf[x] == "" || uf[x] == x {
				uf[x] = x
				return x
			}
			r := find(uf[x])
			uf[x] = r
			return r
		}
		union := func(xs map[string]bool) {
			var first string
			for x := range xs {
				if first == "" {
					first = find(x)
				} else {
					uf[find(x)] = first
				}
			}
		}
		locals := map[types.Object]map[string]bool{}
		undec := false
		for _, s := range lfd.Body.List {
			switch st := s.(type) {
			case *ast.AssignStmt:
				if st.Tok == token.DEFINE {
					if len(st.Lhs) == len(st.Rhs) {
						for i := range st.Lhs {
							d, _ := p.depsOf(st.Rhs[i], locals)
							if o := identObj(p.Info, st.Lhs[i]); o != nil {
								locals[o] = d
							}
						}
						continue
					}
				}
				d, _ := p.depsOf(st, locals)
				union(d)
			case *ast.IfStmt, *ast.SwitchStmt:
				d, _ := p.depsOf(st, locals)
				union(d)
			case *ast.ReturnStmt, *ast.EmptyStmt:
			default:
				undec = true
				add(false, "R17.len", "lenVec", s, fmt.Sprintf("statement %T outside the sizing language: undecided", s))
			}
		}
		if undec {
			// outside the statement language: interpret the sizing function
			// symbolically and take the coupling of metrics from its linear form
			_, sets, err := p.sizingLinear(lfd)
			if err != nil {
				add(false, "R17.len", "lenVec.model", lfd, "the sizing function could not be interpreted symbolically either: "+err.Error()+posSuffix(p, err))
				continue
			}
			// drop the syntactic complaints, rebuild the partition
			kept := (*out)[:0]
			for _, o := range *out {
				if o.Rule == "R17.len" && !o.OK && strings.HasPrefix(o.Instance, k+".lenVec") && strings.Contains(o.Detail, "outside the sizing language") {
					continue
				}
				kept = append(kept, o)
			}
			*out = kept
			uf = map[string]string{}
			for _, ms := range sets {
				d := map[string]bool{}
				for _, m := range ms {
					d[m] = true
				}
				union(d)
			}
			add(true, "R17.len", "lenVec.model", lfd, fmt.Sprintf("sizing function interpreted symbolically: a sum of %d conditional terms; the metrics each condition tests give the independent components", len(sets)))
		}
		// Vector's group conditions couple metrics too
		for gi := range em.Groups {
			d := map[string]bool{}
			for _, e := range em.Entries {
				if e.Group == gi {
					d[e.Label] = true
				}
			}
			for _, l := range em.Groups[gi].CondLabels {
				d[l] = true
			}
			union(d)
		}
		comps := map[string][]string{}
		build := func() int {
			comps = map[string][]string{}
			for _, m := range sm.Metrics {
				r := find(m.Label)
				comps[r] = append(comps[r], m.Label)
			}
			worst := 0
			for _, ms := range comps {
				size := 1
				for _, m := range ms {
					size *= len(sm.ByLabel[m].List)
					if size > 1<<30 {
						break
					}
				}
				if size > worst {
					worst = size
				}
			}
			return worst
		}
		if build() > 200000 {
			// the statement-level dependencies couple too many metrics (e.g. whole bytes are
			// counted at once): take the coupling from the symbolic linear form instead
			if _, sets, err := p.sizingLinear(lfd); err == nil {
				uf = map[string]string{}
				for _, ms := range sets {
					d := map[string]bool{}
					for _, m := range ms {
						d[m] = true
					}
					union(d)
				}
				for gi := range em.Groups {
					d := map[string]bool{}
					for _, e := range em.Entries {
						if e.Group == gi {
							d[e.Label] = true
						}
					}
					for _, l := range em.Groups[gi].CondLabels {
						d[l] = true
					}
					union(d)
				}
				build()
				add(true, "R17.len", "lenVec.model", lfd, fmt.Sprintf("sizing function interpreted symbolically: a sum of %d conditional terms; the metrics each condition tests give the independent components", len(sets)))
			} else {
				w.Extra["lenvec_linear_"+k] = "not applicable: " + err.Error() + posSuffix(p, err)
			}
		}
		// F: lenVec concretely; G: emitted length from the emission model + Get tables
		F := func(codes map[string]int) (int64, error) {
			bytes, err := p.bytesFromCodes(codes)
			if err != nil {
				return 0, err
			}
			v, err := newCEnv(p, bytes).callFunc(lfd, []Val{{K: VOpaque, S: "obj"}}, lfd)
			if err != nil {
				return 0, err
			}
			if v.K != VInt {
				return 0, fmt.Errorf("sizing function returned %s", v)
			}
			return v.I, nil
		}
		G := func(codes map[string]int) int64 {
			n := int64(len(em.Header))
			groupOn := make([]bool, len(em.Groups))
			for gi, g := range em.Groups {
				for i, l := range g.CondLabels {
					if ga := gm.ByLabel[l]; ga != nil && ga.Table[codes[l]] != g.CondConst[i] {
						groupOn[gi] = true
					}
				}
			}
			for _, e := range em.Entries {
				ga := gm.ByLabel[e.Label]
				if ga == nil {
					continue
				}
				s := ga.Table[codes[e.Label]]
				if e.Group >= 0 {
					if groupOn[e.Group] {
						n += int64(len(e.Prefix) + len(s))
					}
					continue
				}
				if setOf(e.Skip)[s] {
					continue
				}
				n += int64(len(e.Prefix) + len(s))
			}
			return n
		}
		// the sizing value as Vector computes it: the statements of Vector that
		// precede the buffer's make are evaluated and the capacity argument read
		// (covers a sizing function that takes something derived from the object)
		var preMake []ast.Stmt
		var capExpr ast.Expr
		if em.Fn != nil && em.Fn.Body != nil && em.MakeCall != nil && len(em.MakeCall.Args) == 3 {
			capExpr = em.MakeCall.Args[2]
			if em.CapExpr != nil {
				capExpr = em.CapExpr
			}
			located := false
			for _, st := range em.Fn.Body.List {
				if nodeContains(st, capExpr) {
					located = true
					break
				}
				preMake = append(preMake, st)
			}
			if !located {
				preMake, capExpr = nil, nil
			}
		}
		Fdirect := F
		F = func(codes map[string]int) (int64, error) {
			v, err := Fdirect(codes)
			if err == nil || capExpr == nil {
				return v, err
			}
			bytes, err2 := p.bytesFromCodes(codes)
			if err2 != nil {
				return 0, err
			}
			ce := newCEnv(p, bytes)
			for _, st := range preMake {
				ct, _, e3 := ce.exec(st)
				if e3 != nil {
					return 0, fmt.Errorf("%v; evaluating Vector up to its make: %v", err, e3)
				}
				if ct == cReturn {
					return 0, err
				}
			}
			cv, e4 := ce.eval(capExpr)
			if e4 != nil {
				return 0, fmt.Errorf("%v; evaluating the capacity argument: %v", err, e4)
			}
			if cv.K != VInt {
				return 0, err
			}
			return cv.I, nil
		}
		zero := map[string]int{}
		f0, err := F(zero)
		if err != nil {
			add(false, "R17.len", "lenVec", lfd, "cannot decide the sizing function: "+err.Error())
			continue
		}
		g0 := G(zero)
		total := f0 - g0
		var roots []string
		for r := range comps {
			roots = append(roots, r)
		}
		sort.Strings(roots)
		evals := 1
		type compRes struct {
			name  string
			min   int64
			worst string
		}
		var results []compRes
		failed := false
		inexact := "" // a witness that the sizing value differs from the number of bytes written
		for _, r := range roots {
			ms := comps[r]
			sort.Strings(ms)
			size := 1
			for _, m := range ms {
				size *= len(sm.ByLabel[m].List)
			}
			if size > 200000 {
				add(false, "R17.len", "lenVec{"+strings.Join(ms, ",")+"}", lfd, "component too large to enumerate: undecided")
				failed = true
				continue
			}
			minD := int64(1 << 40)
			maxD := int64(-(1 << 40))
			worstMax := ""
			worst := ""
			codes := map[string]int{}
			var rec func(i int) error
			rec = func(i int) error {
				if i == len(ms) {
					f, err := F(codes)
					if err != nil {
						return err
					}
					evals++
					d := (f - f0) - (G(codes) - g0)
					if d > maxD {
						maxD = d
						var parts []string
						for _, m := range ms {
							parts = append(parts, m+":"+sm.ByLabel[m].List[codes[m]])
						}
						worstMax = strings.Join(parts, "/")
					}
					if d < minD {
						minD = d
						var parts []string
						for _, m := range ms {
							parts = append(parts, m+":"+sm.ByLabel[m].List[codes[m]])
						}
						worst = strings.Join(parts, "/")
					}
					return nil
				}
				for c := range sm.ByLabel[ms[i]].List {
					codes[ms[i]] = c
					if err := rec(i + 1); err != nil {
						return err
					}
				}
				return nil
			}
			if err := rec(0); err != nil {
				add(false, "R17.len", "lenVec{"+strings.Join(ms, ",")+"}", lfd, "cannot decide: "+err.Error())
				failed = true
				continue
			}
			total += minD
			results = append(results, compRes{strings.Join(ms, ","), minD, worst})
			if minD != 0 && inexact == "" {
				inexact = fmt.Sprintf("%d byte(s) fewer than written for %s", -minD, worst)
			}
			if maxD != 0 && inexact == "" {
				inexact = fmt.Sprintf("%d byte(s) more than written for %s", maxD, worstMax)
			}
		}
		if failed {
			continue
		}
		for _, cr := range results {
			okc := cr.min >= 0 || total >= 0
			det := fmt.Sprintf("min over all values of (capacity added − bytes appended) = %d (at %s)", cr.min, cr.worst)
			if cr.min < 0 && total >= 0 {
				det += "; compensated by slack elsewhere"
			}
			if !okc {
				det = fmt.Sprintf("lenVec reserves %d byte(s) too few for %s: append must grow the buffer (a second allocation)", -cr.min, cr.worst)
			}
			add(okc, "R17.len", "lenVec{"+cr.name+"}", lfd, det)
		}
		add(total >= 0, "R17.len", "lenVec.total", lfd, fmt.Sprintf("base capacity %d vs %d mandatory bytes; worst-case slack over all objects = %d (>= 0 means append never grows)", f0, g0, total))
		// R02.strlen: how long is the string Vector returns? `string(b)`, the
		// reinterpreted slice header and unsafe.String(p, len(b)) span exactly what
		// was written; unsafe.String(p, n) with another n returns the first n bytes
		// of the buffer — only right when n always equals the number of bytes written
		if f0 != g0 && inexact == "" {
			inexact = fmt.Sprintf("the fixed part is sized %d, %d bytes are written", f0, g0)
		}
		strlenSeen := false
		ast.Inspect(em.Fn.Body, func(n ast.Node) bool {
			call, ok := n.(*ast.CallExpr)
			if !ok || len(call.Args) != 2 {
				return true
			}
			se, ok := call.Fun.(*ast.SelectorExpr)
			if !ok || se.Sel.Name != "String" {
				return true
			}
			pk, ok := se.X.(*ast.Ident)
			if !ok {
				return true
			}
			if pn, ok := p.Info.Uses[pk].(*types.PkgName); !ok || pn.Imported().Path() != "unsafe" {
				return true
			}
			strlenSeen = true
			lenArg := call.Args[1]
			isLenBuf := false
			if lc, ok := lenArg.(*ast.CallExpr); ok && len(lc.Args) == 1 {
				if id, ok := lc.Fun.(*ast.Ident); ok && id.Name == "len" && identObj(p.Info, lc.Args[0]) == em.BufObj && em.BufObj != nil {
					isLenBuf = true
				}
			}
			switch {
			case isLenBuf:
				add(true, "R02.strlen", "Vector.strlen", call, "the returned string spans len(buffer): exactly the bytes written")
			case capExpr != nil && (lenArg == capExpr || (identObj(p.Info, lenArg) != nil && identObj(p.Info, lenArg) == identObj(p.Info, em.MakeCall.Args[2]))):
				if inexact == "" {
					add(true, "R02.strlen", "Vector.strlen", call, "the returned string is cut to the sizing value, which equals the number of bytes written for every object (all components exact)")
				} else {
					add(false, "R02.strlen", "Vector.strlen", call, "Vector returns the first <sizing value> bytes of its buffer, and the sizing value is "+inexact+": the vector string is cut short or runs into unwritten bytes")
				}
			default:
				add(false, "R02.strlen", "Vector.strlen", call, "the length given to unsafe.String is neither len(buffer) nor the sizing value: undecided")
			}
			return true
		})
		if !strlenSeen {
			add(true, "R02.strlen", "Vector.strlen", em.Fn, "the returned string is the buffer itself (conversion or reinterpreted slice header): exactly the bytes written")
		}
		_ = ov
		if w.Extra["lenvec_evaluations"] == nil {
			w.Extra["lenvec_evaluations"] = 0
		}
		w.Extra["lenvec_evaluations"] = w.Extra["lenvec_evaluations"].(int) + evals
	}
}

func init() {
	registerGroup("rating", func(w *World, out *[]Obligation) { w.rulesRating(out) })
	registerGroup("nomenclature", func(w *World, out *[]Obligation) { w.rulesNomenclature(out) })
	registerGroup("len", func(w *World, out *[]Obligation) { w.rulesLen(out) })
}

// tableOperandLeaves: the operand is a selector/index chain (no arithmetic)
// rooted at a package-level table of constants, or at the value variable of a
// range statement of fd over such a chain. Its run-time value is then one of
// the numeric leaves of the table, which are returned.
func tableOperandLeaves(p *Pkg, fd *ast.FuncDecl, e ast.Expr) ([]*big.Rat, bool) {
	info := p.Info
	rangeSrc := map[types.Object]ast.Expr{}
	ast.Inspect(fd.Body, func(n ast.Node) bool {
		if rs, ok := n.(*ast.RangeStmt); ok && rs.Value != nil {
			if o := identObj(info, rs.Value); o != nil {
				rangeSrc[o] = rs.X
			}
		}
		return true
	})
	seen := map[types.Object]bool{}
	var root func(e ast.Expr) *types.Var
	root = func(e ast.Expr) *types.Var {
		switch x := e.(type) {
		case *ast.ParenExpr:
			return root(x.X)
		case *ast.SelectorExpr:
			if sel := info.Selections[x]; sel != nil && sel.Kind() == types.FieldVal {
				return root(x.X)
			}
		case *ast.IndexExpr:
			return root(x.X)
		case *ast.Ident:
			o := identObj(info, x)
			if o == nil || seen[o] {
				return nil
			}
			seen[o] = true
			if src, ok := rangeSrc[o]; ok && !assignedIn(info, fd.Body, o) && !writtenThrough(info, fd.Body, o) {
				return root(src)
			}
			if pv, ok := o.(*types.Var); ok && o.Parent() == p.P.Types.Scope() {
				return pv
			}
		}
		return nil
	}
	pv := root(e)
	if pv == nil {
		return nil, false
	}
	init := p.pkgVarInit(pv)
	if init == nil {
		return nil, false
	}
	lv, ok := p.listValue(init)
	if !ok {
		return nil, false
	}
	var out []*big.Rat
	var walk func(v Val)
	walk = func(v Val) {
		switch v.K {
		case VInt, VRat:
			out = append(out, toRat(v))
		case VList:
			for _, c := range v.T {
				walk(c)
			}
		case VStruct:
			for _, c := range v.F {
				walk(c)
			}
		}
	}
	walk(lv)
	return out, len(out) > 0
}

// writtenThrough: some assignment's left-hand side mentions obj (x.f = …, x[i] = …)
func writtenThrough(info *types.Info, body ast.Node, obj types.Object) bool {
	found := false
	ast.Inspect(body, func(n ast.Node) bool {
		as, ok := n.(*ast.AssignStmt)
		if !ok {
			return true
		}
		for _, l := range as.Lhs {
			if _, plain := l.(*ast.Ident); plain {
				continue
			}
			ast.Inspect(l, func(m ast.Node) bool {
				if id, ok := m.(*ast.Ident); ok && info.Uses[id] == obj {
					found = true
				}
				return true
			})
		}
		return true
	})
	return found
}
