package main

// Rule group "parse", part 2: header guard and the census of return sites.

import (
	"fmt"
	"go/ast"
	"go/token"
	"go/types"
	"strings"
)

func (w *World) rulesHeader(p *Pkg, m *parseModel, add func(ok bool, rule, inst string, n ast.Node, detail string)) {
	ov := vocab[p.Key]
	info := p.Info
	if ov.Header == "" {
		// v2: no call that inspects a header prefix at all
		return
	}
	body := m.fd.Body.List
	// declarations without a value and `_ = x` ahead of the guard do nothing
	body = skipInert(body)
	fail := func(n ast.Node, why string) {
		add(false, "R01.header", "ParseVector.header", n, why)
		add(false, "R13.guard", "ParseVector.header", n, why)
	}
	if len(body) < 2 {
		fail(m.fd, "ParseVector does not start with the header guard")
		return
	}
	retOK := func(list []ast.Stmt) bool {
		if len(list) != 1 {
			return false
		}
		rs, ok := list[0].(*ast.ReturnStmt)
		if !ok || len(rs.Results) != 2 || !isNilIdent(info, rs.Results[0]) {
			return false
		}
		sv := p.sentinel(rs.Results[1])
		return sv != nil && sv.Name() == "ErrInvalidCVSSHeader"
	}
	// the parameter must not be read again once the remainder has its own variable
	paramUnusedAfter := func(from int) (ast.Node, bool) {
		var bad ast.Node
		for _, s := range body[from:] {
			ast.Inspect(s, func(n ast.Node) bool {
				if id, ok := n.(*ast.Ident); ok && info.Uses[id] == m.param && bad == nil {
					bad = id
				}
				return true
			})
		}
		return bad, bad == nil
	}
	// form B: rest, ok := strings.CutPrefix(vector, header); if !ok { return nil, ErrInvalidCVSSHeader }
	if as, ok := body[0].(*ast.AssignStmt); ok && len(as.Lhs) == 2 && len(as.Rhs) == 1 {
		if call, ok := as.Rhs[0].(*ast.CallExpr); ok && isStringsFunc(calleeOf(info, call), "CutPrefix") && len(call.Args) == 2 {
			okObj := identObj(info, as.Lhs[1])
			h, okH := constString(info, call.Args[1])
			ifs, isIf := body[1].(*ast.IfStmt)
			switch {
			case identObj(info, call.Args[0]) != m.param:
				fail(as, "header guard does not test the input string")
			case !okH || h != ov.Header:
				fail(as, fmt.Sprintf("header guard tests the prefix %q, the specification header is %q", h, ov.Header))
			case !isIf || ifs.Init != nil || ifs.Else != nil:
				fail(body[1], "the result of strings.CutPrefix is not tested right away")
			default:
				not, isNot := ifs.Cond.(*ast.UnaryExpr)
				if !isNot || not.Op != token.NOT || identObj(info, not.X) != okObj || !retOK(ifs.Body.List) {
					fail(ifs, "a wrong header is not answered with (nil, ErrInvalidCVSSHeader)")
					return
				}
				if identObj(info, as.Lhs[0]) != m.param {
					if at, ok := paramUnusedAfter(2); !ok {
						fail(at, "the unstripped input is read again after the header was cut off")
						return
					}
				}
				add(true, "R01.header", "ParseVector.header", as, fmt.Sprintf("strings.CutPrefix rejects every string not starting with %q and yields the remainder; the guard dominates all later code", h))
				add(true, "R13.guard", "ParseVector.header", as, fmt.Sprintf("an accepted string starts with %q", h))
			}
			return
		}
	}
	ifs, ok := body[0].(*ast.IfStmt)
	if !ok || ifs.Init != nil || ifs.Else != nil {
		fail(body[0], "the first statement of ParseVector is not `if !strings.HasPrefix(vector, header) { return nil, ErrInvalidCVSSHeader }`")
		return
	}
	// the spelled-out prefix test: len(v) < len(h) || v[:len(h)] != h
	h := ""
	spelled := false
	if be, ok := ifs.Cond.(*ast.BinaryExpr); ok && be.Op == token.LOR {
		lenOfParam := func(e ast.Expr) bool {
			c, ok := e.(*ast.CallExpr)
			if !ok || len(c.Args) != 1 {
				return false
			}
			id, ok := c.Fun.(*ast.Ident)
			return ok && id.Name == "len" && identObj(info, c.Args[0]) == m.param
		}
		okLen, okCmp := false, false
		if l, ok := be.X.(*ast.BinaryExpr); ok && l.Op == token.LSS && lenOfParam(l.X) {
			if u, ok := constUint(info, l.Y); ok && int(u) == len(ov.Header) {
				okLen = true
			}
		}
		if r, ok := be.Y.(*ast.BinaryExpr); ok && r.Op == token.NEQ {
			sl, other := r.X, r.Y
			if _, isSl := sl.(*ast.SliceExpr); !isSl {
				sl, other = r.Y, r.X
			}
			if se, ok := sl.(*ast.SliceExpr); ok && identObj(info, se.X) == m.param && se.Low == nil && se.High != nil && !se.Slice3 {
				if u, ok := constUint(info, se.High); ok && int(u) == len(ov.Header) {
					if hs, ok := constString(info, other); ok {
						h = hs
						okCmp = true
					}
				}
			}
		}
		if okLen && okCmp {
			spelled = true
			if h != ov.Header {
				fail(ifs, fmt.Sprintf("header guard tests the prefix %q, the specification header is %q", h, ov.Header))
				return
			}
		}
	}
	if !spelled {
		not, ok := ifs.Cond.(*ast.UnaryExpr)
		if !ok || not.Op != token.NOT {
			fail(ifs, "header guard is not a negated prefix test (extra alternatives or a different predicate): undecided")
			return
		}
		call, ok := not.X.(*ast.CallExpr)
		if !ok || !isStringsFunc(calleeOf(info, call), "HasPrefix") || len(call.Args) != 2 {
			fail(ifs, "header guard does not use strings.HasPrefix (a Contains/HasSuffix/EqualFold test accepts strings that do not start with the header)")
			return
		}
		if identObj(info, call.Args[0]) != m.param {
			fail(ifs, "header guard does not test the input string")
			return
		}
		h, ok = constString(info, call.Args[1])
		if !ok || h != ov.Header {
			fail(ifs, fmt.Sprintf("header guard tests the prefix %q, the specification header is %q", h, ov.Header))
			return
		}
	}
	if !retOK(ifs.Body.List) {
		fail(ifs, "a wrong header is not answered with (nil, ErrInvalidCVSSHeader)")
		return
	}
	// remainder: vector = vector[len(header):]  or  rest := vector[len(header):] (and vector not read again)
	as, ok := body[1].(*ast.AssignStmt)
	okRem := ok && len(as.Lhs) == 1 && len(as.Rhs) == 1
	if okRem {
		sl, ok := as.Rhs[0].(*ast.SliceExpr)
		okRem = ok && identObj(info, sl.X) == m.param && sl.High == nil && sl.Low != nil
		if okRem {
			u, ok := constUint(info, sl.Low)
			okRem = ok && int(u) == len(ov.Header)
		}
	}
	if !okRem {
		// form C: the input keeps its header and is read through offsets — a cursor
		// that starts at len(header). Sound when nothing reads the input below that
		// offset any more: the parameter is never reassigned, is only used as
		// len(vector), vector[i] or vector[a:b] after the guard, and each such
		// expression provably starts at an offset ≥ len(header) (zone analysis)
		okUse := !assignedIn(info, m.fd.Body, m.param)
		for _, s := range body[1:] {
			var stack []ast.Node
			ast.Inspect(s, func(n ast.Node) bool {
				if n == nil {
					stack = stack[:len(stack)-1]
					return true
				}
				if id, ok := n.(*ast.Ident); ok && info.Uses[id] == m.param && len(stack) > 0 {
					switch par := stack[len(stack)-1].(type) {
					case *ast.SliceExpr:
						if par.X != ast.Expr(id) {
							okUse = false
						}
					case *ast.IndexExpr:
						if par.X != ast.Expr(id) {
							okUse = false
						}
					case *ast.CallExpr:
						fid, isId := par.Fun.(*ast.Ident)
						if !isId || fid.Name != "len" {
							okUse = false
						} else if _, isB := info.Uses[fid].(*types.Builtin); !isB {
							okUse = false
						}
					default:
						okUse = false
					}
				}
				stack = append(stack, n)
				return true
			})
		}
		if okUse {
			if bf, err := p.analyseBoundsFloor(m.fd, m.param, int64(len(ov.Header)), ifs.End()); err == nil && bf.floorSites > 0 && bf.floorBad == "" {
				add(true, "R01.header", "ParseVector.header", ifs, fmt.Sprintf("first statement rejects every string not starting with %q; the input is then read through offsets only, and each of the %d index/slice expressions on it provably starts at an offset ≥ %d (zone analysis): the header is not read again", h, bf.floorSites, len(ov.Header)))
				add(true, "R13.guard", "ParseVector.header", ifs, fmt.Sprintf("an accepted string starts with %q", h))
				return
			} else if err == nil && bf.floorBad != "" {
				fail(body[1], "after the guard the input is not advanced by len(header): "+bf.floorBad)
				return
			}
		}
		fail(body[1], "after the guard the input is not advanced by exactly len(header)")
		return
	}
	if identObj(info, as.Lhs[0]) != m.param {
		if at, ok := paramUnusedAfter(2); !ok {
			fail(at, "the unstripped input is read again after the header was cut off")
			return
		}
	}
	add(true, "R01.header", "ParseVector.header", ifs, fmt.Sprintf("first statement rejects every string not starting with %q; the remainder is vector[len(header):]; the guard dominates all later code", h))
	add(true, "R13.guard", "ParseVector.header", ifs, fmt.Sprintf("an accepted string starts with %q", h))
}

func enclosing(stack []ast.Node) (ifs *ast.IfStmt, inBody bool, cc *ast.CaseClause) {
	for i := len(stack) - 2; i >= 0; i-- {
		switch x := stack[i].(type) {
		case *ast.IfStmt:
			// is the child in the body (then-branch)?
			inBody := i+1 < len(stack) && stack[i+1] == ast.Node(x.Body)
			return x, inBody, nil
		case *ast.CaseClause:
			return nil, false, x
		case *ast.FuncLit:
			return nil, false, nil
		}
	}
	return nil, false, nil
}

func (w *World) rulesReturns(p *Pkg, m *parseModel, km *KvmModel, add func(ok bool, rule, inst string, n ast.Node, detail string)) {
	info := p.Info
	ov := vocab[p.Key]
	fd := m.fd
	// locals assigned from the order table
	tgtLocals := map[types.Object]bool{}
	if m.orderVar != nil {
		ast.Inspect(fd.Body, func(n ast.Node) bool {
			if as, ok := n.(*ast.AssignStmt); ok && len(as.Lhs) == 1 && len(as.Rhs) == 1 && nodeMentions(info, as.Rhs[0], m.orderVar) {
				tgtLocals[identObj(info, as.Lhs[0])] = true
			}
			return true
		})
	}
	mentionsOrder := func(e ast.Expr) bool {
		if m.orderVar == nil {
			return false
		}
		if nodeMentions(info, e, m.orderVar) {
			return true
		}
		for o := range tgtLocals {
			if nodeMentions(info, e, o) {
				return true
			}
		}
		return false
	}
	// the guards enclosing a return read the raw input (scanner checks), as
	// opposed to the cursor and the order table only
	inputVars := map[types.Object]bool{m.param: true}
	for changed := true; changed; {
		changed = false
		ast.Inspect(fd.Body, func(n ast.Node) bool {
			as, ok := n.(*ast.AssignStmt)
			if !ok {
				return true
			}
			tainted := false
			for _, r := range as.Rhs {
				ast.Inspect(r, func(x ast.Node) bool {
					if id, ok := x.(*ast.Ident); ok && inputVars[info.Uses[id]] {
						tainted = true
					}
					return true
				})
			}
			if !tainted {
				return true
			}
			for _, l := range as.Lhs {
				if o := identObj(info, l); o != nil && !inputVars[o] && o != m.abvObj && o != m.valObj {
					inputVars[o] = true
					changed = true
				}
			}
			return true
		})
	}
	mentionsInput := func(rs ast.Node) bool {
		found := false
		for _, anc := range stackOf(fd.Body, rs) {
			var cond ast.Expr
			switch x := anc.(type) {
			case *ast.IfStmt:
				cond = x.Cond
			default:
				continue
			}
			ast.Inspect(cond, func(n ast.Node) bool {
				if id, ok := n.(*ast.Ident); ok && inputVars[info.Uses[id]] {
					found = true
				}
				return true
			})
		}
		return found
	}
	afterLoop := func(n ast.Node) bool { return n.Pos() > m.loop.End() }
	inLoop := func(n ast.Node) bool { return n.Pos() >= m.loop.Pos() && n.End() <= m.loop.End() }
	counts := map[string]int{}
	missingSeen := map[string]bool{}
	var missingOrder []string
	successes := 0
	var stack []ast.Node
	ast.Inspect(fd.Body, func(n ast.Node) bool {
		if n == nil {
			stack = stack[:len(stack)-1]
			return false
		}
		stack = append(stack, n)
		if _, isLit := n.(*ast.FuncLit); isLit {
			return true
		}
		rs, ok := n.(*ast.ReturnStmt)
		if !ok {
			return true
		}
		name := func(kind string) string {
			counts[kind]++
			if counts[kind] == 1 {
				return "ParseVector.ret[" + kind + "]"
			}
			return fmt.Sprintf("ParseVector.ret[%s#%d]", kind, counts[kind])
		}
		if len(rs.Results) != 2 {
			add(false, "R01.pair", name("shape"), rs, "return without both results")
			return true
		}
		r0, r1 := rs.Results[0], rs.Results[1]
		if isNilIdent(info, r1) {
			okS := identObj(info, r0) == m.objVar && m.objVar != nil
			add(okS, "R01.pair", name("success"), rs, map[bool]string{true: "(object, nil): the object allocated in this call", false: "a nil error is returned with something other than the parsed object (possibly nil)"}[okS])
			if inLoop(rs) {
				add(false, "R01.noskip", name("success-in-loop"), rs, "ParseVector reports success from inside the element loop: the rest of the string is never examined")
			}
			successes++
			return true
		}
		if !isNilIdent(info, r0) {
			add(false, "R01.pair", name("failure"), rs, "a non-nil error is returned together with a non-nil object")
			return true
		}
		ifs, inBody, cc := enclosing(stack)
		// propagated error
		if o := identObj(info, r1); o != nil {
			if _, isLocal := o.(*types.Var); isLocal && o.Parent() != p.P.Types.Scope() {
				okP := false
				// `if err != nil { …; return nil, err }` on a variable assigned earlier
				if ifs != nil && inBody && ifs.Init == nil {
					if be, ok := ifs.Cond.(*ast.BinaryExpr); ok && be.Op == token.NEQ && identObj(info, be.X) == o && isNilIdent(info, be.Y) && !assignedIn(info, ifs.Body, o) {
						okP = true
					}
				}
				if ifs != nil && inBody && ifs.Init != nil {
					if as, ok := ifs.Init.(*ast.AssignStmt); ok && identObj(info, as.Lhs[len(as.Lhs)-1]) == o {
						if be, ok := ifs.Cond.(*ast.BinaryExpr); ok && be.Op == token.NEQ && identObj(info, be.X) == o && isNilIdent(info, be.Y) {
							okP = true
						}
					}
				}
				add(okP, "R01.pair", name("propagate"), rs, map[bool]string{true: "(nil, err) on the err != nil branch: provably non-nil", false: "an error variable is returned outside its err != nil branch: it may be nil with a nil object"}[okP])
				return true
			}
		}
		// typed error: &ErrMissing{Abv: lit}
		if tn, abvExpr, isTyped := p.typedErrOf(r1); isTyped {
			{
				if ks := m.kvmSem; tn == "ErrMissing" && ks != nil && ks.Decided && ks.TailWhy != "" && afterLoop(rs) {
					// decided semantically for every subset of mandatory metrics (below)
					add(true, "R01.pair", name("missing"), rs, "(nil, &ErrMissing{…}): provably non-nil")
					return true
				}
				if tn == "ErrMissing" && km != nil && ifs != nil && inBody {
					lit := ""
					if abvExpr != nil {
						lit, _ = constString(info, abvExpr)
					}
					// cond: !kvm.f
					var flag *types.Var
					if not, ok := ifs.Cond.(*ast.UnaryExpr); ok && not.Op == token.NOT {
						if se, ok := not.X.(*ast.SelectorExpr); ok {
							if sel := info.Selections[se]; sel != nil {
								flag, _ = sel.Obj().(*types.Var)
							}
						}
					}
					okM := flag != nil && km.Flag[lit] == flag && afterLoop(rs)
					inst := "ParseVector.missing[" + lit + "]"
					if okM {
						missingSeen[lit] = true
						missingOrder = append(missingOrder, lit)
						add(true, "R01.complete", inst, rs, "after the loop: flag of "+lit+" unset -> (nil, &ErrMissing{"+lit+"})")
						add(true, "R18.census", inst, rs, "missing base metric -> *ErrMissing naming it")
					} else {
						fl := "?"
						if flag != nil {
							fl = flag.Name()
						}
						add(false, "R18.census", inst, rs, fmt.Sprintf("*ErrMissing{%q} is returned under the flag %s, which kvm.Set sets for another metric (or the test is not a plain `!kvm.f` after the loop)", lit, fl))
					}
					add(true, "R01.pair", name("missing"), rs, "(nil, &ErrMissing{…}): provably non-nil")
					return true
				}
				add(false, "R18.census", name("typed"), rs, "typed error "+tn+" returned from an unrecognised guard: undecided")
				return true
			}
		}
		sv := p.sentinel(r1)
		if sv == nil {
			add(false, "R01.pair", name("failure"), rs, "the error result is not a sentinel, a typed error literal or a propagated err: it may be nil")
			return true
		}
		add(true, "R01.pair", name("sentinel:"+sv.Name()), rs, "(nil, "+sv.Name()+"): package-level sentinel, provably non-nil")
		// classify the guard
		effBody := skipInert(fd.Body.List)
		kind, want := "", ""
		switch {
		case cc != nil && cc.List == nil:
			kind = "cursor-exhausted(default arm)"
		case ifs != nil && inBody && len(effBody) > 0 && (ifs == effBody[0] || (len(effBody) > 1 && ifs == effBody[1])) && ov.Header != "" && sv.Name() == "ErrInvalidCVSSHeader":
			kind, want = "header", "ErrInvalidCVSSHeader"
		case ifs != nil && inBody && len(effBody) > 0 && ifs == effBody[0] && ov.Header != "":
			kind, want = "header", "ErrInvalidCVSSHeader"
		case m.autoOK && (inLoop(rs) || afterLoop(rs)) && !mentionsInput(rs):
			// the cursor automaton is decided: which error each cursor
			// state and abbreviation yields is settled exactly by R18.auto
			kind = "cursor"
			if sv.Name() == "ErrInvalidMetricOrder" {
				counts["order"]++
			}
			if sv.Name() == "ErrTooShortVector" && afterLoop(rs) {
				counts["short"]++
			}
		case ifs != nil && inBody && mentionsOrder(ifs.Cond):
			kind, want = "order", "ErrInvalidMetricOrder"
		case ifs != nil && inBody && afterLoop(ifs):
			// cursor compared with 0
			if be, ok := ifs.Cond.(*ast.BinaryExpr); ok {
				if u, ok := constUint(info, be.Y); ok && u == 0 {
					if o := identObj(info, be.X); o != nil && assignedIn(info, m.loop, o) {
						kind, want = "short", "ErrTooShortVector"
					}
				}
			}
		case ifs != nil && inBody:
			if not, ok := ifs.Cond.(*ast.UnaryExpr); ok && not.Op == token.NOT {
				if c, ok := not.X.(*ast.CallExpr); ok && isStringsFunc(calleeOf(info, c), "HasPrefix") {
					kind = "separator"
				}
			}
			if kind == "" && mentionsInput(rs) && !mentionsOrder(ifs.Cond) {
				// a test on the raw input bytes outside the cursor logic
				kind = "scanner"
				if sv.Name() != "ErrInvalidMetricValue" {
					// the other sentinels are documented for defects only the
					// cursor logic can establish (order, truncation, header)
					kind, want = "scanner", "ErrInvalidMetricValue"
				}
			}
		}
		switch {
		case kind == "":
			add(false, "R18.census", name("unclassified"), rs, "error site with an unrecognised guard: undecided")
		case want == "":
			add(true, "R18.census", name("observed:"+kind), rs, fmt.Sprintf("observed, not asserted: %s returns %s (DESIGN §9 O1/O2)", kind, sv.Name()))
		default:
			detail := fmt.Sprintf("%s failure is reported with %s, the documented error is %s", kind, sv.Name(), want)
			if kind == "scanner" {
				detail = fmt.Sprintf("a test on the raw input outside the cursor logic returns %s, which is documented for defects only the order walk can establish; a malformed element is reported with %s", sv.Name(), want)
			}
			add(sv.Name() == want, "R18.census", name(kind), rs, map[bool]string{true: kind + " failure -> " + want, false: detail}[sv.Name() == want])
		}
		return true
	})
	if successes != 1 {
		add(false, "R01.pair", "ParseVector.success-count", fd, fmt.Sprintf("%d success returns, expected exactly one after all checks", successes))
	}
	// R01.complete: mandatory metrics (v3), tail checks (v2/v4)
	if ks := m.kvmSem; ov.Order == "free" && ks != nil && ks.Decided && ks.TailWhy != "" {
		for _, om := range ov.list {
			if !om.Mandatory {
				continue
			}
			inst := "ParseVector.missing[" + om.Abv + "]"
			okM := ks.Missing[om.Abv]
			add(okM, "R01.complete", inst, fd, map[bool]string{true: "a vector without " + om.Abv + " is refused; " + ks.TailWhy, false: ks.TailWhy}[okM])
			add(okM, "R18.census", inst, fd, map[bool]string{true: "missing base metric -> *ErrMissing naming a missing one", false: ks.TailWhy}[okM])
		}
		if !ks.TailOK {
			add(false, "R01.complete", "ParseVector.missing", fd, ks.TailWhy)
		}
	} else if ov.Order == "free" {
		for _, om := range ov.list {
			if om.Mandatory && !missingSeen[om.Abv] {
				add(false, "R01.complete", "ParseVector.missing["+om.Abv+"]", fd, "no check that mandatory metric "+om.Abv+" was given: a vector without it is accepted")
			}
		}
		var want []string
		for _, om := range ov.list {
			if om.Mandatory {
				want = append(want, om.Abv)
			}
		}
		w.Extra["v3_missing_check_order_"+p.Key] = strings.Join(missingOrder, ",") + " (specification order " + strings.Join(want, ",") + "; observed, not asserted)"
	} else {
		if counts["short"] == 0 && m.autoOK {
			add(true, "R01.complete", "ParseVector.short", fd, "the cursor automaton rejects every input that ends inside a group that must be complete")
		} else if counts["short"] == 0 {
			add(false, "R01.complete", "ParseVector.short", fd, "no check after the loop that the last started group is complete (ErrTooShortVector)")
		} else {
			add(true, "R01.complete", "ParseVector.short", fd, "a cursor test after the loop guards the success return")
		}
		if counts["order"] == 0 && m.autoOK {
			add(true, "R18.census", "ParseVector.order", fd, "which error each misplaced element yields is decided on the cursor automaton (R18.auto)")
		} else if counts["order"] == 0 {
			add(false, "R18.census", "ParseVector.order", fd, "no ErrInvalidMetricOrder site")
		}
	}
}

func init() {
	registerGroup("parse", func(w *World, out *[]Obligation) { w.rulesParse(out) })
}

// stackOf returns the ancestors of target inside root, outermost first.
func stackOf(root, target ast.Node) []ast.Node {
	var stack, out []ast.Node
	ast.Inspect(root, func(n ast.Node) bool {
		if n == nil {
			stack = stack[:len(stack)-1]
			return false
		}
		if n == target {
			out = append([]ast.Node(nil), stack...)
		}
		stack = append(stack, n)
		return out == nil
	})
	return out
}

// skipInert drops leading statements that do nothing: `var x T` without a value and `_ = x`.
func skipInert(body []ast.Stmt) []ast.Stmt {
	for len(body) > 0 {
		skip := false
		switch st := body[0].(type) {
		case *ast.DeclStmt:
			if gd, ok := st.Decl.(*ast.GenDecl); ok && gd.Tok == token.VAR {
				skip = true
				for _, sp := range gd.Specs {
					if len(sp.(*ast.ValueSpec).Values) != 0 {
						skip = false
					}
				}
			}
		case *ast.AssignStmt:
			if len(st.Lhs) == 1 && len(st.Rhs) == 1 && st.Tok == token.ASSIGN {
				if id, ok := st.Lhs[0].(*ast.Ident); ok && id.Name == "_" {
					if _, isId := st.Rhs[0].(*ast.Ident); isId {
						skip = true
					}
				}
			}
		}
		if !skip {
			break
		}
		body = body[1:]
	}
	return body
}
