package main

import (
	"encoding/json"
	"fmt"
	"os"
	"path/filepath"
	"sort"
	"strings"
	"time"
)

// An Obligation is one rule instance examined by a run: a (rule, construct)
// pair, keyed by rule and construct name — never by line number.
type Obligation struct {
	Rule       string `json:"rule"`
	Instance   string `json:"instance"`
	Pos        string `json:"pos,omitempty"`
	OK         bool   `json:"ok"`
	Detail     string `json:"detail,omitempty"`
	NonTrivial bool   `json:"-"`
}

func (o Obligation) Key() string { return o.Rule + "@" + o.Instance }

// Run collects the obligations of one property run.
type Run struct {
	Prop    string
	Tier    string
	Seed    int64
	Level   string
	Obls    []Obligation
	Notes   []string
	Extra   map[string]any
	start   time.Time
	seen    map[string]bool
	Fatal   []string // analyser could not decide (fail-closed): treated as violations
	Premise bool
}

func newRun(prop, tier string, seed int64) *Run {
	return &Run{Prop: prop, Tier: tier, Seed: seed, start: time.Now(), seen: map[string]bool{}, Extra: map[string]any{}}
}

func (r *Run) add(o Obligation) {
	k := o.Key()
	if r.seen[k] {
		// Same key twice: keep both but disambiguate so floors count constructs.
		i := 2
		for r.seen[fmt.Sprintf("%s#%d", k, i)] {
			i++
		}
		o.Instance = fmt.Sprintf("%s#%d", o.Instance, i)
		k = o.Key()
	}
	r.seen[k] = true
	r.Obls = append(r.Obls, o)
}

func (r *Run) ok(rule, inst, pos, detail string) {
	r.add(Obligation{Rule: rule, Instance: inst, Pos: pos, OK: true, Detail: detail, NonTrivial: true})
}

func (r *Run) okTrivial(rule, inst, pos, detail string) {
	r.add(Obligation{Rule: rule, Instance: inst, Pos: pos, OK: true, Detail: detail})
}

func (r *Run) fail(rule, inst, pos, detail string) {
	r.add(Obligation{Rule: rule, Instance: inst, Pos: pos, OK: false, Detail: detail, NonTrivial: true})
}

func (r *Run) check(cond bool, rule, inst, pos, okDetail, failDetail string) bool {
	if cond {
		r.ok(rule, inst, pos, okDetail)
	} else {
		r.fail(rule, inst, pos, failDetail)
	}
	return cond
}

func (r *Run) count(rule string) int {
	n := 0
	for _, o := range r.Obls {
		if o.Rule == rule {
			n++
		}
	}
	return n
}

// floor asserts that at least n instances of rule were examined: a rule that
// matches nothing must not pass vacuously.
func (r *Run) floor(rule string, n int) {
	got := 0
	for _, o := range r.Obls {
		if ruleMatches(rule, o) {
			got++
		}
	}
	if got < n {
		r.fail("floor", rule, "", fmt.Sprintf("rule %s examined %d instances, floor is %d (confirmed by hand on the pinned tree)", rule, got, n))
	} else {
		r.okTrivial("floor", rule, "", fmt.Sprintf("%d instances >= floor %d", got, n))
	}
}

// ---------------------------------------------------------------------------
// known findings

type knownFinding struct {
	Prop, Key, Text string
}

func loadKnownFindings(path string) ([]knownFinding, error) {
	b, err := os.ReadFile(path)
	if err != nil {
		if os.IsNotExist(err) {
			return nil, nil
		}
		return nil, err
	}
	var out []knownFinding
	for _, ln := range strings.Split(string(b), "\n") {
		ln = strings.TrimSpace(ln)
		if !strings.HasPrefix(ln, "finding:") {
			continue // comments and "fixed:" lines suppress nothing
		}
		rest := strings.TrimSpace(strings.TrimPrefix(ln, "finding:"))
		var kf knownFinding
		for _, f := range strings.Fields(rest) {
			if strings.HasPrefix(f, "property=") && kf.Prop == "" {
				kf.Prop = strings.TrimPrefix(f, "property=")
			} else if strings.HasPrefix(f, "key=") && kf.Key == "" {
				kf.Key = strings.TrimPrefix(f, "key=")
			}
		}
		kf.Text = rest
		if kf.Prop != "" && kf.Key != "" {
			out = append(out, kf)
		}
	}
	return out, nil
}

// ---------------------------------------------------------------------------
// evidence + exit

type propMeta struct {
	Level       string
	Explanation string
	NotDecided  string
	Trusted     []string
	Assumptions []string
}

func (r *Run) finish(meta propMeta, verifDir, evDir string, files []fileHash) int {
	known, err := loadKnownFindings(filepath.Join(verifDir, "known-findings.txt"))
	if err != nil {
		fmt.Fprintln(os.Stderr, "cannot read known-findings.txt:", err)
		return 2
	}
	var viol []Obligation
	knownHit := 0
	for _, o := range r.Obls {
		if o.OK {
			continue
		}
		isKnown := false
		for _, k := range known {
			if k.Prop == r.Prop && k.Key == o.Key() {
				fmt.Printf("KNOWN-FINDING: property=%s %s\n", r.Prop, k.Text)
				isKnown = true
				knownHit++
				break
			}
		}
		if !isKnown {
			viol = append(viol, o)
		}
	}
	sort.SliceStable(viol, func(i, j int) bool { return viol[i].Key() < viol[j].Key() })
	if os.Getenv("CVSSCHECK_VERBOSE") != "" {
		for _, o := range r.Obls {
			fmt.Printf("  %v %-14s %-34s %-22s %s\n", o.OK, o.Rule, o.Instance, o.Pos, o.Detail)
		}
	}
	if os.Getenv("CVSSCHECK_COUNTS") != "" {
		cnt := map[string]int{}
		for _, o := range r.Obls {
			cnt[o.Rule]++
		}
		var ks []string
		for k := range cnt {
			ks = append(ks, k)
		}
		sort.Strings(ks)
		for _, k := range ks {
			fmt.Printf("  %-16s %d\n", k, cnt[k])
		}
	}

	os.MkdirAll(evDir, 0o755)
	vdir := filepath.Join(evDir, "violations")
	// remove stale violation files of this property
	if old, _ := filepath.Glob(filepath.Join(vdir, r.Prop+"-*.json")); len(old) > 0 {
		for _, f := range old {
			os.Remove(f)
		}
	}
	for i, o := range viol {
		os.MkdirAll(vdir, 0o755)
		p := filepath.Join(vdir, fmt.Sprintf("%s-%d.json", r.Prop, i+1))
		b, _ := json.MarshalIndent(map[string]any{"property": r.Prop, "rule": o.Rule, "instance": o.Instance, "pos": o.Pos, "detail": o.Detail, "key": o.Key()}, "", " ")
		os.WriteFile(p, append(b, '\n'), 0o644)
		fmt.Printf("%s: [%s] %s — %s\n", o.Pos, o.Rule, o.Instance, o.Detail)
		fmt.Printf("VIOLATION property=%s replay=%s\n", r.Prop, p)
	}

	// evidence
	total, discharged, nontriv := 0, 0, 0
	perRule := map[string]int{}
	distinct := map[string]bool{}
	for _, o := range r.Obls {
		total++
		if o.OK {
			discharged++
		}
		perRule[o.Rule]++
		if o.NonTrivial && !distinct[o.Key()] {
			distinct[o.Key()] = true
			nontriv++
		}
	}
	var samples []any
	seenRule := map[string]int{}
	for _, o := range r.Obls {
		if !o.NonTrivial {
			continue
		}
		if seenRule[o.Rule] >= 2 || len(samples) >= 40 {
			continue
		}
		seenRule[o.Rule]++
		samples = append(samples, o)
	}
	wall := time.Since(r.start).Seconds()
	cov := map[string]any{
		"evaluations":         total,
		"distinct_nontrivial": nontriv,
		"rule":                "one obligation per (rule, construct) pair found in /repo's current source; non-trivial = the obligation required evaluating a construct of the code (bit routing, table, tree, truth table, path), as opposed to floors and bookkeeping; distinct = distinct rule@construct key",
		"samples":             samples,
		"obligations":         total,
		"discharged":          discharged,
		"checker_cmd":         fmt.Sprintf("/verif/check %s", r.Prop),
		"trusted_base":        meta.Trusted,
		"explanation":         meta.Explanation,
		"not_decided":         meta.NotDecided,
		"exhaustive":          true,
		"per_rule_instances":  perRule,
		"analysed_files":      files,
		"known_findings_hit":  knownHit,
		"notes":               r.Notes,
	}
	for k, v := range r.Extra {
		cov[k] = v
	}
	ev := map[string]any{
		"property_id": r.Prop,
		"tier":        r.Tier,
		"seed":        r.Seed,
		"level":       meta.Level,
		"coverage":    cov,
		"assumptions": meta.Assumptions,
		"wall_s":      wall,
		"violations":  len(viol),
	}
	b, _ := json.MarshalIndent(ev, "", " ")
	if err := os.WriteFile(filepath.Join(evDir, r.Prop+".json"), append(b, '\n'), 0o644); err != nil {
		fmt.Fprintln(os.Stderr, "cannot write evidence:", err)
		return 2
	}
	fmt.Printf("%s: %d obligations, %d discharged, %d violations, %d known findings (tier=%s, %.2fs)\n", r.Prop, total, discharged, len(viol), knownHit, r.Tier, wall)
	if len(viol) > 0 {
		return 1
	}
	return 0
}
