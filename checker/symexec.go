package main

// Symbolic evaluation of the loop-free scoring methods into M8 formula trees,
// and the rule group "formula" (R03.*, R05.*, R10.* for v3, R11.*, R12.weights).

import (
	_ "embed"
	"encoding/json"
	"fmt"
	"go/ast"
	"go/token"
	"go/types"
	"math"
	"math/big"
	"sort"
	"strings"
)

//go:embed spec/formulas.txt
var formulasTxt string

//go:embed spec/weights.json
var weightsJSON []byte

type weightOracle struct {
	Source  string                       `json:"source"`
	Weights map[string]map[string]string `json:"weights"`
}

var weightOracles map[string]*weightOracle

func init() {
	if err := json.Unmarshal(weightsJSON, &weightOracles); err != nil {
		panic(err)
	}
}

func formulaSection(key string) string {
	var out []string
	on := false
	for _, ln := range strings.Split(formulasTxt, "\n") {
		if strings.HasPrefix(ln, "@") {
			on = strings.TrimSpace(ln[1:]) == key
			continue
		}
		if on {
			out = append(out, ln)
		}
	}
	return strings.Join(out, "\n")
}

type codeSym struct {
	Metric string
	Eff    bool
}

func (c codeSym) Name() string {
	if c.Eff {
		return "e" + c.Metric
	}
	return c.Metric
}

type weightUse struct {
	Fn   *types.Func // nil for a direct table lookup
	Args []codeSym   // the metric codes the weight depends on, in order
	Call ast.Expr    // the call or index expression
	// generalised forms
	ArgExprs []ast.Expr // all arguments of the call (code and constant ones)
	CodeIdx  []int      // positions of the code arguments in ArgExprs
	Table    ast.Expr   // base of a direct lookup table[code]...[code]
	name     string
	// a method of a named code type (`func (c ciaCode) weight() float64`): the
	// first code is the receiver
	Method bool
}

func (u weightUse) Name() string {
	if u.name != "" {
		return u.name
	}
	if u.Fn != nil {
		return u.Fn.Name()
	}
	return "table"
}

// eval tabulates one cell of the weight: the helper (or table) applied to the given codes.
func (u weightUse) eval(p *Pkg, codes []int) (Val, error) {
	ce := newCEnv(p, nil)
	if u.Table != nil {
		v, err := ce.eval(u.Table)
		if err != nil {
			return Val{}, err
		}
		for _, c := range codes {
			if v.K != VList {
				return Val{}, undecidedf(u.Call, "lookup in something that is not a table")
			}
			if c < 0 || c >= len(v.T) {
				return Val{}, &panicked{pos: u.Call.Pos(), msg: fmt.Sprintf("index %d out of range of the weight table", c)}
			}
			v = v.T[c]
		}
		return v, nil
	}
	fd := p.FuncObj[u.Fn]
	if u.Method {
		ro := p.recvObj(fd)
		if ro == nil || len(codes) == 0 {
			return Val{}, undecidedf(u.Call, "weight method without a named receiver")
		}
		child := ce.child()
		child.vars[ro] = vInt(int64(codes[0]))
		var args []Val
		for _, c := range codes[1:] {
			args = append(args, vInt(int64(c)))
		}
		return child.callFuncIn(fd, args, u.Call)
	}
	if u.ArgExprs == nil {
		var args []Val
		for _, c := range codes {
			args = append(args, vInt(int64(c)))
		}
		return ce.callFunc(fd, args, u.Call)
	}
	args := make([]Val, len(u.ArgExprs))
	k := 0
	for i, a := range u.ArgExprs {
		isCode := false
		for _, ci := range u.CodeIdx {
			if ci == i {
				isCode = true
			}
		}
		if isCode {
			args[i] = vInt(int64(codes[k]))
			k++
			continue
		}
		v, err := ce.eval(a)
		if err != nil {
			return Val{}, err
		}
		args[i] = v
	}
	return ce.callFunc(fd, args, u.Call)
}

type modSite struct {
	Call *ast.CallExpr
	OK   bool
	Why  string
	Base string
	In   string
}

type symCtx struct {
	p        *Pkg
	modFn    *types.Func
	roundFns map[*types.Func]bool
	roundSem map[*types.Func]*roundSem // helpers accepted by the semantic path (roundsem.go)
	roundWhy []string                  // why a candidate helper was not accepted
	roundSym string
	uses     []weightUse
	mods     []modSite
	curFn    string
}

type sEnv struct {
	c       *symCtx
	vars    map[types.Object]*Ex
	codes   map[types.Object]codeSym
	depth   int
	results []types.Object // named results of the function being evaluated (for naked returns)
	// boolean locals holding a condition (scopeChanged := c.u0&2 != 0)
	bools map[types.Object]boolVal
	// small fixed-size local arrays, element by element; concrete loop counters
	arrs map[types.Object][]*Ex
	ints map[types.Object]int64
	// uint8 locals that hold receiver bits which are not one whole metric code
	// (a copy of a byte, `u0 := c.u0`): kept as abstract bytes for later extraction
	bv map[types.Object]BV
	// local records whose fields are all metric codes (m := c.effective(); m.av …)
	recs map[types.Object]map[string]codeSym
}

type boolVal struct {
	c    *Cnd
	swap bool
}

func (e *sEnv) clone() *sEnv {
	n := &sEnv{c: e.c, vars: map[types.Object]*Ex{}, codes: map[types.Object]codeSym{}, depth: e.depth, results: e.results}
	for k, v := range e.vars {
		n.vars[k] = v
	}
	for k, v := range e.codes {
		n.codes[k] = v
	}
	if e.bools != nil {
		n.bools = map[types.Object]boolVal{}
		for k, v := range e.bools {
			n.bools[k] = v
		}
	}
	if e.arrs != nil {
		n.arrs = map[types.Object][]*Ex{}
		for k, v := range e.arrs {
			n.arrs[k] = append([]*Ex(nil), v...)
		}
	}
	if e.ints != nil {
		n.ints = map[types.Object]int64{}
		for k, v := range e.ints {
			n.ints[k] = v
		}
	}
	if e.bv != nil {
		n.bv = map[types.Object]BV{}
		for k, v := range e.bv {
			n.bv[k] = v
		}
	}
	if e.recs != nil {
		n.recs = map[types.Object]map[string]codeSym{}
		for k, v := range e.recs {
			n.recs[k] = v // records are replaced as a whole, never updated in place
		}
	}
	return n
}

// bvEnvOf: the bit evaluator with this environment's byte-valued locals
func (e *sEnv) bvEnvOf() *bvEnv {
	b := newBvEnv(e.c.p)
	for k, v := range e.bv {
		b.locals[k] = v
	}
	return b
}

// mentionsBits: x reads a receiver byte or a local that holds receiver bits
func (e *sEnv) mentionsBits(x ast.Node) bool {
	if e.c.p.containsObjField(x) {
		return true
	}
	found := false
	ast.Inspect(x, func(n ast.Node) bool {
		if id, ok := n.(*ast.Ident); ok {
			if _, ok := e.bv[identObj(e.c.p.Info, id)]; ok {
				found = true
			}
		}
		return !found
	})
	return found
}

// intOf: a concrete integer — a constant, a loop counter, len of a local array
func (e *sEnv) intOf(x ast.Expr) (int64, bool) {
	info := e.c.p.Info
	if u, ok := constInt64(info, x); ok {
		return u, true
	}
	switch n := x.(type) {
	case *ast.ParenExpr:
		return e.intOf(n.X)
	case *ast.Ident:
		if v, ok := e.ints[identObj(info, n)]; ok {
			return v, true
		}
	case *ast.CallExpr:
		if id, ok := n.Fun.(*ast.Ident); ok && id.Name == "len" && len(n.Args) == 1 {
			if a, ok := e.arrs[identObj(info, n.Args[0])]; ok {
				return int64(len(a)), true
			}
		}
	case *ast.BinaryExpr:
		a, ok1 := e.intOf(n.X)
		b, ok2 := e.intOf(n.Y)
		if ok1 && ok2 {
			switch n.Op {
			case token.ADD:
				return a + b, true
			case token.SUB:
				return a - b, true
			}
		}
	}
	return 0, false
}

// arrayElem resolves a[i] on a local array with a concrete index.
func (e *sEnv) arrayElem(ix *ast.IndexExpr) (types.Object, int, bool) {
	o := identObj(e.c.p.Info, ix.X)
	if o == nil {
		return nil, 0, false
	}
	a, ok := e.arrs[o]
	if !ok {
		return nil, 0, false
	}
	i, ok := e.intOf(ix.Index)
	if !ok || i < 0 || int(i) >= len(a) {
		return nil, 0, false
	}
	return o, int(i), true
}

// domain of a metric-level input name ("S", "eS") as value strings, in code order.
func (p *Pkg) atomDomain(name string) []string {
	sm := p.SetModel()
	if m := sm.ByLabel[name]; m != nil {
		return m.List
	}
	if strings.HasPrefix(name, "e") {
		if mm := sm.ByLabel["M"+name[1:]]; mm != nil && len(mm.List) > 0 {
			return mm.List[1:]
		}
	}
	return nil
}

// findMod identifies the effective-value helper structurally: a package-level
// func(uint8, uint8) uint8 whose complete truth table over 0..7 x 0..7 is
// "m != 0 ? m-1 : b".
func (p *Pkg) findMod() (*types.Func, string) {
	var names []string
	for n := range p.Funcs {
		names = append(names, n)
	}
	sort.Strings(names)
	for _, n := range names {
		fd := p.Funcs[n]
		if fd.Recv != nil || fd.Body == nil {
			continue
		}
		fn, _ := p.Info.Defs[fd.Name].(*types.Func)
		if fn == nil {
			continue
		}
		sig := fn.Type().(*types.Signature)
		if sig.Params().Len() != 2 || sig.Results().Len() != 1 || !isUint8(sig.Params().At(0).Type()) || !isUint8(sig.Params().At(1).Type()) || !isUint8(sig.Results().At(0).Type()) {
			continue
		}
		ok := true
		why := ""
		for b := 0; b < 8 && ok; b++ {
			for m := 0; m < 8 && ok; m++ {
				v, err := newCEnv(p, nil).callFunc(fd, []Val{vInt(int64(b)), vInt(int64(m))}, fd)
				want := int64(b)
				if m != 0 {
					want = int64(m - 1)
				}
				if err != nil || v.K != VInt || v.I != want {
					ok = false
					why = fmt.Sprintf("%s(%d,%d) = %v, expected %d", n, b, m, v, want)
				}
			}
		}
		if ok {
			return fn, ""
		}
		if n == "mod" {
			return nil, why
		}
	}
	// the method form: `func (m modified) or(base T) T` — the receiver is the Modified code
	for fn, fd := range p.FuncObj {
		if fd.Recv == nil || fd.Body == nil {
			continue
		}
		sig := fn.Type().(*types.Signature)
		if sig.Recv() == nil || p.isTPtrOrVal(sig.Recv().Type()) || !isUint8(sig.Recv().Type()) || sig.Params().Len() != 1 || sig.Results().Len() != 1 ||
			!isUint8(sig.Params().At(0).Type()) || !isUint8(sig.Results().At(0).Type()) {
			continue
		}
		ro := p.recvObj(fd)
		if ro == nil {
			continue
		}
		ok := true
		for b := 0; b < 8 && ok; b++ {
			for m := 0; m < 8 && ok; m++ {
				ce := newCEnv(p, nil).child()
				ce.vars[ro] = vInt(int64(m))
				v, err := ce.callFuncIn(fd, []Val{vInt(int64(b))}, fd)
				want := int64(b)
				if m != 0 {
					want = int64(m - 1)
				}
				if err != nil || v.K != VInt || v.I != want {
					ok = false
				}
			}
		}
		if ok {
			return fn, ""
		}
	}
	return nil, "no func(base, modified uint8) uint8 with the effective-value truth table found"
}

func (e *sEnv) fail(n ast.Node, f string, a ...any) error { return undecidedf(n, f, a...) }

func calleeOf(info *types.Info, call *ast.CallExpr) *types.Func {
	// the declared function: an instantiated generic function or method resolves to its origin
	orig := func(fn *types.Func) *types.Func {
		if fn != nil {
			return fn.Origin()
		}
		return nil
	}
	switch f := call.Fun.(type) {
	case *ast.Ident:
		fn, _ := info.Uses[f].(*types.Func)
		return orig(fn)
	case *ast.SelectorExpr:
		if sel := info.Selections[f]; sel != nil {
			fn, _ := sel.Obj().(*types.Func)
			return orig(fn)
		}
		fn, _ := info.Uses[f.Sel].(*types.Func)
		return orig(fn)
	case *ast.IndexExpr:
		// explicit instantiation f[T](…)
		if id, ok := f.X.(*ast.Ident); ok {
			fn, _ := info.Uses[id].(*types.Func)
			return orig(fn)
		}
	case *ast.ParenExpr:
		return nil
	}
	return nil
}

// codeOf evaluates a uint8 expression to a metric-code symbol.
func (e *sEnv) codeOf(x ast.Expr) (codeSym, error) {
	p := e.c.p
	for {
		if pe, ok := x.(*ast.ParenExpr); ok {
			x = pe.X
			continue
		}
		break
	}
	if se, ok := x.(*ast.SelectorExpr); ok {
		if id, ok := se.X.(*ast.Ident); ok {
			if rec, ok := e.recs[identObj(p.Info, id)]; ok {
				if c, ok := rec[se.Sel.Name]; ok {
					return c, nil
				}
				return codeSym{}, e.fail(x, "field %s of the local record holds no metric code", se.Sel.Name)
			}
		}
	}
	if id, ok := x.(*ast.Ident); ok {
		if c, ok := e.codes[identObj(p.Info, id)]; ok {
			return c, nil
		}
		if _, ok := e.bv[identObj(p.Info, id)]; !ok {
			return codeSym{}, e.fail(x, "identifier %s does not hold a metric code", id.Name)
		}
	}
	if call, ok := x.(*ast.CallExpr); ok {
		fn := calleeOf(p.Info, call)
		isModMethod := false
		var modRecv ast.Expr
		if fn != nil && fn == e.c.modFn && len(call.Args) == 1 {
			if se, ok := call.Fun.(*ast.SelectorExpr); ok {
				isModMethod, modRecv = true, se.X
			}
		}
		if fn != nil && fn == e.c.modFn && (len(call.Args) == 2 || isModMethod) {
			baseArg, modArg := call.Args[0], ast.Expr(nil)
			if isModMethod {
				modArg = modRecv
			} else {
				modArg = call.Args[1]
			}
			a, errA := e.codeOf(baseArg)
			b, errB := e.codeOf(modArg)
			site := modSite{Call: call, In: e.c.curFn}
			if errA != nil || errB != nil {
				site.Why = "an argument of the effective-value helper is not a whole metric code"
				e.c.mods = append(e.c.mods, site)
				return codeSym{}, e.fail(x, "%s", site.Why)
			}
			om := vocab[p.Key].byAbv[b.Metric]
			if a.Eff || b.Eff || om == nil || om.ModifiedOf != a.Metric {
				site.Why = fmt.Sprintf("effective value computed from (%s, %s): the second argument is not the Modified metric of the first", a.Name(), b.Name())
				site.Base = a.Metric
				e.c.mods = append(e.c.mods, site)
				return codeSym{}, e.fail(x, "%s", site.Why)
			}
			site.OK = true
			site.Base = a.Metric
			site.Why = fmt.Sprintf("eff(%s) = mod(code(%s), code(%s))", a.Metric, a.Metric, b.Metric)
			e.c.mods = append(e.c.mods, site)
			return codeSym{Metric: a.Metric, Eff: true}, nil
		}
		// conversion of a code: uint8(x), int(x)…
		if tv, ok := p.Info.Types[call.Fun]; ok && tv.IsType() && len(call.Args) == 1 {
			if b, ok := tv.Type.Underlying().(*types.Basic); ok && b.Info()&types.IsInteger != 0 {
				return e.codeOf(call.Args[0])
			}
		}
		// accessor: a package function or method on the object whose body is a
		// single `return <integer expression>`; its value is that expression's
		if fn != nil && fn.Pkg() == p.P.Types && e.depth < 6 {
			if fd := p.FuncObj[fn]; fd != nil && fd.Body != nil && len(fd.Body.List) == 1 {
				if rs, ok := fd.Body.List[0].(*ast.ReturnStmt); ok && len(rs.Results) == 1 {
					okRecv := true
					if fd.Recv != nil {
						se, isSel := call.Fun.(*ast.SelectorExpr)
						if !isSel {
							okRecv = false
						} else if tv, ok := p.Info.Types[se.X]; !ok || !p.isTPtrOrVal(tv.Type) {
							okRecv = false
						}
					}
					params := paramObjs(p.Info, fd)
					if okRecv && len(params) == len(call.Args) {
						callee := &sEnv{c: e.c, vars: map[types.Object]*Ex{}, codes: map[types.Object]codeSym{}, depth: e.depth + 1}
						okArgs := true
						for i, po := range params {
							c, err := e.codeOf(call.Args[i])
							if err != nil {
								okArgs = false
								break
							}
							callee.codes[po] = c
						}
						if okArgs {
							return callee.codeOf(rs.Results[0])
						}
					}
				}
			}
		}
		if !e.mentionsBits(x) {
			return codeSym{}, e.fail(x, "call does not produce a metric code")
		}
		// a field-extraction helper applied to receiver bytes: the bit evaluator inlines it
	}
	if e.mentionsBits(x) {
		bv, err := e.bvEnvOf().eval(x)
		if err != nil {
			return codeSym{}, err
		}
		r, clean := p.classify(bv)
		if !clean || r.Exact == "" {
			return codeSym{}, e.fail(x, "expression reads %s, not one whole metric code in Set's bit order", r)
		}
		return codeSym{Metric: r.Exact}, nil
	}
	return codeSym{}, e.fail(x, "expression does not produce a metric code")
}

func isFloat(t types.Type) bool {
	b, ok := t.Underlying().(*types.Basic)
	return ok && b.Info()&types.IsFloat != 0
}

// ex evaluates a numeric expression to a formula tree.
func (e *sEnv) ex(x ast.Expr) (*Ex, error) {
	p := e.c.p
	info := p.Info
	if r, ok := exactConst(info, x); ok {
		return mkConst(r), nil
	}
	switch n := x.(type) {
	case *ast.ParenExpr:
		return e.ex(n.X)
	case *ast.Ident:
		o := identObj(info, n)
		if v, ok := e.vars[o]; ok {
			if v == nil {
				return nil, e.fail(x, "variable %s read before assignment", n.Name)
			}
			return v, nil
		}
		if iv, ok := e.ints[o]; ok {
			return mkConst(new(big.Rat).SetInt64(iv)), nil
		}
		return nil, e.fail(x, "identifier %s has no symbolic value", n.Name)
	case *ast.UnaryExpr:
		if n.Op == token.SUB {
			a, err := e.ex(n.X)
			if err != nil {
				return nil, err
			}
			return mkNeg(a), nil
		}
		if n.Op == token.ADD {
			return e.ex(n.X)
		}
	case *ast.BinaryExpr:
		a, err := e.ex(n.X)
		if err != nil {
			return nil, err
		}
		b, err := e.ex(n.Y)
		if err != nil {
			return nil, err
		}
		switch n.Op {
		case token.ADD:
			return mkSum(a, b), nil
		case token.SUB:
			return mkSub(a, b), nil
		case token.MUL:
			return mkProd(a, b), nil
		case token.QUO:
			if tv, ok := info.Types[x]; ok {
				if bt, ok := tv.Type.Underlying().(*types.Basic); ok && bt.Info()&types.IsInteger != 0 {
					return mkCall("idiv", a, b), nil
				}
			}
			return mkDiv(a, b), nil
		case token.REM:
			return mkCall("imod", a, b), nil
		}
	case *ast.IndexExpr:
		if o, i, ok := e.arrayElem(n); ok {
			return e.arrs[o][i], nil
		}
		// direct lookup weightTable[code] (possibly two-dimensional)
		var idxExprs []ast.Expr
		base := ast.Expr(n)
		for {
			ix, ok := base.(*ast.IndexExpr)
			if !ok {
				break
			}
			idxExprs = append([]ast.Expr{ix.Index}, idxExprs...)
			base = ix.X
		}
		if p.isPkgLevelOrConst(base) {
			var cs []codeSym
			var names []string
			for _, ie := range idxExprs {
				c, err := e.codeOf(ie)
				if err != nil {
					return nil, err
				}
				cs = append(cs, c)
				names = append(names, c.Name())
			}
			e.c.uses = append(e.c.uses, weightUse{Args: cs, Call: n, Table: base, name: types.ExprString(base)})
			return mkSym("W(" + strings.Join(names, "|") + ")"), nil
		}
		return nil, e.fail(x, "index expression outside the formula language")
	case *ast.CallExpr:
		// conversions
		if tv, ok := info.Types[n.Fun]; ok && tv.IsType() && len(n.Args) == 1 {
			a, err := e.ex(n.Args[0])
			if err != nil {
				return nil, err
			}
			b, ok := tv.Type.Underlying().(*types.Basic)
			if !ok {
				return nil, e.fail(x, "conversion to %s", tv.Type)
			}
			switch {
			case b.Info()&types.IsFloat != 0:
				if at, ok := info.Types[n.Args[0]]; ok && isFloat(at.Type) {
					return a, nil
				}
				return mkCall("float", a), nil
			case b.Info()&types.IsInteger != 0:
				return mkCall("int", a), nil
			}
			return nil, e.fail(x, "conversion to %s", tv.Type)
		}
		fn := calleeOf(info, n)
		if id, ok := n.Fun.(*ast.Ident); ok && fn == nil {
			if _, isB := info.Uses[id].(*types.Builtin); isB && (id.Name == "min" || id.Name == "max") && len(n.Args) >= 2 {
				var args []*Ex
				for _, a := range n.Args {
					v, err := e.ex(a)
					if err != nil {
						return nil, err
					}
					args = append(args, v)
				}
				out := args[0]
				for _, a := range args[1:] {
					out = mkCall(id.Name, out, a)
				}
				return out, nil
			}
		}
		if fn == nil {
			return nil, e.fail(x, "dynamic or builtin call in a formula")
		}
		if fn.Pkg() != nil && fn.Pkg().Path() == "math" {
			var args []*Ex
			for _, a := range n.Args {
				v, err := e.ex(a)
				if err != nil {
					return nil, err
				}
				args = append(args, v)
			}
			switch fn.Name() {
			case "Min":
				return mkCall("min", args...), nil
			case "Max":
				return mkCall("max", args...), nil
			case "Round", "Floor", "Ceil", "RoundToEven", "Trunc", "Abs", "Copysign":
				return mkCall(fn.Name(), args...), nil
			case "Modf":
				// (integer part, fractional part), both exact and with the argument's sign
				return &Ex{Op: "tuple", Args: []*Ex{mkCall("Trunc", args...), mkCall("Frac", args...)}}, nil
			case "Pow":
				if len(args) == 2 && args[1].Op == "const" && args[1].C.IsInt() && args[1].C.Sign() > 0 && args[1].C.Num().Int64() < 64 {
					return mkPow(args[0], int(args[1].C.Num().Int64())), nil
				}
			}
			return nil, e.fail(x, "math.%s is outside the formula language", fn.Name())
		}
		if fn.Pkg() != p.P.Types {
			return nil, e.fail(x, "call to %s outside the package", fn.FullName())
		}
		fd := p.FuncObj[fn]
		if fd == nil || fd.Body == nil {
			return nil, e.fail(x, "no body for %s", fn.Name())
		}
		sig := fn.Type().(*types.Signature)
		// weight method of a named code type: c.weight(), pr.weight(scope)
		if sig.Recv() != nil && isUint8(sig.Recv().Type()) && !p.isTPtrOrVal(sig.Recv().Type()) && sig.Results().Len() == 1 && isFloat(sig.Results().At(0).Type()) && p.isLeafHelper(fd) {
			if se, ok := n.Fun.(*ast.SelectorExpr); ok {
				all8 := true
				for i := 0; i < sig.Params().Len(); i++ {
					if !isUint8(sig.Params().At(i).Type()) {
						all8 = false
					}
				}
				if all8 {
					rc, err := e.codeOf(se.X)
					if err != nil {
						return nil, err
					}
					cs := []codeSym{rc}
					names := []string{rc.Name()}
					for _, a := range n.Args {
						c, err := e.codeOf(a)
						if err != nil {
							return nil, err
						}
						cs = append(cs, c)
						names = append(names, c.Name())
					}
					e.c.uses = append(e.c.uses, weightUse{Fn: fn, Args: cs, Call: n, Method: true, name: types.TypeString(sig.Recv().Type(), func(*types.Package) string { return "" }) + "." + fn.Name()})
					return mkSym("W(" + strings.Join(names, "|") + ")"), nil
				}
			}
		}
		// a method of a local record of metric codes (m.impact(requirements)): inlined with
		// the record as receiver
		if sig.Recv() != nil && !p.isTPtrOrVal(sig.Recv().Type()) && codeRecord(derefType(sig.Recv().Type())) != nil {
			if se, ok := n.Fun.(*ast.SelectorExpr); ok && e.depth <= 10 {
				rec, err := e.recordOf(se.X)
				if err != nil {
					return nil, err
				}
				ro := p.recvObj(fd)
				if ro == nil {
					return nil, e.fail(x, "method without a named receiver")
				}
				callee := &sEnv{c: e.c, vars: map[types.Object]*Ex{}, codes: map[types.Object]codeSym{}, depth: e.depth + 1}
				callee.recs = map[types.Object]map[string]codeSym{ro: rec}
				params := paramObjs(info, fd)
				if len(params) != len(n.Args) {
					return nil, e.fail(x, "arity")
				}
				for i, po := range params {
					switch {
					case isUint8(po.Type()):
						c, err := e.codeOf(n.Args[i])
						if err != nil {
							return nil, err
						}
						callee.codes[po] = c
					case codeRecord(po.Type()) != nil:
						r2, err := e.recordOf(n.Args[i])
						if err != nil {
							return nil, err
						}
						callee.recs[po] = r2
					default:
						v, err := e.ex(n.Args[i])
						if err != nil {
							return nil, err
						}
						callee.vars[po] = v
					}
				}
				r, returned, err := callee.block(fd.Body.List)
				if err != nil {
					return nil, err
				}
				if !returned {
					return nil, e.fail(x, "%s does not return on every path", fn.Name())
				}
				return r, nil
			}
		}
		// a method of a local record of floats (temporalWeights{e, rl, rc}.apply(score)): inlined
		// with the record as receiver
		if sig.Recv() != nil && !p.isTPtrOrVal(sig.Recv().Type()) && floatRecord(sig.Recv().Type()) != nil {
			if se, ok := n.Fun.(*ast.SelectorExpr); ok && e.depth <= 10 {
				rv, err := e.ex(se.X)
				if err != nil {
					return nil, err
				}
				if rv.Op != "rec" {
					return nil, e.fail(x, "method call on something that is not a record of floats")
				}
				callee := &sEnv{c: e.c, vars: map[types.Object]*Ex{}, codes: map[types.Object]codeSym{}, depth: e.depth + 1}
				ro := p.recvObj(fd)
				if ro == nil {
					return nil, e.fail(x, "method without a named receiver")
				}
				callee.vars[ro] = rv
				params := paramObjs(info, fd)
				if len(params) != len(n.Args) {
					return nil, e.fail(x, "arity")
				}
				for i, po := range params {
					if isUint8(po.Type()) {
						c, err := e.codeOf(n.Args[i])
						if err != nil {
							return nil, err
						}
						callee.codes[po] = c
						continue
					}
					v, err := e.ex(n.Args[i])
					if err != nil {
						return nil, err
					}
					callee.vars[po] = v
				}
				r, returned, err := callee.block(fd.Body.List)
				if err != nil {
					return nil, err
				}
				if !returned {
					return nil, e.fail(x, "%s does not return on every path", fn.Name())
				}
				return r, nil
			}
		}
		// weight helper: all parameters uint8, result float64, not a method
		if sig.Recv() == nil && sig.Params().Len() >= 1 && sig.Results().Len() == 1 && isFloat(sig.Results().At(0).Type()) && p.isLeafHelper(fd) {
			all8 := true
			for i := 0; i < sig.Params().Len(); i++ {
				if !isUint8(sig.Params().At(i).Type()) {
					all8 = false
				}
			}
			if all8 {
				var cs []codeSym
				var names []string
				for _, a := range n.Args {
					c, err := e.codeOf(a)
					if err != nil {
						return nil, err
					}
					cs = append(cs, c)
					names = append(names, c.Name())
				}
				e.c.uses = append(e.c.uses, weightUse{Fn: fn, Args: cs, Call: n})
				return mkSym("W(" + strings.Join(names, "|") + ")"), nil
			}
		}
		// generalised weight helper: float result, at least one metric-code argument, every
		// other argument a package-level table or constant (e.g. weight(ciaWeights, code))
		if sig.Recv() == nil && sig.Results().Len() == 1 && isFloat(sig.Results().At(0).Type()) && len(n.Args) >= 2 && p.isLeafHelper(fd) {
			var cs []codeSym
			var idx []int
			var names []string
			okW := true
			for i, a := range n.Args {
				at := info.Types[a].Type
				if at != nil && isUint8(at) {
					c, err := e.codeOf(a)
					if err != nil {
						okW = false
						break
					}
					cs = append(cs, c)
					idx = append(idx, i)
					names = append(names, c.Name())
					continue
				}
				if at != nil && isFloat(at) {
					okW = false
					break
				}
				if !e.c.p.isPkgLevelOrConst(a) {
					okW = false
					break
				}
			}
			if okW && len(cs) > 0 {
				label := fn.Name()
				for i, a := range n.Args {
					isC := false
					for _, ci := range idx {
						if ci == i {
							isC = true
						}
					}
					if !isC {
						label += "[" + types.ExprString(a) + "]"
					}
				}
				e.c.uses = append(e.c.uses, weightUse{Fn: fn, Args: cs, Call: n, ArgExprs: n.Args, CodeIdx: idx, name: label})
				return mkSym("W(" + strings.Join(names, "|") + ")"), nil
			}
		}
		// integer-indexed table function (depth tables): opaque node
		if sig.Recv() == nil && sig.Params().Len() >= 1 && sig.Results().Len() == 1 && isFloat(sig.Results().At(0).Type()) {
			allInt := true
			for i := 0; i < sig.Params().Len(); i++ {
				b, ok := sig.Params().At(i).Type().Underlying().(*types.Basic)
				if !ok || b.Kind() != types.Int {
					allInt = false
				}
			}
			if allInt {
				var args []*Ex
				for _, a := range n.Args {
					v, err := e.ex(a)
					if err != nil {
						return nil, err
					}
					args = append(args, v)
				}
				return mkCall("tbl:"+fn.Name(), args...), nil
			}
		}
		if e.depth > 10 {
			return nil, e.fail(x, "inlining depth exceeded")
		}
		// rounding helper stays opaque
		if e.c.roundFns[fn] && len(n.Args) == 1 {
			a, err := e.ex(n.Args[0])
			if err != nil {
				return nil, err
			}
			return mkCall(e.c.roundSym, a), nil
		}
		// inline: method on the object without parameters, or float helper
		callee := &sEnv{c: e.c, vars: map[types.Object]*Ex{}, codes: map[types.Object]codeSym{}, depth: e.depth + 1}
		if sig.Recv() != nil {
			se, ok := n.Fun.(*ast.SelectorExpr)
			if !ok {
				return nil, e.fail(x, "method value")
			}
			if tv, ok := info.Types[se.X]; !ok || !p.isTPtrOrVal(tv.Type) {
				return nil, e.fail(x, "method call on something other than the vector object")
			}
		}
		params := paramObjs(info, fd)
		if len(params) != len(n.Args) {
			return nil, e.fail(x, "arity")
		}
		for i, po := range params {
			if isUint8(po.Type()) {
				c, err := e.codeOf(n.Args[i])
				if err != nil {
					return nil, err
				}
				callee.codes[po] = c
			} else if b, ok := po.Type().Underlying().(*types.Basic); ok && b.Info()&types.IsBoolean != 0 {
				c, swap, err := e.cond(n.Args[i])
				if err != nil {
					return nil, err
				}
				if callee.bools == nil {
					callee.bools = map[types.Object]boolVal{}
				}
				callee.bools[po] = boolVal{c, swap}
			} else {
				v, err := e.ex(n.Args[i])
				if err != nil {
					return nil, err
				}
				callee.vars[po] = v
			}
		}
		for _, ro := range resultObjs(info, fd) {
			if ro != nil && isFloat(ro.Type()) {
				callee.results = append(callee.results, ro)
				callee.vars[ro] = mkConst(new(big.Rat))
			}
		}
		r, returned, err := callee.block(fd.Body.List)
		if err != nil {
			return nil, err
		}
		if !returned {
			return nil, e.fail(x, "%s does not return on every path", fn.Name())
		}
		return r, nil
	}
	if cl, ok := x.(*ast.CompositeLit); ok {
		if tv, ok := info.Types[cl]; ok {
			if st := floatRecord(tv.Type); st != nil {
				rec := &Ex{Op: "rec"}
				vals := map[string]*Ex{}
				for i, el := range cl.Elts {
					name, val := "", el
					if kv, ok := el.(*ast.KeyValueExpr); ok {
						id, ok := kv.Key.(*ast.Ident)
						if !ok {
							return nil, e.fail(el, "record literal key")
						}
						name, val = id.Name, kv.Value
					} else {
						name = st.Field(i).Name()
					}
					v, err := e.ex(val)
					if err != nil {
						return nil, err
					}
					vals[name] = v
				}
				for i := 0; i < st.NumFields(); i++ {
					f := st.Field(i).Name()
					v := vals[f]
					if v == nil {
						v = mkConst(new(big.Rat))
					}
					rec.Fields = append(rec.Fields, f)
					rec.Args = append(rec.Args, v)
				}
				return rec, nil
			}
		}
	}
	if se, ok := x.(*ast.SelectorExpr); ok {
		if sel := info.Selections[se]; sel != nil && sel.Kind() == types.FieldVal && floatRecord(sel.Recv()) != nil {
			rv, err := e.ex(se.X)
			if err != nil {
				return nil, err
			}
			if rv.Op == "rec" {
				for i, f := range rv.Fields {
					if f == se.Sel.Name {
						return rv.Args[i], nil
					}
				}
			}
			return nil, e.fail(x, "field of something that is not a record of floats")
		}
	}
	return nil, e.fail(x, "expression %T outside the formula language", x)
}

func derefType(t types.Type) types.Type {
	if pt, ok := t.Underlying().(*types.Pointer); ok {
		return pt.Elem()
	}
	return t
}

// floatRecord returns the struct type when t (or what it points to) is a
// struct whose fields are all floats.
func floatRecord(t types.Type) *types.Struct {
	if pt, ok := t.Underlying().(*types.Pointer); ok {
		t = pt.Elem()
	}
	st, ok := t.Underlying().(*types.Struct)
	if !ok || st.NumFields() == 0 || st.NumFields() > 16 {
		return nil
	}
	for i := 0; i < st.NumFields(); i++ {
		if !isFloat(st.Field(i).Type()) {
			return nil
		}
	}
	return st
}

// cond evaluates a boolean expression to a canonical condition.
func (e *sEnv) cond(x ast.Expr) (*Cnd, bool, error) {
	p := e.c.p
	info := p.Info
	for {
		if pe, ok := x.(*ast.ParenExpr); ok {
			x = pe.X
			continue
		}
		break
	}
	if u, ok := x.(*ast.UnaryExpr); ok && u.Op == token.NOT {
		c, swap, err := e.cond(u.X)
		return c, !swap, err
	}
	if id, ok := x.(*ast.Ident); ok {
		if bv, ok := e.bools[identObj(info, id)]; ok {
			return bv.c, bv.swap, nil
		}
	}
	if be, ok := x.(*ast.BinaryExpr); ok {
		lt, rt := info.Types[be.X].Type, info.Types[be.Y].Type
		hasCode := p.containsObjField(x)
		ast.Inspect(x, func(n ast.Node) bool {
			if id, ok := n.(*ast.Ident); ok {
				if _, isCode := e.codes[identObj(info, id)]; isCode {
					hasCode = true
				}
				if _, isRec := e.recs[identObj(info, id)]; isRec {
					hasCode = true
				}
				if _, isBV := e.bv[identObj(info, id)]; isBV {
					hasCode = true
				}
			}
			// an integer-valued accessor of the object
			if c, ok := n.(*ast.CallExpr); ok {
				if fn := calleeOf(info, c); fn != nil && fn.Pkg() == p.P.Types {
					if sig, ok := fn.Type().(*types.Signature); ok && sig.Recv() != nil && sig.Results().Len() == 1 && isUint8(sig.Results().At(0).Type()) {
						hasCode = true
					}
				}
			}
			return true
		})
		if lt != nil && rt != nil && (isFloat(lt) || isFloat(rt) || !hasCode) && be.Op != token.LAND && be.Op != token.LOR {
			ops := map[token.Token]string{token.EQL: "==", token.NEQ: "!=", token.LSS: "<", token.LEQ: "<=", token.GTR: ">", token.GEQ: ">="}
			op, ok := ops[be.Op]
			if !ok {
				return nil, false, e.fail(x, "boolean operator %s over floats", be.Op)
			}
			l, err := e.ex(be.X)
			if err != nil {
				return nil, false, err
			}
			r, err := e.ex(be.Y)
			if err != nil {
				return nil, false, err
			}
			c, swap := mkCmp(op, l, r)
			return c, swap, nil
		}
	}
	// code-level boolean: enumerate its inputs
	type input struct {
		name   string
		values []string
		obj    types.Object // code local (nil for a raw metric read)
		field  string       // with obj: the field of a local record of codes
		metric string
		eff    bool
	}
	var inputs []input
	// every local (or record field) that holds a code, with the input it is bound to
	type bind struct {
		obj   types.Object
		field string
		name  string
	}
	var binds []bind
	seen := map[string]bool{}
	bad := error(nil)
	ast.Inspect(x, func(n ast.Node) bool {
		if bad != nil {
			return false
		}
		switch y := n.(type) {
		case *ast.SelectorExpr:
			if id, ok := y.X.(*ast.Ident); ok {
				if rec, ok := e.recs[identObj(info, id)]; ok {
					c, ok := rec[y.Sel.Name]
					if !ok {
						bad = e.fail(y, "field %s of the local record holds no metric code", y.Sel.Name)
						return false
					}
					// the same metric may be reached through a code local as well: one input per
					// (record, field), all bound to the same enumeration variable by name
					if !seen[c.Name()] {
						seen[c.Name()] = true
						inputs = append(inputs, input{name: c.Name(), values: p.atomDomain(c.Name()), obj: identObj(info, id), field: y.Sel.Name, metric: c.Metric, eff: c.Eff})
					}
					binds = append(binds, bind{identObj(info, id), y.Sel.Name, c.Name()})
					return false
				}
			}
		case *ast.Ident:
			o := identObj(info, y)
			if c, ok := e.codes[o]; ok {
				if !seen[c.Name()] {
					seen[c.Name()] = true
					inputs = append(inputs, input{name: c.Name(), values: p.atomDomain(c.Name()), obj: o, metric: c.Metric, eff: c.Eff})
				}
				binds = append(binds, bind{o, "", c.Name()})
				return false
			}
			if _, isVar := o.(*types.Var); isVar {
				if _, ok := e.vars[o]; ok {
					bad = e.fail(y, "float variable %s inside a code-level condition", y.Name)
				}
			}
		case *ast.CallExpr:
			if tv, ok := info.Types[y.Fun]; ok && tv.IsType() {
				return true
			}
			// accessors of the object (c.s(), c.scope()…): evaluated concretely by the
			// tabulation below; the bytes they read are found through the callee
			if fn := calleeOf(info, y); fn != nil && fn.Pkg() == p.P.Types && p.FuncObj[fn] != nil {
				return true
			}
			bad = e.fail(y, "call inside a code-level condition")
			return false
		}
		return true
	})
	if bad != nil {
		return nil, false, bad
	}
	for _, r := range p.readersTransitive(x) {
		for _, m := range r.Metrics {
			if !seen[m] {
				seen[m] = true
				inputs = append(inputs, input{name: m, values: p.atomDomain(m), metric: m})
			}
		}
	}
	// byte-valued locals that hold receiver bits (u0 := c.u0): the metrics owning those
	// bits are inputs, the local's value follows from the receiver bytes
	var bvLocals []types.Object
	{
		sm := p.SetModel()
		seenBV := map[types.Object]bool{}
		ast.Inspect(x, func(n ast.Node) bool {
			id, ok := n.(*ast.Ident)
			if !ok {
				return true
			}
			o := identObj(info, id)
			v, isBV := e.bv[o]
			if !isBV || seenBV[o] {
				return true
			}
			seenBV[o] = true
			bvLocals = append(bvLocals, o)
			for _, b := range v {
				if b.K != BIn {
					continue
				}
				if own := sm.Owner[BitPos{b.A, b.B}]; own != nil && !seen[own.Label] {
					seen[own.Label] = true
					inputs = append(inputs, input{name: own.Label, values: p.atomDomain(own.Label), metric: own.Label})
				}
			}
			return true
		})
	}
	if len(inputs) == 0 {
		return nil, false, e.fail(x, "condition without metric inputs")
	}
	sort.Slice(inputs, func(i, j int) bool { return inputs[i].name < inputs[j].name })
	size := 1
	for _, in := range inputs {
		if len(in.values) == 0 {
			return nil, false, e.fail(x, "unknown domain for %s", in.name)
		}
		size *= len(in.values)
	}
	if size > 100000 {
		return nil, false, e.fail(x, "condition over too many metric values")
	}
	var tuples [][]string
	cur := make([]int, len(inputs))
	var rec func(i int) error
	rec = func(i int) error {
		if i == len(inputs) {
			codes := map[string]int{}
			for k, in := range inputs {
				if in.obj == nil {
					codes[in.metric] = cur[k]
				}
			}
			bytes, err := p.bytesFromCodes(codes)
			if err != nil {
				return err
			}
			ce := newCEnv(p, bytes)
			for _, o := range bvLocals {
				val := int64(0)
				for j, b := range e.bv[o] {
					switch b.K {
					case BZero:
					case BOne:
						val |= 1 << uint(j)
					case BIn:
						if b.A < len(bytes) && bytes[b.A]&(1<<uint(b.B)) != 0 {
							val |= 1 << uint(j)
						}
					default:
						return e.fail(x, "byte local %s holds bits that are not receiver bits", o.Name())
					}
				}
				ce.vars[o] = vInt(val)
			}
			byName := map[string]int{}
			for k, in := range inputs {
				byName[in.name] = cur[k]
			}
			for _, b := range binds {
				if b.field == "" {
					ce.vars[b.obj] = vInt(int64(byName[b.name]))
					continue
				}
				rv, ok := ce.vars[b.obj]
				if !ok {
					rv = Val{K: VStruct, F: map[string]Val{}}
				}
				rv.F[b.field] = vInt(int64(byName[b.name]))
				ce.vars[b.obj] = rv
			}
			v, err := ce.eval(x)
			if err != nil {
				return err
			}
			if v.K != VBool {
				return e.fail(x, "non-boolean condition")
			}
			if v.I != 0 {
				var t []string
				for k, in := range inputs {
					t = append(t, in.values[cur[k]])
				}
				tuples = append(tuples, t)
			}
			return nil
		}
		for c := range inputs[i].values {
			cur[i] = c
			if err := rec(i + 1); err != nil {
				return err
			}
		}
		return nil
	}
	if err := rec(0); err != nil {
		return nil, false, err
	}
	// inputs the truth value does not depend on (a byte copy carries the bits of
	// several metrics, the test looks at one) are projected out
	for changed := true; changed && len(inputs) > 1; {
		changed = false
		for drop := range inputs {
			sat := map[string]bool{}
			for _, t := range tuples {
				sat[strings.Join(t, "\x00")] = true
			}
			independent := true
			for _, t := range tuples {
				for _, v := range inputs[drop].values {
					alt := append([]string(nil), t...)
					alt[drop] = v
					if !sat[strings.Join(alt, "\x00")] {
						independent = false
						break
					}
				}
				if !independent {
					break
				}
			}
			if !independent {
				continue
			}
			seenT := map[string]bool{}
			var nt [][]string
			for _, t := range tuples {
				r := append(append([]string(nil), t[:drop]...), t[drop+1:]...)
				if k := strings.Join(r, "\x00"); !seenT[k] {
					seenT[k] = true
					nt = append(nt, r)
				}
			}
			tuples = nt
			inputs = append(append([]input(nil), inputs[:drop]...), inputs[drop+1:]...)
			changed = true
			break
		}
	}
	var names []string
	for _, in := range inputs {
		names = append(names, in.name)
	}
	// a condition on (Modified metric, base metric) that only depends on the
	// effective value is the condition on the effective value
	if len(names) == 2 {
		ov := vocab[p.Key]
		mi, bi := -1, -1
		for i, nm := range names {
			if om := ov.byAbv[nm]; om != nil && om.ModifiedOf != "" {
				for j, other := range names {
					if other == om.ModifiedOf {
						mi, bi = i, j
					}
				}
			}
		}
		if mi >= 0 {
			effName := "e" + names[bi]
			if ed := p.atomDomain(effName); len(ed) > 0 {
				nd := ov.ND
				effOf := func(t []string) string {
					if t[mi] != nd {
						return t[mi]
					}
					return t[bi]
				}
				sat := map[string]bool{}
				for _, t := range tuples {
					sat[strings.Join(t, ",")] = true
				}
				byEff := map[string]int{} // 1 = all satisfy, 2 = none, 3 = mixed
				for _, mv := range p.atomDomain(names[mi]) {
					for _, bv := range p.atomDomain(names[bi]) {
						t := make([]string, 2)
						t[mi], t[bi] = mv, bv
						e := effOf(t)
						st := 2
						if sat[strings.Join(t, ",")] {
							st = 1
						}
						if prev, ok := byEff[e]; ok && prev != st {
							byEff[e] = 3
						} else if !ok {
							byEff[e] = st
						}
					}
				}
				pure := true
				var et [][]string
				for _, ev := range ed {
					switch byEff[ev] {
					case 1:
						et = append(et, []string{ev})
					case 2:
					default:
						pure = false
					}
				}
				if pure {
					c, swap := metricAtom([]string{effName}, et, p.atomDomain)
					return c, swap, nil
				}
			}
		}
	}
	c, swap := metricAtom(names, tuples, p.atomDomain)
	return c, swap, nil
}

// assignParallel: `a, b = x, y` — every right-hand side is evaluated in the
// state before the statement, then the assignments take place (Go's order of
// evaluation for tuple assignments).
func (e *sEnv) assignParallel(lhs, rhs []ast.Expr) error {
	if len(lhs) == 1 {
		return e.assign(lhs[0], rhs[0])
	}
	before := e.clone()
	for k := range lhs {
		tmp := before.clone()
		if err := tmp.assign(lhs[k], rhs[k]); err != nil {
			return err
		}
		// carry the one assigned object (or array element) over
		target := lhs[k]
		if ix, ok := target.(*ast.IndexExpr); ok {
			if o, i, ok := tmp.arrayElem(ix); ok {
				if e.arrs == nil || e.arrs[o] == nil {
					return e.fail(target, "tuple assignment to an element of an unknown array")
				}
				e.arrs[o][i] = tmp.arrs[o][i]
				continue
			}
			return e.fail(target, "tuple assignment target")
		}
		id, ok := target.(*ast.Ident)
		if !ok {
			return e.fail(target, "tuple assignment target")
		}
		if id.Name == "_" {
			continue
		}
		o := identObj(e.c.p.Info, id)
		if o == nil {
			return e.fail(target, "unresolved identifier")
		}
		delete(e.vars, o)
		delete(e.codes, o)
		delete(e.bools, o)
		delete(e.bv, o)
		delete(e.recs, o)
		delete(e.arrs, o)
		if v, ok := tmp.vars[o]; ok {
			e.vars[o] = v
		}
		if v, ok := tmp.codes[o]; ok {
			e.codes[o] = v
		}
		if v, ok := tmp.bools[o]; ok {
			if e.bools == nil {
				e.bools = map[types.Object]boolVal{}
			}
			e.bools[o] = v
		}
		if v, ok := tmp.bv[o]; ok {
			if e.bv == nil {
				e.bv = map[types.Object]BV{}
			}
			e.bv[o] = v
		}
		if v, ok := tmp.recs[o]; ok {
			if e.recs == nil {
				e.recs = map[types.Object]map[string]codeSym{}
			}
			e.recs[o] = v
		}
		if v, ok := tmp.arrs[o]; ok {
			if e.arrs == nil {
				e.arrs = map[types.Object][]*Ex{}
			}
			e.arrs[o] = v
		}
	}
	return nil
}

func (e *sEnv) assign(lhs ast.Expr, rhs ast.Expr) error {
	p := e.c.p
	if ix, ok := lhs.(*ast.IndexExpr); ok {
		if o, i, ok := e.arrayElem(ix); ok {
			v, err := e.ex(rhs)
			if err != nil {
				return err
			}
			e.arrs[o][i] = v
			return nil
		}
	}
	id, ok := lhs.(*ast.Ident)
	if !ok {
		return e.fail(lhs, "assignment target outside the formula language")
	}
	if o := identObj(p.Info, id); o != nil {
		if at, isArr := o.Type().Underlying().(*types.Array); isArr && isFloat(at.Elem()) && at.Len() <= 16 {
			cl, isLit := rhs.(*ast.CompositeLit)
			if !isLit || int64(len(cl.Elts)) > at.Len() {
				return e.fail(rhs, "array value that is not a literal")
			}
			elems := make([]*Ex, at.Len())
			for i := range elems {
				elems[i] = mkConst(new(big.Rat))
			}
			for i, el := range cl.Elts {
				if _, keyed := el.(*ast.KeyValueExpr); keyed {
					return e.fail(rhs, "keyed array literal")
				}
				v, err := e.ex(el)
				if err != nil {
					return err
				}
				elems[i] = v
			}
			if e.arrs == nil {
				e.arrs = map[types.Object][]*Ex{}
			}
			e.arrs[o] = elems
			return nil
		}
	}
	if id.Name == "_" {
		return nil
	}
	o := identObj(p.Info, id)
	if o == nil {
		return e.fail(lhs, "unresolved identifier")
	}
	if codeRecord(o.Type()) != nil {
		rec, err := e.recordOf(rhs)
		if err != nil {
			return err
		}
		if e.recs == nil {
			e.recs = map[types.Object]map[string]codeSym{}
		}
		e.recs[o] = rec
		return nil
	}
	if isUint8(o.Type()) {
		c, err := e.codeOf(rhs)
		if err != nil {
			// not one metric code: a copy of receiver bits (u0 := c.u0, x := c.u1 >> 4)?
			if e.mentionsBits(rhs) {
				if v, err2 := e.bvEnvOf().eval(rhs); err2 == nil {
					if _, clean := v.inBits(); clean {
						if e.bv == nil {
							e.bv = map[types.Object]BV{}
						}
						e.bv[o] = v
						delete(e.codes, o)
						return nil
					}
				}
			}
			return err
		}
		e.codes[o] = c
		delete(e.bv, o)
		return nil
	}
	if b, ok := o.Type().Underlying().(*types.Basic); ok && b.Info()&types.IsBoolean != 0 {
		c, swap, err := e.cond(rhs)
		if err != nil {
			return err
		}
		if e.bools == nil {
			e.bools = map[types.Object]boolVal{}
		}
		e.bools[o] = boolVal{c, swap}
		return nil
	}
	v, err := e.ex(rhs)
	if err != nil {
		return err
	}
	e.vars[o] = v
	return nil
}

// codeRecord returns the struct type when t is a struct whose fields are all
// uint8 (a record of metric codes), else nil.
func codeRecord(t types.Type) *types.Struct {
	st, ok := t.Underlying().(*types.Struct)
	if !ok || st.NumFields() == 0 || st.NumFields() > 32 {
		return nil
	}
	for i := 0; i < st.NumFields(); i++ {
		if !isUint8(st.Field(i).Type()) {
			return nil
		}
	}
	return st
}

// runAccessor evaluates the straight-line body of a package function or method
// of the object up to its final return statement: assignments of metric codes
// to locals or named results only. It returns the callee environment and that
// return statement.
func (e *sEnv) runAccessor(call *ast.CallExpr, fn *types.Func) (*sEnv, *ast.FuncDecl, *ast.ReturnStmt, error) {
	p := e.c.p
	sig := fn.Type().(*types.Signature)
	fd := p.FuncObj[fn]
	if fd == nil || fd.Body == nil {
		return nil, nil, nil, e.fail(call, "no body for %s", fn.Name())
	}
	if e.depth > 6 {
		return nil, nil, nil, e.fail(call, "inlining depth exceeded")
	}
	if sig.Recv() != nil {
		se, ok := call.Fun.(*ast.SelectorExpr)
		if !ok {
			return nil, nil, nil, e.fail(call, "method value")
		}
		if tv, ok := p.Info.Types[se.X]; !ok || !p.isTPtrOrVal(tv.Type) {
			return nil, nil, nil, e.fail(call, "method call on something other than the vector object")
		}
	}
	params := paramObjs(p.Info, fd)
	if len(params) != len(call.Args) {
		return nil, nil, nil, e.fail(call, "arity")
	}
	callee := &sEnv{c: e.c, vars: map[types.Object]*Ex{}, codes: map[types.Object]codeSym{}, depth: e.depth + 1}
	for i, po := range params {
		if !isUint8(po.Type()) {
			return nil, nil, nil, e.fail(call, "accessor parameter %s is not a metric code", po.Name())
		}
		c, err := e.codeOf(call.Args[i])
		if err != nil {
			return nil, nil, nil, err
		}
		callee.codes[po] = c
	}
	for i, s := range fd.Body.List {
		switch st := s.(type) {
		case *ast.AssignStmt:
			if (st.Tok != token.ASSIGN && st.Tok != token.DEFINE) || len(st.Lhs) != len(st.Rhs) {
				return nil, nil, nil, e.fail(s, "accessor statement outside the formula language")
			}
			if err := callee.assignParallel(st.Lhs, st.Rhs); err != nil {
				return nil, nil, nil, err
			}
		case *ast.ReturnStmt:
			if i != len(fd.Body.List)-1 {
				return nil, nil, nil, e.fail(s, "accessor returns before its last statement")
			}
			return callee, fd, st, nil
		default:
			return nil, nil, nil, e.fail(s, "accessor statement %T outside the formula language", s)
		}
	}
	return nil, nil, nil, e.fail(call, "%s does not end with a return", fn.Name())
}

// codesOfCall evaluates a call to a package function or method of the object
// whose results are all uint8 and whose body is straight-line — the accessor
// `func (c *T) baseCIA() (c, i, a uint8)`. handled is false when x is not such
// a call.
func (e *sEnv) codesOfCall(x ast.Expr, n int) ([]codeSym, bool, error) {
	p := e.c.p
	call, ok := ast.Unparen(x).(*ast.CallExpr)
	if !ok {
		return nil, false, nil
	}
	fn := calleeOf(p.Info, call)
	if fn == nil || fn.Pkg() != p.P.Types {
		return nil, false, nil
	}
	sig := fn.Type().(*types.Signature)
	if sig.Results().Len() != n || n < 2 {
		return nil, false, nil
	}
	for i := 0; i < n; i++ {
		if !isUint8(sig.Results().At(i).Type()) {
			return nil, false, nil
		}
	}
	callee, fd, ret, err := e.runAccessor(call, fn)
	if err != nil {
		return nil, true, err
	}
	var out []codeSym
	if len(ret.Results) == 0 {
		for _, ro := range resultObjs(p.Info, fd) {
			c, ok := callee.codes[ro]
			if ro == nil || !ok {
				return nil, true, e.fail(ret, "a named result of %s is returned without a metric code", fn.Name())
			}
			out = append(out, c)
		}
		return out, true, nil
	}
	if len(ret.Results) != n {
		return nil, true, e.fail(ret, "return arity")
	}
	for _, r := range ret.Results {
		c, err := callee.codeOf(r)
		if err != nil {
			return nil, true, err
		}
		out = append(out, c)
	}
	return out, true, nil
}

// recordOf evaluates an expression of a record-of-codes type: a composite
// literal, another local record, or a call to a straight-line accessor that
// returns one.
func (e *sEnv) recordOf(x ast.Expr) (map[string]codeSym, error) {
	p := e.c.p
	x = ast.Unparen(x)
	switch n := x.(type) {
	case *ast.Ident:
		if rec, ok := e.recs[identObj(p.Info, n)]; ok {
			return rec, nil
		}
	case *ast.CompositeLit:
		tv, ok := p.Info.Types[n]
		if !ok {
			break
		}
		st := codeRecord(tv.Type)
		if st == nil {
			break
		}
		rec := map[string]codeSym{}
		for i, el := range n.Elts {
			name, val := "", el
			if kv, ok := el.(*ast.KeyValueExpr); ok {
				id, ok := kv.Key.(*ast.Ident)
				if !ok {
					return nil, e.fail(el, "record literal key")
				}
				name, val = id.Name, kv.Value
			} else {
				name = st.Field(i).Name()
			}
			c, err := e.codeOf(val)
			if err != nil {
				return nil, err
			}
			rec[name] = c
		}
		// a field left out holds 0, which is not a metric's code: reading it fails in codeOf
		return rec, nil
	case *ast.CallExpr:
		fn := calleeOf(p.Info, n)
		if fn == nil || fn.Pkg() != p.P.Types {
			break
		}
		callee, fd, ret, err := e.runAccessor(n, fn)
		if err != nil {
			return nil, err
		}
		if len(ret.Results) == 0 {
			ros := resultObjs(p.Info, fd)
			if len(ros) == 1 && ros[0] != nil {
				if rec, ok := callee.recs[ros[0]]; ok {
					return rec, nil
				}
			}
			return nil, e.fail(ret, "the named result of %s is returned without a value", fn.Name())
		}
		if len(ret.Results) != 1 {
			return nil, e.fail(ret, "return arity")
		}
		return callee.recordOf(ret.Results[0])
	}
	return nil, e.fail(x, "expression does not produce a record of metric codes")
}

// block evaluates a statement list; it returns the returned expression when
// every path through the list returns.
func (e *sEnv) block(stmts []ast.Stmt) (*Ex, bool, error) {
	p := e.c.p
	for i, s := range stmts {
		switch st := s.(type) {
		case *ast.EmptyStmt:
		case *ast.DeclStmt:
			gd, ok := st.Decl.(*ast.GenDecl)
			if !ok || gd.Tok != token.VAR {
				return nil, false, e.fail(s, "declaration outside the formula language")
			}
			for _, sp := range gd.Specs {
				vs := sp.(*ast.ValueSpec)
				for k, nm := range vs.Names {
					o := p.Info.Defs[nm]
					if k < len(vs.Values) {
						if err := e.assign(nm, vs.Values[k]); err != nil {
							return nil, false, err
						}
					} else if isFloat(o.Type()) {
						e.vars[o] = mkConst(new(big.Rat))
					} else {
						return nil, false, e.fail(s, "zero-valued non-float variable")
					}
				}
			}
		case *ast.AssignStmt:
			if st.Tok != token.DEFINE && st.Tok != token.ASSIGN {
				// x op= y
				ops := map[token.Token]token.Token{token.ADD_ASSIGN: token.ADD, token.SUB_ASSIGN: token.SUB, token.MUL_ASSIGN: token.MUL, token.QUO_ASSIGN: token.QUO}
				op, ok := ops[st.Tok]
				if !ok || len(st.Lhs) != 1 {
					return nil, false, e.fail(s, "assignment operator %s", st.Tok)
				}
				v, err := e.ex(&ast.BinaryExpr{X: st.Lhs[0], Op: op, Y: st.Rhs[0]})
				if err != nil {
					return nil, false, err
				}
				if ix, isIx := st.Lhs[0].(*ast.IndexExpr); isIx {
					o, i, ok := e.arrayElem(ix)
					if !ok {
						return nil, false, e.fail(s, "indexed assignment outside the formula language")
					}
					e.arrs[o][i] = v
					continue
				}
				e.vars[identObj(p.Info, st.Lhs[0])] = v
				continue
			}
			if len(st.Lhs) > 1 && len(st.Rhs) == 1 {
				// c, i, a := obj.codes()  with a straight-line accessor returning metric codes
				if cs, handled, err := e.codesOfCall(st.Rhs[0], len(st.Lhs)); handled {
					if err != nil {
						return nil, false, err
					}
					for k, l := range st.Lhs {
						id, ok := l.(*ast.Ident)
						if !ok {
							return nil, false, e.fail(s, "tuple assignment target")
						}
						if id.Name == "_" {
							continue
						}
						o := identObj(p.Info, id)
						if o == nil || !isUint8(o.Type()) {
							return nil, false, e.fail(s, "tuple assignment of a metric code to a non-uint8 variable")
						}
						e.codes[o] = cs[k]
						delete(e.bv, o)
					}
					continue
				}
				// a, b, c := f()  with f returning several float values
				v, err := e.ex(st.Rhs[0])
				if err != nil {
					return nil, false, err
				}
				if v.Op != "tuple" || len(v.Args) != len(st.Lhs) {
					return nil, false, e.fail(s, "tuple assignment from a single value")
				}
				for k, l := range st.Lhs {
					id, ok := l.(*ast.Ident)
					if !ok {
						return nil, false, e.fail(s, "tuple assignment target")
					}
					if id.Name == "_" {
						continue
					}
					o := identObj(p.Info, id)
					if o == nil || !isFloat(o.Type()) {
						return nil, false, e.fail(s, "tuple assignment of a non-float value")
					}
					e.vars[o] = v.Args[k]
				}
				continue
			}
			if len(st.Lhs) != len(st.Rhs) {
				return nil, false, e.fail(s, "tuple assignment")
			}
			if err := e.assignParallel(st.Lhs, st.Rhs); err != nil {
				return nil, false, err
			}
		case *ast.ReturnStmt:
			if len(st.Results) == 0 && len(e.results) > 0 {
				var parts []*Ex
				for _, r := range e.results {
					v := e.vars[r]
					if v == nil {
						return nil, false, e.fail(s, "named result %s returned without a value", r.Name())
					}
					parts = append(parts, v)
				}
				if len(parts) == 1 {
					return parts[0], true, nil
				}
				return &Ex{Op: "tuple", Args: parts}, true, nil
			}
			if len(st.Results) > 1 {
				var parts []*Ex
				for _, r := range st.Results {
					v, err := e.ex(r)
					if err != nil {
						return nil, false, err
					}
					parts = append(parts, v)
				}
				return &Ex{Op: "tuple", Args: parts}, true, nil
			}
			if len(st.Results) != 1 {
				return nil, false, e.fail(s, "return arity")
			}
			v, err := e.ex(st.Results[0])
			return v, true, err
		case *ast.IfStmt:
			if st.Init != nil {
				return nil, false, e.fail(s, "if with initialiser")
			}
			c, swap, err := e.cond(st.Cond)
			if err != nil {
				return nil, false, err
			}
			te := e.clone()
			r1, ret1, err := te.block(st.Body.List)
			if err != nil {
				return nil, false, err
			}
			ee := e.clone()
			var r2 *Ex
			ret2 := false
			if st.Else != nil {
				var list []ast.Stmt
				switch el := st.Else.(type) {
				case *ast.BlockStmt:
					list = el.List
				default:
					list = []ast.Stmt{el}
				}
				r2, ret2, err = ee.block(list)
				if err != nil {
					return nil, false, err
				}
			}
			var ite func(a, b *Ex) *Ex
			ite = func(a, b *Ex) *Ex {
				if a != nil && b != nil && (a.Op == "tuple" || a.Op == "rec") && b.Op == a.Op && len(a.Args) == len(b.Args) {
					parts := make([]*Ex, len(a.Args))
					for k := range a.Args {
						parts[k] = ite(a.Args[k], b.Args[k])
					}
					return &Ex{Op: a.Op, Args: parts, Fields: a.Fields}
				}
				if swap {
					return mkIte(c, b, a)
				}
				return mkIte(c, a, b)
			}
			rest := stmts[i+1:]
			switch {
			case ret1 && ret2:
				return ite(r1, r2), true, nil
			case ret1:
				r, ret, err := ee.block(rest)
				if err != nil {
					return nil, false, err
				}
				if !ret {
					return nil, false, e.fail(s, "path falls off the end")
				}
				return ite(r1, r), true, nil
			case ret2:
				r, ret, err := te.block(rest)
				if err != nil {
					return nil, false, err
				}
				if !ret {
					return nil, false, e.fail(s, "path falls off the end")
				}
				return ite(r, r2), true, nil
			}
			// merge (locals declared inside a branch end with it)
			scoped := map[types.Object]bool{}
			for _, br := range []ast.Node{st.Body, st.Else} {
				if br == nil || br == ast.Node((*ast.BlockStmt)(nil)) {
					continue
				}
				ast.Inspect(br, func(n ast.Node) bool {
					if id, ok := n.(*ast.Ident); ok {
						if o := p.Info.Defs[id]; o != nil {
							scoped[o] = true
						}
					}
					return true
				})
			}
			keys := map[types.Object]bool{}
			for k := range te.vars {
				keys[k] = true
			}
			for k := range ee.vars {
				keys[k] = true
			}
			for k := range keys {
				if scoped[k] {
					delete(e.vars, k)
					continue
				}
				a, b := te.vars[k], ee.vars[k]
				switch {
				case a != nil && b != nil:
					e.vars[k] = ite(a, b)
				case a == nil && b == nil:
					e.vars[k] = nil
				default:
					return nil, false, e.fail(s, "variable %s assigned on one branch only", k.Name())
				}
			}
			for k, a := range te.arrs {
				b, ok := ee.arrs[k]
				if !ok || len(a) != len(b) {
					return nil, false, e.fail(s, "array %s defined on one branch only", k.Name())
				}
				if e.arrs == nil {
					e.arrs = map[types.Object][]*Ex{}
				}
				merged := make([]*Ex, len(a))
				for i := range a {
					if a[i] == b[i] {
						merged[i] = a[i]
					} else {
						merged[i] = ite(a[i], b[i])
					}
				}
				e.arrs[k] = merged
			}
			for k, a := range te.recs {
				b, ok := ee.recs[k]
				same := ok && len(a) == len(b)
				for f, c := range a {
					if same && b[f] != c {
						same = false
					}
				}
				if scoped[k] {
					continue
				}
				if !same {
					return nil, false, e.fail(s, "local record %s differs between branches", k.Name())
				}
				if e.recs == nil {
					e.recs = map[types.Object]map[string]codeSym{}
				}
				e.recs[k] = a
			}
			for k, a := range te.codes {
				if b, ok := ee.codes[k]; !ok || a != b {
					return nil, false, e.fail(s, "metric code variable %s differs between branches", k.Name())
				}
				e.codes[k] = a
			}
		case *ast.SwitchStmt:
			// a switch without fallthrough is the if / else-if chain of its cases
			// in source order, the default last
			if st.Init != nil {
				return nil, false, e.fail(s, "switch with initialiser")
			}
			var chain *ast.IfStmt
			var last *ast.IfStmt
			var deflt *ast.BlockStmt
			for _, cs := range st.Body.List {
				cc := cs.(*ast.CaseClause)
				for _, b := range cc.Body {
					if br, ok := b.(*ast.BranchStmt); ok && (br.Tok == token.FALLTHROUGH || br.Tok == token.BREAK) {
						return nil, false, e.fail(s, "switch with fallthrough or break")
					}
				}
				if cc.List == nil {
					deflt = &ast.BlockStmt{List: cc.Body}
					continue
				}
				var cond ast.Expr
				for _, ce := range cc.List {
					c := ce
					if st.Tag != nil {
						c = &ast.BinaryExpr{X: st.Tag, Op: token.EQL, Y: ce}
					}
					if cond == nil {
						cond = c
					} else {
						cond = &ast.BinaryExpr{X: cond, Op: token.LOR, Y: c}
					}
				}
				ifs := &ast.IfStmt{If: cc.Pos(), Cond: cond, Body: &ast.BlockStmt{List: cc.Body}}
				if chain == nil {
					chain = ifs
				} else {
					last.Else = ifs
				}
				last = ifs
			}
			var repl []ast.Stmt
			switch {
			case chain == nil && deflt != nil:
				repl = deflt.List
			case chain == nil:
			default:
				if deflt != nil {
					last.Else = deflt
				}
				repl = []ast.Stmt{chain}
			}
			return e.block(append(append([]ast.Stmt(nil), repl...), stmts[i+1:]...))
		case *ast.BlockStmt:
			r, ret, err := e.block(st.List)
			if err != nil || ret {
				return r, ret, err
			}
		case *ast.RangeStmt, *ast.ForStmt:
			// a loop over a small local array, or a counting loop with concrete
			// bounds, is unrolled (its body may not leave it early)
			if err := e.unroll(s); err != nil {
				return nil, false, err
			}
		case *ast.IncDecStmt:
			o := identObj(p.Info, st.X)
			if v, ok := e.ints[o]; ok {
				if st.Tok == token.INC {
					e.ints[o] = v + 1
				} else {
					e.ints[o] = v - 1
				}
				continue
			}
			return nil, false, e.fail(s, "statement %T outside the formula language", s)
		default:
			return nil, false, e.fail(s, "statement %T outside the formula language", s)
		}
	}
	return nil, false, nil
}

func (e *sEnv) unroll(s ast.Stmt) error {
	p := e.c.p
	info := p.Info
	leaves := false
	var body *ast.BlockStmt
	switch st := s.(type) {
	case *ast.RangeStmt:
		body = st.Body
	case *ast.ForStmt:
		body = st.Body
	}
	ast.Inspect(body, func(n ast.Node) bool {
		switch n.(type) {
		case *ast.BranchStmt, *ast.ReturnStmt:
			leaves = true
		}
		return true
	})
	if leaves {
		return e.fail(s, "loop left early: outside the formula language")
	}
	if e.ints == nil {
		e.ints = map[types.Object]int64{}
	}
	runBody := func() error {
		_, ret, err := e.block(body.List)
		if err != nil {
			return err
		}
		if ret {
			return e.fail(s, "return inside a loop")
		}
		return nil
	}
	switch st := s.(type) {
	case *ast.RangeStmt:
		ao := identObj(info, st.X)
		arr, ok := e.arrs[ao]
		n := len(arr)
		if !ok {
			// `for i := range N` with a concrete N
			c, okc := e.intOf(st.X)
			if !okc || c < 0 || c > 64 {
				return e.fail(s, "range over something other than a small local array")
			}
			n = int(c)
			if st.Value != nil {
				return e.fail(s, "range over an integer with two variables")
			}
		}
		var ko, vo types.Object
		if st.Key != nil {
			ko = identObj(info, st.Key)
		}
		if st.Value != nil {
			vo = identObj(info, st.Value)
		}
		for i := 0; i < n; i++ {
			if ko != nil {
				e.ints[ko] = int64(i)
			}
			if vo != nil {
				// the value variable is a copy taken when the loop started
				e.vars[vo] = arr[i]
			}
			if err := runBody(); err != nil {
				return err
			}
		}
		if ko != nil {
			delete(e.ints, ko)
		}
		return nil
	case *ast.ForStmt:
		as, ok := st.Init.(*ast.AssignStmt)
		if !ok || len(as.Lhs) != 1 || len(as.Rhs) != 1 || as.Tok != token.DEFINE {
			return e.fail(s, "loop without a counter initialisation")
		}
		co := identObj(info, as.Lhs[0])
		start, ok := e.intOf(as.Rhs[0])
		if !ok || co == nil {
			return e.fail(s, "loop counter does not start at a concrete integer")
		}
		inc, ok := st.Post.(*ast.IncDecStmt)
		if !ok || identObj(info, inc.X) != co || inc.Tok != token.INC {
			return e.fail(s, "loop post statement is not counter++")
		}
		if assignedIn(info, st.Body, co) {
			return e.fail(s, "loop counter written in the body")
		}
		be, ok := st.Cond.(*ast.BinaryExpr)
		if !ok || identObj(info, be.X) != co {
			return e.fail(s, "loop condition outside the formula language")
		}
		e.ints[co] = start
		for iter := 0; ; iter++ {
			if iter > 64 {
				return e.fail(s, "loop too long to unroll")
			}
			bound, ok := e.intOf(be.Y)
			if !ok {
				return e.fail(s, "loop bound is not a concrete integer")
			}
			cur := e.ints[co]
			var goOn bool
			switch be.Op {
			case token.LSS:
				goOn = cur < bound
			case token.LEQ:
				goOn = cur <= bound
			case token.NEQ:
				goOn = cur != bound
			default:
				return e.fail(s, "loop condition outside the formula language")
			}
			if !goOn {
				break
			}
			if err := runBody(); err != nil {
				return err
			}
			e.ints[co] = cur + 1
		}
		delete(e.ints, co)
		return nil
	}
	return e.fail(s, "statement %T outside the formula language", s)
}

// treeOf computes the formula tree of a method or function; float parameters
// become free symbols named after their position ("x").
func (c *symCtx) treeOf(fd *ast.FuncDecl) (*Ex, error) {
	e := &sEnv{c: c, vars: map[types.Object]*Ex{}, codes: map[types.Object]codeSym{}}
	for i, po := range paramObjs(c.p.Info, fd) {
		if isFloat(po.Type()) {
			name := "x"
			if i > 0 {
				name = fmt.Sprintf("x%d", i)
			}
			e.vars[po] = mkSym(name)
		}
	}
	c.curFn = fd.Name.Name
	r, ret, err := e.block(fd.Body.List)
	if err != nil {
		return nil, err
	}
	if !ret {
		return nil, undecidedf(fd, "%s does not return on every path", fd.Name.Name)
	}
	return r, nil
}

func (p *Pkg) newSymCtx(oracleRound *Ex, roundSym string) *symCtx {
	c := &symCtx{p: p, roundFns: map[*types.Func]bool{}, roundSym: roundSym}
	c.modFn, _ = p.findMod()
	if oracleRound != nil {
		for _, fd := range p.Funcs {
			if fd.Recv != nil || fd.Body == nil {
				continue
			}
			fn, _ := p.Info.Defs[fd.Name].(*types.Func)
			if fn == nil {
				continue
			}
			sig := fn.Type().(*types.Signature)
			if sig.Params().Len() != 1 || sig.Results().Len() != 1 || !isFloat(sig.Params().At(0).Type()) || !isFloat(sig.Results().At(0).Type()) {
				continue
			}
			t, err := (&symCtx{p: p, roundFns: map[*types.Func]bool{}}).treeOf(fd)
			if err == nil && t.String() == oracleRound.String() {
				c.roundFns[fn] = true
			} else if err == nil && roundSym == "ru" && containsRounding(t) {
				// written differently: decided on the integer it works on (roundsem.go)
				n, form, serr := semanticRound(t, oracleRound)
				if serr == nil {
					c.roundFns[fn] = true
					if c.roundSem == nil {
						c.roundSem = map[*types.Func]*roundSem{}
					}
					c.roundSem[fn] = &roundSem{fd: fd, name: fn.Name(), evals: n, form: form}
				} else {
					c.roundWhy = append(c.roundWhy, fn.Name()+": "+serr.Error())
				}
			}
		}
	}
	return c
}

// ---------------------------------------------------------------------------
// rule group: formula

var scoreMethods = []struct{ Method, Oracle string }{
	{"Impact", "Impact"}, {"Exploitability", "Expl"}, {"BaseScore", "Base"}, {"TemporalScore", "Temp"}, {"EnvironmentalScore", "Env"},
}

func (w *World) rulesFormula(out *[]Obligation) {
	trees := map[string]map[string]*Ex{}
	for _, k := range []string{"20", "30", "31"} {
		p := w.Pkgs[k]
		fam := "R03"
		if k == "20" {
			fam = "R05"
		}
		add := func(ok bool, rule, inst string, n ast.Node, detail string) {
			pos := k
			if n != nil {
				pos = p.pos(n)
			}
			*out = append(*out, Obligation{Rule: rule, Instance: k + "." + inst, Pos: pos, OK: ok, Detail: detail, NonTrivial: true})
		}
		oracle := parseFormulas(formulaSection(k), p.atomDomain)
		roundSym := "ru"
		if k == "20" {
			roundSym = "r1"
		}
		ctx := p.newSymCtx(oracle["round"], roundSym)
		// R0x.round
		if len(ctx.roundFns) == 0 {
			why := ""
			if len(ctx.roundWhy) > 0 {
				sort.Strings(ctx.roundWhy)
				why = "; " + strings.Join(ctx.roundWhy, "; ")
			}
			add(false, fam+".round", "round", nil, "no func(float64) float64 whose body is the specification's rounding algorithm: "+oracle["round"].String()+why)
		} else {
			for fn := range ctx.roundFns {
				if ctx.roundSem[fn] != nil {
					continue // reported once the call sites are known, below
				}
				add(true, fam+".round", "round["+fn.Name()+"]", p.FuncObj[fn], "body is exactly "+oracle["round"].String())
			}
		}
		// R10.modbody
		if k != "20" {
			if ctx.modFn == nil {
				_, why := p.findMod()
				add(false, "R10.modbody", "mod", nil, why)
			} else {
				add(true, "R10.modbody", "mod["+ctx.modFn.Name()+"]", p.FuncObj[ctx.modFn], "for all base, modified in 0..7: modified != 0 ? modified-1 : base (64-row truth table)")
			}
		}
		trees[k] = map[string]*Ex{}
		for _, sm := range scoreMethods {
			fd := p.method(sm.Method)
			if fd == nil {
				add(false, fam+".formula", sm.Method, nil, "scoring method missing")
				continue
			}
			// route obligations: every byte read — in the method and in the package functions it
			// calls on the same object — is one whole metric code, or a raw test decided by truth table
			var routeReaders []Reader
			{
				seenF := map[*ast.FuncDecl]bool{}
				work := []*ast.FuncDecl{fd}
				for len(work) > 0 {
					f := work[len(work)-1]
					work = work[:len(work)-1]
					if seenF[f] || f.Body == nil {
						continue
					}
					seenF[f] = true
					own := false
					for _, o := range scoreMethods {
						if f != fd && p.method(o.Method) == f {
							own = true // another score method: it has its own obligations
						}
					}
					if own {
						continue
					}
					routeReaders = append(routeReaders, p.readersIn(f.Body)...)
					ast.Inspect(f.Body, func(n ast.Node) bool {
						if c, ok := n.(*ast.CallExpr); ok {
							if fn := calleeOf(p.Info, c); fn != nil && fn.Pkg() == p.P.Types {
								if d := p.FuncObj[fn]; d != nil && d != p.method("Get") && d != p.method("Set") {
									work = append(work, d)
								}
							}
						}
						return true
					})
				}
			}
			for _, r := range routeReaders {
				inst := fmt.Sprintf("%s.read[%s]", sm.Method, strings.Join(r.Metrics, "+"))
				if r.Exact != "" {
					add(true, fam+".route", inst, r.Expr, "reads code("+r.Exact+") in Set's bit order")
					continue
				}
				parentCmp := false
				for i := len(r.Path) - 2; i >= 0; i-- {
					if _, ok := r.Path[i].(*ast.ParenExpr); ok {
						continue
					}
					if be, ok := r.Path[i].(*ast.BinaryExpr); ok {
						switch be.Op {
						case token.EQL, token.NEQ:
							_, c1 := constUint(p.Info, be.X)
							_, c2 := constUint(p.Info, be.Y)
							parentCmp = c1 || c2
						}
					}
					break
				}
				if parentCmp && len(r.Metrics) >= 1 && len(r.Unused) == 0 {
					add(true, fam+".route", inst, r.Expr, fmt.Sprintf("raw test over bits of {%s}, decided by its truth table", strings.Join(r.Metrics, ",")))
				} else {
					add(false, fam+".route", inst, r.Expr, fmt.Sprintf("reads %s: not the whole field of one metric in Set's bit order", r))
				}
			}
			ctx.mods = nil
			t, err := ctx.treeOf(fd)
			// R10.mod sites (v3 EnvironmentalScore)
			for _, ms := range ctx.mods {
				if ms.In == sm.Method {
					add(ms.OK, "R10.mod", fmt.Sprintf("%s.mod[%s]", sm.Method, ms.Base), ms.Call, ms.Why)
				}
			}
			if err != nil {
				pos := ast.Node(fd)
				add(false, fam+".formula", sm.Method, pos, "cannot derive the formula tree (undecided): "+err.Error()+posSuffix(p, err))
				continue
			}
			trees[k][sm.Method] = t
			want := oracle[sm.Oracle]
			if want == nil {
				add(false, fam+".formula", sm.Method, fd, "no oracle formula")
				continue
			}
			t = normIte(t)
			want = normIte(want)
			if t.String() == want.String() {
				add(true, fam+".formula", sm.Method, fd, "canonical tree equals the specification equation: "+clip(t.String()))
			} else {
				add(false, fam+".formula", sm.Method, fd, "formula differs from the specification: "+firstDiff(t, want))
			}
			// R11.ret: every leaf of the return tree is round(...) or constant 0
			if sm.Method != "Impact" && sm.Method != "Exploitability" {
				okR, why := leavesRounded(t, roundSym)
				add(okR, "R11.ret", sm.Method, fd, why)
				if k != "20" {
					okC, whyC := capped(t, roundSym)
					add(okC, "R11.cap", sm.Method, fd, whyC)
				}
			}
			// R10.base: read-set of Base/Temporal scores
			if k != "20" {
				syms := symbolsOf(t)
				var badSyms []string
				for s := range syms {
					ms := metricsOfSymbol(s)
					for _, m := range ms {
						om := vocab[k].byAbv[strings.TrimPrefix(m, "e")]
						if strings.HasPrefix(m, "e") && vocab[k].byAbv[m] == nil {
							om = vocab[k].byAbv[m[1:]]
							if sm.Method != "EnvironmentalScore" {
								badSyms = append(badSyms, s)
							}
							_ = om
							continue
						}
						om = vocab[k].byAbv[m]
						if om == nil {
							continue
						}
						switch sm.Method {
						case "BaseScore", "Impact", "Exploitability":
							if om.Group != "base" {
								badSyms = append(badSyms, s)
							}
						case "TemporalScore":
							if om.Group != "base" && om.Group != "temporal" {
								badSyms = append(badSyms, s)
							}
						case "EnvironmentalScore":
							// an overridable base metric must only appear as effective value
							if om.Group == "base" {
								badSyms = append(badSyms, s)
							}
						}
					}
				}
				sort.Strings(badSyms)
				if len(badSyms) == 0 {
					add(true, "R10.base", sm.Method, fd, fmt.Sprintf("%d symbols; read-set respects the metric groups (%s)", len(syms), map[bool]string{true: "base metrics only through eff()", false: "no environmental metric"}[sm.Method == "EnvironmentalScore"]))
				} else {
					add(false, "R10.base", sm.Method, fd, "the score depends on "+strings.Join(badSyms, ", ")+", outside the metric group(s) this score may read")
				}
			}
		}
		// R03.round, semantic path: the helper agrees with the specification's algorithm on
		// the integers of [0, tMax]; every call site must stay inside that domain
		for fn, rs := range ctx.roundSem {
			weights := p.codeWeights(ctx)
			u := ival{math.Inf(1), math.Inf(-1)}
			nSites := 0
			var serr error
			for _, mname := range []string{"BaseScore", "TemporalScore", "EnvironmentalScore"} {
				t := trees[k][mname]
				if t == nil {
					serr = fmt.Errorf("no formula tree for %s", mname)
					break
				}
				iv, n, err := roundSites(normIte(t), weights, roundSym, oracle["round"])
				if err != nil {
					serr = fmt.Errorf("%s: %v", mname, err)
					break
				}
				nSites += n
				u.lo, u.hi = math.Min(u.lo, iv.lo), math.Max(u.hi, iv.hi)
			}
			switch {
			case serr != nil:
				add(false, fam+".round", "round["+fn.Name()+"]", rs.fd, "the helper is not the specification's algorithm verbatim and the range of its arguments cannot be bounded (undecided): "+serr.Error())
			case nSites == 0 || u.lo < 0 || u.hi*100000 > roundSemTMax-1:
				add(false, fam+".round", "round["+fn.Name()+"]", rs.fd, fmt.Sprintf("the helper is not the specification's algorithm verbatim; it agrees with it for arguments in [0, %g] only, and the %d call sites are bounded by [%g, %g] (undecided)", float64(roundSemTMax)/100000, nSites, u.lo, u.hi))
			default:
				add(true, fam+".round", "round["+fn.Name()+"]", rs.fd, fmt.Sprintf("reads its argument only through the integer t = RoundToEven(100000·x); as a function of t (%s) it returns bit for bit what the specification's algorithm returns for all %d integers t in [0, %d]; the %d call sites in the score formulas pass arguments within [%.6g, %.6g] (interval analysis over the package's weight tables, path comparisons included)", clip(rs.form), rs.evals, roundSemTMax, nSites, u.lo, u.hi))
			}
		}
		w.rulesWeights(p, ctx, fam, out)
		w.rulesRealMono(p, ctx, trees[k], oracle["round"], roundSym, out)
		w.rulesFloatSafe(p, fam, p.codeWeights(ctx), trees[k], oracle["round"], roundSym, out)
	}
	// R03.sibling: 3.0 and 3.1 differ only in the oracle-sanctioned leaf
	for _, sm := range scoreMethods {
		a, b := trees["30"][sm.Method], trees["31"][sm.Method]
		if a == nil || b == nil {
			continue
		}
		a, b = normIte(a), normIte(b)
		same := a.String() == b.String()
		wantSame := sm.Method != "EnvironmentalScore"
		ok := same == wantSame
		det := "3.0 and 3.1 trees identical"
		if !wantSame {
			det = "3.0 and 3.1 differ (ModifiedImpact for changed scope), as the two specifications do"
		}
		if !ok {
			det = "3.0 and 3.1 copies disagree: " + firstDiff(a, b)
			if !wantSame {
				det = "3.0 and 3.1 EnvironmentalScore are identical although the specifications differ"
			}
		}
		*out = append(*out, Obligation{Rule: "R03.sibling", Instance: "30~31." + sm.Method, Pos: "30,31", OK: ok, Detail: det, NonTrivial: true})
	}
}

func posSuffix(p *Pkg, err error) string {
	if u, ok := err.(*undecided); ok && u.pos.IsValid() {
		return " at " + p.posAt(u.pos)
	}
	if se, ok := err.(*semitErr); ok && se.at != nil {
		return " at " + p.pos(se.at)
	}
	return ""
}

func symbolsOf(e *Ex) map[string]bool {
	out := map[string]bool{}
	var walk func(x *Ex)
	walk = func(x *Ex) {
		if x == nil {
			return
		}
		if x.Op == "sym" {
			out[x.Name] = true
		}
		if x.Op == "ite" {
			if x.Cond.Kind == "in" {
				out["["+x.Cond.Atom+"]"] = true
			} else {
				walk(x.Cond.L)
				walk(x.Cond.R)
			}
		}
		for _, a := range x.Args {
			walk(a)
		}
	}
	walk(e)
	return out
}

// metricsOfSymbol: "W(ePR|eS)" -> [ePR eS]; "[eS in {U}]" -> [eS]
func metricsOfSymbol(s string) []string {
	if strings.HasPrefix(s, "W(") {
		return strings.Split(strings.TrimSuffix(strings.TrimPrefix(s, "W("), ")"), "|")
	}
	if strings.HasPrefix(s, "[") {
		body := strings.TrimPrefix(s, "[")
		if i := strings.Index(body, " in "); i >= 0 {
			return strings.Split(body[:i], ",")
		}
	}
	return nil
}

func leavesRounded(t *Ex, roundSym string) (bool, string) {
	n := 0
	var bad string
	var walk func(x *Ex)
	walk = func(x *Ex) {
		switch {
		case x.Op == "ite":
			walk(x.Args[0])
			walk(x.Args[1])
		case x.Op == "call" && x.Name == roundSym:
			n++
		case x.Op == "const" && x.C.Sign() == 0:
			n++
		default:
			bad = clip(x.String())
		}
	}
	walk(t)
	if bad != "" {
		return false, "a return path yields an unrounded value: " + bad
	}
	return true, fmt.Sprintf("all %d return leaves are %s(...) or the constant 0", n, roundSym)
}

// capped: every rounded leaf is <= 10 by shape: min(.,10), possibly rounded and
// multiplied by weights (checked <= 1 by R11.weightcap), or a product of such.
func capped(t *Ex, roundSym string) (bool, string) {
	var le10 func(x *Ex) bool
	le10 = func(x *Ex) bool {
		switch x.Op {
		case "const":
			return x.C.Cmp(big.NewRat(10, 1)) <= 0
		case "ite":
			return le10(x.Args[0]) && le10(x.Args[1])
		case "call":
			if x.Name == roundSym {
				return le10(x.Args[0])
			}
			if x.Name == "min" {
				for _, a := range x.Args {
					if a.Op == "const" && a.C.Cmp(big.NewRat(10, 1)) <= 0 {
						return true
					}
				}
			}
			return false
		case "prod":
			// one factor <= 10, all others temporal weights W(E), W(RL), W(RC) (<= 1)
			big10 := 0
			for _, a := range x.Args {
				if a.Op == "sym" && (a.Name == "W(E)" || a.Name == "W(RL)" || a.Name == "W(RC)") {
					continue
				}
				if le10(a) {
					big10++
					continue
				}
				return false
			}
			return big10 <= 1
		}
		return false
	}
	if le10(t) {
		return true, "every return leaf is bounded by min(·, 10) (times temporal weights <= 1) or is 0"
	}
	return false, "a return leaf is not under min(·, 10): the score can exceed the scale"
}

// rulesWeights: R0x.weights, R09.exhaustive (weight switches), R10.default, R12.weights
func (w *World) rulesWeights(p *Pkg, ctx *symCtx, fam string, out *[]Obligation) {
	k := p.Key
	ov := vocab[k]
	wo := weightOracles[k]
	sm := p.SetModel()
	add := func(ok bool, rule, inst string, n ast.Node, detail string) {
		*out = append(*out, Obligation{Rule: rule, Instance: k + "." + inst, Pos: p.pos(n), OK: ok, Detail: detail, NonTrivial: true})
	}
	done := map[string]bool{}
	for _, u := range ctx.uses {
		var names []string
		for _, a := range u.Args {
			names = append(names, a.Name())
		}
		key := u.Name() + "(" + strings.Join(names, "|") + ")"
		if done[key] {
			continue
		}
		done[key] = true
		// domains
		var doms [][]string
		var bases []string
		for _, a := range u.Args {
			doms = append(doms, p.atomDomain(a.Name()))
			bases = append(bases, a.Metric)
		}
		oname := strings.Join(bases, "|")
		table := wo.Weights[oname]
		if table == nil {
			add(false, fam+".weights", key, u.Call, "no specification weight table for "+oname+": helper applied to a metric it is not defined for")
			continue
		}
		cells := map[string]*big.Rat{}
		okAll := true
		var why []string
		cur := make([]int, len(doms))
		var rec func(i int)
		rec = func(i int) {
			if i == len(doms) {
				var vals []string
				for j := range doms {
					vals = append(vals, doms[j][cur[j]])
				}
				vkey := strings.Join(vals, "|")
				v, err := u.eval(p, cur)
				if err != nil {
					okAll = false
					if _, isP := err.(*panicked); isP {
						why = append(why, fmt.Sprintf("%s:%s reaches the panicking default (no case for code %v)", oname, vkey, cur))
					} else {
						why = append(why, fmt.Sprintf("%s:%s undecided: %v", oname, vkey, err))
					}
					return
				}
				ws, has := table[vkey]
				if !has {
					okAll = false
					why = append(why, fmt.Sprintf("specification has no weight for %s:%s", oname, vkey))
					return
				}
				want, _ := new(big.Rat).SetString(ws)
				if v.K != VRat && v.K != VInt {
					okAll = false
					why = append(why, fmt.Sprintf("%s:%s yields %s", oname, vkey, v))
					return
				}
				got := toRat(v)
				cells[vkey] = got
				if got.Cmp(want) != 0 {
					okAll = false
					why = append(why, fmt.Sprintf("%s:%s weighs %s, specification says %s", oname, vkey, got.FloatString(4), ws))
				}
				return
			}
			for c := range doms[i] {
				cur[i] = c
				rec(i + 1)
			}
		}
		rec(0)
		if okAll {
			add(true, fam+".weights", key, u.Call, fmt.Sprintf("%d cells equal the specification table of %s", len(cells), oname))
		} else {
			add(false, fam+".weights", key, u.Call, strings.Join(why, "; "))
		}
		add(!containsPanic(why), "R09.exhaustive", key, u.Call, map[bool]string{true: "the helper has a non-panicking case for every reachable code of its argument", false: strings.Join(why, "; ")}[!containsPanic(why)])
		// R10.default + R12.weights for single-argument helpers
		if len(u.Args) == 1 {
			om := ov.byAbv[u.Args[0].Metric]
			if om != nil && om.Default != "" && !u.Args[0].Eff {
				a, b := cells[ov.ND], cells[om.Default]
				if a != nil && b != nil {
					add(a.Cmp(b) == 0, "R10.default", key, u.Call, fmt.Sprintf("weight(%s)=%s %s weight(%s)=%s (the specification's default for an undefined %s)", ov.ND, a.FloatString(3), map[bool]string{true: "==", false: "!="}[a.Cmp(b) == 0], om.Default, b.FloatString(3), om.Abv))
				}
			}
			if om != nil {
				// severity order: om.Values least -> most severe, ND first for optional metrics
				var prev *big.Rat
				var prevV string
				mono := true
				var whyM string
				for _, v := range om.Values {
					if v == ov.ND && om.Default != "" {
						continue
					}
					c := cells[v]
					if c == nil {
						continue
					}
					if prev != nil && c.Cmp(prev) < 0 {
						mono = false
						whyM = fmt.Sprintf("%s:%s (%s) weighs less than the less severe %s (%s)", om.Abv, v, c.FloatString(3), prevV, prev.FloatString(3))
					}
					prev, prevV = c, v
				}
				add(mono, "R12.weights", key, u.Call, map[bool]string{true: "weights are non-decreasing along the specification's severity order " + fmt.Sprint(om.Values), false: whyM}[mono])
			}
		} else if len(u.Args) == 2 {
			// PR|S: monotone in PR for each scope, and changed >= unchanged
			om := ov.byAbv[u.Args[0].Metric]
			os := ov.byAbv[u.Args[1].Metric]
			mono := true
			whyM := ""
			if om != nil && os != nil {
				for _, sv := range os.Values {
					var prev *big.Rat
					for _, v := range om.Values {
						c := cells[v+"|"+sv]
						if c == nil {
							continue
						}
						if prev != nil && c.Cmp(prev) < 0 {
							mono = false
							whyM = fmt.Sprintf("%s:%s under %s:%s weighs less than a less severe value", om.Abv, v, os.Abv, sv)
						}
						prev = c
					}
				}
				for _, v := range om.Values {
					var prev *big.Rat
					for _, sv := range os.Values {
						c := cells[v+"|"+sv]
						if c == nil {
							continue
						}
						if prev != nil && c.Cmp(prev) < 0 {
							mono = false
							whyM = fmt.Sprintf("%s:%s weighs less under the more severe %s:%s", om.Abv, v, os.Abv, sv)
						}
						prev = c
					}
				}
				add(mono, "R12.weights", key, u.Call, map[bool]string{true: "weights non-decreasing in both arguments' severity orders", false: whyM}[mono])
			}
		}
		_ = sm
	}
}

func containsPanic(why []string) bool {
	for _, s := range why {
		if strings.Contains(s, "panicking default") {
			return true
		}
	}
	return false
}

func init() {
	registerGroup("formula", func(w *World, out *[]Obligation) { w.rulesFormula(out) })
}

// isPkgLevelOrConst: the expression denotes a package-level variable (a table) or a constant.
func (p *Pkg) isPkgLevelOrConst(e ast.Expr) bool {
	if tv, ok := p.Info.Types[e]; ok && tv.Value != nil {
		return true
	}
	switch x := e.(type) {
	case *ast.ParenExpr:
		return p.isPkgLevelOrConst(x.X)
	case *ast.Ident:
		o := p.Info.Uses[x]
		if v, ok := o.(*types.Var); ok && v.Parent() == p.P.Types.Scope() {
			return true
		}
	case *ast.SliceExpr:
		return x.Low == nil && x.High == nil && p.isPkgLevelOrConst(x.X)
	case *ast.IndexExpr:
		if _, ok := constUint(p.Info, x.Index); ok {
			return p.isPkgLevelOrConst(x.X)
		}
	}
	return false
}

// isLeafHelper: the function performs no floating-point arithmetic itself: it
// only selects a constant (switch, table lookup, another selecting helper), so
// it is a table of weights over its code arguments. A helper that combines
// values arithmetically is a piece of a formula and is inlined instead.
func (p *Pkg) isLeafHelper(fd *ast.FuncDecl) bool {
	leaf := true
	ast.Inspect(fd.Body, func(n ast.Node) bool {
		be, ok := n.(*ast.BinaryExpr)
		if !ok {
			return true
		}
		switch be.Op {
		case token.ADD, token.SUB, token.MUL, token.QUO:
			if tv, ok := p.Info.Types[be]; ok && isFloat(tv.Type) && tv.Value == nil {
				leaf = false
			}
		}
		return true
	})
	return leaf
}
