package main

// Semantic recognition of the v3 rounding helper (R03.round, second path).
//
// The first path of R03.round accepts a helper whose canonical tree IS the
// specification's Roundup algorithm. A helper written differently — integer
// arithmetic after the conversion, math.Ceil instead of the remainder test —
// is decided here by a decomposition argument:
//
//  1. Both the specification's algorithm and the candidate read their argument
//     only through the same subterm h(x) = RoundToEven(100000·x), which is
//     integer-valued. Replace h(x) by a fresh variable t: spec = gs(t),
//     candidate = gf(t), and x no longer occurs.
//  2. gf(t) and gs(t) are loop-free trees over one integer variable. They are
//     evaluated in the checker, in float64, for every integer t of the domain
//     D = [0, tMax]; they must agree bit for bit. (n-ary sums and products over
//     non-integers, whose float64 value depends on the association order the
//     canonical tree no longer records, make the comparison undecided.)
//  3. Every call site of the helper is shown to pass an argument x with
//     RoundToEven(100000·x) in D: an interval analysis of the canonical score
//     trees — weights range over the package's own tables, comparisons against
//     constants on the path refine the compared term — bounds each argument of
//     the rounding symbol. The result of an inner rounding call is bounded by
//     the specification's function at the interval's ends (gs is checked to be
//     non-decreasing on D in step 2).
//
// 1–3 together give: at every call site the candidate returns exactly what the
// specification's Roundup returns. Anything that cannot be shown is "undecided"
// and fails the rule, as before.

import (
	"fmt"
	"go/ast"
	"math"
	"math/big"
	"strings"
)

const roundSemTMax = 1_100_000 // arguments up to 11.0

type roundSem struct {
	fd    *ast.FuncDecl
	name  string
	evals int
	form  string // gf, for the evidence
}

// innermostRounding returns the unique innermost Round/RoundToEven call of t
// that contains the symbol x.
func innermostRounding(t *Ex) *Ex {
	var found *Ex
	multiple := false
	var walk func(n *Ex) bool // reports whether n contains x
	walk = func(n *Ex) bool {
		has := n.Op == "sym" && n.Name == "x"
		inner := false
		kids := append([]*Ex(nil), n.Args...)
		if n.Op == "ite" && n.Cond != nil && n.Cond.Kind == "cmp" {
			kids = append(kids, n.Cond.L, n.Cond.R)
		}
		for _, a := range kids {
			if walk(a) {
				has = true
			}
		}
		if n.Op == "call" && (n.Name == "RoundToEven" || n.Name == "Round") && has {
			for _, a := range n.Args {
				if containsRounding(a) {
					inner = true
				}
			}
			if !inner {
				if found != nil && found.String() != n.String() {
					multiple = true
				}
				found = n
			}
		}
		return has
	}
	walk(t)
	if multiple {
		return nil
	}
	return found
}

func containsRounding(n *Ex) bool {
	if n.Op == "call" && (n.Name == "RoundToEven" || n.Name == "Round") {
		return true
	}
	for _, a := range n.Args {
		if containsRounding(a) {
			return true
		}
	}
	if n.Op == "ite" && n.Cond != nil && n.Cond.Kind == "cmp" {
		return containsRounding(n.Cond.L) || containsRounding(n.Cond.R)
	}
	return false
}

// substEx replaces every subterm whose text is key by repl (structure is shared
// otherwise; canonical constructors are not re-run, the result is only evaluated).
func substEx(n *Ex, key string, repl *Ex) *Ex {
	if n.String() == key {
		return repl
	}
	if !strings.Contains(n.String(), key) {
		return n
	}
	c := &Ex{Op: n.Op, C: n.C, Name: n.Name, N: n.N}
	for _, a := range n.Args {
		c.Args = append(c.Args, substEx(a, key, repl))
	}
	if n.Cond != nil {
		cc := *n.Cond
		if cc.Kind == "cmp" {
			cc.L = substEx(cc.L, key, repl)
			cc.R = substEx(cc.R, key, repl)
		}
		c.Cond = &cc
	}
	return c
}

func mentionsSym(n *Ex, name string) bool {
	if n.Op == "sym" && n.Name == name {
		return true
	}
	for _, a := range n.Args {
		if mentionsSym(a, name) {
			return true
		}
	}
	if n.Cond != nil && n.Cond.Kind == "cmp" {
		return mentionsSym(n.Cond.L, name) || mentionsSym(n.Cond.R, name)
	}
	return false
}

type natErr struct{ why string }

func (e *natErr) Error() string { return e.why }

func isIntF(v float64) bool { return v == math.Trunc(v) && math.Abs(v) < 1<<52 }

// evalNative evaluates a tree over the single variable t in float64.
func evalNative(n *Ex, t float64) (float64, error) {
	switch n.Op {
	case "const":
		f, _ := n.C.Float64()
		return f, nil
	case "sym":
		if n.Name == "t" {
			return t, nil
		}
		return 0, &natErr{"free symbol " + n.Name}
	case "sum", "prod":
		vals := make([]float64, len(n.Args))
		allInt := true
		for i, a := range n.Args {
			v, err := evalNative(a, t)
			if err != nil {
				return 0, err
			}
			vals[i] = v
			if !isIntF(v) {
				allInt = false
			}
		}
		if len(vals) > 2 && !allInt {
			return 0, &natErr{"a sum or product of more than two non-integer terms: its float64 value depends on the association order"}
		}
		acc := vals[0]
		for _, v := range vals[1:] {
			if n.Op == "sum" {
				acc += v
			} else {
				acc *= v
			}
		}
		if len(vals) > 2 && !isIntF(acc) {
			return 0, &natErr{"integer sum or product out of the exact range"}
		}
		return acc, nil
	case "div":
		a, err := evalNative(n.Args[0], t)
		if err != nil {
			return 0, err
		}
		b, err := evalNative(n.Args[1], t)
		if err != nil {
			return 0, err
		}
		if b == 0 {
			return 0, &natErr{"division by zero"}
		}
		return a / b, nil
	case "pow":
		return 0, &natErr{"power in a rounding helper"}
	case "ite":
		c := n.Cond
		if c == nil || c.Kind != "cmp" {
			return 0, &natErr{"metric condition in a rounding helper"}
		}
		l, err := evalNative(c.L, t)
		if err != nil {
			return 0, err
		}
		r, err := evalNative(c.R, t)
		if err != nil {
			return 0, err
		}
		var take bool
		switch c.Op {
		case "==":
			take = l == r
		case "<=":
			take = l <= r
		case "<":
			take = l < r
		default:
			return 0, &natErr{"comparison " + c.Op}
		}
		if take {
			return evalNative(n.Args[0], t)
		}
		return evalNative(n.Args[1], t)
	case "call":
		var args []float64
		for _, a := range n.Args {
			v, err := evalNative(a, t)
			if err != nil {
				return 0, err
			}
			args = append(args, v)
		}
		switch n.Name {
		case "Floor":
			return math.Floor(args[0]), nil
		case "Ceil":
			return math.Ceil(args[0]), nil
		case "Round":
			return math.Round(args[0]), nil
		case "RoundToEven":
			return math.RoundToEven(args[0]), nil
		case "Trunc":
			return math.Trunc(args[0]), nil
		case "Abs":
			return math.Abs(args[0]), nil
		case "int":
			if math.IsNaN(args[0]) || math.Abs(args[0]) >= 1<<52 {
				return 0, &natErr{"integer conversion out of the exact range"}
			}
			return math.Trunc(args[0]), nil
		case "float":
			return args[0], nil
		case "idiv", "imod":
			if !isIntF(args[0]) || !isIntF(args[1]) || args[1] == 0 {
				return 0, &natErr{"integer division of a non-integer"}
			}
			a, b := int64(args[0]), int64(args[1])
			if n.Name == "idiv" {
				return float64(a / b), nil
			}
			return float64(a % b), nil
		case "min":
			return math.Min(args[0], args[1]), nil
		case "max":
			return math.Max(args[0], args[1]), nil
		}
		return 0, &natErr{"call " + n.Name}
	}
	return 0, &natErr{"node " + n.Op}
}

// semanticRound decides steps 1 and 2 for a candidate helper tree.
func semanticRound(cand, oracle *Ex) (int, string, error) {
	h := innermostRounding(oracle)
	if h == nil {
		return 0, "", &natErr{"the specification's algorithm has no single integer rounding step"}
	}
	tSym := mkSym("t")
	gs := substEx(oracle, h.String(), tSym)
	gf := substEx(cand, h.String(), tSym)
	if mentionsSym(gs, "x") {
		return 0, "", &natErr{"the specification's algorithm reads its argument outside " + h.String()}
	}
	if !mentionsSym(gf, "t") || mentionsSym(gf, "x") {
		return 0, "", &natErr{"the helper does not read its argument only through " + h.String()}
	}
	prev := math.Inf(-1)
	for t := 0; t <= roundSemTMax; t++ {
		a, err := evalNative(gf, float64(t))
		if err != nil {
			return 0, "", err
		}
		b, err := evalNative(gs, float64(t))
		if err != nil {
			return 0, "", err
		}
		if math.Float64bits(a) != math.Float64bits(b) {
			return 0, "", &natErr{fmt.Sprintf("for %s = %d the helper returns %v, the specification's algorithm %v", h.String(), t, a, b)}
		}
		if b < prev {
			return 0, "", &natErr{"the specification's algorithm is not monotone on the domain"}
		}
		prev = b
	}
	return roundSemTMax + 1, gf.String(), nil
}

// ---------------------------------------------------------------------------
// step 3: interval analysis of the arguments of the rounding symbol

type ival struct{ lo, hi float64 }

func (a ival) widen() ival {
	w := func(v float64, up bool) float64 {
		if v == 0 || math.IsInf(v, 0) {
			return v
		}
		d := math.Abs(v) * 1e-12
		if up {
			return v + d
		}
		return v - d
	}
	return ival{w(a.lo, false), w(a.hi, true)}
}

type ivRefine struct {
	terms []string // the refined expression as a multiset of summands (one for a non-sum)
	iv    ival
}

type ivEnv struct {
	weights  map[string]map[string]*big.Rat
	refs     []ivRefine
	roundSym string
	round    func(float64) float64 // the specification's rounding function
	sites    *[]ival               // argument interval of every rounding call met (shared by derived environments)
	wcache   map[string]ival
}

func summands(n *Ex) []string {
	if n.Op == "sum" {
		var out []string
		for _, a := range n.Args {
			out = append(out, a.String())
		}
		return out
	}
	return []string{n.String()}
}

func (e *ivEnv) with(r ivRefine) *ivEnv {
	c := *e
	c.refs = append(append([]ivRefine(nil), e.refs...), r)
	return &c
}

func mulIv(a, b ival) ival {
	c := []float64{a.lo * b.lo, a.lo * b.hi, a.hi * b.lo, a.hi * b.hi}
	out := ival{math.Inf(1), math.Inf(-1)}
	for _, v := range c {
		if math.IsNaN(v) {
			return ival{math.Inf(-1), math.Inf(1)}
		}
		out.lo = math.Min(out.lo, v)
		out.hi = math.Max(out.hi, v)
	}
	return out.widen()
}

func (e *ivEnv) of(n *Ex) (ival, error) {
	iv, err := e.raw(n)
	if err != nil {
		return iv, err
	}
	// a refinement of exactly this term
	key := n.String()
	for _, r := range e.refs {
		if len(r.terms) == 1 && r.terms[0] == key {
			iv.lo = math.Max(iv.lo, r.iv.lo)
			iv.hi = math.Min(iv.hi, r.iv.hi)
		}
	}
	return iv, nil
}

func (e *ivEnv) raw(n *Ex) (ival, error) {
	switch n.Op {
	case "const":
		f, _ := n.C.Float64()
		return ival{f, f}.widen(), nil
	case "sym":
		if iv, ok := e.wcache[n.Name]; ok {
			return iv, nil
		}
		if !strings.HasPrefix(n.Name, "W(") {
			return ival{}, &natErr{"free symbol " + n.Name}
		}
		var bases []string
		for _, nm := range strings.Split(strings.TrimSuffix(strings.TrimPrefix(n.Name, "W("), ")"), "|") {
			if strings.HasPrefix(nm, "e") && len(nm) > 1 {
				// an effective value ranges over the base metric's values
				if _, ok := e.weights[nm]; !ok {
					nm = nm[1:]
				}
			}
			bases = append(bases, nm)
		}
		tbl := e.weights[strings.Join(bases, "|")]
		if len(tbl) == 0 {
			return ival{}, &natErr{"no weight table for " + n.Name}
		}
		iv := ival{math.Inf(1), math.Inf(-1)}
		for _, w := range tbl {
			f, _ := w.Float64()
			iv.lo = math.Min(iv.lo, f)
			iv.hi = math.Max(iv.hi, f)
		}
		iv = iv.widen()
		e.wcache[n.Name] = iv
		return iv, nil
	case "sum":
		// a refined sub-sum: its interval plus the interval of the remaining summands
		all := summands(n)
		for _, r := range e.refs {
			if len(r.terms) > len(all) || (len(r.terms) == 1 && len(all) == 1) {
				continue
			}
			used := make([]bool, len(all))
			okAll := true
			for _, t := range r.terms {
				f := false
				for i, s := range all {
					if !used[i] && s == t {
						used[i], f = true, true
						break
					}
				}
				if !f {
					okAll = false
					break
				}
			}
			if !okAll {
				continue
			}
			acc := r.iv
			// the unrefined interval of the matched part still holds: intersect
			part := ival{0, 0}
			for i, a := range n.Args {
				if used[i] {
					iv, err := e.of(a)
					if err != nil {
						return ival{}, err
					}
					part = ival{part.lo + iv.lo, part.hi + iv.hi}
				}
			}
			acc.lo = math.Max(acc.lo, part.lo)
			acc.hi = math.Min(acc.hi, part.hi)
			for i, a := range n.Args {
				if !used[i] {
					iv, err := e.of(a)
					if err != nil {
						return ival{}, err
					}
					acc = ival{acc.lo + iv.lo, acc.hi + iv.hi}
				}
			}
			return acc.widen(), nil
		}
		acc := ival{0, 0}
		for _, a := range n.Args {
			iv, err := e.of(a)
			if err != nil {
				return ival{}, err
			}
			acc = ival{acc.lo + iv.lo, acc.hi + iv.hi}
		}
		return acc.widen(), nil
	case "prod":
		// equal factors multiply as a power (x·x >= 0)
		acc := ival{1, 1}
		i := 0
		for i < len(n.Args) {
			j := i
			for j < len(n.Args) && n.Args[j].String() == n.Args[i].String() {
				j++
			}
			iv, err := e.of(n.Args[i])
			if err != nil {
				return ival{}, err
			}
			k := j - i
			p := ival{1, 1}
			for q := 0; q < k; q++ {
				p = mulIv(p, iv)
			}
			if k%2 == 0 {
				lo := 0.0
				if iv.lo > 0 || iv.hi < 0 {
					lo = math.Min(math.Pow(math.Abs(iv.lo), float64(k)), math.Pow(math.Abs(iv.hi), float64(k)))
				}
				p = ival{lo, math.Max(math.Pow(math.Abs(iv.lo), float64(k)), math.Pow(math.Abs(iv.hi), float64(k)))}.widen()
			}
			acc = mulIv(acc, p)
			i = j
		}
		return acc, nil
	case "pow":
		iv, err := e.of(n.Args[0])
		if err != nil {
			return ival{}, err
		}
		k := float64(n.N)
		if n.N%2 == 1 {
			return ival{math.Pow(iv.lo, k), math.Pow(iv.hi, k)}.widen(), nil
		}
		lo := 0.0
		if iv.lo > 0 || iv.hi < 0 {
			lo = math.Min(math.Pow(math.Abs(iv.lo), k), math.Pow(math.Abs(iv.hi), k))
		}
		return ival{lo, math.Max(math.Pow(math.Abs(iv.lo), k), math.Pow(math.Abs(iv.hi), k))}.widen(), nil
	case "div":
		a, err := e.of(n.Args[0])
		if err != nil {
			return ival{}, err
		}
		b, err := e.of(n.Args[1])
		if err != nil {
			return ival{}, err
		}
		if b.lo <= 0 && b.hi >= 0 {
			return ival{}, &natErr{"division by an interval containing zero"}
		}
		return mulIv(a, ival{1 / b.hi, 1 / b.lo}), nil
	case "ite":
		c := n.Cond
		te, ee := e, e
		if c != nil && c.Kind == "cmp" {
			refine := func(x *Ex, bound float64, upper bool, env *ivEnv) *ivEnv {
				iv := ival{math.Inf(-1), math.Inf(1)}
				if upper {
					iv.hi = bound
				} else {
					iv.lo = bound
				}
				return env.with(ivRefine{terms: summands(x), iv: iv})
			}
			switch {
			case c.R.Op == "const" && (c.Op == "<=" || c.Op == "<"):
				f, _ := c.R.C.Float64()
				te = refine(c.L, f, true, e)  // L <= f
				ee = refine(c.L, f, false, e) // L >= f
			case c.L.Op == "const" && (c.Op == "<=" || c.Op == "<"):
				f, _ := c.L.C.Float64()
				te = refine(c.R, f, false, e) // f <= R
				ee = refine(c.R, f, true, e)
			case c.R.Op == "const" && c.Op == "==":
				f, _ := c.R.C.Float64()
				te = refine(c.L, f, true, refine(c.L, f, false, e))
			}
			// the operands are evaluated on every path: visit them for rounding calls
			if _, err := e.of(c.L); err != nil {
				return ival{}, err
			}
			if _, err := e.of(c.R); err != nil {
				return ival{}, err
			}
		}
		a, err := te.of(n.Args[0])
		if err != nil {
			return ival{}, err
		}
		b, err := ee.of(n.Args[1])
		if err != nil {
			return ival{}, err
		}
		return ival{math.Min(a.lo, b.lo), math.Max(a.hi, b.hi)}, nil
	case "call":
		var args []ival
		for _, a := range n.Args {
			iv, err := e.of(a)
			if err != nil {
				return ival{}, err
			}
			args = append(args, iv)
		}
		switch n.Name {
		case "min":
			out := args[0]
			for _, a := range args[1:] {
				out = ival{math.Min(out.lo, a.lo), math.Min(out.hi, a.hi)}
			}
			return out, nil
		case "max":
			out := args[0]
			for _, a := range args[1:] {
				out = ival{math.Max(out.lo, a.lo), math.Max(out.hi, a.hi)}
			}
			return out, nil
		case e.roundSym:
			*e.sites = append(*e.sites, args[0])
			if args[0].lo < 0 || args[0].hi*100000 > roundSemTMax-1 || math.IsNaN(args[0].lo) || math.IsNaN(args[0].hi) {
				// outside the domain on which the rounding function is known: no bound
				return ival{math.Inf(-1), math.Inf(1)}, nil
			}
			return ival{e.round(args[0].lo), e.round(args[0].hi)}, nil
		}
		return ival{}, &natErr{"call " + n.Name + " in a score formula"}
	}
	return ival{}, &natErr{"node " + n.Op}
}

// roundSites returns the union of the argument intervals of every rounding
// call of the tree.
func roundSites(t *Ex, weights map[string]map[string]*big.Rat, roundSym string, oracleRound *Ex) (ival, int, error) {
	xs := mkSym("t")
	h := innermostRounding(oracleRound)
	if h == nil {
		return ival{}, 0, &natErr{"no integer rounding step in the specification's algorithm"}
	}
	gs := substEx(oracleRound, h.String(), xs)
	hx := func(x float64) (float64, error) {
		// h(x) itself, evaluated natively with x for the symbol "x"
		return evalNative(substEx(h, "x", mkSym("t")), x)
	}
	var evalErr error
	env := &ivEnv{weights: weights, roundSym: roundSym, wcache: map[string]ival{}, sites: new([]ival)}
	env.round = func(x float64) float64 {
		tv, err := hx(x)
		if err != nil {
			evalErr = err
			return math.NaN()
		}
		v, err := evalNative(gs, tv)
		if err != nil {
			evalErr = err
			return math.NaN()
		}
		return v
	}
	if _, err := env.of(t); err != nil {
		return ival{}, 0, err
	}
	if evalErr != nil {
		return ival{}, 0, evalErr
	}
	u := ival{math.Inf(1), math.Inf(-1)}
	for _, s := range *env.sites {
		u.lo = math.Min(u.lo, s.lo)
		u.hi = math.Max(u.hi, s.hi)
	}
	return u, len(*env.sites), nil
}
