package main

// R01.bounds — "no byte string makes ParseVector panic", for the index and
// slice expressions on (parts of) the input string.
//
// A small abstract interpreter over the AST of ParseVector and of every
// package function it hands input text to, with the *zone* domain (difference
// bound matrices): conjunctions of x − y ≤ c over the integer locals, the
// lengths len(s) of the string locals/parameters, and 0. Conditions refine
// the state (including `x != y` under `x ≤ y`, strings.HasPrefix, the
// short-circuit order of && and ||); loops are iterated to a fixpoint with
// widening. Every s[i] / s[a:b] whose operand carries input text must be
// entailed: 0 ≤ i < len(s), 0 ≤ a ≤ b ≤ len(s). An expression that is not
// entailed is reported as undecided (the domain is incomplete, so this is a
// fail-closed verdict, not a proof of a panic).
//
// Not covered here (and said so in the evidence): indexing of constant tables
// by cursors (R01.automaton evaluates those and reports an index leaving its
// table) and of the pooled []string (R01.split, R14.pool).

import (
	"fmt"
	"go/ast"
	"go/token"
	"go/types"
	"sort"
)

const zinf = int64(1) << 60

type czone struct {
	n   int
	m   []int64
	bot bool
}

func newCZone(n int) *czone {
	z := &czone{n: n, m: make([]int64, n*n)}
	for i := range z.m {
		z.m[i] = zinf
	}
	for i := 0; i < n; i++ {
		z.m[i*n+i] = 0
	}
	return z
}

func (z *czone) clone() *czone {
	c := &czone{n: z.n, m: append([]int64(nil), z.m...), bot: z.bot}
	return c
}

func bottomCZone(n int) *czone { z := newCZone(n); z.bot = true; return z }

func zadd(a, b int64) int64 {
	if a >= zinf || b >= zinf {
		return zinf
	}
	return a + b
}

// add v_i − v_j ≤ c and restore closure
func (z *czone) add(i, j int, c int64) {
	if z.bot || c >= z.m[i*z.n+j] {
		return
	}
	n := z.n
	z.m[i*n+j] = c
	for a := 0; a < n; a++ {
		ai := z.m[a*n+i]
		if ai >= zinf {
			continue
		}
		for b := 0; b < n; b++ {
			jb := z.m[j*n+b]
			if jb >= zinf {
				continue
			}
			if v := zadd(zadd(ai, c), jb); v < z.m[a*n+b] {
				z.m[a*n+b] = v
			}
		}
	}
	for k := 0; k < n; k++ {
		if z.m[k*n+k] < 0 {
			z.bot = true
			return
		}
	}
}

func (z *czone) forget(x int) {
	if z.bot {
		return
	}
	n := z.n
	for k := 0; k < n; k++ {
		if k != x {
			z.m[x*n+k] = zinf
			z.m[k*n+x] = zinf
		}
	}
}

// x := y + c
func (z *czone) assign(x, y int, c int64) {
	if z.bot {
		return
	}
	n := z.n
	if x == y {
		for k := 0; k < n; k++ {
			if k == x {
				continue
			}
			z.m[x*n+k] = zadd(z.m[x*n+k], c)
			if z.m[k*n+x] < zinf {
				z.m[k*n+x] -= c
			}
		}
		return
	}
	z.forget(x)
	z.add(x, y, c)
	z.add(y, x, -c)
}

func (z *czone) entails(i, j int, c int64) bool {
	return z.bot || z.m[i*z.n+j] <= c
}

func czjoin(a, b *czone) *czone {
	if a.bot {
		return b.clone()
	}
	if b.bot {
		return a.clone()
	}
	out := a.clone()
	for i := range out.m {
		if b.m[i] > out.m[i] {
			out.m[i] = b.m[i]
		}
	}
	return out
}

func czwiden(a, b *czone) *czone {
	if a.bot {
		return b.clone()
	}
	if b.bot {
		return a.clone()
	}
	out := a.clone()
	for i := range out.m {
		if b.m[i] > a.m[i] {
			out.m[i] = zinf
		}
	}
	return out
}

func czleq(a, b *czone) bool {
	if a.bot {
		return true
	}
	if b.bot {
		return false
	}
	for i := range a.m {
		if a.m[i] > b.m[i] {
			return false
		}
	}
	return true
}

// zone: the abstract state. Without a partition variable it is one convex zone.
// With one (an integer local that takes a negative sentinel such as −1 and is
// tested against it: `colon := -1 … if colon >= 0 { s[start:colon] }`) it is
// the disjunction of two convex zones, one for pv ≥ 0 and one for pv ≤ −1
// (trace partitioning on the sign of pv): relations that hold only once the
// variable has a real value (start ≤ colon < i) survive the joins with the
// paths on which it still holds the sentinel.
type zone struct {
	main *czone // pv ≥ 0 (or everything, when pv == 0)
	alt  *czone // pv ≤ −1; nil when there is no partition variable
	pv   int
	// rel: facts that are not differences of two variables. rel[i] = {base, off,
	// str}: variable i holds strings.IndexByte(s[base+off:], …) for the string
	// whose length is str, i.e. −1, or base+off+i is a position inside s. Part of
	// the abstract state: dropped when i or base is written, intersected at joins.
	rel map[int]relFact
	// relS[l] = {base, off, str}: the string whose length is variable l is the
	// suffix s[base+off:] of the string whose length is str
	relS map[int]relFact
}

type relFact struct {
	base   int
	off    int64
	strLen lin
}

func (z *zone) dropRel(x int) {
	for k, f := range z.rel {
		if k == x || f.base == x || f.strLen.v == x {
			delete(z.rel, k)
		}
	}
	for k, f := range z.relS {
		if k == x || f.base == x || f.strLen.v == x {
			delete(z.relS, k)
		}
	}
}

func meetRelMap(a, b map[int]relFact, aBot, bBot bool) map[int]relFact {
	switch {
	case aBot:
		return cloneRel(b)
	case bBot:
		return cloneRel(a)
	}
	var out map[int]relFact
	for k, f := range a {
		if g, ok := b[k]; ok && g == f {
			if out == nil {
				out = map[int]relFact{}
			}
			out[k] = f
		}
	}
	return out
}

func meetRel(a, b *zone) map[int]relFact {
	switch {
	case a.isBot():
		return cloneRel(b.rel)
	case b.isBot():
		return cloneRel(a.rel)
	}
	var out map[int]relFact
	for k, f := range a.rel {
		if g, ok := b.rel[k]; ok && g == f {
			if out == nil {
				out = map[int]relFact{}
			}
			out[k] = f
		}
	}
	return out
}

func cloneRel(m map[int]relFact) map[int]relFact {
	if len(m) == 0 {
		return nil
	}
	out := make(map[int]relFact, len(m))
	for k, v := range m {
		out[k] = v
	}
	return out
}

func newZone(n, pv int) *zone {
	z := &zone{main: newCZone(n), pv: pv}
	if pv > 0 {
		z.alt = newCZone(n)
		z.main.add(0, pv, 0) // 0 − pv ≤ 0
		z.alt.add(pv, 0, -1) // pv − 0 ≤ −1
	}
	return z
}

func bottomZone(n, pv int) *zone {
	z := &zone{main: bottomCZone(n), pv: pv}
	if pv > 0 {
		z.alt = bottomCZone(n)
	}
	return z
}

func (z *zone) isBot() bool { return z.main.bot && (z.alt == nil || z.alt.bot) }

func (z *zone) clone() *zone {
	c := &zone{main: z.main.clone(), pv: z.pv, rel: cloneRel(z.rel), relS: cloneRel(z.relS)}
	if z.alt != nil {
		c.alt = z.alt.clone()
	}
	return c
}

func (z *zone) add(i, j int, c int64) {
	z.main.add(i, j, c)
	if z.alt != nil {
		z.alt.add(i, j, c)
	}
}

// repartition restores main ⊆ {pv ≥ 0}, alt ⊆ {pv ≤ −1} after pv was written
func (z *zone) repartition() {
	if z.alt == nil {
		return
	}
	n := z.main.n
	nm, na := bottomCZone(n), bottomCZone(n)
	for _, d := range []*czone{z.main, z.alt} {
		if d.bot {
			continue
		}
		p := d.clone()
		p.add(0, z.pv, 0)
		nm = czjoin(nm, p)
		q := d.clone()
		q.add(z.pv, 0, -1)
		na = czjoin(na, q)
	}
	z.main, z.alt = nm, na
}

func (z *zone) forget(x int) {
	z.dropRel(x)
	z.main.forget(x)
	if z.alt != nil {
		z.alt.forget(x)
		if x == z.pv {
			z.repartition()
		}
	}
}

func (z *zone) assign(x, y int, c int64) {
	z.dropRel(x)
	z.main.assign(x, y, c)
	if z.alt != nil {
		z.alt.assign(x, y, c)
		if x == z.pv {
			z.repartition()
		}
	}
}

func (z *zone) entails(i, j int, c int64) bool {
	return z.main.entails(i, j, c) && (z.alt == nil || z.alt.entails(i, j, c))
}

func zjoin(a, b *zone) *zone {
	out := &zone{main: czjoin(a.main, b.main), pv: a.pv, rel: meetRel(a, b), relS: meetRelMap(a.relS, b.relS, a.isBot(), b.isBot())}
	if a.alt != nil && b.alt != nil {
		out.alt = czjoin(a.alt, b.alt)
	}
	return out
}

func zwiden(a, b *zone) *zone {
	out := &zone{main: czwiden(a.main, b.main), pv: a.pv, rel: meetRel(a, b), relS: meetRelMap(a.relS, b.relS, a.isBot(), b.isBot())}
	if a.alt != nil && b.alt != nil {
		out.alt = czwiden(a.alt, b.alt)
	}
	return out
}

func zleq(a, b *zone) bool {
	if !czleq(a.main, b.main) {
		return false
	}
	if !a.isBot() {
		for k, f := range b.rel {
			if g, ok := a.rel[k]; !ok || g != f {
				return false
			}
		}
		for k, f := range b.relS {
			if g, ok := a.relS[k]; !ok || g != f {
				return false
			}
		}
	}
	if a.alt != nil && b.alt != nil {
		return czleq(a.alt, b.alt)
	}
	return true
}

// ---------------------------------------------------------------------------

type lin struct {
	v int // variable index (0 = the constant zero)
	c int64
}

type boundsSite struct {
	node   ast.Node
	ok     bool
	detail string
}

type boundsFn struct {
	p      *Pkg
	fd     *ast.FuncDecl
	intVar map[types.Object]int
	lenVar map[types.Object]int
	n      int
	record bool
	sites  map[ast.Node]*boundsSite
	input  map[types.Object]bool // variables carrying input text
	undec  string
	// pv: index of the partition variable (0 = none): an integer local that is
	// given a negative constant and compared with it (a "not found yet" sentinel)
	pv int
	// labelled loops: the label of the loop about to be analysed, and the states
	// that reach `break L` / `continue L` (reset by the loop L at each of its
	// iterations; accumulated by join in between)
	nextLabel   string
	lbrk, lcont map[string]*zone
	// floor query (header rule): every index/slice of floorObj located after
	// floorAfter must start at an offset ≥ floor
	floorObj   types.Object
	floor      int64
	floorAfter token.Pos
	floorSites int
	floorBad   string
	// boolean locals modelled as −1/0 integers
	flags map[types.Object]bool
	// call-site preconditions: what this function's callers guarantee about its
	// integer and string parameters (differences between them and constants), and
	// what it guarantees at its own calls of package functions
	pre   [][]int64                   // over slots 0 (zero), 1..n (parameters), zinf = unknown
	calls map[*ast.FuncDecl][][]int64 // callee -> join of the states at the calls seen
}

// paramSlots: the zone variables of fd's integer and string(-slice) parameters, in
// order, 0 for a parameter the analysis does not track.
func (b *boundsFn) paramSlots(fd *ast.FuncDecl) []int {
	var out []int
	for _, po := range paramObjs(b.p.Info, fd) {
		switch {
		case po == nil:
			out = append(out, 0)
		case b.intVar[po] != 0:
			out = append(out, b.intVar[po])
		case b.lenVar[po] != 0:
			out = append(out, b.lenVar[po])
		default:
			out = append(out, 0)
		}
	}
	return out
}

// recordCall notes what holds between the arguments of a call of a package
// function (as integers, or lengths for strings) in state z.
func (b *boundsFn) recordCall(z *zone, call *ast.CallExpr) {
	if !b.record || z.isBot() {
		return
	}
	fn := calleeOf(b.p.Info, call)
	if fn == nil || fn.Pkg() != b.p.P.Types {
		return
	}
	g := b.p.FuncObj[fn]
	if g == nil || g.Recv != nil || g == b.fd {
		return
	}
	params := paramObjs(b.p.Info, g)
	if len(params) != len(call.Args) || len(params) == 0 {
		return
	}
	n := len(params) + 1
	lins := make([]lin, n)
	known := make([]bool, n)
	lins[0], known[0] = lin{0, 0}, true
	for i, po := range params {
		if po == nil {
			continue
		}
		switch {
		case isIntT(po.Type()):
			lins[i+1], known[i+1] = b.linear(call.Args[i])
		case isStringT(po.Type()) || isStringSlice(po.Type()):
			lins[i+1], known[i+1] = b.lenOf(call.Args[i])
		}
	}
	m := make([][]int64, n)
	for i := range m {
		m[i] = make([]int64, n)
		for j := range m[i] {
			m[i][j] = zinf
			if i == j {
				m[i][j] = 0
				continue
			}
			if !known[i] || !known[j] {
				continue
			}
			// tightest c with a_i − a_j ≤ c in every partition
			best := int64(-zinf)
			okAll := true
			for _, cz := range []*czone{z.main, z.alt} {
				if cz == nil || cz.bot {
					continue
				}
				d := cz.m[lins[i].v*cz.n+lins[j].v]
				if lins[i].v == lins[j].v {
					d = 0
				}
				if d >= zinf {
					okAll = false
					break
				}
				if c := d + lins[i].c - lins[j].c; c > best {
					best = c
				}
			}
			if okAll && best > -zinf {
				m[i][j] = best
			}
		}
	}
	if b.calls == nil {
		b.calls = map[*ast.FuncDecl][][]int64{}
	}
	if old := b.calls[g]; old != nil {
		for i := range old {
			for j := range old[i] {
				if m[i][j] > old[i][j] {
					old[i][j] = m[i][j]
				}
			}
		}
	} else {
		b.calls[g] = m
	}
}

func (b *boundsFn) checkFloor(z *zone, x ast.Expr, base ast.Expr, lo lin) {
	if !b.record || b.floorObj == nil || identObj(b.p.Info, base) != b.floorObj || x.Pos() <= b.floorAfter {
		return
	}
	b.floorSites++
	if !b.entailsLE(z, lin{0, b.floor}, lo, 0) && b.floorBad == "" {
		b.floorBad = fmt.Sprintf("%s at %s may read the input below offset %d", types.ExprString(x), b.p.pos(x), b.floor)
	}
}

// labelFlows hands the states collected for label l to the loop that owns it.
func (b *boundsFn) labelFlows(l string) (brk, cont *zone) {
	brk, cont = b.bottom(), b.bottom()
	if l == "" {
		return
	}
	if z := b.lbrk[l]; z != nil {
		brk = z
	}
	if z := b.lcont[l]; z != nil {
		cont = z
	}
	return
}

func (b *boundsFn) resetLabel(l string) {
	if l != "" {
		delete(b.lbrk, l)
		delete(b.lcont, l)
	}
}

type flowOut struct {
	next, brk, cont *zone
}

func (b *boundsFn) bottom() *zone { return bottomZone(b.n, b.pv) }

func isStringT(t types.Type) bool {
	bt, ok := t.Underlying().(*types.Basic)
	return ok && bt.Info()&types.IsString != 0
}

func isBoolT(t types.Type) bool {
	bt, ok := t.Underlying().(*types.Basic)
	return ok && bt.Info()&types.IsBoolean != 0
}

func isIntT(t types.Type) bool {
	bt, ok := t.Underlying().(*types.Basic)
	return ok && bt.Info()&types.IsInteger != 0
}

func (b *boundsFn) lenOf(e ast.Expr) (lin, bool) {
	info := b.p.Info
	for {
		if pe, ok := e.(*ast.ParenExpr); ok {
			e = pe.X
			continue
		}
		break
	}
	if tv, ok := info.Types[e]; ok && tv.Value != nil {
		if s, ok := constString(info, e); ok {
			return lin{0, int64(len(s))}, true
		}
	}
	if o := identObj(info, e); o != nil {
		if v, ok := b.lenVar[o]; ok {
			return lin{v, 0}, true
		}
	}
	// s[a:] with a constant a, s[:b], s[a:b] with b − a constant (the bounds
	// themselves are checked where the expression is evaluated)
	if se, ok := e.(*ast.SliceExpr); ok && !se.Slice3 {
		src, okS := b.lenOf(se.X)
		lo, hi := lin{0, 0}, src
		okL, okH := true, okS
		if se.Low != nil {
			lo, okL = b.linear(se.Low)
		}
		if se.High != nil {
			hi, okH = b.linear(se.High)
		}
		if okL && okH {
			switch {
			case lo.v == 0:
				return lin{hi.v, hi.c - lo.c}, true
			case hi.v == lo.v:
				return lin{0, hi.c - lo.c}, true
			}
		}
	}
	return lin{}, false
}

func (b *boundsFn) linear(e ast.Expr) (lin, bool) {
	info := b.p.Info
	if tv, ok := info.Types[e]; ok && tv.Value != nil {
		if u, ok := constInt64(info, e); ok {
			return lin{0, u}, true
		}
	}
	switch x := e.(type) {
	case *ast.ParenExpr:
		return b.linear(x.X)
	case *ast.Ident:
		if o := identObj(info, x); o != nil {
			if v, ok := b.intVar[o]; ok {
				return lin{v, 0}, true
			}
		}
	case *ast.CallExpr:
		if id, ok := x.Fun.(*ast.Ident); ok && id.Name == "len" && len(x.Args) == 1 {
			if _, isB := info.Uses[id].(*types.Builtin); isB {
				return b.lenOf(x.Args[0])
			}
		}
		if tv, ok := info.Types[x.Fun]; ok && tv.IsType() && len(x.Args) == 1 && isIntT(tv.Type) {
			// int(x), uint(x): value-preserving on the non-negative quantities handled here
			if bt, ok := tv.Type.Underlying().(*types.Basic); ok && (bt.Kind() == types.Int || bt.Kind() == types.Int64 || bt.Kind() == types.Uint || bt.Kind() == types.Uint64) {
				return b.linear(x.Args[0])
			}
		}
	case *ast.BinaryExpr:
		switch x.Op {
		case token.ADD:
			l, ok1 := b.linear(x.X)
			r, ok2 := b.linear(x.Y)
			if ok1 && ok2 {
				if r.v == 0 {
					return lin{l.v, l.c + r.c}, true
				}
				if l.v == 0 {
					return lin{r.v, l.c + r.c}, true
				}
			}
		case token.SUB:
			l, ok1 := b.linear(x.X)
			r, ok2 := b.linear(x.Y)
			if ok1 && ok2 && r.v == 0 {
				return lin{l.v, l.c - r.c}, true
			}
		}
	}
	return lin{}, false
}

func constInt64(info *types.Info, e ast.Expr) (int64, bool) {
	tv, ok := info.Types[e]
	if !ok || tv.Value == nil {
		return 0, false
	}
	if v, ok := constVal(tv); ok && v.K == VInt {
		return v.I, true
	}
	return 0, false
}

// a ≤ b + k  (a, b linear)
func (b *boundsFn) addLE(z *zone, a, c lin, k int64) {
	// a.v + a.c ≤ c.v + c.c + k  ⇔  a.v − c.v ≤ c.c + k − a.c
	z.add(a.v, c.v, c.c+k-a.c)
}

func (b *boundsFn) entailsLE(z *zone, a, c lin, k int64) bool {
	return z.entails(a.v, c.v, c.c+k-a.c)
}

// sumOf flattens e into at most two variables plus a constant.
func (b *boundsFn) sumOf(e ast.Expr) (vars []int, c int64, ok bool) {
	e = ast.Unparen(e)
	if l, okL := b.linear(e); okL {
		if l.v != 0 {
			vars = append(vars, l.v)
		}
		return vars, l.c, true
	}
	be, isB := e.(*ast.BinaryExpr)
	if !isB || (be.Op != token.ADD && be.Op != token.SUB) {
		return nil, 0, false
	}
	v1, c1, ok1 := b.sumOf(be.X)
	v2, c2, ok2 := b.sumOf(be.Y)
	if !ok1 || !ok2 {
		return nil, 0, false
	}
	if be.Op == token.SUB {
		if len(v2) != 0 {
			return nil, 0, false
		}
		return v1, c1 - c2, true
	}
	vars = append(append(vars, v1...), v2...)
	if len(vars) > 2 {
		return nil, 0, false
	}
	return vars, c1 + c2, true
}

// assignSum handles x := a + b + c for two integer variables a, b (x may be a):
// the constant bounds of one summand give difference bounds between x and the
// other; and when b is the result of IndexByte on the suffix of a string that
// starts at a (+off), a + off + b is a position inside that string.
func (b *boundsFn) assignSum(z *zone, x int, rhs ast.Expr) bool {
	vars, c, ok := b.sumOf(rhs)
	if !ok || len(vars) != 2 || vars[0] == vars[1] {
		return false
	}
	bounds := func(v int) (lo, hi int64, hasLo, hasHi bool) {
		hasLo, hasHi = true, true
		first := true
		for _, cz := range []*czone{z.main, z.alt} {
			if cz == nil || cz.bot {
				continue
			}
			n := cz.n
			l, h := cz.m[0*n+v], cz.m[v*n+0]
			if l >= zinf {
				hasLo = false
			}
			if h >= zinf {
				hasHi = false
			}
			if first {
				lo, hi, first = -l, h, false
			} else {
				if -l < lo {
					lo = -l
				}
				if h > hi {
					hi = h
				}
			}
		}
		if first {
			return 0, 0, false, false
		}
		return
	}
	// position facts, read before anything is forgotten
	type posFact struct {
		f  relFact
		ok bool // the index is known to be ≥ 0
	}
	var facts []posFact
	for _, pr := range [][2]int{{vars[0], vars[1]}, {vars[1], vars[0]}} {
		if f, has := z.rel[pr[1]]; has && f.base == pr[0] && f.strLen.v != x {
			lo, _, hasLo, _ := bounds(pr[1])
			facts = append(facts, posFact{f, hasLo && lo >= 0})
		}
	}
	a, other := vars[0], vars[1]
	if x == other {
		a, other = other, a
	}
	if x == a {
		// x := x + other + c: every difference with x shifts by the range of other + c
		lo, hi, hasLo, hasHi := bounds(other)
		rel := cloneRel(z.rel)
		relS := cloneRel(z.relS)
		for _, cz := range []*czone{z.main, z.alt} {
			if cz == nil || cz.bot {
				continue
			}
			n := cz.n
			for y := 0; y < n; y++ {
				if y == x {
					continue
				}
				if hasHi && cz.m[x*n+y] < zinf {
					cz.m[x*n+y] += hi + c
				} else {
					cz.m[x*n+y] = zinf
				}
				if hasLo && cz.m[y*n+x] < zinf {
					cz.m[y*n+x] -= lo + c
				} else {
					cz.m[y*n+x] = zinf
				}
			}
		}
		_ = rel
		_ = relS
		z.dropRel(x)
		if x == z.pv {
			z.repartition()
		}
		for _, pf := range facts {
			if pf.ok {
				// x_new = position + (c − off) ≤ len(s) − 1 + (c − off)
				b.addLE(z, lin{x, 0}, pf.f.strLen, -1+c-pf.f.off)
			}
		}
		return true
	}
	type bnd struct {
		other        int
		lo, hi       int64
		hasLo, hasHi bool
	}
	var bs []bnd
	for _, pr := range [][2]int{{vars[0], vars[1]}, {vars[1], vars[0]}} {
		lo, hi, hasLo, hasHi := bounds(pr[1])
		bs = append(bs, bnd{pr[0], lo, hi, hasLo, hasHi})
	}
	z.forget(x)
	for _, bd := range bs {
		if bd.hasHi {
			z.add(x, bd.other, bd.hi+c)
		}
		if bd.hasLo {
			z.add(bd.other, x, -(bd.lo + c))
		}
	}
	for _, pf := range facts {
		if pf.ok {
			b.addLE(z, lin{x, 0}, pf.f.strLen, -1+c-pf.f.off)
		}
	}
	return true
}

// refine z by cond being `truth`; index expressions inside cond are checked on the way
func (b *boundsFn) refine(z *zone, cond ast.Expr, truth bool) *zone {
	if z.isBot() {
		return z
	}
	info := b.p.Info
	switch x := cond.(type) {
	case *ast.Ident:
		if o := identObj(info, x); o != nil && b.flags[o] {
			nz := z.clone()
			v := b.intVar[o]
			if truth {
				nz.add(v, 0, -1) // flag ≤ −1: true
			} else {
				nz.add(0, v, 0) // flag ≥ 0: false
			}
			return nz
		}
	case *ast.ParenExpr:
		return b.refine(z, x.X, truth)
	case *ast.UnaryExpr:
		if x.Op == token.NOT {
			return b.refine(z, x.X, !truth)
		}
	case *ast.BinaryExpr:
		switch x.Op {
		case token.LAND, token.LOR:
			and := x.Op == token.LAND
			if and == truth {
				// both hold (A && B true; A || B false)
				z1 := b.refine(z, x.X, truth)
				return b.refine(z1, x.Y, truth)
			}
			// A && B false: ¬A, or A ∧ ¬B.   A || B true: A, or ¬A ∧ B.
			zA := b.refine(z, x.X, truth)
			zNA := b.refine(z, x.X, !truth)
			zB := b.refine(zNA, x.Y, truth)
			return zjoin(zA, zB)
		case token.LSS, token.LEQ, token.GTR, token.GEQ, token.EQL, token.NEQ:
			b.checkExpr(z, x.X)
			b.checkExpr(z, x.Y)
			l, ok1 := b.linear(x.X)
			r, ok2 := b.linear(x.Y)
			if tv, ok := info.Types[x.X]; ok && isStringT(tv.Type) && (x.Op == token.EQL || x.Op == token.NEQ) {
				// s == "lit": the lengths agree; s != "": len(s) ≥ 1
				ls, okA := b.lenOf(x.X)
				rs, okB := b.lenOf(x.Y)
				_, cX := constString(info, x.X)
				cy, cY := constString(info, x.Y)
				if cX && !cY {
					ls, rs, okA, okB = rs, ls, okB, okA
					cy, _ = constString(info, x.X)
					cY = true
				}
				if !okA || !okB || !cY {
					return z
				}
				eq := (x.Op == token.EQL) == truth
				out := z.clone()
				if eq {
					b.addLE(out, ls, rs, 0)
					b.addLE(out, rs, ls, 0)
				} else if cy == "" {
					b.addLE(out, lin{0, 1}, ls, 0)
				}
				return out
			}
			if !ok1 || !ok2 {
				return z
			}
			op := x.Op
			if !truth {
				op = map[token.Token]token.Token{token.LSS: token.GEQ, token.LEQ: token.GTR, token.GTR: token.LEQ, token.GEQ: token.LSS, token.EQL: token.NEQ, token.NEQ: token.EQL}[op]
			}
			out := z.clone()
			switch op {
			case token.LSS:
				b.addLE(out, l, r, -1)
			case token.LEQ:
				b.addLE(out, l, r, 0)
			case token.GTR:
				b.addLE(out, r, l, -1)
			case token.GEQ:
				b.addLE(out, r, l, 0)
			case token.EQL:
				b.addLE(out, l, r, 0)
				b.addLE(out, r, l, 0)
			case token.NEQ:
				if b.entailsLE(out, l, r, 0) {
					b.addLE(out, l, r, -1)
				} else if b.entailsLE(out, r, l, 0) {
					b.addLE(out, r, l, -1)
				}
			}
			return out
		}
	case *ast.CallExpr:
		b.checkExpr(z, x)
		if fn := calleeOf(info, x); isStringsFunc(fn, "HasPrefix") && len(x.Args) == 2 && truth {
			ls, ok1 := b.lenOf(x.Args[0])
			lp, ok2 := b.lenOf(x.Args[1])
			if ok1 && ok2 {
				out := z.clone()
				b.addLE(out, lp, ls, 0)
				return out
			}
		}
		return z
	}
	if _, isId := cond.(*ast.Ident); isId {
		return z
	}
	b.checkExpr(z, cond)
	return z
}

func (b *boundsFn) carriesInput(e ast.Expr) bool {
	found := false
	ast.Inspect(e, func(n ast.Node) bool {
		if id, ok := n.(*ast.Ident); ok && b.input[b.p.Info.Uses[id]] {
			found = true
		}
		return true
	})
	return found
}

func (b *boundsFn) site(n ast.Node, ok bool, detail string) {
	if !b.record {
		return
	}
	b.sites[n] = &boundsSite{node: n, ok: ok, detail: detail}
}

// checkExpr walks e in evaluation order and checks the index/slice expressions on input text
func (b *boundsFn) checkExpr(z *zone, e ast.Expr) {
	if e == nil || z.isBot() {
		return
	}
	info := b.p.Info
	switch x := e.(type) {
	case *ast.ParenExpr:
		b.checkExpr(z, x.X)
	case *ast.UnaryExpr:
		b.checkExpr(z, x.X)
	case *ast.BinaryExpr:
		if x.Op == token.LAND || x.Op == token.LOR {
			b.checkExpr(z, x.X)
			b.checkExpr(b.refine(z, x.X, x.Op == token.LAND), x.Y)
			return
		}
		b.checkExpr(z, x.X)
		b.checkExpr(z, x.Y)
	case *ast.CallExpr:
		for _, a := range x.Args {
			b.checkExpr(z, a)
		}
		if se, ok := x.Fun.(*ast.SelectorExpr); ok {
			b.checkExpr(z, se.X)
		}
		b.recordCall(z, x)
	case *ast.SelectorExpr:
		b.checkExpr(z, x.X)
	case *ast.StarExpr:
		b.checkExpr(z, x.X)
	case *ast.IndexExpr:
		b.checkExpr(z, x.X)
		b.checkExpr(z, x.Index)
		tv, ok := info.Types[x.X]
		if !ok || !isStringT(tv.Type) || !b.carriesInput(x.X) {
			return
		}
		ln, ok1 := b.lenOf(x.X)
		ix, ok2 := b.linear(x.Index)
		if !ok1 || !ok2 {
			b.site(x, false, fmt.Sprintf("%s: the index or the indexed string is outside the linear model: undecided", types.ExprString(x)))
			return
		}
		b.checkFloor(z, x, x.X, ix)
		lo := b.entailsLE(z, lin{0, 0}, ix, 0)
		hi := b.entailsLE(z, ix, ln, -1)
		b.site(x, lo && hi, map[bool]string{true: fmt.Sprintf("%s: 0 ≤ index < len entailed", types.ExprString(x)), false: fmt.Sprintf("%s: 0 ≤ index < len is not entailed on every path (lower bound %v, upper bound %v): undecided, may panic", types.ExprString(x), lo, hi)}[lo && hi])
	case *ast.SliceExpr:
		b.checkExpr(z, x.X)
		b.checkExpr(z, x.Low)
		b.checkExpr(z, x.High)
		tv, ok := info.Types[x.X]
		if !ok || !isStringT(tv.Type) || !b.carriesInput(x.X) {
			return
		}
		ln, ok1 := b.lenOf(x.X)
		lo, hi := lin{0, 0}, ln
		ok2, ok3 := true, true
		if x.Low != nil {
			lo, ok2 = b.linear(x.Low)
		}
		if x.High != nil {
			hi, ok3 = b.linear(x.High)
		}
		if !ok1 || !ok2 || !ok3 {
			b.site(x, false, fmt.Sprintf("%s: a bound or the sliced string is outside the linear model: undecided", types.ExprString(x)))
			return
		}
		b.checkFloor(z, x, x.X, lo)
		c1 := b.entailsLE(z, lin{0, 0}, lo, 0)
		c2 := b.entailsLE(z, lo, hi, 0)
		c3 := b.entailsLE(z, hi, ln, 0)
		okAll := c1 && c2 && c3
		b.site(x, okAll, map[bool]string{true: fmt.Sprintf("%s: 0 ≤ low ≤ high ≤ len entailed", types.ExprString(x)), false: fmt.Sprintf("%s: 0 ≤ low ≤ high ≤ len is not entailed on every path (0≤low %v, low≤high %v, high≤len %v): undecided, may panic", types.ExprString(x), c1, c2, c3)}[okAll])
	case *ast.CompositeLit:
		for _, el := range x.Elts {
			if kv, ok := el.(*ast.KeyValueExpr); ok {
				b.checkExpr(z, kv.Value)
			} else {
				b.checkExpr(z, el)
			}
		}
	}
}

// assignTo updates z for `lhs = rhs`
func (b *boundsFn) assignTo(z *zone, lhs ast.Expr, rhs ast.Expr, multi int) {
	info := b.p.Info
	o := identObj(info, lhs)
	if o == nil || z.isBot() {
		return
	}
	if v, ok := b.intVar[o]; ok && b.flags[o] {
		// flag := condition — the two outcomes are kept apart (−1 where it holds, 0 where not)
		if rhs == nil || multi >= 0 {
			z.forget(v)
			z.add(0, v, 1)
			z.add(v, 0, 0)
			return
		}
		if tv, isConst := info.Types[rhs]; isConst && tv.Value != nil {
			if bv, ok := constBool(info, rhs); ok {
				if bv {
					z.assign(v, 0, -1)
				} else {
					z.assign(v, 0, 0)
				}
				return
			}
		}
		zt := b.refine(z, rhs, true)
		zf := b.refine(z, rhs, false)
		zt.assign(v, 0, -1)
		zf.assign(v, 0, 0)
		j := zjoin(zt, zf)
		*z = *j
		return
	}
	if v, ok := b.intVar[o]; ok {
		if rhs != nil && multi < 0 {
			if l, ok := b.linear(rhs); ok {
				z.assign(v, l.v, l.c)
				return
			}
			// strings.IndexByte & co: −1 ≤ result ≤ len(s) − 1, possibly shifted by a constant
			shift := int64(0)
			rhs0 := rhs
			for {
				if pe, ok := rhs0.(*ast.ParenExpr); ok {
					rhs0 = pe.X
					continue
				}
				break
			}
			if be, ok := rhs0.(*ast.BinaryExpr); ok && (be.Op == token.ADD || be.Op == token.SUB) {
				if k, ok := constInt64(info, be.Y); ok {
					if _, isCall := be.X.(*ast.CallExpr); isCall {
						rhs0 = be.X
						shift = k
						if be.Op == token.SUB {
							shift = -k
						}
					}
				} else if k, ok := constInt64(info, be.X); ok && be.Op == token.ADD {
					if _, isCall := be.Y.(*ast.CallExpr); isCall {
						rhs0 = be.Y
						shift = k
					}
				}
			}
			if call, ok := rhs0.(*ast.CallExpr); ok {
				fn := calleeOf(info, call)
				if fn != nil && fn.Pkg() != nil && (fn.Pkg().Path() == "strings" || fn.Pkg().Path() == "bytes") && len(call.Args) >= 1 {
					switch fn.Name() {
					case "IndexByte", "Index", "IndexRune", "IndexAny", "LastIndexByte", "LastIndex":
						ls, okLs := b.lenOf(call.Args[0])
						if okLs && ls.v == v {
							okLs = false
						}
						z.forget(v)
						z.add(0, v, 1-shift) // −1 + shift ≤ v
						if okLs {
							b.addLE(z, lin{v, 0}, ls, -1+shift)
						}
						// … or in a string remembered as the suffix s[base+off:]
						if id, isId := ast.Unparen(call.Args[0]).(*ast.Ident); isId && shift == 0 {
							if o := identObj(info, id); o != nil {
								if lv, ok := b.lenVar[o]; ok {
									if f, ok := z.relS[lv]; ok && f.base != v && f.strLen.v != v {
										if z.rel == nil {
											z.rel = map[int]relFact{}
										}
										z.rel[v] = f
									}
								}
							}
						}
						// the search starts at an offset held in a variable: s[base+off:]
						if se, isSl := ast.Unparen(call.Args[0]).(*ast.SliceExpr); isSl && shift == 0 && se.Low != nil && se.High == nil && !se.Slice3 {
							if lo, okLo := b.linear(se.Low); okLo && lo.v != 0 && lo.v != v {
								if sl, okSl := b.lenOf(se.X); okSl && sl.v != v {
									if z.rel == nil {
										z.rel = map[int]relFact{}
									}
									z.rel[v] = relFact{base: lo.v, off: lo.c, strLen: sl}
								}
							}
						}
						return
					}
				}
				_ = call
			}
			// x := a + b [+ c] (two variables, possibly x itself): see assignSum
			if b.assignSum(z, v, rhs) {
				return
			}
			if call, ok := rhs0.(*ast.CallExpr); ok {
				if id, ok := call.Fun.(*ast.Ident); ok && shift == 0 && rhs0 == rhs && (id.Name == "min" || id.Name == "max") {
					if _, isB := info.Uses[id].(*types.Builtin); isB {
						z.forget(v)
						for _, a := range call.Args {
							if l, ok := b.linear(a); ok {
								if id.Name == "min" {
									b.addLE(z, lin{v, 0}, l, 0)
								} else {
									b.addLE(z, l, lin{v, 0}, 0)
								}
							}
						}
						return
					}
				}
			}
		}
		z.forget(v)
		return
	}
	if v, ok := b.lenVar[o]; ok {
		z.forget(v)
		z.add(0, v, 0) // len ≥ 0
		if rhs == nil || multi >= 0 {
			return
		}
		for {
			if pe, ok := rhs.(*ast.ParenExpr); ok {
				rhs = pe.X
				continue
			}
			break
		}
		switch r := rhs.(type) {
		case *ast.Ident:
			if l, ok := b.lenOf(r); ok && l.v != v {
				z.assign(v, l.v, l.c)
			}
		case *ast.BasicLit:
			if l, ok := b.lenOf(r); ok {
				z.assign(v, 0, l.c)
			}
		case *ast.SliceExpr:
			// r := s[base+off:] — remembered as a suffix of s
			if r.High == nil && r.Low != nil && !r.Slice3 {
				if lo, okLo := b.linear(r.Low); okLo && lo.v != 0 && lo.v != v {
					if sl, okSl := b.lenOf(r.X); okSl && sl.v != v && sl.v != 0 {
						if z.relS == nil {
							z.relS = map[int]relFact{}
						}
						z.relS[v] = relFact{base: lo.v, off: lo.c, strLen: sl}
					}
				}
			}
			// len = high − low: expressible when one of them is a constant offset of the other side
			src, okS := b.lenOf(r.X)
			lo, hi := lin{0, 0}, src
			okL, okH := true, okS
			if r.Low != nil {
				lo, okL = b.linear(r.Low)
			}
			if r.High != nil {
				hi, okH = b.linear(r.High)
			}
			if okL && okH {
				switch {
				case lo.v == 0:
					// len = hi − c
					if hi.v != v {
						z.assign(v, hi.v, hi.c-lo.c)
					}
				case hi.v == lo.v:
					z.assign(v, 0, hi.c-lo.c)
				case hi.v != v && lo.v != v:
					// two different variables: the difference is not a zone term, its
					// constant bounds are (low − high ≤ c gives len ≥ −c)
					for _, cz := range []*czone{z.main, z.alt} {
						if cz == nil || cz.bot {
							continue
						}
						n := cz.n
						if c := cz.m[lo.v*n+hi.v]; c < zinf {
							cz.add(0, v, c-hi.c+lo.c)
						}
						if c := cz.m[hi.v*n+lo.v]; c < zinf {
							cz.add(v, 0, c+hi.c-lo.c)
						}
					}
				}
			}
		}
	}
}

func (b *boundsFn) exec(z *zone, s ast.Stmt) flowOut {
	out := flowOut{next: b.bottom(), brk: b.bottom(), cont: b.bottom()}
	if z.isBot() {
		return out
	}
	info := b.p.Info
	switch st := s.(type) {
	case nil:
		out.next = z
	case *ast.EmptyStmt:
		out.next = z
	case *ast.BlockStmt:
		return b.execList(z, st.List)
	case *ast.ExprStmt:
		b.checkExpr(z, st.X)
		out.next = z
	case *ast.DeclStmt:
		nz := z.clone()
		if gd, ok := st.Decl.(*ast.GenDecl); ok && gd.Tok == token.VAR {
			for _, sp := range gd.Specs {
				vs := sp.(*ast.ValueSpec)
				for i, nm := range vs.Names {
					if i < len(vs.Values) && len(vs.Values) == len(vs.Names) {
						b.checkExpr(nz, vs.Values[i])
						b.assignTo(nz, nm, vs.Values[i], -1)
					} else if len(vs.Values) == 0 {
						if o := info.Defs[nm]; o != nil {
							if v, ok := b.intVar[o]; ok {
								nz.assign(v, 0, 0)
							}
							if v, ok := b.lenVar[o]; ok {
								nz.assign(v, 0, 0)
							}
						}
					} else {
						b.assignTo(nz, nm, nil, i)
					}
				}
			}
		}
		out.next = nz
	case *ast.AssignStmt:
		nz := z.clone()
		for _, r := range st.Rhs {
			b.checkExpr(nz, r)
		}
		for _, l := range st.Lhs {
			if _, isIdent := l.(*ast.Ident); !isIdent {
				b.checkExpr(nz, l)
			}
		}
		if st.Tok == token.ASSIGN || st.Tok == token.DEFINE {
			if len(st.Lhs) == len(st.Rhs) {
				if len(st.Lhs) == 1 {
					b.assignTo(nz, st.Lhs[0], st.Rhs[0], -1)
				} else {
					// simultaneous assignment: exact when no right side mentions an
					// assigned variable, otherwise the assigned variables are forgotten
					assigned := map[types.Object]bool{}
					for _, l := range st.Lhs {
						assigned[identObj(info, l)] = true
					}
					clash := false
					for k, r := range st.Rhs {
						own := identObj(info, st.Lhs[k])
						ast.Inspect(r, func(n ast.Node) bool {
							// a right side may read the variable it is itself assigned to
							// (x, y = x+1, f(z)): the others still hold their old values
							if id, ok := n.(*ast.Ident); ok && assigned[info.Uses[id]] && info.Uses[id] != own {
								clash = true
							}
							return true
						})
					}
					for i := range st.Lhs {
						if clash {
							b.assignTo(nz, st.Lhs[i], nil, i)
						} else {
							b.assignTo(nz, st.Lhs[i], st.Rhs[i], -1)
						}
					}
				}
			} else {
				for i, l := range st.Lhs {
					b.assignTo(nz, l, nil, i)
				}
				// results of package splitters: parts of their string argument
				if len(st.Rhs) == 1 {
					if call, ok := st.Rhs[0].(*ast.CallExpr); ok {
						var src lin
						has := false
						for _, a := range call.Args {
							if tv, ok := info.Types[a]; ok && isStringT(tv.Type) {
								if l, ok := b.lenOf(a); ok && !has {
									src, has = l, true
								}
							}
						}
						if fn := calleeOf(info, call); has && fn != nil && (isStringsFunc(fn, "Cut") || isStringsFunc(fn, "CutPrefix") || fn.Pkg() == b.p.P.Types) {
							for _, l := range st.Lhs {
								if o := identObj(info, l); o != nil {
									if v, ok := b.lenVar[o]; ok && (isStringsFunc(fn, "Cut") || isStringsFunc(fn, "CutPrefix")) {
										b.addLE(nz, lin{v, 0}, src, 0)
									}
								}
							}
						}
					}
				}
			}
		} else {
			// op-assign
			if len(st.Lhs) == 1 {
				if o := identObj(info, st.Lhs[0]); o != nil {
					if v, ok := b.intVar[o]; ok {
						if c, okc := constInt64(info, st.Rhs[0]); okc && (st.Tok == token.ADD_ASSIGN || st.Tok == token.SUB_ASSIGN) {
							if st.Tok == token.SUB_ASSIGN {
								c = -c
							}
							nz.assign(v, v, c)
						} else if st.Tok == token.ADD_ASSIGN && b.assignSum(nz, v, &ast.BinaryExpr{X: st.Lhs[0], Op: token.ADD, Y: st.Rhs[0]}) {
							// x += b + c
						} else {
							nz.forget(v)
						}
					}
					if v, ok := b.lenVar[o]; ok {
						nz.forget(v)
						nz.add(0, v, 0)
					}
				}
			}
		}
		out.next = nz
	case *ast.IncDecStmt:
		nz := z.clone()
		if o := identObj(info, st.X); o != nil {
			if v, ok := b.intVar[o]; ok {
				d := int64(1)
				if st.Tok == token.DEC {
					d = -1
				}
				nz.assign(v, v, d)
			}
		}
		out.next = nz
	case *ast.ReturnStmt:
		for _, r := range st.Results {
			b.checkExpr(z, r)
		}
	case *ast.BranchStmt:
		if st.Label != nil && (st.Tok == token.BREAK || st.Tok == token.CONTINUE) {
			if b.lbrk == nil {
				b.lbrk, b.lcont = map[string]*zone{}, map[string]*zone{}
			}
			l := st.Label.Name
			acc := b.lbrk
			if st.Tok == token.CONTINUE {
				acc = b.lcont
			}
			if old := acc[l]; old != nil {
				acc[l] = zjoin(old, z)
			} else {
				acc[l] = z
			}
			return out
		}
		switch st.Tok {
		case token.BREAK:
			out.brk = z
		case token.CONTINUE:
			out.cont = z
		default:
			b.undec = "goto/fallthrough"
		}
	case *ast.IfStmt:
		cur := z
		if st.Init != nil {
			io := b.exec(cur, st.Init)
			cur = io.next
		}
		zt := b.refine(cur, st.Cond, true)
		zf := b.refine(cur, st.Cond, false)
		o1 := b.execList(zt, st.Body.List)
		var o2 flowOut
		if st.Else != nil {
			o2 = b.exec(zf, st.Else)
		} else {
			o2 = flowOut{next: zf, brk: b.bottom(), cont: b.bottom()}
		}
		out.next = zjoin(o1.next, o2.next)
		out.brk = zjoin(o1.brk, o2.brk)
		out.cont = zjoin(o1.cont, o2.cont)
	case *ast.SwitchStmt:
		cur := z
		if st.Init != nil {
			cur = b.exec(cur, st.Init).next
		}
		if st.Tag != nil {
			b.checkExpr(cur, st.Tag)
		}
		tag, tagLin := lin{}, false
		if st.Tag != nil {
			tag, tagLin = b.linear(st.Tag)
		}
		hasDefault := false
		acc := flowOut{next: b.bottom(), brk: b.bottom(), cont: b.bottom()}
		notPrev := cur
		for _, cs := range st.Body.List {
			cc := cs.(*ast.CaseClause)
			entry := b.bottom()
			if cc.List == nil {
				hasDefault = true
				entry = notPrev
			}
			for _, ce := range cc.List {
				var ze *zone
				if st.Tag == nil {
					ze = b.refine(notPrev, ce, true)
					notPrev = b.refine(notPrev, ce, false)
				} else {
					ze = notPrev.clone()
					if c, ok := b.linear(ce); ok && tagLin {
						b.addLE(ze, tag, c, 0)
						b.addLE(ze, c, tag, 0)
					}
				}
				entry = zjoin(entry, ze)
			}
			o := b.execList(entry, cc.Body)
			acc.next = zjoin(acc.next, zjoin(o.next, o.brk)) // break leaves the switch
			acc.cont = zjoin(acc.cont, o.cont)
		}
		if !hasDefault {
			acc.next = zjoin(acc.next, notPrev)
		}
		return acc
	case *ast.ForStmt:
		myLabel := b.nextLabel
		b.nextLabel = ""
		cur := z
		if st.Init != nil {
			cur = b.exec(cur, st.Init).next
		}
		head := cur
		exit := b.bottom()
		for it := 0; it < 40; it++ {
			var zt, zf *zone
			if st.Cond != nil {
				zt = b.refine(head, st.Cond, true)
				zf = b.refine(head, st.Cond, false)
			} else {
				zt, zf = head, b.bottom()
			}
			b.resetLabel(myLabel)
			o := b.execList(zt, st.Body.List)
			lb, lc := b.labelFlows(myLabel)
			o.brk, o.cont = zjoin(o.brk, lb), zjoin(o.cont, lc)
			back := zjoin(o.next, o.cont)
			if st.Post != nil {
				back = b.exec(back, st.Post).next
			}
			exit = zjoin(zf, o.brk)
			nh := zjoin(cur, back)
			if zleq(nh, head) {
				break
			}
			if it >= 3 {
				nh = zwiden(head, nh)
			}
			head = nh
		}
		// one decreasing step recovers bounds the widening dropped
		{
			var zt, zf *zone
			if st.Cond != nil {
				zt = b.refine(head, st.Cond, true)
				zf = b.refine(head, st.Cond, false)
			} else {
				zt, zf = head, b.bottom()
			}
			b.resetLabel(myLabel)
			o := b.execList(zt, st.Body.List)
			lb, _ := b.labelFlows(myLabel)
			exit = zjoin(zf, zjoin(o.brk, lb))
			b.resetLabel(myLabel)
		}
		out.next = exit
	case *ast.RangeStmt:
		myLabel := b.nextLabel
		b.nextLabel = ""
		b.checkExpr(z, st.X)
		var bound lin
		hasBound := false
		if tv, ok := info.Types[st.X]; ok {
			if isIntT(tv.Type) {
				bound, hasBound = b.linear(st.X)
			} else {
				bound, hasBound = b.lenOf(st.X)
			}
		}
		head := z
		exit := z
		for it := 0; it < 40; it++ {
			body := head.clone()
			if st.Key != nil {
				if o := identObj(info, st.Key); o != nil {
					if v, ok := b.intVar[o]; ok {
						body.forget(v)
						body.add(0, v, 0)
						if hasBound {
							b.addLE(body, lin{v, 0}, bound, -1)
						}
					}
				}
			}
			if st.Value != nil {
				b.assignTo(body, st.Value, nil, 0)
			}
			b.resetLabel(myLabel)
			o := b.execList(body, st.Body.List)
			lb, lc := b.labelFlows(myLabel)
			o.brk, o.cont = zjoin(o.brk, lb), zjoin(o.cont, lc)
			b.resetLabel(myLabel)
			back := zjoin(o.next, o.cont)
			exit = zjoin(head, zjoin(back, o.brk))
			nh := zjoin(head, back)
			if zleq(nh, head) {
				break
			}
			if it >= 3 {
				nh = zwiden(head, nh)
			}
			head = nh
		}
		out.next = exit
	case *ast.DeferStmt:
		b.checkExpr(z, st.Call)
		out.next = z
	case *ast.GoStmt:
		out.next = z
	case *ast.LabeledStmt:
		switch st.Stmt.(type) {
		case *ast.ForStmt, *ast.RangeStmt:
			b.nextLabel = st.Label.Name
			return b.exec(z, st.Stmt)
		}
		b.undec = "label on a statement other than a loop"
	default:
		b.undec = fmt.Sprintf("statement %T", s)
	}
	return out
}

func (b *boundsFn) execList(z *zone, list []ast.Stmt) flowOut {
	out := flowOut{next: z, brk: b.bottom(), cont: b.bottom()}
	for _, s := range list {
		o := b.exec(out.next, s)
		out.brk = zjoin(out.brk, o.brk)
		out.cont = zjoin(out.cont, o.cont)
		out.next = o.next
	}
	return out
}

// analyseBounds runs the analysis on one function. inputParams: the string
// parameters that carry input text.
func (p *Pkg) analyseBounds(fd *ast.FuncDecl) (*boundsFn, error) {
	return p.analyseBoundsPre(fd, nil, 0, token.NoPos, nil)
}

func (p *Pkg) analyseBoundsFloor(fd *ast.FuncDecl, obj types.Object, floor int64, after token.Pos) (*boundsFn, error) {
	return p.analyseBoundsPre(fd, obj, floor, after, nil)
}

// analyseBoundsFloor: as analyseBounds, additionally asking that every index or
// slice expression on obj after position `after` starts at an offset ≥ floor.
func (p *Pkg) analyseBoundsPre(fd *ast.FuncDecl, obj types.Object, floor int64, after token.Pos, pre [][]int64) (*boundsFn, error) {
	info := p.Info
	b := &boundsFn{p: p, fd: fd, intVar: map[types.Object]int{}, lenVar: map[types.Object]int{}, sites: map[ast.Node]*boundsSite{}, input: map[types.Object]bool{}, floorObj: obj, floor: floor, floorAfter: after}
	b.n = 1
	declare := func(o types.Object) {
		if o == nil {
			return
		}
		if _, isVar := o.(*types.Var); !isVar || o.Parent() == p.P.Types.Scope() {
			return
		}
		switch {
		case isBoolT(o.Type()):
			// a boolean flag (`last := end < 0`): modelled as −1 (true) / 0 (false) so that it
			// can serve as the partition variable
			if _, ok := b.intVar[o]; !ok {
				b.intVar[o] = b.n
				b.n++
				if b.flags == nil {
					b.flags = map[types.Object]bool{}
				}
				b.flags[o] = true
			}
		case isIntT(o.Type()):
			if _, ok := b.intVar[o]; !ok {
				b.intVar[o] = b.n
				b.n++
			}
		case isStringT(o.Type()):
			if _, ok := b.lenVar[o]; !ok {
				b.lenVar[o] = b.n
				b.n++
			}
		default:
			if _, isSlice := o.Type().Underlying().(*types.Slice); isSlice {
				if _, ok := b.lenVar[o]; !ok {
					b.lenVar[o] = b.n
					b.n++
				}
			}
		}
	}
	ast.Inspect(fd, func(n ast.Node) bool {
		if id, ok := n.(*ast.Ident); ok {
			declare(info.Defs[id])
		}
		return true
	})
	if b.n > 60 {
		return nil, fmt.Errorf("too many variables")
	}
	// input text: string parameters, and whatever is computed from them
	for _, po := range paramObjs(info, fd) {
		if po != nil && (isStringT(po.Type()) || isStringSlice(po.Type())) {
			b.input[po] = true
		}
	}
	for changed := true; changed; {
		changed = false
		ast.Inspect(fd.Body, func(n ast.Node) bool {
			switch st := n.(type) {
			case *ast.AssignStmt:
				t := false
				for _, r := range st.Rhs {
					if b.carriesInput(r) {
						t = true
					}
				}
				if t {
					for _, l := range st.Lhs {
						if o := identObj(info, l); o != nil && !b.input[o] && (isStringT(o.Type()) || isStringSlice(o.Type())) {
							b.input[o] = true
							changed = true
						}
					}
				}
			case *ast.RangeStmt:
				if b.carriesInput(st.X) && st.Value != nil {
					if o := identObj(info, st.Value); o != nil && !b.input[o] && isStringT(o.Type()) {
						b.input[o] = true
						changed = true
					}
				}
			}
			return true
		})
	}
	// the partition variable: assigned a negative constant and tested against 0 / −1
	{
		negAssigned := map[types.Object]bool{}
		tested := map[types.Object]bool{}
		isNegConst := func(e ast.Expr) bool {
			c, ok := constInt64(info, e)
			return ok && c < 0
		}
		ast.Inspect(fd.Body, func(n ast.Node) bool {
			switch st := n.(type) {
			case *ast.AssignStmt:
				if len(st.Lhs) == len(st.Rhs) {
					for i, l := range st.Lhs {
						if o := identObj(info, l); o != nil && isNegConst(st.Rhs[i]) {
							negAssigned[o] = true
						}
					}
				}
			case *ast.ValueSpec:
				for i, nm := range st.Names {
					if i < len(st.Values) && isNegConst(st.Values[i]) {
						if o := info.Defs[nm]; o != nil {
							negAssigned[o] = true
						}
					}
				}
			case *ast.BinaryExpr:
				switch st.Op {
				case token.LSS, token.GEQ, token.EQL, token.NEQ, token.GTR, token.LEQ:
					if c, ok := constInt64(info, st.Y); ok && (c == 0 || c == -1) {
						if o := identObj(info, st.X); o != nil {
							tested[o] = true
						}
					}
				}
			}
			return true
		})
		best := token.NoPos
		for o := range negAssigned {
			if idx, ok := b.intVar[o]; ok && tested[o] && !b.flags[o] {
				if best == token.NoPos || o.Pos() < best {
					best = o.Pos()
					b.pv = idx
				}
			}
		}
		if b.pv == 0 {
			// no integer sentinel: the first boolean flag that is tested by an if
			for o := range b.flags {
				used := false
				ast.Inspect(fd.Body, func(n ast.Node) bool {
					if ifs, ok := n.(*ast.IfStmt); ok {
						c := ast.Unparen(ifs.Cond)
						if u, ok := c.(*ast.UnaryExpr); ok && u.Op == token.NOT {
							c = ast.Unparen(u.X)
						}
						if identObj(info, c) == o {
							used = true
						}
					}
					return true
				})
				if used && (best == token.NoPos || o.Pos() < best) {
					best = o.Pos()
					b.pv = b.intVar[o]
				}
			}
		}
	}
	z := newZone(b.n, b.pv)
	for _, v := range b.lenVar {
		z.add(0, v, 0)
	}
	if pre != nil {
		slots := append([]int{0}, b.paramSlots(fd)...)
		if len(slots) == len(pre) {
			for i := range pre {
				for j := range pre[i] {
					if i != j && pre[i][j] < zinf && (slots[i] != 0 || i == 0) && (slots[j] != 0 || j == 0) && slots[i] != slots[j] {
						z.add(slots[i], slots[j], pre[i][j])
					}
				}
			}
		}
	}
	// first pass: invariants; second pass: verdicts
	b.execList(z, fd.Body.List)
	b.record = true
	b.execList(z, fd.Body.List)
	if b.undec != "" {
		return b, fmt.Errorf("%s is outside the analysed statement language", b.undec)
	}
	return b, nil
}

func isStringSlice(t types.Type) bool {
	s, ok := t.Underlying().(*types.Slice)
	return ok && isStringT(s.Elem())
}

func (w *World) rulesBounds(p *Pkg, add func(ok bool, rule, inst string, n ast.Node, detail string)) {
	root := p.Funcs["ParseVector"]
	if root == nil || root.Body == nil {
		return
	}
	// ParseVector and every package function reachable from it that takes a string
	var fns []*ast.FuncDecl
	seen := map[*ast.FuncDecl]bool{}
	work := []*ast.FuncDecl{root}
	for len(work) > 0 {
		f := work[len(work)-1]
		work = work[:len(work)-1]
		if seen[f] {
			continue
		}
		seen[f] = true
		takes := f == root
		for _, po := range paramObjs(p.Info, f) {
			if po != nil && (isStringT(po.Type()) || isStringSlice(po.Type())) {
				takes = true
			}
		}
		if takes {
			fns = append(fns, f)
		}
		work = append(work, p.calleesOf(f)...)
	}
	sort.Slice(fns, func(i, j int) bool { return fns[i].Pos() < fns[j].Pos() })
	// call-site preconditions of unexported helpers: every call of the helper lies in an
	// analysed function, and what holds between the arguments at each call (joined over
	// the calls) is assumed at the helper's entry. Callers first, three rounds.
	pres := map[*ast.FuncDecl][][]int64{}
	{
		inSet := map[*ast.FuncDecl]bool{}
		for _, f := range fns {
			inSet[f] = true
		}
		callSites := map[*ast.FuncDecl]int{} // calls of g anywhere in the package
		seenSites := map[*ast.FuncDecl]int{} // calls of g inside analysed functions
		for _, fd := range p.FuncObj {
			if fd.Body == nil {
				continue
			}
			ast.Inspect(fd.Body, func(n ast.Node) bool {
				if c, ok := n.(*ast.CallExpr); ok {
					if fn := calleeOf(p.Info, c); fn != nil && fn.Pkg() == p.P.Types {
						if g := p.FuncObj[fn]; g != nil {
							callSites[g]++
							if inSet[fd] {
								seenSites[g]++
							}
						}
					}
				}
				return true
			})
		}
		// a function used as a value may be called from anywhere
		usedAsValue := map[*ast.FuncDecl]bool{}
		parents := p.parentMap()
		for id, o := range p.Info.Uses {
			if fn, ok := o.(*types.Func); ok {
				if g := p.FuncObj[fn.Origin()]; g != nil {
					if c, ok := parents[id].(*ast.CallExpr); !ok || c.Fun != ast.Expr(id) {
						if se, ok := parents[id].(*ast.SelectorExpr); ok {
							if c2, ok := parents[se].(*ast.CallExpr); ok && c2.Fun == ast.Expr(se) {
								continue
							}
						}
						usedAsValue[g] = true
					}
				}
			}
		}
		for round := 0; round < 3; round++ {
			next := map[*ast.FuncDecl][][]int64{}
			count := map[*ast.FuncDecl]int{}
			for _, f := range fns {
				b, err := p.analyseBoundsPre(f, nil, 0, token.NoPos, pres[f])
				if err != nil || b == nil {
					continue
				}
				for g, m := range b.calls {
					count[g]++
					if old := next[g]; old != nil {
						for i := range old {
							for j := range old[i] {
								if m[i][j] > old[i][j] {
									old[i][j] = m[i][j]
								}
							}
						}
					} else {
						next[g] = m
					}
				}
			}
			changed := false
			for g, m := range next {
				if ast.IsExported(g.Name.Name) || usedAsValue[g] || callSites[g] != seenSites[g] || !inSet[g] {
					continue
				}
				if pres[g] == nil {
					changed = true
				}
				pres[g] = m
			}
			if !changed {
				break
			}
		}
	}
	total, proved := 0, 0
	for _, f := range fns {
		b, err := p.analyseBoundsPre(f, nil, 0, token.NoPos, pres[f])
		if err != nil {
			if b != nil && len(b.sites) == 0 {
				continue // nothing to prove in a function the analysis cannot follow
			}
			add(false, "R01.bounds", f.Name.Name, f, "index safety of "+f.Name.Name+" not decided: "+err.Error())
			continue
		}
		var nodes []ast.Node
		for n := range b.sites {
			nodes = append(nodes, n)
		}
		sort.Slice(nodes, func(i, j int) bool { return nodes[i].Pos() < nodes[j].Pos() })
		for i, n := range nodes {
			s := b.sites[n]
			total++
			if s.ok {
				proved++
			}
			add(s.ok, "R01.bounds", fmt.Sprintf("%s.site%d", f.Name.Name, i+1), n, s.detail)
		}
	}
	add(true, "R01.bounds", "census", root, fmt.Sprintf("%d functions on the path of the input text analysed in the zone domain; %d index/slice expressions on input text, %d entailed", len(fns), total, proved))
}
