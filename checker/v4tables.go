package main

// v4.0 data tables (M6) and MacroVector predicates (M7): rule group "v4tables"
// (R04.lookup, R12.lookup, R11.table, R04.eq, R10.v4default).

import (
	_ "embed"
	"encoding/json"
	"fmt"
	"go/ast"
	"go/types"
	"math/big"
	"runtime"
	"sort"
	"strings"
	"sync"
)

//go:embed spec/v40.json
var v40JSON []byte

type v40Oracle struct {
	SourceLookup string                `json:"source_lookup"`
	Lookup       map[string]string     `json:"lookup"`
	SourceMax    string                `json:"source_max"`
	Max          map[string][][]string `json:"max"`
	Max36        map[string][]string   `json:"max36"`
	Depth        map[string][]int      `json:"depth_plus_1"`
	Depth36      map[string]int        `json:"depth36_plus_1"`
}

var v40 v40Oracle

func init() {
	if err := json.Unmarshal(v40JSON, &v40); err != nil {
		panic(err)
	}
}

// lookupTable evaluates lookupMV over the box 0..3^6 with the M7 evaluator:
// the complete function table (value or panic) whatever the shape of the code.
func (p *Pkg) lookupTable() (map[string]*big.Rat, *ast.FuncDecl, error) {
	fd := p.Funcs["lookupMV"]
	if fd == nil {
		// structural fallback: the only func(int x6) float64
		for _, f := range p.Funcs {
			if f.Recv == nil && f.Type.Params != nil && len(paramObjs(p.Info, f)) == 6 {
				fd = f
			}
		}
	}
	if fd == nil {
		return nil, nil, fmt.Errorf("no MacroVector lookup function found")
	}
	tbl := map[string]*big.Rat{}
	var k [6]int
	var rec func(i int) error
	rec = func(i int) error {
		if i == 6 {
			args := make([]Val, 6)
			for j := range k {
				args[j] = vInt(int64(k[j]))
			}
			v, err := newCEnv(p, nil).callFunc(fd, args, fd)
			if err != nil {
				if _, isP := err.(*panicked); isP {
					return nil
				}
				return err
			}
			if v.K != VRat && v.K != VInt {
				return fmt.Errorf("lookup returns %s", v)
			}
			tbl[fmt.Sprintf("%d%d%d%d%d%d", k[0], k[1], k[2], k[3], k[4], k[5])] = toRat(v)
			return nil
		}
		for c := 0; c < 4; c++ {
			k[i] = c
			if err := rec(i + 1); err != nil {
				return err
			}
		}
		return nil
	}
	if err := rec(0); err != nil {
		return nil, fd, err
	}
	return tbl, fd, nil
}

// effective-value view of a v4 object for the oracle predicates
type effView map[string]string

func (p *Pkg) effOf(codes map[string]int) effView {
	sm := p.SetModel()
	ov := vocab[p.Key]
	ev := effView{}
	for _, om := range ov.list {
		if om.ModifiedOf != "" {
			continue
		}
		m := sm.ByLabel[om.Abv]
		if m == nil {
			continue
		}
		val := m.List[codes[om.Abv]]
		if mm := sm.ByLabel["M"+om.Abv]; mm != nil && ov.byAbv["M"+om.Abv] != nil {
			if c := codes["M"+om.Abv]; c != 0 {
				val = mm.List[c]
			}
		}
		if val == ov.ND && om.Default != "" {
			val = om.Default
		}
		ev[om.Abv] = val
	}
	return ev
}

var eqOracle = map[int]func(e effView) int{
	1: func(e effView) int {
		n := e["AV"] == "N" || e["PR"] == "N" || e["UI"] == "N"
		all := e["AV"] == "N" && e["PR"] == "N" && e["UI"] == "N"
		switch {
		case all:
			return 0
		case n && !all && e["AV"] != "P":
			return 1
		}
		return 2
	},
	2: func(e effView) int {
		if e["AC"] == "L" && e["AT"] == "N" {
			return 0
		}
		return 1
	},
	3: func(e effView) int {
		switch {
		case e["VC"] == "H" && e["VI"] == "H":
			return 0
		case e["VC"] == "H" || e["VI"] == "H" || e["VA"] == "H":
			return 1
		}
		return 2
	},
	4: func(e effView) int {
		switch {
		case e["SI"] == "S" || e["SA"] == "S":
			return 0
		case e["SC"] == "H" || e["SI"] == "H" || e["SA"] == "H":
			return 1
		}
		return 2
	},
	5: func(e effView) int {
		switch e["E"] {
		case "A":
			return 0
		case "P":
			return 1
		}
		return 2
	},
	6: func(e effView) int {
		if (e["CR"] == "H" && e["VC"] == "H") || (e["IR"] == "H" && e["VI"] == "H") || (e["AR"] == "H" && e["VA"] == "H") {
			return 0
		}
		return 1
	},
}

var eqInputs = map[int][]string{
	1: {"AV", "MAV", "PR", "MPR", "UI", "MUI"},
	2: {"AC", "MAC", "AT", "MAT"},
	3: {"VC", "MVC", "VI", "MVI", "VA", "MVA"},
	4: {"SC", "MSC", "SI", "MSI", "SA", "MSA"},
	5: {"E"},
	6: {"CR", "IR", "AR", "VC", "MVC", "VI", "MVI", "VA", "MVA"},
}

// assignDeps computes, for every local assigned in fd, the metrics it depends
// on (data and control dependence), flow-insensitively.
func (p *Pkg) assignDeps(fd *ast.FuncDecl) map[types.Object]map[string]bool {
	deps := map[types.Object]map[string]bool{}
	changed := true
	addTo := func(o types.Object, d map[string]bool) {
		if o == nil {
			return
		}
		if deps[o] == nil {
			deps[o] = map[string]bool{}
		}
		for m := range d {
			if !deps[o][m] {
				deps[o][m] = true
				changed = true
			}
		}
	}
	var walk func(stmts []ast.Stmt, ctl map[string]bool)
	walk = func(stmts []ast.Stmt, ctl map[string]bool) {
		for _, s := range stmts {
			switch st := s.(type) {
			case *ast.AssignStmt:
				for i, l := range st.Lhs {
					o := identObj(p.Info, l)
					var r ast.Node = st
					if len(st.Lhs) == len(st.Rhs) {
						r = st.Rhs[i]
					}
					d, _ := p.depsOf(r, deps)
					addTo(o, d)
					addTo(o, ctl)
				}
			case *ast.IncDecStmt:
				addTo(identObj(p.Info, st.X), ctl)
			case *ast.IfStmt:
				d, _ := p.depsOf(st.Cond, deps)
				nc := map[string]bool{}
				for m := range ctl {
					nc[m] = true
				}
				for m := range d {
					nc[m] = true
				}
				walk(st.Body.List, nc)
				if st.Else != nil {
					switch el := st.Else.(type) {
					case *ast.BlockStmt:
						walk(el.List, nc)
					default:
						walk([]ast.Stmt{el}, nc)
					}
				}
			case *ast.BlockStmt:
				walk(st.List, ctl)
			case *ast.SwitchStmt:
				d := map[string]bool{}
				if st.Tag != nil {
					d, _ = p.depsOf(st.Tag, deps)
				}
				nc := map[string]bool{}
				for m := range ctl {
					nc[m] = true
				}
				for m := range d {
					nc[m] = true
				}
				for _, cs := range st.Body.List {
					walk(cs.(*ast.CaseClause).Body, nc)
				}
			}
		}
	}
	for changed {
		changed = false
		walk(fd.Body.List, map[string]bool{})
	}
	return deps
}

// rulesV4Tables: as for Score (v4score.go), the tabulation of macroVector is
// stated over locals that hold one metric each; when it is undecided or fails,
// it is retried on the source-level normalisation of the package.
func (w *World) rulesV4Tables(out *[]Obligation) {
	var first []Obligation
	w.rulesV4TablesOn(&first)
	bad := 0
	for _, o := range first {
		if !o.OK {
			bad++
		}
	}
	if bad > 0 && !w.normalized {
		for attempt := 0; attempt < 2; attempt++ {
			var w2 *World
			var notes []string
			var err error
			if attempt == 0 {
				w2, notes, err = w.normalizedWorld("40", []string{"Score", "macroVector"})
			} else {
				w2, notes, err = w.inlinedWorld("40", []string{"Score", "macroVector"})
			}
			if err == nil && w2 != nil {
				w2.normalized = true
				var second []Obligation
				w2.rulesV4TablesOn(&second)
				bad2 := 0
				for _, o := range second {
					if !o.OK {
						bad2++
					}
				}
				w.Extra["v4_tables_normalisation"] = fmt.Sprintf("%d failing obligations before, %d after: %s", bad, bad2, strings.Join(notes, "; "))
				if bad2 == 0 || (attempt == 1 && bad2 < bad) {
					second = append(second, Obligation{Rule: "R04.eq", Instance: "40.macroVector.normalised", Pos: "40", OK: true, NonTrivial: true,
						Detail: "macroVector tabulated after source-level normalisation (equivalent program, type-checked through an overlay): " + strings.Join(notes, "; ")})
					*out = append(*out, second...)
					return
				}
			}
		}
	}
	*out = append(*out, first...)
}

func (w *World) rulesV4TablesOn(out *[]Obligation) {
	p := w.Pkgs["40"]
	sm := p.SetModel()
	add := func(ok bool, rule, inst string, n ast.Node, detail string) {
		pos := "40"
		if n != nil {
			pos = p.pos(n)
		}
		*out = append(*out, Obligation{Rule: rule, Instance: "40." + inst, Pos: pos, OK: ok, Detail: detail, NonTrivial: true})
	}
	// ---- lookup table
	tbl, lfd, err := p.lookupTable()
	if err != nil {
		add(false, "R04.lookup", "lookupMV", lfd, "cannot extract the lookup table: "+err.Error())
	} else {
		keys := map[string]bool{}
		for k := range tbl {
			keys[k] = true
		}
		for k := range v40.Lookup {
			keys[k] = true
		}
		var ks []string
		for k := range keys {
			ks = append(ks, k)
		}
		sort.Strings(ks)
		for _, k := range ks {
			got, has := tbl[k]
			ws, want := v40.Lookup[k]
			switch {
			case !has:
				add(false, "R04.lookup", "lookupMV["+k+"]", lfd, "MacroVector "+k+" (specification score "+ws+") has no entry: Score panics or uses NaN")
			case !want:
				add(false, "R04.lookup", "lookupMV["+k+"]", lfd, "entry for "+k+" which is not a MacroVector of the specification table")
			default:
				wr, _ := new(big.Rat).SetString(ws)
				if got.Cmp(wr) == 0 {
					add(true, "R04.lookup", "lookupMV["+k+"]", lfd, k+" -> "+ws)
				} else {
					add(false, "R04.lookup", "lookupMV["+k+"]", lfd, fmt.Sprintf("MacroVector %s scores %s in the code, %s in the specification table", k, got.FloatString(1), ws))
				}
			}
			if has {
				// R11.table: one decimal in [0,10]
				t := new(big.Rat).Mul(got, big.NewRat(10, 1))
				okT := t.IsInt() && got.Sign() >= 0 && got.Cmp(big.NewRat(10, 1)) <= 0
				add(okT, "R11.table", "lookupMV["+k+"]", lfd, map[bool]string{true: "one-decimal value in [0,10]", false: "lookup value " + got.RatString() + " is not a one-decimal number in [0,10]"}[okT])
			}
		}
		// R12.lookup: non-increasing along every EQ edge, EQ3/EQ6 in the joint order
		nEdges := 0
		for _, k := range ks {
			a, has := tbl[k]
			if !has {
				continue
			}
			d := []byte(k)
			try := func(nk string, what string) {
				b, has := tbl[nk]
				if !has {
					return
				}
				nEdges++
				if b.Cmp(a) > 0 {
					add(false, "R12.lookup", "lookupMV["+k+"->"+nk+"]", lfd, fmt.Sprintf("MacroVector %s (%s) scores lower than the less severe %s (%s) (%s)", k, a.FloatString(1), nk, b.FloatString(1), what))
				}
			}
			for _, i := range []int{0, 1, 3, 4} {
				nd := append([]byte(nil), d...)
				nd[i]++
				try(string(nd), fmt.Sprintf("EQ%d one level lower", i+1))
			}
			// joint EQ3/EQ6 order: 00 >= 01,10 >= 11 >= 21
			j := string([]byte{d[2], d[5]})
			for _, nx := range map[string][]string{"00": {"01", "10"}, "01": {"11"}, "10": {"11"}, "11": {"21"}}[j] {
				nd := append([]byte(nil), d...)
				nd[2], nd[5] = nx[0], nx[1]
				try(string(nd), "EQ3/EQ6 joint order "+j+"->"+nx)
			}
		}
		add(true, "R12.lookup", "lookupMV.edges", lfd, fmt.Sprintf("%d next-lower edges examined: the table is non-increasing along every examined edge unless reported", nEdges))
	}
	// ---- MacroVector predicates
	mv := p.method("macroVector")
	if mv == nil {
		for n, f := range p.Funcs {
			if f.Recv != nil && f.Type.Results != nil && len(f.Type.Results.List) == 6 {
				_ = n
				mv = f
			}
		}
	}
	if mv == nil {
		add(false, "R04.eq", "macroVector", nil, "no method returning the six EQ levels found")
		return
	}
	// dependency check per returned component
	var retIdents []types.Object
	for _, s := range mv.Body.List {
		if rs, ok := s.(*ast.ReturnStmt); ok && len(rs.Results) == 6 {
			retIdents = nil
			for _, r := range rs.Results {
				retIdents = append(retIdents, identObj(p.Info, r))
			}
		}
	}
	deps := p.assignDeps(mv)
	totalEvals := 0
	for K := 1; K <= 6; K++ {
		inst := fmt.Sprintf("macroVector.EQ%d", K)
		inputs := append([]string(nil), eqInputs[K]...)
		usePartial := false
		if len(retIdents) == 6 && retIdents[K-1] != nil {
			extra := []string{}
			for m := range deps[retIdents[K-1]] {
				found := false
				for _, in := range inputs {
					if in == m {
						found = true
					}
				}
				if !found {
					extra = append(extra, m)
				}
			}
			sort.Strings(extra)
			inputs = append(inputs, extra...)
		} else {
			// no local variable to attribute dependencies to: the function is
			// partially evaluated with every receiver bit outside the
			// specification's inputs of this EQ unknown; a level that comes back
			// known provably does not depend on them
			usePartial = true
		}
		size := 1
		for _, in := range inputs {
			if sm.ByLabel[in] == nil {
				size = 0
				break
			}
			size *= len(sm.ByLabel[in].List)
		}
		if size == 0 || size > 3_000_000 {
			add(false, "R04.eq", inst, mv, fmt.Sprintf("EQ%d depends on %v: too many combinations to tabulate (undecided)", K, inputs))
			continue
		}
		// enumerate all rows, evaluate them on all cores
		var rows [][]int
		cur := make([]int, len(inputs))
		var gen func(i int)
		gen = func(i int) {
			if i == len(inputs) {
				rows = append(rows, append([]int(nil), cur...))
				return
			}
			for c := range sm.ByLabel[inputs[i]].List {
				cur[i] = c
				gen(i + 1)
			}
		}
		gen(0)
		type res struct {
			bad   int
			first string
			err   error
		}
		nw := runtime.NumCPU()
		if nw > 16 {
			nw = 16
		}
		results := make([]res, nw)
		var wg sync.WaitGroup
		for wi := 0; wi < nw; wi++ {
			wg.Add(1)
			go func(wi int) {
				defer wg.Done()
				r := &results[wi]
				for ri := wi; ri < len(rows); ri += nw {
					codes := map[string]int{}
					for j, in := range inputs {
						codes[in] = rows[ri][j]
					}
					var v Val
					if usePartial {
						var err error
						v, err = p.partialEval(mv, codes, nil)
						if err != nil {
							r.err = err
							return
						}
						if v.K == VTuple && len(v.T) == 6 && v.T[K-1].K == VUnk {
							r.err = fmt.Errorf("EQ%d is not determined by %v alone: it depends on other receiver bits", K, inputs)
							return
						}
					} else {
						bytes, err := p.bytesFromCodes(codes)
						if err != nil {
							r.err = err
							return
						}
						v, err = newCEnv(p, bytes).callFunc(mv, nil, mv)
						if err != nil {
							r.err = err
							return
						}
					}
					if v.K != VTuple || len(v.T) != 6 || v.T[K-1].K != VInt {
						r.err = fmt.Errorf("macroVector returned %s", v)
						return
					}
					want := eqOracle[K](p.effOf(codes))
					if int(v.T[K-1].I) != want {
						r.bad++
						if r.first == "" {
							var parts []string
							for _, in := range inputs {
								parts = append(parts, in+":"+sm.ByLabel[in].List[codes[in]])
							}
							r.first = fmt.Sprintf("for %s the code gives EQ%d=%d, the specification (on effective values, X defaults applied) gives %d", strings.Join(parts, "/"), K, v.T[K-1].I, want)
						}
					}
				}
			}(wi)
		}
		wg.Wait()
		bad, evals := 0, len(rows)
		var firstBad string
		var rerr error
		for _, r := range results {
			bad += r.bad
			if firstBad == "" {
				firstBad = r.first
			}
			if r.err != nil {
				rerr = r.err
			}
		}
		if rerr != nil {
			add(false, "R04.eq", inst, mv, "cannot tabulate: "+rerr.Error())
			continue
		}
		totalEvals += evals
		if bad == 0 {
			add(true, "R04.eq", inst, mv, fmt.Sprintf("complete truth table over %v (%d rows) equals the specification predicate on effective values; no other metric influences EQ%d", inputs, evals, K))
		} else {
			add(false, "R04.eq", inst, mv, fmt.Sprintf("%d of %d rows differ; e.g. %s", bad, evals, firstBad))
		}
	}
	w.Extra["macrovector_rows"] = totalEvals
}

func init() {
	registerGroup("v4tables", func(w *World, out *[]Obligation) { w.rulesV4Tables(out) })
}
