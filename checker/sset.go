package main

// Semantic model of Set (fallback of the syntactic model of model.go).
//
// Set(abv, value) is run by the hybrid evaluator (hybrid.go) on a symbolic
// receiver, for every candidate abbreviation and every candidate value (the
// specification's vocabulary of all versions, the package's own short string
// constants, case variants and junk). Each run ends in a result (nil, a
// sentinel, a typed error) and a final receiver state that says, bit by bit,
// whether the bit kept its value, received a constant, or something else.
// From these runs the model is read off without reference to the shape of the
// code (switch, descriptor table, map, generic store helper, 16-bit windows…):
//
//   labels      abbreviations for which some value is accepted
//   list        accepted values, ordered by the integer their stored bits form
//   field       the bits written by a successful Set(label, ·)
//   encoding    code bit j -> receiver bit
//
// and the layout obligations are decided on the runs themselves: a successful
// Set writes the same bits whatever the value (no stale bit survives) and
// constants only; a refused Set (illegal value, unknown abbreviation) leaves
// every bit untouched and returns the documented error.

import (
	"fmt"
	"go/ast"
	"go/token"
	"regexp"
	"sort"
	"strconv"
	"strings"
)

type setRun struct {
	ok    bool   // Set returned nil
	err   string // sentinel name or typed error type
	abv   string // Abv field of a typed error
	ptr   bool   // typed error built with &
	state [][8]Bit
}

func (p *Pkg) stringConstants(maxLen int) []string {
	seen := map[string]bool{}
	for _, f := range p.P.Syntax {
		ast.Inspect(f, func(n ast.Node) bool {
			if bl, ok := n.(*ast.BasicLit); ok && bl.Kind == token.STRING {
				if s, err := strconv.Unquote(bl.Value); err == nil && len(s) <= maxLen && len(s) > 0 {
					seen[s] = true
				}
			}
			return true
		})
	}
	var out []string
	for s := range seen {
		out = append(out, s)
	}
	sort.Strings(out)
	return out
}

func swapCase(s string) string {
	b := []byte(s)
	for i, c := range b {
		switch {
		case c >= 'a' && c <= 'z':
			b[i] = c - 32
		case c >= 'A' && c <= 'Z':
			b[i] = c + 32
		}
	}
	return string(b)
}

// buildSetModelSemantic returns nil and the reason when Set is outside the
// hybrid evaluator's language.
func (p *Pkg) buildSetModelSemantic() (*SetModel, error) {
	fd := p.method("Set")
	if fd == nil || fd.Body == nil {
		return nil, fmt.Errorf("no Set method")
	}
	params := paramObjs(p.Info, fd)
	if len(params) != 2 {
		return nil, fmt.Errorf("Set does not take (abbreviation, value)")
	}
	ov := vocab[p.Key]
	sm := &SetModel{ByLabel: map[string]*Metric{}, Owner: map[BitPos]*Metric{}, Fn: fd, Semantic: true}
	sm.AbvParam, sm.ValParam = params[0], params[1]
	at := &ast.CaseClause{Case: fd.Pos(), Colon: fd.Pos()}
	inst := func(label string) string { return fmt.Sprintf("%s.Set[%s]", p.Key, label) }
	add := func(ok bool, rule, label string, n ast.Node, detail string) {
		sm.Obls = append(sm.Obls, Obligation{Rule: rule, Instance: inst(label), Pos: p.pos(n), OK: ok, Detail: detail, NonTrivial: true})
	}
	// candidates
	abbrRe := regexp.MustCompile(`^[A-Za-z]{1,4}$`)
	labelSet, valueSet := map[string]bool{}, map[string]bool{"": true, "?": true, "\x00": true}
	for _, v := range vocab {
		for _, m := range v.list {
			labelSet[m.Abv] = true
			for _, x := range m.Values {
				valueSet[x] = true
			}
		}
	}
	for _, s := range p.stringConstants(8) {
		if abbrRe.MatchString(s) {
			labelSet[s] = true
		}
		valueSet[s] = true
	}
	for v := range valueSet {
		if sc := swapCase(v); sc != v {
			valueSet[sc] = true
		}
	}
	var labels, values []string
	for l := range labelSet {
		labels = append(labels, l)
	}
	for v := range valueSet {
		values = append(values, v)
	}
	sort.Strings(labels)
	sort.Strings(values)
	nRuns := 0
	run := func(abv, val string) (*setRun, error) {
		nRuns++
		leaves, split, err := p.explore(fd, []Val{vStr(abv), vStr(val)}, 16)
		if err != nil {
			return nil, err
		}
		if len(leaves) != 1 || len(split) != 0 {
			return nil, fmt.Errorf("Set(%q, %q) branches on the previous value of receiver bits %v", abv, val, split)
		}
		lf := leaves[0]
		if lf.Err != nil {
			return nil, fmt.Errorf("Set(%q, %q): %v", abv, val, lf.Err)
		}
		r := &setRun{state: lf.State}
		switch lf.Ret.K {
		case VNil:
			r.ok = true
		case VOpaque:
			r.err = lf.Ret.S
		case VStruct:
			r.err = lf.Ret.S
			r.ptr = lf.Ret.I == 1
			if a, ok := lf.Ret.F["Abv"]; ok && a.K == VStr {
				r.abv = a.S
			}
		default:
			return nil, fmt.Errorf("Set(%q, %q) returns %s", abv, val, lf.Ret)
		}
		return r, nil
	}
	untouched := func(st [][8]Bit) (BitPos, bool) {
		for f := range st {
			for b := 0; b < 8; b++ {
				t := st[f][b]
				if !(t.K == BIn && t.A == f && t.B == b) {
					return BitPos{f, b}, false
				}
			}
		}
		return BitPos{}, true
	}
	// unknown abbreviation
	{
		r, err := run("\x00zz", "N")
		if err != nil {
			return nil, err
		}
		refuses := !r.ok
		typed := refuses && r.err == "ErrInvalidMetric" && r.ptr && r.abv == "\x00zz"
		why := "an unknown abbreviation is refused with &ErrInvalidMetric naming it"
		if !refuses {
			why = "an unknown abbreviation is accepted by Set"
		} else if !typed {
			why = fmt.Sprintf("an unknown abbreviation is refused with %s (pointer=%v, Abv=%q); the documented error is &ErrInvalidMetric{Abv: abv}", r.err, r.ptr, strings.ReplaceAll(r.abv, "\x00zz", "<abv>"))
		}
		add(refuses, "R09.default", "default", at, map[bool]string{true: "an unknown abbreviation is refused with a non-nil error", false: why}[refuses])
		add(typed, "R18.default", "default", at, why)
		if pos, ok := untouched(r.state); ok {
			add(true, "R07.guard", "default", at, "an unknown abbreviation leaves every receiver bit untouched")
		} else {
			add(false, "R07.guard", "default", at, fmt.Sprintf("Set with an unknown abbreviation writes receiver bit %s", pos))
		}
	}
	type labelRuns struct {
		label string
		runs  map[string]*setRun
		acc   []string
	}
	var known []*labelRuns
	for _, l := range labels {
		lr := &labelRuns{label: l, runs: map[string]*setRun{}}
		anyKnown := false
		for _, v := range values {
			r, err := run(l, v)
			if err != nil {
				return nil, err
			}
			lr.runs[v] = r
			if r.ok {
				lr.acc = append(lr.acc, v)
			}
			if r.ok || r.err != "ErrInvalidMetric" {
				anyKnown = true
			}
		}
		if anyKnown {
			known = append(known, lr)
		}
	}
	// case sensitivity of the abbreviation and of the value
	caseOK := [2]bool{true, true}
	caseWhy := [2]string{"abbreviations are compared exactly: no case variant of a known abbreviation is known", "values are compared exactly: no case variant of an accepted value is accepted unless it is a value itself"}
	knownSet := map[string]bool{}
	for _, lr := range known {
		knownSet[lr.label] = true
	}
	for _, lr := range known {
		if sc := swapCase(lr.label); sc != lr.label && knownSet[sc] && vocab[p.Key].byAbv[sc] == nil && vocab[p.Key].byAbv[lr.label] != nil {
			caseOK[0] = false
			caseWhy[0] = fmt.Sprintf("Set also knows %q, a case variant of %s", sc, lr.label)
		}
		om := ov.byAbv[lr.label]
		for _, v := range lr.acc {
			if om != nil && !setOf(om.Values)[v] && setOf(om.Values)[swapCase(v)] {
				caseOK[1] = false
				caseWhy[1] = fmt.Sprintf("Set(%s) accepts %q, a case variant of the value %q", lr.label, v, swapCase(v))
			}
			if om != nil && !setOf(om.Values)[v] {
				for _, sv := range om.Values {
					if strings.EqualFold(sv, v) {
						caseOK[1] = false
						caseWhy[1] = fmt.Sprintf("Set(%s) accepts %q, a case variant of the value %q", lr.label, v, sv)
					}
				}
			}
		}
	}
	for i := 0; i < 2; i++ {
		for _, rule := range []string{"R01.case", "R09.case"} {
			sm.Obls = append(sm.Obls, Obligation{Rule: rule, Instance: fmt.Sprintf("%s.Set.param%d", p.Key, i), Pos: p.pos(fd), OK: caseOK[i], NonTrivial: true, Detail: caseWhy[i]})
		}
	}
	// per label
	idx := 0
	specOrder := map[string]int{}
	for i, m := range ov.list {
		specOrder[m.Abv] = i
	}
	sort.SliceStable(known, func(i, j int) bool {
		a, okA := specOrder[known[i].label]
		b, okB := specOrder[known[j].label]
		if okA != okB {
			return okA
		}
		if okA {
			return a < b
		}
		return known[i].label < known[j].label
	})
	for _, lr := range known {
		m := &Metric{Label: lr.label, Arm: at, Index: idx, W: map[BitPos]Bit{}, armPos: p.pos(fd)}
		idx++
		// refused values: untouched, documented error
		guardOK, propOK := true, true
		guardWhy, propWhy := "", ""
		for _, v := range values {
			r := lr.runs[v]
			if r.ok {
				continue
			}
			if pos, ok := untouched(r.state); !ok && guardOK {
				guardOK = false
				guardWhy = fmt.Sprintf("Set(%s, %q) fails but writes receiver bit %s: a failed Set modifies the object", lr.label, v, pos)
			}
			if r.err != "ErrInvalidMetricValue" && propOK {
				propOK = false
				propWhy = fmt.Sprintf("Set(%s, %q) is refused with %s, the documented error is ErrInvalidMetricValue", lr.label, v, r.err)
			}
		}
		if guardOK {
			add(true, "R07.guard", lr.label, at, fmt.Sprintf("%d candidate values refused, each leaving every receiver bit untouched; %d accepted", len(values)-len(lr.acc), len(lr.acc)))
		} else {
			add(false, "R07.guard", lr.label, at, guardWhy)
		}
		if propOK {
			add(true, "R18.prop", lr.label, at, "every refused value yields ErrInvalidMetricValue")
		} else {
			add(false, "R18.prop", lr.label, at, propWhy)
		}
		// accepted values: the field
		field := map[BitPos]bool{}
		storeOK := true
		fail := func(f string, a ...any) {
			if storeOK {
				add(false, "R07.store", lr.label, at, fmt.Sprintf(f, a...))
			}
			storeOK = false
		}
		if len(lr.acc) == 0 {
			fail("Set knows %s but accepts no value for it", lr.label)
		}
		for _, v := range lr.acc {
			st := lr.runs[v].state
			for f := range st {
				for b := 0; b < 8; b++ {
					t := st[f][b]
					if t.K == BIn && t.A == f && t.B == b {
						continue
					}
					field[BitPos{f, b}] = true
					if t.K != BZero && t.K != BOne {
						fail("after Set(%s, %q) bit %s holds %s, neither a constant of the stored code nor its previous value (a stale or foreign bit)", lr.label, v, BitPos{f, b}, t)
					}
				}
			}
		}
		var fpos []BitPos
		for pos := range field {
			fpos = append(fpos, pos)
		}
		// most significant first: earlier byte, higher bit
		sort.Slice(fpos, func(i, j int) bool {
			if fpos[i].F != fpos[j].F {
				return fpos[i].F < fpos[j].F
			}
			return fpos[i].B > fpos[j].B
		})
		// code bits: written bits that some accepted value sets; the other
		// written bits are padding (always 0)
		var cpos []BitPos
		for _, pos := range fpos {
			for _, v := range lr.acc {
				if lr.runs[v].state[pos.F][pos.B].K == BOne {
					cpos = append(cpos, pos)
					break
				}
			}
		}
		codes := map[string]int{}
		byCode := map[int]string{}
		for _, v := range lr.acc {
			st := lr.runs[v].state
			c := 0
			for _, pos := range fpos {
				if t := st[pos.F][pos.B]; t.K == BIn && t.A == pos.F && t.B == pos.B {
					fail("Set(%s, %q) leaves bit %s unchanged while other values of %s write it: the stored code depends on the previous value (stale bit)", lr.label, v, pos, lr.label)
				}
			}
			for _, pos := range cpos {
				t := st[pos.F][pos.B]
				c <<= 1
				switch t.K {
				case BOne:
					c |= 1
				case BZero:
				default:
					if t.K == BIn && t.A == pos.F && t.B == pos.B {
						fail("Set(%s, %q) leaves bit %s unchanged while other values of %s write it: the stored code depends on the previous value (stale bit)", lr.label, v, pos, lr.label)
					}
				}
			}
			if o, dup := byCode[c]; dup {
				fail("Set(%s) stores %q and %q identically", lr.label, o, v)
			}
			codes[v] = c
			byCode[c] = v
		}
		n := len(lr.acc)
		m.List = make([]string, n)
		contiguous := true
		for _, v := range lr.acc {
			if codes[v] >= n {
				contiguous = false
			} else {
				m.List[codes[v]] = v
			}
		}
		if !contiguous && storeOK {
			// keep source order; the layout is outside the model
			m.List = append([]string(nil), lr.acc...)
			add(false, "R07.store", lr.label, at, fmt.Sprintf("the stored codes of %v are not 0..%d when the field's bits are read most-significant first: undecided", lr.acc, n-1))
			storeOK = false
		}
		m.Width = bitlen(n - 1)
		if storeOK {
			if len(cpos) != m.Width {
				fail("%d values are stored in %d varying bits (need %d)", n, len(cpos), m.Width)
			}
		}
		if storeOK {
			m.Enc = make([]BitPos, m.Width)
			for _, pos := range fpos {
				m.W[pos] = Bit{K: BZero}
			}
			for k, pos := range cpos {
				j := len(cpos) - 1 - k
				m.Enc[j] = pos
				m.W[pos] = Bit{K: BVal, A: j}
			}
			m.encOK = true
			var enc []string
			for j, pp := range m.Enc {
				enc = append(enc, fmt.Sprintf("v%d->%s", j, pp))
			}
			add(true, "R07.store", lr.label, at, fmt.Sprintf("(semantic model) |L|=%d width=%d enc{%s}: every accepted value writes the same %d bits with constants; list in code order %v", n, m.Width, strings.Join(enc, ","), len(fpos), m.List))
			add(true, "R07.storev", lr.label, at, "the codes of the specification's values are stored in the metric's own field")
		} else {
			add(false, "R07.storev", lr.label, at, "the layout of "+lr.label+" is not established (see R07.store)")
		}
		sm.Metrics = append(sm.Metrics, m)
		sm.ByLabel[m.Label] = m
	}
	sm.SemanticRuns = nRuns
	p.setModelCross(sm, add)
	return sm, nil
}
