package main

// The documented API of a version package, as the properties name it:
// ParseVector, Rating, and on the vector type Vector, Get, Set, Nomenclature and
// the scoring methods (exported, no parameters, one float64 result). Rules about
// allocation budgets, receiver mutation and field writers speak about these
// functions and what they call — not about exported functions a later change
// adds next to them (MarshalText, Clone, Metrics…), which have their own
// contracts.

import (
	"go/ast"
	"go/types"
	"sort"
)

type apiScope struct {
	Roots map[string]*ast.FuncDecl
	// Reach[root name] = functions reachable from that root (root included)
	Reach map[string]map[*ast.FuncDecl]bool
	All   map[*ast.FuncDecl]bool // reachable from any documented root
	// ReadOnly: reachable from a documented root other than Set and ParseVector
	ReadOnly map[*ast.FuncDecl]bool
	// NotSet: reachable from a documented root other than Set
	NotSet map[*ast.FuncDecl]bool
	// AroundSet: reachable from a documented root other than Set on a call path
	// that does not pass through Set (helpers that only Set calls are not in it)
	AroundSet map[*ast.FuncDecl]bool
}

func (p *Pkg) calleesOf(fd *ast.FuncDecl) []*ast.FuncDecl {
	var out []*ast.FuncDecl
	seen := map[*ast.FuncDecl]bool{}
	if fd.Body == nil {
		return nil
	}
	ast.Inspect(fd.Body, func(n ast.Node) bool {
		id, ok := n.(*ast.Ident)
		if !ok {
			return true
		}
		// any reference to a package function or method (call or value)
		if fn, ok := p.Info.Uses[id].(*types.Func); ok && fn.Pkg() == p.P.Types {
			if d := p.FuncObj[fn]; d != nil && !seen[d] {
				seen[d] = true
				out = append(out, d)
			}
		}
		return true
	})
	return out
}

func (p *Pkg) API() *apiScope {
	if p.api != nil {
		return p.api
	}
	a := &apiScope{Roots: map[string]*ast.FuncDecl{}, Reach: map[string]map[*ast.FuncDecl]bool{}, All: map[*ast.FuncDecl]bool{}, ReadOnly: map[*ast.FuncDecl]bool{}, NotSet: map[*ast.FuncDecl]bool{}, AroundSet: map[*ast.FuncDecl]bool{}}
	p.api = a
	for _, n := range []string{"ParseVector", "Rating"} {
		if fd := p.Funcs[n]; fd != nil && fd.Body != nil {
			a.Roots[n] = fd
		}
	}
	for _, n := range []string{"Vector", "Get", "Set", "Nomenclature"} {
		if fd := p.method(n); fd != nil && fd.Body != nil {
			a.Roots[n] = fd
		}
	}
	for name, fd := range p.Funcs {
		if fd.Body == nil || fd.Recv == nil || !ast.IsExported(fd.Name.Name) || a.Roots[fd.Name.Name] != nil {
			continue
		}
		if p.method(fd.Name.Name) != fd {
			continue // a method of another type
		}
		fn, _ := p.Info.Defs[fd.Name].(*types.Func)
		if fn == nil {
			continue
		}
		sig := fn.Type().(*types.Signature)
		if sig.Params().Len() != 0 || sig.Results().Len() != 1 {
			continue
		}
		if b, ok := sig.Results().At(0).Type().Underlying().(*types.Basic); ok && b.Kind() == types.Float64 {
			a.Roots[fd.Name.Name] = fd
		}
		_ = name
	}
	var names []string
	for n := range a.Roots {
		names = append(names, n)
	}
	sort.Strings(names)
	for _, n := range names {
		r := map[*ast.FuncDecl]bool{}
		work := []*ast.FuncDecl{a.Roots[n]}
		for len(work) > 0 {
			f := work[len(work)-1]
			work = work[:len(work)-1]
			if r[f] {
				continue
			}
			r[f] = true
			work = append(work, p.calleesOf(f)...)
		}
		a.Reach[n] = r
		if n != "Set" {
			setRoot := a.Roots["Set"]
			work := []*ast.FuncDecl{a.Roots[n]}
			for len(work) > 0 {
				f := work[len(work)-1]
				work = work[:len(work)-1]
				if a.AroundSet[f] || f == setRoot {
					continue
				}
				a.AroundSet[f] = true
				work = append(work, p.calleesOf(f)...)
			}
		}
		for f := range r {
			a.All[f] = true
			if n != "Set" {
				a.NotSet[f] = true
			}
			if n != "Set" && n != "ParseVector" {
				a.ReadOnly[f] = true
			}
		}
	}
	return a
}
