package main

// Rule group "parse": the four ParseVector functions, validate, split, the
// error census (R01.*, R06.same, R06.cut, R13.*, R18.*). AST + types for
// return sites, go/cfg for path rules.

import (
	"fmt"
	"go/ast"
	"go/token"
	"go/types"
	"os"
	"strings"
	"sync"

	"golang.org/x/tools/go/cfg"
)

type parseModel struct {
	p      *Pkg
	fd     *ast.FuncDecl
	g      *cfg.CFG
	param  types.Object
	objVar types.Object
	loop   ast.Stmt
	// the loop as it stands in the function's statement list (the labelled
	// statement when the element loop carries a label, else loop itself)
	loopTop   ast.Stmt
	loopLabel string
	setCall   *ast.CallExpr
	splitAs   *ast.AssignStmt
	splitFn   *types.Func
	// an element split written inline (several consecutive statements that
	// define and refine the two halves): the statements, the first being splitAs
	splitRegion []ast.Stmt
	abvObj      types.Object
	valObj      types.Object
	orderVar    *types.Var
	// R01.cmp verdict, reported after the automaton has run
	cmpRan, cmpOK bool
	cmpDetail     string
	// the cursor automaton was decided and equals the specification's
	autoOK bool
	// it was tabulated at all; the ways in which it accepts less than the specification
	autoDecided bool
	autoUnder   []string
	// Set's error comes back unchanged in every acceptable transition (decided on the automaton)
	autoPropOK  bool
	autoPropWhy string
	// a CFG path that skips Set, to be judged once the automaton has run
	noskipPending string
	// semantic model of the defined-once mechanism (skvm.go)
	kvmSem *KvmSem
}

// acceptObl reports, under both owners, whether the parser accepts what the serializer writes.
func acceptObl(add func(ok bool, rule, inst string, n ast.Node, detail string), n ast.Node, ok bool, detail string) {
	add(ok, "R02.accept", "ParseVector.accepts", n, detail)
	add(ok, "R08.accept", "ParseVector.accepts", n, detail)
}

func (p *Pkg) blockOf(g *cfg.CFG, n ast.Node) *cfg.Block {
	for _, b := range g.Blocks {
		for _, x := range b.Nodes {
			if x.Pos() <= n.Pos() && n.End() <= x.End() {
				return b
			}
		}
	}
	return nil
}

func nodeMentions(info *types.Info, n ast.Node, objs ...types.Object) bool {
	found := map[types.Object]bool{}
	ast.Inspect(n, func(x ast.Node) bool {
		if id, ok := x.(*ast.Ident); ok {
			o := info.Uses[id]
			if o == nil {
				o = info.Defs[id]
			}
			for _, w := range objs {
				if o == w && o != nil {
					found[w] = true
				}
			}
		}
		return true
	})
	for _, w := range objs {
		if !found[w] {
			return false
		}
	}
	return true
}

func isStringsFunc(fn *types.Func, names ...string) bool {
	if fn == nil || fn.Pkg() == nil || fn.Pkg().Path() != "strings" {
		return false
	}
	for _, n := range names {
		if fn.Name() == n {
			return true
		}
	}
	return false
}

// sentinel returns the package-level error variable an expression denotes.
func (p *Pkg) sentinel(e ast.Expr) *types.Var {
	v, ok := identObj(p.Info, e).(*types.Var)
	if !ok || v.Parent() != p.P.Types.Scope() {
		return nil
	}
	if !types.Implements(v.Type(), errorIface()) {
		return nil
	}
	return v
}

func errorIface() *types.Interface {
	return types.Universe.Lookup("error").Type().Underlying().(*types.Interface)
}

// parseVerdict: the parser rules of package k, on the package as written or —
// when that leaves failures and inlining the error/ok-guarded calls of
// ParseVector (normalize2.go) decides more — on the equivalent inlined program.
type parseVerdict struct {
	pkg   *Pkg
	obls  []Obligation
	notes []string
}

var parseVerdictMu sync.Mutex

func (w *World) parseVerdictOf(k string) *parseVerdict {
	parseVerdictMu.Lock()
	defer parseVerdictMu.Unlock()
	if w.parseVerdicts == nil {
		w.parseVerdicts = map[string]*parseVerdict{}
	}
	if v, ok := w.parseVerdicts[k]; ok {
		return v
	}
	v := &parseVerdict{pkg: w.Pkgs[k]}
	w.parseVerdicts[k] = v
	w.rulesParsePkg(w.Pkgs[k], &v.obls)
	bad := 0
	for _, o := range v.obls {
		if !o.OK {
			bad++
		}
	}
	if bad == 0 || w.normalized {
		return v
	}
	w2, notes, err := w.inlinedParserWorld(k)
	if err != nil || w2 == nil {
		if err != nil {
			w.Extra["parse_normalisation_"+k] = "not applicable: " + err.Error()
		}
		return v
	}
	var second []Obligation
	w2.rulesParsePkg(w2.Pkgs[k], &second)
	bad2 := 0
	for _, o := range second {
		if !o.OK {
			bad2++
		}
	}
	w.Extra["parse_normalisation_"+k] = fmt.Sprintf("%d failing obligations before, %d after: %s", bad, bad2, strings.Join(notes, "; "))
	if os.Getenv("CVSSCHECK_DEBUG") != "" {
		for _, o := range second {
			if !o.OK {
				println("DBG second:", o.Rule, o.Instance, o.Pos, o.Detail)
			}
		}
	}
	undec := func(obls []Obligation) int {
		n := 0
		for _, o := range obls {
			if !o.OK && strings.Contains(o.Detail, "undecided") {
				n++
			}
		}
		return n
	}
	// the inlined program is preferred when it decides more
	if bad2 == 0 || bad2 < bad || undec(second) < undec(v.obls) {
		second = append(second, Obligation{Rule: "R01.pair", Instance: k + ".ParseVector.normalised", Pos: k, OK: true, NonTrivial: true,
			Detail: "ParseVector analysed after source-level inlining of its guarded helper calls (equivalent program, type-checked through an overlay): " + strings.Join(notes, "; ")})
		v.pkg, v.obls, v.notes = w2.Pkgs[k], second, notes
	}
	return v
}

func (w *World) rulesParse(out *[]Obligation) {
	for _, k := range w.Order {
		*out = append(*out, w.parseVerdictOf(k).obls...)
		// the bounded scanner tabulation runs on the program as written; when the
		// evaluator cannot run that, on the normalised (equivalent) program the parse
		// verdict was taken from, if there is one
		p := w.Pkgs[k]
		var scanObls []Obligation
		collect := func(pk *Pkg, suffix string) func(ok bool, rule, inst string, n ast.Node, detail string) {
			return func(ok bool, rule, inst string, n ast.Node, detail string) {
				pos := k
				if n != nil {
					pos = pk.pos(n)
				}
				scanObls = append(scanObls, Obligation{Rule: rule, Instance: k + "." + inst, Pos: pos, OK: ok, Detail: detail + suffix, NonTrivial: true})
			}
		}
		w.rulesScan(p, collect(p, ""))
		notRun := len(scanObls) == 1 && scanObls[0].OK && strings.HasPrefix(scanObls[0].Detail, "not evaluated")
		if vp := w.parseVerdictOf(k).pkg; notRun && vp != nil && vp != p {
			first := scanObls
			scanObls = nil
			w.rulesScan(vp, collect(vp, " (evaluated on the program with its helper calls inlined)"))
			if len(scanObls) == 0 || (len(scanObls) == 1 && scanObls[0].OK && strings.HasPrefix(scanObls[0].Detail, "not evaluated")) {
				scanObls = first
			}
		}
		*out = append(*out, scanObls...)
	}
	// R13.const: headers pairwise prefix-incomparable, and none is a prefix of / prefixed by "AV:"
	heads := map[string]string{}
	for _, k := range []string{"30", "31", "40"} {
		p := w.Pkgs[k]
		if c, ok := p.P.Types.Scope().Lookup("header").(*types.Const); ok {
			heads[k] = strings.Trim(c.Val().ExactString(), "\"")
		}
		want := vocab[k].Header
		ok := heads[k] == want
		*out = append(*out, Obligation{Rule: "R13.const", Instance: k + ".header", Pos: k, OK: ok, NonTrivial: true,
			Detail: fmt.Sprintf("header constant %q, specification %q", heads[k], want)})
	}
	heads["20"] = "AV:"
	ks := []string{"20", "30", "31", "40"}
	for i := 0; i < len(ks); i++ {
		for j := i + 1; j < len(ks); j++ {
			a, b := heads[ks[i]], heads[ks[j]]
			ok := a != "" && b != "" && !strings.HasPrefix(a, b) && !strings.HasPrefix(b, a)
			*out = append(*out, Obligation{Rule: "R13.const", Instance: ks[i] + "~" + ks[j] + ".prefix", Pos: ks[i] + "," + ks[j], OK: ok, NonTrivial: true,
				Detail: map[bool]string{true: fmt.Sprintf("%q and %q are prefix-incomparable: no string starts with both", a, b), false: fmt.Sprintf("%q and %q: one is a prefix of the other, so a string can be accepted by both parsers", a, b)}[ok]})
		}
	}
}

// fillParseModel locates the parsed object, the element loop, the split and
// the Set / defined-once calls of ParseVector.
func (p *Pkg) fillParseModel(m *parseModel) (kvmCall *ast.CallExpr) {
	info := p.Info
	fd := m.fd
	m.orderVar, _, _, _ = p.orderTable()
	setFn := p.method("Set")
	km := p.kvmModel()
	// locate object, loop, calls
	ast.Inspect(fd.Body, func(n ast.Node) bool {
		switch x := n.(type) {
		case *ast.AssignStmt:
			if len(x.Lhs) == 1 && len(x.Rhs) == 1 {
				// obj := new(T)
				if call, ok := x.Rhs[0].(*ast.CallExpr); ok && len(call.Args) == 1 {
					if id, ok := call.Fun.(*ast.Ident); ok && id.Name == "new" {
						if _, isB := info.Uses[id].(*types.Builtin); isB {
							if tv, ok := info.Types[call.Args[0]]; ok && tv.IsType() && types.Identical(tv.Type, p.T) {
								m.objVar = identObj(info, x.Lhs[0])
							}
						}
					}
				}
				if u, ok := x.Rhs[0].(*ast.UnaryExpr); ok && u.Op == token.AND {
					if cl, ok := u.X.(*ast.CompositeLit); ok {
						if tv, ok := info.Types[cl]; ok && types.Identical(tv.Type, p.T) {
							m.objVar = identObj(info, x.Lhs[0])
						}
					}
				}
			}
			if len(x.Rhs) == 1 && len(x.Lhs) >= 2 {
				if call, ok := x.Rhs[0].(*ast.CallExpr); ok {
					fn := calleeOf(info, call)
					if fn != nil {
						sig := fn.Type().(*types.Signature)
						isSplit := isStringsFunc(fn, "Cut") || (fn.Pkg() == p.P.Types && sig.Params().Len() == 1 && sig.Results().Len() == 2 &&
							sig.Results().At(0).Type().String() == "string" && sig.Results().At(1).Type().String() == "string")
						if isSplit && m.splitAs == nil {
							m.splitAs, m.splitFn = x, fn
							m.abvObj, m.valObj = identObj(info, x.Lhs[0]), identObj(info, x.Lhs[1])
						}
					}
				}
			}
		case *ast.CallExpr:
			fn := calleeOf(info, x)
			if fn != nil && p.FuncObj[fn] == setFn && setFn != nil {
				m.setCall = x
			}
			if fn != nil && km != nil && p.FuncObj[fn] == km.Fn {
				kvmCall = x
			}
		}
		return true
	})
	for _, s := range fd.Body.List {
		inner, label := s, ""
		if ls, ok := s.(*ast.LabeledStmt); ok {
			inner, label = ls.Stmt, ls.Label.Name
		}
		switch inner.(type) {
		case *ast.ForStmt, *ast.RangeStmt:
			if m.loop == nil {
				m.loop, m.loopTop, m.loopLabel = inner, s, label
			}
		}
	}
	// the element split, generally: the statement that defines the
	// identifier Set receives as its abbreviation (a first guess that defines
	// neither of Set's arguments — e.g. the scanner's own Cut at '/' — is dropped)
	if m.splitAs != nil && m.setCall != nil && len(m.setCall.Args) == 2 {
		ao, vo := identObj(info, m.setCall.Args[0]), identObj(info, m.setCall.Args[1])
		if ao != nil && vo != nil && (m.abvObj != ao || m.valObj != vo) && !(m.abvObj == vo && m.valObj == ao) {
			m.splitAs, m.splitFn, m.abvObj, m.valObj = nil, nil, nil, nil
		}
	}
	if m.splitAs == nil && m.setCall != nil && len(m.setCall.Args) == 2 && m.loop != nil {
		ao, vo := identObj(info, m.setCall.Args[0]), identObj(info, m.setCall.Args[1])
		if ao != nil && vo != nil {
			ast.Inspect(m.loop, func(n ast.Node) bool {
				as, ok := n.(*ast.AssignStmt)
				if !ok || len(as.Rhs) != 1 || len(as.Lhs) < 2 {
					return true
				}
				hasA, hasV := false, false
				for _, l := range as.Lhs {
					if o := identObj(info, l); o == ao {
						hasA = true
					} else if o == vo {
						hasV = true
					}
				}
				if hasA && hasV && m.splitAs == nil {
					if call, ok := as.Rhs[0].(*ast.CallExpr); ok {
						if fn := calleeOf(info, call); fn != nil {
							m.splitAs, m.splitFn = as, fn
							m.abvObj, m.valObj = ao, vo
						}
					}
				}
				return true
			})
		}
	}
	// an inline split: `abv, v := elem, ""; if c := IndexByte(abv, ':'); c >= 0 { abv, v = abv[:c], abv[c+1:] }`
	if m.splitAs == nil && m.setCall != nil && len(m.setCall.Args) == 2 && m.loop != nil {
		ao, vo := identObj(info, m.setCall.Args[0]), identObj(info, m.setCall.Args[1])
		if ao != nil && vo != nil && ao != vo {
			var lists [][]ast.Stmt
			ast.Inspect(m.loop, func(n ast.Node) bool {
				if b, ok := n.(*ast.BlockStmt); ok {
					lists = append(lists, b.List)
				}
				return true
			})
			defines := func(s ast.Stmt, o types.Object) bool {
				found := false
				switch st := s.(type) {
				case *ast.AssignStmt:
					if st.Tok == token.DEFINE {
						for _, l := range st.Lhs {
							if id, ok := l.(*ast.Ident); ok && info.Defs[id] == o {
								found = true
							}
						}
					}
				case *ast.DeclStmt:
					ast.Inspect(st, func(n ast.Node) bool {
						if id, ok := n.(*ast.Ident); ok && info.Defs[id] == o {
							found = true
						}
						return true
					})
				}
				return found
			}
			for _, L := range lists {
				i0, i1, iSet := -1, -1, -1
				defA, defV := false, false
				for i, st := range L {
					if nodeContains(st, m.setCall) {
						iSet = i
						break
					}
					dA, dV := defines(st, ao), defines(st, vo)
					if (dA || dV) && i0 < 0 {
						i0 = i
					}
					defA, defV = defA || dA, defV || dV
					if i0 >= 0 && (assignedIn(info, st, ao) || assignedIn(info, st, vo) || dA || dV) {
						i1 = i
					}
				}
				if i0 < 0 || iSet < 0 || !defA || !defV {
					continue
				}
				as, ok := L[i0].(*ast.AssignStmt)
				if !ok {
					continue
				}
				m.splitAs, m.splitFn = as, nil
				m.splitRegion = L[i0 : i1+1]
				m.abvObj, m.valObj = ao, vo
				break
			}
		}
	}
	return kvmCall
}

// nodeContains: n is a descendant of (or is) root
func nodeContains(root ast.Node, n ast.Node) bool {
	found := false
	ast.Inspect(root, func(x ast.Node) bool {
		if x == n {
			found = true
		}
		return !found
	})
	return found
}

// assignedOutside: o is assigned somewhere in body other than inside the given statements
func assignedOutside(info *types.Info, body ast.Node, o types.Object, region []ast.Stmt) bool {
	out := false
	ast.Inspect(body, func(n ast.Node) bool {
		if s, ok := n.(ast.Stmt); ok {
			for _, r := range region {
				if s == r {
					return false
				}
			}
		}
		switch st := n.(type) {
		case *ast.AssignStmt:
			for _, l := range st.Lhs {
				if id, ok := l.(*ast.Ident); ok && st.Tok != token.DEFINE && info.Uses[id] == o {
					out = true
				}
			}
		case *ast.IncDecStmt:
			if identObj(info, st.X) == o {
				out = true
			}
		case *ast.UnaryExpr:
			if st.Op == token.AND && identObj(info, st.X) == o {
				out = true
			}
		}
		return true
	})
	return out
}

// parserBody: the function that holds the parser proper. It is ParseVector
// itself, or — when ParseVector only borrows/returns resources around one call
// `x, err := h(…)` of a package function returning (*T, error) and hands those
// two results back unchanged on every later path — that function h.
func (p *Pkg) parserBody() (*ast.FuncDecl, string) {
	pv := p.Funcs["ParseVector"]
	if pv == nil || pv.Body == nil {
		return pv, ""
	}
	info := p.Info
	setFn := p.method("Set")
	hasSet := false
	ast.Inspect(pv.Body, func(n ast.Node) bool {
		if c, ok := n.(*ast.CallExpr); ok {
			if fn := calleeOf(info, c); fn != nil && setFn != nil && p.FuncObj[fn] == setFn {
				hasSet = true
			}
		}
		return !hasSet
	})
	if hasSet {
		return pv, ""
	}
	for i, s := range pv.Body.List {
		as, ok := s.(*ast.AssignStmt)
		if !ok || len(as.Lhs) != 2 || len(as.Rhs) != 1 || as.Tok != token.DEFINE {
			continue
		}
		call, ok := as.Rhs[0].(*ast.CallExpr)
		if !ok {
			continue
		}
		fn := calleeOf(info, call)
		if fn == nil || fn.Pkg() != p.P.Types || p.FuncObj[fn] == nil || p.FuncObj[fn].Recv != nil {
			continue
		}
		sig := fn.Type().(*types.Signature)
		if sig.Results().Len() != 2 || !p.isTPtrOrVal(sig.Results().At(0).Type()) || sig.Params().Len() != 1 {
			continue
		}
		xo, eo := identObj(info, as.Lhs[0]), identObj(info, as.Lhs[1])
		if xo == nil || eo == nil {
			continue
		}
		// what follows: calls into other packages (giving a buffer back) and `return x, err`
		okRest, nRet := true, 0
		for _, r := range pv.Body.List[i+1:] {
			switch st := r.(type) {
			case *ast.ExprStmt:
				c, isCall := st.X.(*ast.CallExpr)
				if !isCall {
					okRest = false
					break
				}
				if cf := calleeOf(info, c); cf == nil || cf.Pkg() == p.P.Types {
					okRest = false
				}
			case *ast.ReturnStmt:
				nRet++
				if len(st.Results) != 2 || identObj(info, st.Results[0]) != xo || identObj(info, st.Results[1]) != eo {
					okRest = false
				}
			default:
				okRest = false
			}
		}
		if !okRest || nRet != 1 {
			continue
		}
		// what precedes: no return (nothing else decides the answer), no write to x / err
		pre := true
		for _, r := range pv.Body.List[:i] {
			ast.Inspect(r, func(n ast.Node) bool {
				if _, isRet := n.(*ast.ReturnStmt); isRet {
					pre = false
				}
				return true
			})
		}
		if !pre {
			continue
		}
		return p.FuncObj[fn], "ParseVector hands the work to " + fn.Name() + " and returns its two results unchanged"
	}
	return pv, ""
}

// parseModelOf: the located parts of ParseVector, for rule groups other than `parse`
func (p *Pkg) parseModelOf() *parseModel {
	if p.pm != nil {
		return p.pm
	}
	fd, _ := p.parserBody()
	m := &parseModel{p: p, fd: fd}
	p.pm = m
	if fd == nil || fd.Body == nil {
		return m
	}
	params := paramObjs(p.Info, fd)
	if len(params) != 1 {
		return m
	}
	m.param = params[0]
	p.fillParseModel(m)
	return m
}

func (w *World) rulesParsePkg(p *Pkg, out *[]Obligation) {
	k := p.Key
	ov := vocab[k]
	info := p.Info
	add := func(ok bool, rule, inst string, n ast.Node, detail string) {
		pos := k
		if n != nil {
			pos = p.pos(n)
		}
		*out = append(*out, Obligation{Rule: rule, Instance: k + "." + inst, Pos: pos, OK: ok, Detail: detail, NonTrivial: true})
	}
	fd, delegated := p.parserBody()
	if fd == nil || fd.Body == nil {
		add(false, "R01.pair", "ParseVector", nil, "no ParseVector function")
		return
	}
	if delegated != "" {
		add(true, "R01.pair", "ParseVector.wrapper", p.Funcs["ParseVector"], delegated+": the parser rules are applied to that function")
	}
	m := &parseModel{p: p, fd: fd}
	params := paramObjs(info, fd)
	if len(params) != 1 {
		add(false, "R01.pair", "ParseVector", fd, "ParseVector does not take exactly one string: undecided")
		return
	}
	m.param = params[0]
	m.g = cfg.New(fd.Body, func(c *ast.CallExpr) bool {
		if id, ok := c.Fun.(*ast.Ident); ok && id.Name == "panic" {
			return false
		}
		return true
	})
	kvmCall := p.fillParseModel(m)
	km := p.kvmModel()
	// the defined-once mechanism, semantically (v3)
	if ov.Order == "free" && m.loop != nil && m.abvObj != nil {
		if ks := p.kvmSem(m); ks.Call != nil && kvmCall == nil {
			kvmCall = ks.Call
		}
	}
	if m.objVar == nil || m.loop == nil || m.setCall == nil || m.splitAs == nil {
		add(false, "R01.noskip", "ParseVector", fd, "ParseVector does not have the shape `obj := &T{}; loop { abv, v := split(element); obj.Set(abv, v) }`: undecided")
		if ov.Order == "fixed" {
			acceptObl(add, fd, false, "the parser is outside the analysed shape, so it is not established that it accepts every metric sequence Vector can write: undecided")
		}
		// the rules that do not need the located loop still apply
		if sm := p.SetModel(); sm.ValidateFn != nil {
			ok, why := p.checkValidate(p.FuncObj[sm.ValidateFn])
			add(ok, "R01.case", "validate", p.FuncObj[sm.ValidateFn], why)
			add(ok, "R09.case", "validate", p.FuncObj[sm.ValidateFn], why)
		}
		w.rulesDenyList(p, add)
		w.rulesSentinels(p, add)
		w.rulesBounds(p, add)
		return
	}

	// ---- R06.same
	okSame := len(m.setCall.Args) == 2 && identObj(info, m.setCall.Args[0]) == m.abvObj && identObj(info, m.setCall.Args[1]) == m.valObj &&
		m.abvObj != nil && m.valObj != nil
	if m.splitRegion != nil {
		okSame = okSame && !assignedOutside(info, fd.Body, m.abvObj, m.splitRegion) && !assignedOutside(info, fd.Body, m.valObj, m.splitRegion)
	} else {
		okSame = okSame && !assignedIn(info, fd.Body, m.abvObj) && !assignedIn(info, fd.Body, m.valObj)
	}
	if se, ok := m.setCall.Fun.(*ast.SelectorExpr); !ok || identObj(info, se.X) != m.objVar {
		okSame = false
	}
	splitName := "inline"
	if m.splitFn != nil {
		splitName = m.splitFn.Name()
	}
	add(okSame, "R06.same", "ParseVector.Set", m.setCall, map[bool]string{true: fmt.Sprintf("Set receives (#0, #1) of one %s split of the current element, on the object that is returned; neither is reassigned afterwards", splitName), false: "the arguments of Set are not the abbreviation and value halves of the same element (swapped, stale or reassigned), or Set is applied to another object"}[okSame])
	// R06.cut: the package's own splitter
	if m.splitFn == nil {
		ok, why, decided := p.checkRegionCutBounded(m)
		if !decided {
			// a scanner fused with the split: the cut is observed where its result
			// arrives — what Set is offered for elements with no ':' and with two
			// (R01.scan's probes, a bounded observation like the one above)
			if !p.scanDone {
				w.rulesScan(p, func(bool, string, string, ast.Node, string) {})
			}
			switch {
			case p.scanCutN > 0 && p.scanCutBad == "":
				ok, why = true, fmt.Sprintf("(bounded check) the split is fused with the scanner; on %d probe vectors (an element without ':' and one with two, at three positions) Set is offered the part before and the part after the first ':'", p.scanCutN)
			case p.scanCutN > 0:
				ok, why = false, p.scanCutBad
			default:
				ok, why = false, "the inline split of the element cannot be evaluated: undecided"
			}
		}
		add(ok, "R06.cut", "inline", m.splitAs, why)
	} else if m.splitFn.Pkg() == p.P.Types {
		ok, why := p.checkSplitCouple(p.FuncObj[m.splitFn])
		if !ok {
			// a scanner method that ends in `return cut(element)`: the cut is that function
			if sfd := p.FuncObj[m.splitFn]; sfd != nil && sfd.Body != nil && len(sfd.Body.List) > 0 {
				if rs, isRet := sfd.Body.List[len(sfd.Body.List)-1].(*ast.ReturnStmt); isRet && len(rs.Results) == 1 {
					if c, isCall := rs.Results[0].(*ast.CallExpr); isCall && len(c.Args) == 1 {
						if g := calleeOf(info, c); g != nil && g.Pkg() == p.P.Types && p.FuncObj[g] != nil && g != m.splitFn {
							nret := 0
							ast.Inspect(sfd.Body, func(x ast.Node) bool {
								if _, isR := x.(*ast.ReturnStmt); isR {
									nret++
								}
								return true
							})
							if ok2, why2 := p.checkSplitCouple(p.FuncObj[g]); ok2 && nret == 1 {
								ok, why = true, why2+" ("+g.Name()+", whose result "+m.splitFn.Name()+" returns unchanged)"
							}
						}
					}
				}
			}
		}
		if !ok {
			// not the recognised loop: evaluate the split statement itself
			if ok2, why2, decided := p.checkCutBounded(m); decided {
				ok, why = ok2, why2
			}
		}
		add(ok, "R06.cut", m.splitFn.Name(), p.FuncObj[m.splitFn], why)
	} else {
		ok := len(m.splitAs.Rhs[0].(*ast.CallExpr).Args) == 2
		if ok {
			s, isC := constString(info, m.splitAs.Rhs[0].(*ast.CallExpr).Args[1])
			ok = isC && s == ":"
		}
		add(ok, "R06.cut", "strings.Cut", m.splitAs, map[bool]string{true: "element is cut at the first \":\"", false: "element is not cut at \":\""}[ok])
	}

	// ---- R01.prop: Set / kvm.Set errors are tested and returned unchanged
	checkProp := func(call *ast.CallExpr, name string) bool {
		var ifs *ast.IfStmt
		ast.Inspect(fd.Body, func(n ast.Node) bool {
			if x, ok := n.(*ast.IfStmt); ok && x.Init != nil {
				if as, ok := x.Init.(*ast.AssignStmt); ok && len(as.Rhs) == 1 && as.Rhs[0] == ast.Expr(call) {
					ifs = x
				}
			}
			return true
		})
		if ifs == nil {
			add(false, "R01.prop", "ParseVector."+name, call, "the error of "+name+" is not tested in `if err := …; err != nil`")
			return false
		}
		as := ifs.Init.(*ast.AssignStmt)
		errObj := identObj(info, as.Lhs[len(as.Lhs)-1])
		be, ok := ifs.Cond.(*ast.BinaryExpr)
		okc := ok && be.Op == token.NEQ && identObj(info, be.X) == errObj && isNilIdent(info, be.Y)
		okr := false
		var bodyStmts []ast.Stmt
		for _, bs := range ifs.Body.List {
			// calls into other packages (e.g. returning a buffer to its pool) before the return are irrelevant here
			if es, ok := bs.(*ast.ExprStmt); ok {
				if c, ok := es.X.(*ast.CallExpr); ok {
					if fn := calleeOf(info, c); fn != nil && fn.Pkg() != p.P.Types {
						continue
					}
				}
			}
			bodyStmts = append(bodyStmts, bs)
		}
		if len(bodyStmts) == 1 {
			if rs, ok := bodyStmts[0].(*ast.ReturnStmt); ok && len(rs.Results) == 2 && isNilIdent(info, rs.Results[0]) && identObj(info, rs.Results[1]) == errObj {
				okr = true
			}
		}
		add(okc && okr, "R01.prop", "ParseVector."+name, ifs, map[bool]string{true: "error tested, (nil, err) returned unchanged", false: "the error of " + name + " is dropped, replaced or returned with a non-nil object"}[okc && okr])
		return okc && okr
	}
	// for the fixed-order parsers the verdict on Set's error is given after the
	// cursor automaton has run (it decides the propagation semantically)
	var deferredProp []Obligation
	if ov.Order == "fixed" {
		realAdd := add
		add = func(ok bool, rule, inst string, n ast.Node, detail string) {
			pos := k
			if n != nil {
				pos = p.pos(n)
			}
			deferredProp = append(deferredProp, Obligation{Rule: rule, Instance: k + "." + inst, Pos: pos, OK: ok, Detail: detail, NonTrivial: true})
		}
		checkProp(m.setCall, "Set")
		add = realAdd
	}
	// free-order parsers: the syntactic verdicts on error propagation and on
	// skipped elements are collected first; where one fails, the rest of the
	// iteration is evaluated per scenario (freeStep) and its verdict stands
	var freeDeferred []Obligation
	realAddFree := add
	if ov.Order == "free" {
		add = func(ok bool, rule, inst string, n ast.Node, detail string) {
			if rule != "R01.prop" && rule != "R01.noskip" {
				realAddFree(ok, rule, inst, n, detail)
				return
			}
			pos := k
			if n != nil {
				pos = p.pos(n)
			}
			freeDeferred = append(freeDeferred, Obligation{Rule: rule, Instance: k + "." + inst, Pos: pos, OK: ok, Detail: detail, NonTrivial: true})
		}
		defer func() {
			bad := false
			for _, o := range freeDeferred {
				if !o.OK {
					bad = true
				}
			}
			if bad {
				fs := p.freeStep(m, kvmCall)
				w.Extra["parse_step_"+k] = map[string]any{"decided": fs.decided, "why": fs.why, "set": fs.setWhy, "kvm": fs.kvmWhy, "noskip": fs.noskipWhy}
				if fs.decided {
					for i := range freeDeferred {
						o := &freeDeferred[i]
						switch {
						case o.Rule == "R01.prop" && strings.HasSuffix(o.Instance, "ParseVector.Set"):
							o.OK, o.Detail = fs.setOK, fs.setWhy
						case o.Rule == "R01.prop" && strings.HasSuffix(o.Instance, "ParseVector.kvm.Set") && kvmCall != nil:
							o.OK, o.Detail = fs.kvmOK, fs.kvmWhy
						case o.Rule == "R01.noskip" && strings.HasSuffix(o.Instance, "ParseVector.loop"):
							o.OK, o.Detail = fs.noskipOK, fs.noskipWhy
						}
					}
				}
			}
			*out = append(*out, freeDeferred...)
		}()
		checkProp(m.setCall, "Set")
		if kvmCall == nil {
			add(false, "R01.complete", "ParseVector.kvm", fd, "no defined-once check (kvm.Set) in the loop: a repeated metric is accepted")
		} else {
			checkProp(kvmCall, "kvm.Set")
			okArg := false
			for _, a := range kvmCall.Args {
				if identObj(info, a) == m.abvObj {
					okArg = true
				}
			}
			if len(kvmCall.Args) > 2 || (m.valObj != nil && nodeMentions(info, kvmCall, m.valObj)) {
				okArg = false
			}
			add(okArg, "R06.same", "ParseVector.kvm", kvmCall, map[bool]string{true: "the defined-once check uses the same abbreviation as Set", false: "the defined-once check is applied to something other than the element's abbreviation"}[okArg])
			add(kvmCall.Pos() < m.setCall.Pos() && p.blockReaches(m.g, kvmCall, m.setCall), "R18.order", "ParseVector.kvm<Set", kvmCall, "kvm.Set is evaluated before T.Set on the element (unknown/repeated metric errors take precedence)")
		}
	}

	// ---- R01.noskip (go/cfg)
	sb := p.blockOf(m.g, m.splitAs)
	tb := p.blockOf(m.g, m.setCall)
	if sb == nil || tb == nil {
		add(false, "R01.noskip", "ParseVector.loop", m.loop, "cannot locate the split / Set blocks in the control-flow graph: undecided")
	} else {
		targets := map[*cfg.Block]bool{}
		for _, b := range m.g.Blocks {
			if b.Stmt == m.loop {
				switch b.Kind {
				case cfg.KindForLoop, cfg.KindForPost, cfg.KindRangeLoop, cfg.KindForDone, cfg.KindRangeDone:
					targets[b] = true
				}
			}
		}
		// for a ForStmt without Post, the back edge goes to the loop head; both covered above
		bad := findPath(sb, tb, targets)
		if sb == tb {
			bad = nil
		}
		if bad == nil {
			add(true, "R01.noskip", "ParseVector.loop", m.loop, fmt.Sprintf("every path from the split of an element to the next iteration or loop exit passes through Set or returns an error (%d blocks)", len(m.g.Blocks)))
		} else {
			var desc []string
			for _, b := range bad {
				if len(b.Nodes) > 0 {
					desc = append(desc, p.pos(b.Nodes[0]))
				}
			}
			m.noskipPending = "an element can be skipped: path " + strings.Join(desc, " -> ") + " reaches the next iteration or the end of the loop without Set and without an error"
			if ov.Order != "fixed" {
				add(false, "R01.noskip", "ParseVector.loop", m.loop, m.noskipPending)
				m.noskipPending = ""
			}
		}
		// R01.cmp (v2/v4): Set reachable from the split only through a comparison with the order table
		if ov.Order == "fixed" && m.orderVar != nil {
			cmpBlocks := map[*cfg.Block]bool{}
			tgtLocals := map[types.Object]bool{}
			ast.Inspect(fd.Body, func(n ast.Node) bool {
				if as, ok := n.(*ast.AssignStmt); ok && len(as.Lhs) == 1 && len(as.Rhs) == 1 && nodeMentions(info, as.Rhs[0], m.orderVar) {
					if _, isIdx := as.Rhs[0].(*ast.IndexExpr); isIdx {
						tgtLocals[identObj(info, as.Lhs[0])] = true
					}
				}
				return true
			})
			for _, b := range m.g.Blocks {
				for _, n := range b.Nodes {
					ast.Inspect(n, func(x ast.Node) bool {
						be, ok := x.(*ast.BinaryExpr)
						if !ok || (be.Op != token.NEQ && be.Op != token.EQL) {
							return true
						}
						isAbv := func(e ast.Expr) bool { return identObj(info, e) == m.abvObj }
						isTgt := func(e ast.Expr) bool {
							if o := identObj(info, e); o != nil && tgtLocals[o] {
								return true
							}
							_, isIdx := e.(*ast.IndexExpr)
							return isIdx && nodeMentions(info, e, m.orderVar)
						}
						if (isAbv(be.X) && isTgt(be.Y)) || (isAbv(be.Y) && isTgt(be.X)) {
							cmpBlocks[b] = true
						}
						return true
					})
				}
			}
			var path []*cfg.Block
			if !cmpBlocks[sb] && !cmpBlocks[tb] {
				path = findPathAvoid(sb, tb, cmpBlocks)
			}
			m.cmpOK = path == nil && len(cmpBlocks) > 0
			m.cmpDetail = fmt.Sprintf("%d comparison blocks", len(cmpBlocks))
			m.cmpRan = true
		}
	}

	// ---- cursor automaton (v2, v4)
	if ov.Order == "fixed" {
		autoOK, autoSeen := true, false
		w.rulesAutomaton(p, m, func(ok bool, rule, inst string, n ast.Node, detail string) {
			if rule == "R01.automaton" {
				autoSeen = true
				autoOK = autoOK && ok
			}
			add(ok, rule, inst, n, detail)
		})
		if m.noskipPending != "" {
			if autoSeen && autoOK {
				add(true, "R01.noskip", "ParseVector.loop", m.loop, "the control-flow graph has a path that leaves an element without Set or a return (errors travel through a variable to a single exit); in the exact cursor automaton every consumed element calls Set and every other one ends in an error")
			} else {
				add(false, "R01.noskip", "ParseVector.loop", m.loop, m.noskipPending)
			}
		}
		// R01.prop for Set: the syntactic verdict, or the automaton's when the
		// error travels through a variable and a single exit
		for _, o := range deferredProp {
			if !o.OK && m.autoPropOK {
				o.OK = true
				o.Detail = m.autoPropWhy
			}
			*out = append(*out, o)
		}
		deferredProp = nil
		// acceptance of everything Vector writes (round trip, canonical form)
		switch {
		case !autoSeen || !m.autoDecided:
			acceptObl(add, m.loop, false, "the cursor automaton could not be tabulated, so it is not established that the parser accepts every metric sequence Vector can write: undecided")
		case len(m.autoUnder) > 0:
			acceptObl(add, m.loop, false, "the parser rejects metric sequences the specification allows and Vector writes: "+strings.Join(m.autoUnder, "; "))
		default:
			acceptObl(add, m.loop, true, "the cursor automaton accepts every metric sequence of the specification's order language, hence every sequence Vector writes")
		}
		// R01.cmp is a path argument over the CFG; a path without the
		// comparison may be infeasible (a flag-controlled search loop). The
		// exact cursor automaton settles such cases.
		if m.cmpRan {
			switch {
			case m.cmpOK:
				add(true, "R01.cmp", "ParseVector.order", m.setCall, "Set is reachable from the split only through a comparison of the abbreviation with the order table ("+m.cmpDetail+")")
			case autoSeen && autoOK:
				add(true, "R01.cmp", "ParseVector.order", m.setCall, "the control-flow graph has a path from the split to Set that avoids the comparison with the order table, but the exact cursor automaton (R01.automaton) shows that every accepted element was compared: the path is infeasible")
			default:
				add(false, "R01.cmp", "ParseVector.order", m.setCall, "Set can be reached without comparing the element's abbreviation with the order table: metrics are accepted in any position")
			}
		}
	}
	// ---- header guard
	w.rulesHeader(p, m, add)
	// ---- return census (R01.pair, R18.*)
	w.rulesReturns(p, m, km, add)
	// ---- validate body
	if sm := p.SetModel(); sm.ValidateFn != nil {
		ok, why := p.checkValidate(p.FuncObj[sm.ValidateFn])
		add(ok, "R01.case", "validate", p.FuncObj[sm.ValidateFn], why)
		add(ok, "R09.case", "validate", p.FuncObj[sm.ValidateFn], why)
	}
	// ---- index safety on the input text
	w.rulesBounds(p, add)
	// ---- deny-list
	w.rulesDenyList(p, add)
	// ---- sentinels
	w.rulesSentinels(p, add)
	// ---- v2 split
	if k == "20" {
		w.rulesSplit(p, m, add)
	}
	// ---- R13.v2 / cursors start at 0
	if ov.Order == "fixed" && m.autoOK {
		first := ""
		if len(ov.Groups) > 0 && len(ov.Groups[0].Metrics) > 0 {
			first = ov.Groups[0].Metrics[0].Abv
		}
		add(true, "R13.v2", "ParseVector.cursors", fd, "the cursor automaton (R01.automaton) equals the specification's from its initial state: the first element is accepted only if it is "+first)
	} else if ov.Order == "fixed" {
		okInit := true
		n := 0
		for _, s := range fd.Body.List {
			if s == m.loopTop {
				break
			}
			as, ok := s.(*ast.AssignStmt)
			if !ok || as.Tok != token.DEFINE {
				continue
			}
			for i, l := range as.Lhs {
				o := identObj(info, l)
				if o == nil || i >= len(as.Rhs) {
					continue
				}
				if b, ok := o.Type().Underlying().(*types.Basic); ok && b.Kind() == types.Int && nodeMentionsAny(info, m.loop, o) && assignedIn(info, m.loop, o) {
					n++
					if u, ok := constUint(info, as.Rhs[i]); !ok || u != 0 {
						okInit = false
					}
				}
			}
		}
		add(okInit && n >= 2, "R13.v2", "ParseVector.cursors", fd, map[bool]string{true: fmt.Sprintf("%d cursor variables start at the constant 0: the first element is compared with the first entry of the order table", n), false: "a group/position cursor does not start at 0"}[okInit && n >= 2])
	}
}

func nodeMentionsAny(info *types.Info, n ast.Node, o types.Object) bool {
	return nodeMentions(info, n, o)
}

// blockReaches: b(to) reachable from b(from) in the CFG.
func (p *Pkg) blockReaches(g *cfg.CFG, from, to ast.Node) bool {
	a, b := p.blockOf(g, from), p.blockOf(g, to)
	if a == nil || b == nil {
		return false
	}
	if a == b {
		return true
	}
	return findPathAvoid(a, b, nil) != nil
}

// findPath: a path from `from` (exclusive) to any block in targets that avoids `avoid`.
func findPath(from, avoid *cfg.Block, targets map[*cfg.Block]bool) []*cfg.Block {
	seen := map[*cfg.Block]bool{from: true, avoid: true}
	var dfs func(b *cfg.Block, path []*cfg.Block) []*cfg.Block
	dfs = func(b *cfg.Block, path []*cfg.Block) []*cfg.Block {
		for _, s := range b.Succs {
			if s == avoid {
				continue
			}
			np := append(append([]*cfg.Block(nil), path...), s)
			if targets[s] {
				return np
			}
			if seen[s] {
				continue
			}
			seen[s] = true
			if r := dfs(s, np); r != nil {
				return r
			}
		}
		return nil
	}
	return dfs(from, []*cfg.Block{from})
}

// findPathAvoid: a path from `from` to `to` that avoids all blocks in avoid.
func findPathAvoid(from, to *cfg.Block, avoid map[*cfg.Block]bool) []*cfg.Block {
	seen := map[*cfg.Block]bool{from: true}
	var dfs func(b *cfg.Block, path []*cfg.Block) []*cfg.Block
	dfs = func(b *cfg.Block, path []*cfg.Block) []*cfg.Block {
		for _, s := range b.Succs {
			if avoid[s] && s != to {
				continue
			}
			np := append(append([]*cfg.Block(nil), path...), s)
			if s == to {
				return np
			}
			if seen[s] {
				continue
			}
			seen[s] = true
			if r := dfs(s, np); r != nil {
				return r
			}
		}
		return nil
	}
	return dfs(from, []*cfg.Block{from})
}

// checkSplitCouple: returns (s[:i], s[i+1:]) at the first ':' and (s, "") otherwise.
func (p *Pkg) checkSplitCouple(fd *ast.FuncDecl) (bool, string) {
	info := p.Info
	if fd == nil || len(fd.Body.List) != 2 {
		return false, "splitter is not `for … {if s[i] == ':' {return s[:i], s[i+1:]}}; return s, \"\"`: undecided"
	}
	s := paramObjs(info, fd)[0]
	loop, ok := fd.Body.List[0].(*ast.ForStmt)
	last, ok2 := fd.Body.List[1].(*ast.ReturnStmt)
	if !ok || !ok2 || len(last.Results) != 2 || identObj(info, last.Results[0]) != s {
		return false, "splitter does not end with `return s, \"\"`"
	}
	if e, ok := constString(info, last.Results[1]); !ok || e != "" {
		return false, "splitter does not end with `return s, \"\"`"
	}
	// for i := 0; i < len(s); i++
	init, ok := loop.Init.(*ast.AssignStmt)
	if !ok || len(init.Lhs) != 1 {
		return false, "splitter loop has no index initialiser"
	}
	iObj := identObj(info, init.Lhs[0])
	if u, ok := constUint(info, init.Rhs[0]); !ok || u != 0 {
		return false, "splitter scan does not start at index 0 (an earlier ':' is skipped)"
	}
	cond, ok := loop.Cond.(*ast.BinaryExpr)
	if !ok || cond.Op != token.LSS || identObj(info, cond.X) != iObj {
		return false, "splitter loop bound is not i < len(s)"
	}
	if c, ok := cond.Y.(*ast.CallExpr); !ok || len(c.Args) != 1 || identObj(info, c.Args[0]) != s {
		return false, "splitter loop bound is not i < len(s)"
	}
	if inc, ok := loop.Post.(*ast.IncDecStmt); !ok || inc.Tok != token.INC || identObj(info, inc.X) != iObj {
		return false, "splitter loop does not advance by one"
	}
	if len(loop.Body.List) != 1 {
		return false, "splitter loop body is not a single test"
	}
	ifs, ok := loop.Body.List[0].(*ast.IfStmt)
	if !ok {
		return false, "splitter loop body is not a single test"
	}
	be, ok := ifs.Cond.(*ast.BinaryExpr)
	if !ok || be.Op != token.EQL {
		return false, "splitter test is not s[i] == ':'"
	}
	ix, ok := be.X.(*ast.IndexExpr)
	if !ok || identObj(info, ix.X) != s || identObj(info, ix.Index) != iObj {
		return false, "splitter test is not s[i] == ':'"
	}
	if u, ok := constUint(info, be.Y); !ok || u != ':' {
		return false, "splitter does not cut at ':'"
	}
	rs, ok := ifs.Body.List[0].(*ast.ReturnStmt)
	if !ok || len(rs.Results) != 2 {
		return false, "splitter does not return two halves"
	}
	a, ok1 := rs.Results[0].(*ast.SliceExpr)
	b, ok2b := rs.Results[1].(*ast.SliceExpr)
	if !ok1 || !ok2b || identObj(info, a.X) != s || identObj(info, b.X) != s || a.Low != nil || identObj(info, a.High) != iObj || b.High != nil {
		return false, "splitter halves are not s[:i] and s[i+1:]"
	}
	lo, ok := b.Low.(*ast.BinaryExpr)
	if !ok || lo.Op != token.ADD || identObj(info, lo.X) != iObj {
		return false, "splitter halves are not s[:i] and s[i+1:]"
	}
	if u, ok := constUint(info, lo.Y); !ok || u != 1 {
		return false, "splitter halves are not s[:i] and s[i+1:]"
	}
	return true, "returns (s[:i], s[i+1:]) at the first ':' and (s, \"\") when there is none"
}

// checkValidate: index of value in enabled by builtin string equality, else ErrInvalidMetricValue.
func (p *Pkg) checkValidate(fd *ast.FuncDecl) (bool, string) {
	ok, why := p.checkValidateShape(fd)
	if ok || fd == nil {
		return ok, why
	}
	// another shape (library search, different loop): tabulate it on a synthetic list with
	// adversarial probes; together with the deny-list (no normalising callee reachable) this
	// is the necessary condition "index i only for the exact string L[i]"
	list := []string{"Ab", "cD", "X", "Long"}
	var lv []Val
	for _, s := range list {
		lv = append(lv, vStr(s))
	}
	probes := []string{"Ab", "cD", "X", "Long", "", "ab", "AB", "CD", "x", "A", "Abx", " Ab", "Ab ", "Lon", "Longer", "Lxng", "D", "XX"}
	for _, pr := range probes {
		v, err := newCEnv(p, nil).callFunc(fd, []Val{vStr(pr), {K: VList, T: lv}}, fd)
		if err != nil {
			return false, why + "; and it cannot be tabulated either: " + err.Error()
		}
		want := -1
		for i, s := range list {
			if s == pr {
				want = i
			}
		}
		if v.K != VTuple || len(v.T) != 2 {
			return false, "validate does not return (index, error)"
		}
		if want >= 0 {
			if v.T[0].K != VInt || int(v.T[0].I) != want || v.T[1].K != VNil {
				return false, fmt.Sprintf("validate(%q) over %v returns %s, expected (%d, nil)", pr, list, v, want)
			}
		} else if v.T[1].K != VOpaque || v.T[1].S != "ErrInvalidMetricValue" {
			return false, fmt.Sprintf("validate(%q) over %v returns %s, expected ErrInvalidMetricValue (a string that is not exactly a legal value is accepted or misreported)", pr, list, v)
		}
	}
	return true, fmt.Sprintf("(semantic model) tabulated on %d probes over a synthetic list: index i exactly for the string L[i], ErrInvalidMetricValue for case variants, prefixes, paddings and the empty string", len(probes))
}

func (p *Pkg) checkValidateShape(fd *ast.FuncDecl) (bool, string) {
	info := p.Info
	if fd == nil {
		return false, "no validate function"
	}
	params := paramObjs(info, fd)
	results := resultObjs(info, fd)
	if len(params) != 2 || len(fd.Body.List) != 2 {
		return false, "validate is not `for _, e := range enabled {if value == e {return i, nil}; i++}; return 0, ErrInvalidMetricValue`: undecided"
	}
	rg, ok := fd.Body.List[0].(*ast.RangeStmt)
	last, ok2 := fd.Body.List[1].(*ast.ReturnStmt)
	if !ok || !ok2 || identObj(info, rg.X) != params[1] || rg.Value == nil || len(rg.Body.List) != 2 {
		return false, "validate does not range over the enabled list with a test and a counter: undecided"
	}
	ev := identObj(info, rg.Value)
	ifs, ok := rg.Body.List[0].(*ast.IfStmt)
	inc, ok3 := rg.Body.List[1].(*ast.IncDecStmt)
	if !ok || !ok3 || inc.Tok != token.INC {
		return false, "validate loop is not test-then-increment: undecided"
	}
	counter := identObj(info, inc.X)
	if len(results) == 2 && counter != results[0] {
		return false, "validate counts with something other than its index result"
	}
	if rg.Key != nil {
		if id, ok := rg.Key.(*ast.Ident); !ok || id.Name != "_" {
			return false, "validate uses the range index: undecided"
		}
	}
	be, ok := ifs.Cond.(*ast.BinaryExpr)
	if !ok || be.Op != token.EQL {
		return false, "validate does not compare with == (case-sensitive byte equality)"
	}
	a, b := identObj(info, be.X), identObj(info, be.Y)
	if !((a == params[0] && b == ev) || (a == ev && b == params[0])) {
		return false, "validate does not compare the caller's value with the list entry (a transformed copy is compared)"
	}
	rs, ok := ifs.Body.List[0].(*ast.ReturnStmt)
	if !ok || len(rs.Results) != 2 || identObj(info, rs.Results[0]) != counter || !isNilIdent(info, rs.Results[1]) {
		return false, "validate does not return (index, nil) on a match"
	}
	if len(last.Results) != 2 {
		return false, "validate does not end with (0, ErrInvalidMetricValue)"
	}
	sv := p.sentinel(last.Results[1])
	if sv == nil || sv.Name() != "ErrInvalidMetricValue" {
		return false, "an illegal value is not reported with ErrInvalidMetricValue"
	}
	return true, "index i only under value == enabled[i] (byte equality on the raw parameter); otherwise (0, ErrInvalidMetricValue)"
}

var denyFuncs = map[string][]string{
	"strings": {"EqualFold", "ToUpper", "ToLower", "Title", "ToTitle", "Trim", "TrimSpace", "TrimLeft", "TrimRight", "TrimPrefix", "TrimSuffix", "TrimFunc", "Fields", "FieldsFunc", "Replace", "ReplaceAll", "Map", "ToValidUTF8"},
}

func (w *World) rulesDenyList(p *Pkg, add func(ok bool, rule, inst string, n ast.Node, detail string)) {
	w.denyList(p, "R01.case", []*ast.FuncDecl{p.Funcs["ParseVector"], p.method("Get"), p.method("Set")}, add)
	w.denyList(p, "R09.case", []*ast.FuncDecl{p.method("Get"), p.method("Set")}, add)
}

func (w *World) denyList(p *Pkg, rule string, roots []*ast.FuncDecl, add func(ok bool, rule, inst string, n ast.Node, detail string)) {
	info := p.Info
	seen := map[*ast.FuncDecl]bool{}
	var work []*ast.FuncDecl
	for _, r := range roots {
		if r != nil {
			work = append(work, r)
		}
	}
	bad := 0
	calls := 0
	for len(work) > 0 {
		fd := work[len(work)-1]
		work = work[:len(work)-1]
		if seen[fd] || fd.Body == nil {
			continue
		}
		seen[fd] = true
		ast.Inspect(fd.Body, func(n ast.Node) bool {
			call, ok := n.(*ast.CallExpr)
			if !ok {
				return true
			}
			fn := calleeOf(info, call)
			if fn == nil || fn.Pkg() == nil {
				return true
			}
			calls++
			if fn.Pkg() == p.P.Types {
				if d := p.FuncObj[fn]; d != nil {
					work = append(work, d)
				}
				return true
			}
			path := fn.Pkg().Path()
			deny := path == "unicode" || path == "bytes" || path == "regexp" || path == "golang.org/x/text/cases"
			for _, n := range denyFuncs[path] {
				if fn.Name() == n {
					deny = true
				}
			}
			if deny {
				bad++
				add(false, rule, fd.Name.Name+".call["+fn.FullName()+"]", call, "the parsing/lookup path calls "+fn.FullName()+": input is normalised before comparison, so strings outside the grammar (other case, padding) are accepted")
			}
			return true
		})
	}
	if bad == 0 {
		add(true, rule, "denylist", roots[0], fmt.Sprintf("%d functions reachable from the roots of this rule (ParseVector/Get/Set or Get/Set), %d resolved calls, none normalises its input (no case folding, trimming, replacing)", len(seen), calls))
	}
}

func (w *World) rulesSentinels(p *Pkg, add func(ok bool, rule, inst string, n ast.Node, detail string)) {
	info := p.Info
	scope := p.P.Types.Scope()
	var sent []*types.Var
	for _, n := range scope.Names() {
		if v, ok := scope.Lookup(n).(*types.Var); ok && types.Identical(v.Type(), types.Universe.Lookup("error").Type()) {
			sent = append(sent, v)
		}
	}
	for _, v := range sent {
		_, init := p.pkgVar(v.Name())
		okInit := false
		if call, ok := init.(*ast.CallExpr); ok {
			if fn := calleeOf(info, call); fn != nil && fn.Pkg() != nil && fn.Pkg().Path() == "errors" && fn.Name() == "New" {
				okInit = true
			}
		}
		reassigned := false
		for _, fd := range p.Funcs {
			if fd.Body != nil && assignedIn(info, fd.Body, v) {
				reassigned = true
			}
		}
		add(okInit && !reassigned, "R18.sentinel", "var["+v.Name()+"]", init, map[bool]string{true: "distinct errors.New object, never reassigned", false: "sentinel is not a fresh errors.New value or is reassigned somewhere (errors.Is against it becomes unreliable)"}[okInit && !reassigned])
	}
	// R18.ptr: typed error literals are built with &
	n := 0
	for name, fd := range p.Funcs {
		if fd.Body == nil || strings.HasSuffix(name, ".Error") {
			continue
		}
		var stack []ast.Node
		ast.Inspect(fd.Body, func(x ast.Node) bool {
			if x == nil {
				stack = stack[:len(stack)-1]
				return false
			}
			stack = append(stack, x)
			cl, ok := x.(*ast.CompositeLit)
			if !ok {
				return true
			}
			tv, ok := info.Types[cl]
			if !ok {
				return true
			}
			named, ok := tv.Type.(*types.Named)
			if !ok || named.Obj().Pkg() != p.P.Types || !strings.HasPrefix(named.Obj().Name(), "Err") {
				return true
			}
			n++
			par := stack[len(stack)-2]
			u, isU := par.(*ast.UnaryExpr)
			okPtr := isU && u.Op == token.AND
			add(okPtr, "R18.ptr", name+".lit["+named.Obj().Name()+"]", cl, map[bool]string{true: "built as &" + named.Obj().Name() + "{…}", false: named.Obj().Name() + " is returned by value: errors.As with the documented pointer type no longer matches"}[okPtr])
			return true
		})
	}
}

func (w *World) rulesSplit(p *Pkg, m *parseModel, add func(ok bool, rule, inst string, n ast.Node, detail string)) {
	info := p.Info
	// N: length of the pooled slice
	N := -1
	for _, f := range p.P.Syntax {
		ast.Inspect(f, func(n ast.Node) bool {
			if fl, ok := n.(*ast.FuncLit); ok {
				ast.Inspect(fl.Body, func(x ast.Node) bool {
					if c, ok := x.(*ast.CallExpr); ok {
						if id, ok := c.Fun.(*ast.Ident); ok && id.Name == "make" && len(c.Args) >= 2 {
							if tv, ok := info.Types[c.Args[0]]; ok && tv.Type.String() == "[]string" {
								if u, ok := constUint(info, c.Args[1]); ok {
									N = int(u)
								}
							}
						}
					}
					return true
				})
			}
			return true
		})
	}
	// split function: called in ParseVector with (slice, param)
	var sfd *ast.FuncDecl
	// (searched in ParseVector itself: the parser proper may be a function it delegates to)
	splitHome, splitParam := m.fd, m.param
	if pv := p.Funcs["ParseVector"]; pv != nil && pv != m.fd && pv.Body != nil {
		if prm := paramObjs(info, pv); len(prm) == 1 {
			splitHome, splitParam = pv, prm[0]
		}
	}
	ast.Inspect(splitHome.Body, func(n ast.Node) bool {
		if c, ok := n.(*ast.CallExpr); ok && len(c.Args) == 2 && identObj(info, c.Args[1]) == splitParam {
			if fn := calleeOf(info, c); fn != nil && fn.Pkg() == p.P.Types {
				sfd = p.FuncObj[fn]
			}
		}
		return true
	})
	// the shape below (a counting loop over the input, N from the pool's make) is one
	// way to write it; otherwise the splitter's contract is tabulated (splitsem.go), and
	// a parser without any splitter is observed on over-long vectors (R01.scan)
	semantic := func() bool {
		if ss := p.splitSemantics(m); ss.decided {
			add(ss.ok, "R01.split", "split", m.fd, ss.why)
			return true
		}
		if sd, _, _ := p.splitDest(m); sd == nil && !p.usesSyncPool() {
			if !p.scanDone {
				w.rulesScan(p, func(bool, string, string, ast.Node, string) {})
			}
			if p.scanLongN > 0 {
				okL := p.scanLongBad == ""
				add(okL, "R01.split", "split", m.fd, map[bool]string{true: fmt.Sprintf("(bounded check) the parser cuts the vector as it goes, without a part splitter; %d probe vectors with more elements than metrics (a surplus element at every position) are refused, the elements before the surplus being handed on in order", p.scanLongN), false: p.scanLongBad}[okL])
				return true
			}
		}
		return false
	}
	if sfd == nil || N < 0 {
		if !semantic() {
			add(false, "R01.split", "split", m.fd, "cannot find the pooled slice length or the split function: undecided")
		}
		return
	}
	sp := paramObjs(info, sfd)
	K := -1
	var currObj types.Object
	// the bound: a constant, len(dst) ± constant with dst the N-slot slice, or a
	// local defined once from such an expression
	var bound func(e ast.Expr, depth int) (int, bool)
	bound = func(e ast.Expr, depth int) (int, bool) {
		if u, ok := constUint(info, e); ok {
			return int(u), true
		}
		switch x := e.(type) {
		case *ast.ParenExpr:
			return bound(x.X, depth)
		case *ast.CallExpr:
			if id, ok := x.Fun.(*ast.Ident); ok && id.Name == "len" && len(x.Args) == 1 && identObj(info, x.Args[0]) == sp[0] && N >= 0 && !assignedIn(info, sfd.Body, sp[0]) {
				return N, true
			}
		case *ast.BinaryExpr:
			if x.Op == token.SUB || x.Op == token.ADD {
				a, ok1 := bound(x.X, depth)
				b, ok2 := bound(x.Y, depth)
				if ok1 && ok2 {
					if x.Op == token.SUB {
						return a - b, true
					}
					return a + b, true
				}
			}
		case *ast.Ident:
			o := identObj(info, x)
			if o == nil || depth > 3 {
				return 0, false
			}
			var def ast.Expr
			n := 0
			ast.Inspect(sfd.Body, func(nd ast.Node) bool {
				switch st := nd.(type) {
				case *ast.AssignStmt:
					for i, l := range st.Lhs {
						if identObj(info, l) == o {
							n++
							if st.Tok == token.DEFINE && len(st.Lhs) == len(st.Rhs) {
								def = st.Rhs[i]
							}
						}
					}
				case *ast.IncDecStmt:
					if identObj(info, st.X) == o {
						n += 2
					}
				}
				return true
			})
			if n == 1 && def != nil {
				return bound(def, depth+1)
			}
		}
		return 0, false
	}
	ast.Inspect(sfd.Body, func(n ast.Node) bool {
		if ifs, ok := n.(*ast.IfStmt); ok && len(ifs.Body.List) == 1 {
			if br, ok := ifs.Body.List[0].(*ast.BranchStmt); ok && br.Tok == token.BREAK {
				if be, ok := ifs.Cond.(*ast.BinaryExpr); ok && (be.Op == token.EQL || be.Op == token.GEQ) {
					if u, ok := bound(be.Y, 0); ok && u >= 0 && identObj(info, be.X) != nil {
						K = u
						currObj = identObj(info, be.X)
					}
				}
			}
		}
		// `for curr < K { … }`: cutting stops when curr reaches K
		if fs, ok := n.(*ast.ForStmt); ok && fs.Cond != nil && K < 0 {
			// the bound may be one conjunct of the condition (`i < len(s) && curr < K`)
			var conj []ast.Expr
			var flat func(e ast.Expr)
			flat = func(e ast.Expr) {
				switch x := e.(type) {
				case *ast.ParenExpr:
					flat(x.X)
					return
				case *ast.BinaryExpr:
					if x.Op == token.LAND {
						flat(x.X)
						flat(x.Y)
						return
					}
				}
				conj = append(conj, e)
			}
			flat(fs.Cond)
			for _, ce := range conj {
				be, ok := ce.(*ast.BinaryExpr)
				if !ok || K >= 0 {
					continue
				}
				// the counter is the index of the stores into the destination slice
				isCounter := false
				co := identObj(info, be.X)
				ast.Inspect(sfd.Body, func(y ast.Node) bool {
					if as, ok := y.(*ast.AssignStmt); ok && len(as.Lhs) == 1 {
						if ix, ok := as.Lhs[0].(*ast.IndexExpr); ok && identObj(info, ix.X) == sp[0] && co != nil && identObj(info, ix.Index) == co {
							isCounter = true
						}
					}
					return true
				})
				if !isCounter && len(conj) > 1 {
					continue
				}
				if u, ok := bound(be.Y, 0); ok && u >= 0 && identObj(info, be.X) != nil {
					switch be.Op {
					case token.LSS, token.NEQ:
						K = u
						currObj = identObj(info, be.X)
					case token.LEQ:
						K = u + 1
						currObj = identObj(info, be.X)
					}
				}
			}
		}
		return true
	})
	if currObj != nil && !onlyIncremented(info, sfd.Body, currObj) {
		K = -1
	}
	sigma := 0
	for _, g := range vocab["20"].Groups {
		sigma += len(g.Metrics)
	}
	if _, ord, _, _ := p.orderTable(); ord != nil {
		sigma = 0
		for _, g := range ord {
			sigma += len(g)
		}
	}
	// remainder stored whole in slot curr after the loop
	okRem := false
	for _, s := range sfd.Body.List {
		if as, ok := s.(*ast.AssignStmt); ok && len(as.Lhs) == 1 && len(as.Rhs) == 1 {
			ix, ok1 := as.Lhs[0].(*ast.IndexExpr)
			if !ok1 || identObj(info, ix.X) != sp[0] || identObj(info, ix.Index) != currObj {
				continue
			}
			// vector[start:] — or the parameter itself when the loop keeps
			// only the unsplit suffix in it
			if sl, ok2 := as.Rhs[0].(*ast.SliceExpr); ok2 && identObj(info, sl.X) == sp[1] && sl.High == nil && sl.Low != nil {
				okRem = true
			} else if identObj(info, as.Rhs[0]) == sp[1] && suffixOnly(info, sfd.Body, sp[1]) {
				okRem = true
			}
		}
	}
	ok := K >= 0 && sigma-1 <= K && K <= N-1 && okRem
	if !ok && (K < 0 || !okRem) && semantic() {
		return // the counting loop was not recognised: decided on the splitter's contract
	}
	add(ok, "R01.split", "split", sfd, fmt.Sprintf("pool slice length N=%d, cutting stops at K=%d, order table has %d metrics: need Σ-1 <= K <= N-1 and the whole remainder stored in the last slot (found: remainder stored whole = %v)", N, K, sigma, okRem))
}

// onlyIncremented: the counter is never written except by `c++` (and its
// initialisation to a constant)
func onlyIncremented(info *types.Info, body ast.Node, c types.Object) bool {
	ok := true
	ast.Inspect(body, func(n ast.Node) bool {
		switch st := n.(type) {
		case *ast.AssignStmt:
			for i, l := range st.Lhs {
				if identObj(info, l) != c {
					continue
				}
				if st.Tok == token.DEFINE && i < len(st.Rhs) {
					if _, isC := constUint(info, st.Rhs[i]); isC {
						continue
					}
				}
				ok = false
			}
		case *ast.IncDecStmt:
			if identObj(info, st.X) == c && st.Tok != token.INC {
				ok = false
			}
		case *ast.UnaryExpr:
			if st.Op == token.AND && identObj(info, st.X) == c {
				ok = false
			}
		}
		return true
	})
	return ok
}

// suffixOnly: every assignment to the string variable replaces it by a suffix
// of itself (`s = s[i:]`), so it always holds the unconsumed remainder
func suffixOnly(info *types.Info, body ast.Node, sv types.Object) bool {
	ok := true
	ast.Inspect(body, func(n ast.Node) bool {
		switch st := n.(type) {
		case *ast.AssignStmt:
			for i, l := range st.Lhs {
				if identObj(info, l) != sv {
					continue
				}
				if len(st.Lhs) == len(st.Rhs) {
					if sl, isS := st.Rhs[i].(*ast.SliceExpr); isS && identObj(info, sl.X) == sv && sl.High == nil && sl.Low != nil {
						continue
					}
				}
				ok = false
			}
		case *ast.UnaryExpr:
			if st.Op == token.AND && identObj(info, st.X) == sv {
				ok = false
			}
		}
		return true
	})
	return ok
}

// checkCutBounded evaluates the split statement `abv, value[, …] := f(elem[, …])`
// with the fragment evaluator for every string of length ≤ 6 over the
// alphabet {a, b, ':', '/'} as the element and compares the two halves with
// "before / after the first ':'". This is a bounded check (it does not cover
// longer strings); it is used only when the splitter is not in the
// recognised shape, to avoid reporting an equivalent splitter as undecided.
func (p *Pkg) checkCutBounded(m *parseModel) (ok bool, why string, decided bool) {
	info := p.Info
	call, isCall := m.splitAs.Rhs[0].(*ast.CallExpr)
	if !isCall {
		return false, "", false
	}
	// the element: the one non-constant (string) argument
	elemIdx := -1
	args := make([]Val, len(call.Args))
	for i, a := range call.Args {
		if tv, ok := info.Types[a]; ok && tv.Value != nil {
			if v, ok := constVal(tv); ok {
				args[i] = v
				continue
			}
		}
		if tv, ok := info.Types[a]; ok {
			if b, ok := tv.Type.Underlying().(*types.Basic); ok && b.Info()&types.IsString != 0 && elemIdx < 0 {
				elemIdx = i
				continue
			}
		}
		return false, "", false
	}
	fn := calleeOf(info, call)
	if fn == nil || fn.Pkg() != p.P.Types || p.FuncObj[fn] == nil {
		return false, "", false
	}
	sfd := p.FuncObj[fn]
	ai, vi := -1, -1
	for i, l := range m.splitAs.Lhs {
		switch identObj(info, l) {
		case m.abvObj:
			ai = i
		case m.valObj:
			vi = i
		}
	}
	if elemIdx < 0 || ai < 0 || vi < 0 {
		return false, "", false
	}
	alphabet := []byte{'a', 'b', ':', '/'}
	n := 0
	var cur []byte
	var rec func() (bool, string, bool)
	rec = func() (bool, string, bool) {
		s := string(cur)
		ce := newCEnv(p, nil)
		ce.loops = true
		args[elemIdx] = vStr(s)
		v, err := ce.callFunc(sfd, append([]Val(nil), args...), call)
		if err != nil {
			if pe, isPanic := err.(*panicked); isPanic {
				return false, fmt.Sprintf("the split of %q panics: %s", s, pe.msg), true
			}
			return false, "", false
		}
		if v.K != VTuple || ai >= len(v.T) || vi >= len(v.T) || v.T[ai].K != VStr || v.T[vi].K != VStr {
			return false, "", false
		}
		wa, wv := s, ""
		if i := strings.IndexByte(s, ':'); i >= 0 {
			wa, wv = s[:i], s[i+1:]
		}
		n++
		if v.T[ai].S != wa || v.T[vi].S != wv {
			return false, fmt.Sprintf("the element %q is split into (%q, %q), expected (%q, %q): the value or the abbreviation is read from the wrong part", s, v.T[ai].S, v.T[vi].S, wa, wv), true
		}
		if len(cur) == 6 {
			return true, "", true
		}
		for _, c := range alphabet {
			cur = append(cur, c)
			ok, why, dec := rec()
			cur = cur[:len(cur)-1]
			if !ok || !dec {
				return ok, why, dec
			}
		}
		return true, "", true
	}
	ok, why, decided = rec()
	if ok && decided {
		why = fmt.Sprintf("(bounded check) the split statement yields (before, after) the first ':' for each of the %d strings of length ≤ 6 over {a, b, ':', '/'}", n)
	}
	return ok, why, decided
}

// checkRegionCutBounded: as checkCutBounded, for a split written inline. The
// statements of the region are evaluated with every variable they read bound
// to the element (a string), a one-element list holding it ([]string), or 0
// (integers, i.e. the position of the element).
func (p *Pkg) checkRegionCutBounded(m *parseModel) (ok bool, why string, decided bool) {
	info := p.Info
	defined := map[types.Object]bool{}
	free := map[types.Object]bool{}
	// `abv, v := E, ""` followed by the refinement: the element is what the
	// abbreviation starts from (E, e.g. the scanned part without its leading
	// separator); the refinement is evaluated with abv bound to the element
	region := m.splitRegion
	seeded := ""
	if as, ok := region[0].(*ast.AssignStmt); ok && as.Tok == token.DEFINE && len(as.Lhs) == 2 && len(as.Rhs) == 2 && len(region) > 1 &&
		identObj(info, as.Lhs[0]) == m.abvObj && identObj(info, as.Lhs[1]) == m.valObj {
		if c, isC := constString(info, as.Rhs[1]); isC && c == "" {
			if _, plain := ast.Unparen(as.Rhs[0]).(*ast.Ident); !plain {
				region = region[1:]
				seeded = types.ExprString(as.Rhs[0])
				defined[m.abvObj], defined[m.valObj] = true, true
			}
		}
	}
	for _, st := range region {
		ast.Inspect(st, func(n ast.Node) bool {
			id, isId := n.(*ast.Ident)
			if !isId {
				return true
			}
			if o, ok := info.Defs[id].(*types.Var); ok && o != nil {
				defined[o] = true
			}
			if o, ok := info.Uses[id].(*types.Var); ok && o != nil && !o.IsField() && o.Parent() != p.P.Types.Scope() && !defined[o] {
				free[o] = true
			}
			return true
		})
	}
	// an integer the region reads as a position inside a string (a scanner fused
	// with the split) cannot be bound to a meaningful value here
	fused := false
	for _, st := range region {
		ast.Inspect(st, func(n ast.Node) bool {
			chk := func(e ast.Expr) {
				if e == nil {
					return
				}
				ast.Inspect(e, func(y ast.Node) bool {
					if id, ok := y.(*ast.Ident); ok {
						if o, ok := info.Uses[id].(*types.Var); ok && free[o] && isIntT(o.Type()) {
							fused = true
						}
					}
					return true
				})
			}
			switch x := n.(type) {
			case *ast.SliceExpr:
				if tv, ok := info.Types[x.X]; ok && isStringT(tv.Type) {
					chk(x.Low)
					chk(x.High)
				}
			case *ast.IndexExpr:
				if tv, ok := info.Types[x.X]; ok && isStringT(tv.Type) {
					chk(x.Index)
				}
			}
			return true
		})
	}
	if fused {
		return false, "", false
	}
	alphabet := []byte{'a', 'b', ':', '/'}
	n := 0
	var cur []byte
	var rec func() (bool, string, bool)
	rec = func() (bool, string, bool) {
		s := string(cur)
		ce := newCEnv(p, nil)
		ce.loops = true
		for o := range free {
			switch t := o.Type().Underlying().(type) {
			case *types.Basic:
				switch {
				case t.Info()&types.IsString != 0:
					ce.vars[o] = vStr(s)
				case t.Info()&types.IsInteger != 0:
					ce.vars[o] = vInt(0)
				default:
					return false, "", false
				}
			case *types.Slice:
				if !isStringT(t.Elem()) {
					return false, "", false
				}
				ce.vars[o] = Val{K: VList, T: []Val{vStr(s)}}
			default:
				return false, "", false
			}
		}
		if seeded != "" {
			ce.vars[m.abvObj], ce.vars[m.valObj] = vStr(s), vStr("")
		}
		ct, _, err := ce.execBlock(region)
		if err != nil {
			if pe, isPanic := err.(*panicked); isPanic {
				return false, fmt.Sprintf("the split of %q panics: %s", s, pe.msg), true
			}
			return false, "", false
		}
		if ct != cNext {
			return false, "", false
		}
		a, v := ce.vars[m.abvObj], ce.vars[m.valObj]
		if a.K != VStr || v.K != VStr {
			return false, "", false
		}
		wa, wv := s, ""
		if i := strings.IndexByte(s, ':'); i >= 0 {
			wa, wv = s[:i], s[i+1:]
		}
		n++
		if a.S != wa || v.S != wv {
			return false, fmt.Sprintf("the element %q is split into (%q, %q), expected (%q, %q): the value or the abbreviation is read from the wrong part", s, a.S, v.S, wa, wv), true
		}
		if len(cur) == 6 {
			return true, "", true
		}
		for _, c := range alphabet {
			cur = append(cur, c)
			ok, why, dec := rec()
			cur = cur[:len(cur)-1]
			if !ok || !dec {
				return ok, why, dec
			}
		}
		return true, "", true
	}
	ok, why, decided = rec()
	if ok && decided {
		why = fmt.Sprintf("(bounded check) the inline split yields (before, after) the first ':' for each of the %d strings of length ≤ 6 over {a, b, ':', '/'}", n)
		if seeded != "" {
			why += " (the element being the expression the abbreviation starts from, " + seeded + ")"
		}
	}
	return ok, why, decided
}
