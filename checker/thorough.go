package main

// thorough tier additions (filled in later)
func (w *World) thorough(id string, def propDef, run *Run) {}
