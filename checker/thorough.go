package main

// Thorough tier: (1) second load with GOARCH=386 (identical file set, same
// verdicts), (2) self-validation of the checker on hand-written variants
// (/verif/variants/*.patch) and on seeded variants kept from independent
// breakage attempts (/verif/seeded/*/patch.diff), (3) mechanically generated
// variants chosen by VERIF_SEED. Every variant is applied to a scratch copy
// outside /repo and /verif, analysed in a child process, and deleted.
// Self-validation validates the *checker*; no verdict about /repo depends on it.

import (
	"bytes"
	"encoding/json"
	"fmt"
	"go/ast"
	"go/token"
	"math/rand"
	"os"
	"os/exec"
	"path/filepath"
	"sort"
	"strconv"
	"strings"
	"sync"
)

type variant struct {
	Name   string
	Patch  string   // path of a unified diff (p1)
	Props  []string // properties expected to report it
	Expect []string // substrings, one of which must appear in the child's report ("" = any violation)
	Edit   func(dir string) error
}

func copyTree(src, dst string) error {
	for _, d := range []string{"20", "30", "31", "40"} {
		ents, err := os.ReadDir(filepath.Join(src, d))
		if err != nil {
			return err
		}
		if err := os.MkdirAll(filepath.Join(dst, d), 0o755); err != nil {
			return err
		}
		for _, e := range ents {
			if e.IsDir() {
				continue
			}
			b, err := os.ReadFile(filepath.Join(src, d, e.Name()))
			if err != nil {
				return err
			}
			if err := os.WriteFile(filepath.Join(dst, d, e.Name()), b, 0o644); err != nil {
				return err
			}
		}
	}
	for _, f := range []string{"go.mod", "go.sum"} {
		b, err := os.ReadFile(filepath.Join(src, f))
		if err != nil {
			return err
		}
		if err := os.WriteFile(filepath.Join(dst, f), b, 0o644); err != nil {
			return err
		}
	}
	return nil
}

type variantResult struct {
	Name     string `json:"name"`
	Outcome  string `json:"outcome"` // detected, missed, skipped(<why>)
	Reported string `json:"reported,omitempty"`
}

func runVariant(self, repo, prop string, v variant) variantResult {
	dir, err := os.MkdirTemp("", "cvsscheck-variant-")
	if err != nil {
		return variantResult{v.Name, "skipped(tempdir)", ""}
	}
	defer os.RemoveAll(dir)
	if err := copyTree(repo, dir); err != nil {
		return variantResult{v.Name, "skipped(copy: " + err.Error() + ")", ""}
	}
	if v.Patch != "" {
		cmd := exec.Command("patch", "-p1", "-s", "--no-backup-if-mismatch", "-i", v.Patch)
		cmd.Dir = dir
		if out, err := cmd.CombinedOutput(); err != nil {
			return variantResult{v.Name, "skipped(patch does not apply to the current tree)", clipN(string(out), 120)}
		}
	}
	if v.Edit != nil {
		if err := v.Edit(dir); err != nil {
			return variantResult{v.Name, "skipped(" + err.Error() + ")", ""}
		}
	}
	b := exec.Command("go", "build", "./20", "./30", "./31", "./40")
	b.Dir = dir
	b.Env = loadEnv("")
	if out, err := b.CombinedOutput(); err != nil {
		return variantResult{v.Name, "skipped(variant does not compile)", clipN(string(out), 160)}
	}
	c := exec.Command(self, "-prop", prop, "-repo", dir, "-no-evidence", "-tier", "quick", "-no-controls")
	c.Env = append(os.Environ(), "VERIF_TIER=quick")
	var out bytes.Buffer
	c.Stdout = &out
	c.Stderr = &out
	err = c.Run()
	code := 0
	if ee, ok := err.(*exec.ExitError); ok {
		code = ee.ExitCode()
	} else if err != nil {
		return variantResult{v.Name, "skipped(child: " + err.Error() + ")", ""}
	}
	rep := ""
	for _, ln := range strings.Split(out.String(), "\n") {
		if strings.Contains(ln, "[R") || strings.Contains(ln, "[floor]") || strings.Contains(ln, "[control]") {
			rep = clipN(strings.TrimSpace(ln), 220)
			break
		}
	}
	if code != 1 {
		return variantResult{v.Name, "missed", rep}
	}
	if len(v.Expect) > 0 {
		hit := false
		for _, e := range v.Expect {
			if e == "" || strings.Contains(out.String(), e) {
				hit = true
			}
		}
		if !hit {
			return variantResult{v.Name, "missed(reported something else than " + strings.Join(v.Expect, "|") + ")", rep}
		}
	}
	return variantResult{v.Name, "detected", rep}
}

// loadVariants reads /verif/variants/*.patch (header lines "# property: C07 C02",
// "# expect: R07.preserve") and /verif/seeded/*/{patch.diff,meta.json}.
func loadVariants(verif, prop string) []variant {
	var out []variant
	files, _ := filepath.Glob(filepath.Join(verif, "variants", "*.patch"))
	sort.Strings(files)
	for _, f := range files {
		b, err := os.ReadFile(f)
		if err != nil {
			continue
		}
		v := variant{Name: "variants/" + filepath.Base(f), Patch: f}
		for _, ln := range strings.Split(string(b), "\n") {
			if strings.HasPrefix(ln, "# property:") {
				v.Props = strings.Fields(strings.TrimPrefix(ln, "# property:"))
			}
			if strings.HasPrefix(ln, "# expect:") {
				v.Expect = append(v.Expect, strings.TrimSpace(strings.TrimPrefix(ln, "# expect:")))
			}
		}
		for _, p := range v.Props {
			if p == prop {
				out = append(out, v)
			}
		}
	}
	dirs, _ := filepath.Glob(filepath.Join(verif, "seeded", "*"))
	sort.Strings(dirs)
	for _, d := range dirs {
		mb, err := os.ReadFile(filepath.Join(d, "meta.json"))
		if err != nil {
			continue
		}
		var meta struct {
			Property   string   `json:"property"`
			DetectedBy []string `json:"detected_by"`
		}
		if json.Unmarshal(mb, &meta) != nil {
			continue
		}
		for _, p := range meta.DetectedBy {
			if p == prop {
				out = append(out, variant{Name: "seeded/" + filepath.Base(d), Patch: filepath.Join(d, "patch.diff"), Props: meta.DetectedBy})
			}
		}
	}
	return out
}

// mechanical variants: perturb one literal of the kind the property's rules read.
func (w *World) mechanicalVariants(prop string, seed int64, n int) []variant {
	type site struct {
		file string // relative
		off  int
		old  string
		new  string
		desc string
	}
	var sites []site
	addLits := func(p *Pkg, fd *ast.FuncDecl, kind token.Token, mut func(string) (string, bool), what string) {
		if fd == nil || fd.Body == nil {
			return
		}
		ast.Inspect(fd.Body, func(n ast.Node) bool {
			bl, ok := n.(*ast.BasicLit)
			if !ok || bl.Kind != kind {
				return true
			}
			nv, ok := mut(bl.Value)
			if !ok {
				return true
			}
			ps := p.Fset.Position(bl.Pos())
			rel, _ := filepath.Rel(w.Repo, ps.Filename)
			sites = append(sites, site{rel, ps.Offset, bl.Value, nv, fmt.Sprintf("%s: %s %s -> %s in %s", p.posAt(bl.Pos()), what, bl.Value, nv, fd.Name.Name)})
			return true
		})
	}
	rng := rand.New(rand.NewSource(seed))
	flipBit := func(s string) (string, bool) {
		if !strings.HasPrefix(s, "0b") || len(s) != 10 {
			return "", false
		}
		b := []byte(s)
		i := 2 + rng.Intn(8)
		if b[i] == '0' {
			b[i] = '1'
		} else {
			b[i] = '0'
		}
		return string(b), true
	}
	bumpFloat := func(s string) (string, bool) {
		f, err := strconv.ParseFloat(s, 64)
		if err != nil || !strings.Contains(s, ".") {
			return "", false
		}
		return strconv.FormatFloat(f+0.01, 'f', -1, 64), true
	}
	switch prop {
	case "C07", "C02", "C06", "C08", "C16":
		for _, k := range w.Order {
			p := w.Pkgs[k]
			if prop == "C16" && k != "40" {
				continue
			}
			addLits(p, p.method("Set"), token.INT, flipBit, "mask bit flipped")
			if prop != "C16" {
				addLits(p, p.method("Get"), token.INT, flipBit, "mask bit flipped")
			}
		}
	case "C03", "C05", "C12":
		for _, k := range w.Order {
			if (prop == "C05") != (k == "20") || k == "40" {
				if !(prop == "C12" && k != "40") {
					continue
				}
			}
			p := w.Pkgs[k]
			for name, fd := range p.Funcs {
				if fd.Recv == nil && fd.Type.Results != nil && len(fd.Type.Results.List) == 1 && fd.Type.Params != nil {
					ps := paramObjs(p.Info, fd)
					if len(ps) >= 1 && isUint8(ps[0].Type()) && name != "mod" {
						addLits(p, fd, token.FLOAT, bumpFloat, "weight perturbed")
					}
				}
			}
		}
	case "C04":
		p := w.Pkgs["40"]
		addLits(p, p.Funcs["lookupMV"], token.FLOAT, bumpFloat, "lookup cell perturbed")
	case "C10":
		for _, k := range []string{"30", "31"} {
			p := w.Pkgs[k]
			addLits(p, p.method("EnvironmentalScore"), token.INT, flipBit, "mask bit flipped")
		}
		p := w.Pkgs["40"]
		addLits(p, p.method("macroVector"), token.INT, flipBit, "mask bit flipped")
	case "C17":
		for _, k := range w.Order {
			p := w.Pkgs[k]
			addLits(p, p.Funcs["lenVec"], token.INT, func(s string) (string, bool) {
				v, err := strconv.Atoi(s)
				if err != nil || v < 2 {
					return "", false
				}
				return strconv.Itoa(v - 1), true
			}, "size decremented")
		}
	}
	if len(sites) == 0 {
		return nil
	}
	// pre-draw all mutations deterministically, then pick n
	sort.Slice(sites, func(i, j int) bool {
		if sites[i].file != sites[j].file {
			return sites[i].file < sites[j].file
		}
		return sites[i].off < sites[j].off
	})
	perm := rng.Perm(len(sites))
	var out []variant
	for i := 0; i < n && i < len(perm); i++ {
		s := sites[perm[i]]
		out = append(out, variant{Name: "generated/" + s.desc, Edit: func(dir string) error {
			f := filepath.Join(dir, s.file)
			b, err := os.ReadFile(f)
			if err != nil {
				return err
			}
			if s.off+len(s.old) > len(b) || string(b[s.off:s.off+len(s.old)]) != s.old {
				return fmt.Errorf("literal moved")
			}
			nb := append(append(append([]byte(nil), b[:s.off]...), []byte(s.new)...), b[s.off+len(s.old):]...)
			return os.WriteFile(f, nb, 0o644)
		}})
	}
	return out
}

func (w *World) thorough(id string, def propDef, run *Run) {
	// (1) GOARCH=386: identical file set and verdicts
	w2, err := load(w.Repo, "386")
	if err != nil {
		run.fail("thorough.386", "load", "", "GOARCH=386 load failed: "+err.Error())
	} else {
		same := len(w2.Files) == len(w.Files)
		for i := range w.Files {
			if !same || w.Files[i] != w2.Files[i] {
				same = false
				break
			}
		}
		run.check(same, "thorough.386", "fileset", "", fmt.Sprintf("GOARCH=386 build consists of the same %d files", len(w.Files)), "GOARCH=386 compiles a different file set: architecture-specific sources are outside the model")
		w2.Tier = "quick"
		var all []Obligation
		for _, g := range def.Groups {
			if g == "alloc" || g == "effects" {
				continue // compiler census / SSA are decided on the native build
			}
			groups[g](w2, &all)
		}
		bad := 0
		n := 0
		for _, o := range all {
			keep := false
			for _, pat := range def.Rules {
				if ruleMatches(pat, o) {
					keep = true
				}
			}
			if !keep {
				continue
			}
			n++
			if !o.OK {
				bad++
				o.Instance = "386:" + o.Instance
				run.add(o)
			}
		}
		run.check(bad == 0, "thorough.386", "verdicts", "", fmt.Sprintf("%d obligations re-derived under GOARCH=386 with identical verdicts", n), fmt.Sprintf("%d obligations fail under GOARCH=386", bad))
	}
	// (2)+(3) self-validation, only when the main verdict is PASS
	for _, o := range run.Obls {
		if !o.OK {
			run.Extra["self_validation"] = "skipped: the tree has violations"
			return
		}
	}
	self, err := os.Executable()
	if err != nil {
		run.Notes = append(run.Notes, "self-validation skipped: cannot locate own binary")
		return
	}
	vs := loadVariants(w.Verif, id)
	vs = append(vs, w.mechanicalVariants(id, w.Seed, 8)...)
	results := make([]variantResult, len(vs))
	sem := make(chan struct{}, 12)
	var wg sync.WaitGroup
	for i := range vs {
		wg.Add(1)
		go func(i int) {
			defer wg.Done()
			sem <- struct{}{}
			defer func() { <-sem }()
			results[i] = runVariant(self, w.Repo, id, vs[i])
		}(i)
	}
	wg.Wait()
	det, miss, skip := 0, 0, 0
	for _, r := range results {
		switch {
		case r.Outcome == "detected":
			det++
			run.okTrivial("selfcheck", r.Name, "", "variant reported: "+r.Reported)
		case strings.HasPrefix(r.Outcome, "skipped"):
			skip++
		default:
			miss++
			// generated variants may be behaviour-preserving (e.g. a bit outside any field): informational
			if strings.HasPrefix(r.Name, "generated/") {
				run.Notes = append(run.Notes, "generated variant not reported (may be behaviour-preserving): "+r.Name)
			} else {
				// a regression of the checker, not a fact about /repo: reported, recorded in the
				// evidence (self_validation.missed), never turned into a verdict on the property
				fmt.Printf("SELF-VALIDATION: property=%s variant %s is recorded as caught but was not reported (%s)\n", id, r.Name, r.Outcome)
				run.Notes = append(run.Notes, "self-validation: variant not reported: "+r.Name+" ("+r.Outcome+")")
			}
		}
	}
	run.Extra["self_validation"] = map[string]any{"variants": len(vs), "detected": det, "missed": miss, "skipped": skip, "results": results, "seed": w.Seed}
	// (4) behaviour-preserving refactorings (/verif/refactor/*/patch.diff, produced and
	// differentially tested by independent sub-agents): the property must stay silent
	rdirs, _ := filepath.Glob(filepath.Join(w.Verif, "refactor", "*", "patch.diff"))
	sort.Strings(rdirs)
	rres := make([]variantResult, len(rdirs))
	for i := range rdirs {
		wg.Add(1)
		go func(i int) {
			defer wg.Done()
			sem <- struct{}{}
			defer func() { <-sem }()
			rres[i] = runVariant(self, w.Repo, id, variant{Name: "refactor/" + filepath.Base(filepath.Dir(rdirs[i])), Patch: rdirs[i]})
		}(i)
	}
	wg.Wait()
	silent, alarms, rskip := 0, 0, 0
	for _, r := range rres {
		switch {
		case strings.HasPrefix(r.Outcome, "missed"):
			silent++
		case strings.HasPrefix(r.Outcome, "skipped"):
			rskip++
		default:
			alarms++
			fmt.Printf("SELF-VALIDATION: property=%s false alarm on the behaviour-preserving %s: %s\n", id, r.Name, r.Reported)
			run.Notes = append(run.Notes, "self-validation: false alarm on behaviour-preserving "+r.Name+": "+r.Reported)
		}
	}
	run.Extra["refactoring_corpus"] = map[string]any{"patches": len(rdirs), "silent": silent, "false_alarms": alarms, "skipped": rskip}
}
