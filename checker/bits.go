package main

// Layer M3: bit routing. A bit-precise dataflow evaluator for side-effect-free
// uint8 expressions (known-bits / demanded-bits analysis). Exact on this code
// base because every mask and shift is a constant.

import (
	"fmt"
	"go/ast"
	"go/constant"
	"go/token"
	"go/types"
	"strings"
)

type BitKind uint8

const (
	BZero BitKind = iota
	BOne
	BIn  // bit B of receiver byte A before the statement
	BVal // bit A of the validated code
	BTop // unknown
)

type Bit struct {
	K    BitKind
	A, B int
}

func (b Bit) String() string {
	switch b.K {
	case BZero:
		return "0"
	case BOne:
		return "1"
	case BIn:
		return fmt.Sprintf("u%d.%d", b.A, b.B)
	case BVal:
		return fmt.Sprintf("v%d", b.A)
	}
	return "T"
}

// BV is the abstract value of a uint8 expression; index 0 is the least
// significant bit.
type BV [8]Bit

func (v BV) String() string {
	var s []string
	for i := 7; i >= 0; i-- {
		s = append(s, v[i].String())
	}
	return "[" + strings.Join(s, " ") + "]"
}

type BitPos struct{ F, B int }

func (p BitPos) String() string { return fmt.Sprintf("u%d.%d", p.F, p.B) }

func bvConst(c uint8) BV {
	var v BV
	for i := 0; i < 8; i++ {
		if c&(1<<uint(i)) != 0 {
			v[i] = Bit{K: BOne}
		}
	}
	return v
}

func bvIn(field int) BV {
	var v BV
	for i := 0; i < 8; i++ {
		v[i] = Bit{K: BIn, A: field, B: i}
	}
	return v
}

// bvCode is the abstract value of a validated code with n legal values:
// the code ranges over [0,n), so bits >= bitlen(n-1) are known zero.
func bvCode(n int) BV {
	var v BV
	w := bitlen(n - 1)
	for i := 0; i < 8 && i < w; i++ {
		v[i] = Bit{K: BVal, A: i}
	}
	return v
}

func bitlen(x int) int {
	n := 0
	for x > 0 {
		n++
		x >>= 1
	}
	return n
}

func bitAnd(a, b Bit) Bit {
	switch {
	case a.K == BZero || b.K == BZero:
		return Bit{K: BZero}
	case a.K == BOne:
		return b
	case b.K == BOne:
		return a
	case a == b && a.K != BTop:
		return a
	}
	return Bit{K: BTop}
}

func bitOr(a, b Bit) Bit {
	switch {
	case a.K == BOne || b.K == BOne:
		return Bit{K: BOne}
	case a.K == BZero:
		return b
	case b.K == BZero:
		return a
	case a == b && a.K != BTop:
		return a
	}
	return Bit{K: BTop}
}

func bitXor(a, b Bit) Bit {
	switch {
	case a.K == BZero:
		return b
	case b.K == BZero:
		return a
	case a.K == BOne && b.K == BOne:
		return Bit{K: BZero}
	case a == b && a.K != BTop:
		return Bit{K: BZero}
	}
	return Bit{K: BTop}
}

func bitNot(a Bit) Bit {
	switch a.K {
	case BZero:
		return Bit{K: BOne}
	case BOne:
		return Bit{K: BZero}
	}
	return Bit{K: BTop}
}

// bvEnv is the evaluation environment of M3.
type bvEnv struct {
	p      *Pkg
	state  []BV                  // current abstract value of each receiver byte
	locals map[types.Object]BV   // single-assignment uint8 locals
	isObj  func(e ast.Expr) bool // does e denote "the object" (receiver / the one T-typed variable)?
}

func newBvEnv(p *Pkg) *bvEnv {
	e := &bvEnv{p: p, locals: map[types.Object]BV{}}
	for i := range p.Fields {
		e.state = append(e.state, bvIn(i))
	}
	e.isObj = func(x ast.Expr) bool {
		tv, ok := p.Info.Types[x]
		return ok && p.isTPtrOrVal(tv.Type)
	}
	return e
}

type undecided struct {
	pos token.Pos
	msg string
}

func (u *undecided) Error() string { return u.msg }

func undecidedf(n ast.Node, format string, a ...any) error {
	var pos token.Pos
	if n != nil {
		pos = n.Pos()
	}
	return &undecided{pos: pos, msg: fmt.Sprintf(format, a...)}
}

func isUint8(t types.Type) bool {
	b, ok := t.Underlying().(*types.Basic)
	return ok && b.Kind() == types.Uint8
}

func constUint(info *types.Info, e ast.Expr) (uint64, bool) {
	tv, ok := info.Types[e]
	if !ok || tv.Value == nil {
		return 0, false
	}
	v := constant.ToInt(tv.Value)
	if v.Kind() != constant.Int {
		return 0, false
	}
	u, exact := constant.Uint64Val(v)
	if !exact {
		return 0, false
	}
	return u, true
}

// containsObjField reports whether e contains a selector of a field of T.
func (p *Pkg) containsObjField(e ast.Node) bool {
	found := false
	ast.Inspect(e, func(n ast.Node) bool {
		if x, ok := n.(ast.Expr); ok {
			if _, _, ok := p.fieldOf(x); ok {
				found = true
			}
		}
		return !found
	})
	return found
}

func (e *bvEnv) eval(x ast.Expr) (BV, error) {
	info := e.p.Info
	if tv, ok := info.Types[x]; ok && tv.Value != nil {
		u, ok := constUint(info, x)
		if !ok || u > 255 {
			return BV{}, undecidedf(x, "constant %s does not fit uint8", tv.Value)
		}
		return bvConst(uint8(u)), nil
	}
	switch n := x.(type) {
	case *ast.ParenExpr:
		return e.eval(n.X)
	case *ast.Ident:
		obj := info.Uses[n]
		if obj == nil {
			obj = info.Defs[n]
		}
		if v, ok := e.locals[obj]; ok {
			return v, nil
		}
		return BV{}, undecidedf(x, "identifier %s is not a modelled uint8 value", n.Name)
	case *ast.SelectorExpr:
		if idx, base, ok := e.p.fieldOf(n); ok {
			if !e.isObj(base) {
				return BV{}, undecidedf(x, "field read through an unmodelled base")
			}
			return e.state[idx], nil
		}
		return BV{}, undecidedf(x, "selector outside the bit model")
	case *ast.CallExpr:
		// conversion uint8(y) of a uint8 operand
		if tv, ok := info.Types[n.Fun]; ok && tv.IsType() && len(n.Args) == 1 {
			if isUint8(tv.Type) {
				if at, ok := info.Types[n.Args[0]]; ok && isUint8(at.Type) {
					return e.eval(n.Args[0])
				}
			}
		}
		return BV{}, undecidedf(x, "call inside a bit expression")
	case *ast.UnaryExpr:
		if n.Op == token.XOR {
			a, err := e.eval(n.X)
			if err != nil {
				return BV{}, err
			}
			var r BV
			for i := range r {
				r[i] = bitNot(a[i])
			}
			return r, nil
		}
		return BV{}, undecidedf(x, "unary %s inside a bit expression", n.Op)
	case *ast.BinaryExpr:
		switch n.Op {
		case token.AND, token.OR, token.XOR, token.AND_NOT:
			a, err := e.eval(n.X)
			if err != nil {
				return BV{}, err
			}
			b, err := e.eval(n.Y)
			if err != nil {
				return BV{}, err
			}
			var r BV
			for i := range r {
				switch n.Op {
				case token.AND:
					r[i] = bitAnd(a[i], b[i])
				case token.OR:
					r[i] = bitOr(a[i], b[i])
				case token.XOR:
					r[i] = bitXor(a[i], b[i])
				case token.AND_NOT:
					r[i] = bitAnd(a[i], bitNot(b[i]))
				}
			}
			return r, nil
		case token.SHL, token.SHR:
			// the shifted operand must itself be uint8 (truncation semantics)
			if tv, ok := info.Types[n.X]; !ok || !isUint8(tv.Type) {
				return BV{}, undecidedf(x, "shift of a non-uint8 operand")
			}
			a, err := e.eval(n.X)
			if err != nil {
				return BV{}, err
			}
			c, ok := constUint(info, n.Y)
			if !ok {
				return BV{}, undecidedf(x, "shift by a non-constant")
			}
			var r BV
			for i := 0; i < 8; i++ {
				var src int
				if n.Op == token.SHL {
					src = i - int(c)
				} else {
					src = i + int(c)
				}
				if c < 8 && src >= 0 && src < 8 {
					r[i] = a[src]
				}
			}
			return r, nil
		}
		// arithmetic: every result bit is unknown
		if _, err := e.eval(n.X); err == nil {
			if _, err := e.eval(n.Y); err == nil {
				var r BV
				for i := range r {
					r[i] = Bit{K: BTop}
				}
				return r, nil
			}
		}
		return BV{}, undecidedf(x, "operator %s inside a bit expression", n.Op)
	}
	return BV{}, undecidedf(x, "expression form %T outside the M3 language", x)
}

// inBits returns the receiver bits an abstract value depends on, and whether
// it has any Top/Val bit.
func (v BV) inBits() (ins []BitPos, clean bool) {
	clean = true
	for _, b := range v {
		switch b.K {
		case BIn:
			ins = append(ins, BitPos{b.A, b.B})
		case BTop, BVal:
			clean = false
		}
	}
	return
}
