package main

// Layer M3: bit routing. A bit-precise dataflow evaluator for side-effect-free
// uint8 expressions (known-bits / demanded-bits analysis). Exact on this code
// base because every mask and shift is a constant.

import (
	"fmt"
	"go/ast"
	"go/constant"
	"go/token"
	"go/types"
	"strings"
)

type BitKind uint8

const (
	BZero BitKind = iota
	BOne
	BIn  // bit B of receiver byte A before the statement
	BVal // bit A of the validated code
	BTop // unknown
)

type Bit struct {
	K    BitKind
	A, B int
}

func (b Bit) String() string {
	switch b.K {
	case BZero:
		return "0"
	case BOne:
		return "1"
	case BIn:
		return fmt.Sprintf("u%d.%d", b.A, b.B)
	case BVal:
		return fmt.Sprintf("v%d", b.A)
	}
	return "T"
}

// BV is the abstract value of a uint8 expression; index 0 is the least
// significant bit.
type BV [8]Bit

func (v BV) String() string {
	var s []string
	for i := 7; i >= 0; i-- {
		s = append(s, v[i].String())
	}
	return "[" + strings.Join(s, " ") + "]"
}

type BitPos struct{ F, B int }

func (p BitPos) String() string { return fmt.Sprintf("u%d.%d", p.F, p.B) }

func bvConst(c uint8) BV {
	var v BV
	for i := 0; i < 8; i++ {
		if c&(1<<uint(i)) != 0 {
			v[i] = Bit{K: BOne}
		}
	}
	return v
}

func bvIn(field int) BV {
	var v BV
	for i := 0; i < 8; i++ {
		v[i] = Bit{K: BIn, A: field, B: i}
	}
	return v
}

// bvCode is the abstract value of a validated code with n legal values:
// the code ranges over [0,n), so bits >= bitlen(n-1) are known zero.
func bvCode(n int) BV {
	var v BV
	w := bitlen(n - 1)
	for i := 0; i < 8 && i < w; i++ {
		v[i] = Bit{K: BVal, A: i}
	}
	return v
}

func bitlen(x int) int {
	n := 0
	for x > 0 {
		n++
		x >>= 1
	}
	return n
}

func bitAnd(a, b Bit) Bit {
	switch {
	case a.K == BZero || b.K == BZero:
		return Bit{K: BZero}
	case a.K == BOne:
		return b
	case b.K == BOne:
		return a
	case a == b && a.K != BTop:
		return a
	}
	return Bit{K: BTop}
}

func bitOr(a, b Bit) Bit {
	switch {
	case a.K == BOne || b.K == BOne:
		return Bit{K: BOne}
	case a.K == BZero:
		return b
	case b.K == BZero:
		return a
	case a == b && a.K != BTop:
		return a
	}
	return Bit{K: BTop}
}

func bitXor(a, b Bit) Bit {
	switch {
	case a.K == BZero:
		return b
	case b.K == BZero:
		return a
	case a.K == BOne && b.K == BOne:
		return Bit{K: BZero}
	case a == b && a.K != BTop:
		return Bit{K: BZero}
	}
	return Bit{K: BTop}
}

func bitNot(a Bit) Bit {
	switch a.K {
	case BZero:
		return Bit{K: BOne}
	case BOne:
		return Bit{K: BZero}
	}
	return Bit{K: BTop}
}

// bvEnv is the evaluation environment of M3.
type bvEnv struct {
	p      *Pkg
	state  []BV                   // current abstract value of each receiver byte
	locals map[types.Object]BV    // single-assignment uint8 locals
	consts map[types.Object]int64 // integer parameters of an inlined helper, bound to constant arguments
	depth  int
	isObj  func(e ast.Expr) bool // does e denote "the object" (receiver / the one T-typed variable)?
}

func newBvEnv(p *Pkg) *bvEnv {
	e := &bvEnv{p: p, locals: map[types.Object]BV{}}
	for i := range p.Fields {
		e.state = append(e.state, bvIn(i))
	}
	e.isObj = func(x ast.Expr) bool {
		tv, ok := p.Info.Types[x]
		return ok && p.isTPtrOrVal(tv.Type)
	}
	return e
}

type undecided struct {
	pos token.Pos
	msg string
}

func (u *undecided) Error() string { return u.msg }

func undecidedf(n ast.Node, format string, a ...any) error {
	var pos token.Pos
	if n != nil {
		pos = n.Pos()
	}
	return &undecided{pos: pos, msg: fmt.Sprintf(format, a...)}
}

func isUint8(t types.Type) bool {
	if tp, ok := t.(*types.TypeParam); ok {
		// T ~uint8: every type of the constraint's type set has underlying type uint8
		iface, ok := tp.Constraint().Underlying().(*types.Interface)
		if !ok || iface.NumEmbeddeds() == 0 {
			return false
		}
		for i := 0; i < iface.NumEmbeddeds(); i++ {
			u, ok := iface.EmbeddedType(i).(*types.Union)
			if !ok {
				if !isUint8(iface.EmbeddedType(i)) {
					return false
				}
				continue
			}
			for j := 0; j < u.Len(); j++ {
				if !isUint8(u.Term(j).Type()) {
					return false
				}
			}
		}
		return true
	}
	b, ok := t.Underlying().(*types.Basic)
	return ok && b.Kind() == types.Uint8
}

func constUint(info *types.Info, e ast.Expr) (uint64, bool) {
	tv, ok := info.Types[e]
	if !ok || tv.Value == nil {
		return 0, false
	}
	v := constant.ToInt(tv.Value)
	if v.Kind() != constant.Int {
		return 0, false
	}
	u, exact := constant.Uint64Val(v)
	if !exact {
		return 0, false
	}
	return u, true
}

// containsObjField reports whether e contains a selector of a field of T.
func (p *Pkg) containsObjField(e ast.Node) bool {
	found := false
	ast.Inspect(e, func(n ast.Node) bool {
		if x, ok := n.(ast.Expr); ok {
			if _, _, ok := p.fieldOf(x); ok {
				found = true
			}
		}
		return !found
	})
	return found
}

// constOf evaluates an integer expression made of constants and of the
// constant-bound parameters of an inlined helper (`1<<width - 1`).
func (e *bvEnv) constOf(x ast.Expr) (int64, bool) {
	info := e.p.Info
	trunc := func(v int64) int64 {
		if tv, ok := info.Types[x]; ok && tv.Type != nil {
			if b, ok := tv.Type.Underlying().(*types.Basic); ok {
				switch b.Kind() {
				case types.Uint8:
					return v & 0xff
				case types.Uint16:
					return v & 0xffff
				case types.Uint32:
					return v & 0xffffffff
				}
			}
		}
		return v
	}
	if tv, ok := info.Types[x]; ok && tv.Value != nil {
		if v := constant.ToInt(tv.Value); v.Kind() == constant.Int {
			if i, exact := constant.Int64Val(v); exact {
				return i, true
			}
		}
		return 0, false
	}
	switch n := x.(type) {
	case *ast.ParenExpr:
		return e.constOf(n.X)
	case *ast.Ident:
		o := info.Uses[n]
		if v, ok := e.consts[o]; ok && o != nil {
			return v, true
		}
	case *ast.CallExpr:
		if tv, ok := info.Types[n.Fun]; ok && tv.IsType() && len(n.Args) == 1 {
			if b, ok := tv.Type.Underlying().(*types.Basic); ok && b.Info()&types.IsInteger != 0 {
				if v, ok := e.constOf(n.Args[0]); ok {
					return trunc(v), true
				}
			}
		}
	case *ast.BinaryExpr:
		a, ok := e.constOf(n.X)
		if !ok {
			return 0, false
		}
		b, ok := e.constOf(n.Y)
		if !ok {
			return 0, false
		}
		switch n.Op {
		case token.ADD:
			return trunc(a + b), true
		case token.SUB:
			return trunc(a - b), true
		case token.MUL:
			return trunc(a * b), true
		case token.AND:
			return a & b, true
		case token.OR:
			return a | b, true
		case token.XOR:
			return trunc(a ^ b), true
		case token.AND_NOT:
			return a &^ b, true
		case token.SHL:
			if b >= 0 && b < 32 {
				return trunc(a << uint(b)), true
			}
		case token.SHR:
			if b >= 0 && b < 64 && a >= 0 {
				return a >> uint(b), true
			}
		}
	}
	return 0, false
}

// inlineCall evaluates a call of a pure package helper whose body is a list of
// single definitions followed by one `return <expr>`: uint8 parameters are
// bound to abstract bytes, integer parameters to the constant arguments.
func (e *bvEnv) inlineCall(n *ast.CallExpr) (BV, bool, error) {
	p := e.p
	fn := calleeOf(p.Info, n)
	if fn == nil || fn.Pkg() != p.P.Types || e.depth >= 4 {
		return BV{}, false, nil
	}
	fd := p.FuncObj[fn]
	if fd == nil || fd.Body == nil || len(fd.Body.List) == 0 {
		return BV{}, false, nil
	}
	if fd.Recv != nil {
		// an accessor method of the object itself: its receiver is the same bytes
		se, ok := n.Fun.(*ast.SelectorExpr)
		if !ok || !e.isObj(se.X) {
			return BV{}, false, nil
		}
		if ro := p.recvObj(fd); ro != nil && assignedIn(p.Info, fd.Body, ro) {
			return BV{}, false, nil
		}
	}
	params := paramObjs(p.Info, fd)
	if len(params) != len(n.Args) {
		return BV{}, false, nil
	}
	rs, ok := fd.Body.List[len(fd.Body.List)-1].(*ast.ReturnStmt)
	if !ok || len(rs.Results) != 1 {
		return BV{}, false, nil
	}
	callee := &bvEnv{p: p, state: e.state, locals: map[types.Object]BV{}, consts: map[types.Object]int64{}, isObj: e.isObj, depth: e.depth + 1}
	for i, po := range params {
		if assignedIn(p.Info, fd.Body, po) {
			return BV{}, false, nil
		}
		if c, ok := e.constOf(n.Args[i]); ok {
			callee.consts[po] = c
			if isUint8(po.Type()) && c >= 0 && c <= 255 {
				callee.locals[po] = bvConst(uint8(c))
			}
			continue
		}
		if !isUint8(po.Type()) {
			return BV{}, false, nil
		}
		v, err := e.eval(n.Args[i])
		if err != nil {
			return BV{}, true, err
		}
		callee.locals[po] = v
	}
	for _, s := range fd.Body.List[:len(fd.Body.List)-1] {
		as, ok := s.(*ast.AssignStmt)
		if !ok || as.Tok != token.DEFINE || len(as.Lhs) != 1 || len(as.Rhs) != 1 {
			return BV{}, false, nil
		}
		o := identObj(p.Info, as.Lhs[0])
		if o == nil {
			return BV{}, false, nil
		}
		if c, ok := callee.constOf(as.Rhs[0]); ok {
			callee.consts[o] = c
			if isUint8(o.Type()) {
				callee.locals[o] = bvConst(uint8(c))
			}
			continue
		}
		if !isUint8(o.Type()) {
			return BV{}, false, nil
		}
		v, err := callee.eval(as.Rhs[0])
		if err != nil {
			return BV{}, true, err
		}
		callee.locals[o] = v
	}
	v, err := callee.eval(rs.Results[0])
	return v, true, err
}

func (e *bvEnv) eval(x ast.Expr) (BV, error) {
	info := e.p.Info
	if len(e.consts) > 0 {
		if tv, ok := info.Types[x]; ok && tv.Value == nil && isUint8(tv.Type) {
			if c, ok := e.constOf(x); ok && c >= 0 && c <= 255 {
				return bvConst(uint8(c)), nil
			}
		}
	}
	if tv, ok := info.Types[x]; ok && tv.Value != nil {
		u, ok := constUint(info, x)
		if !ok || u > 255 {
			return BV{}, undecidedf(x, "constant %s does not fit uint8", tv.Value)
		}
		return bvConst(uint8(u)), nil
	}
	switch n := x.(type) {
	case *ast.ParenExpr:
		return e.eval(n.X)
	case *ast.Ident:
		obj := info.Uses[n]
		if obj == nil {
			obj = info.Defs[n]
		}
		if v, ok := e.locals[obj]; ok {
			return v, nil
		}
		return BV{}, undecidedf(x, "identifier %s is not a modelled uint8 value", n.Name)
	case *ast.SelectorExpr:
		if idx, base, ok := e.p.fieldOf(n); ok {
			if !e.isObj(base) {
				return BV{}, undecidedf(x, "field read through an unmodelled base")
			}
			return e.state[idx], nil
		}
		return BV{}, undecidedf(x, "selector outside the bit model")
	case *ast.CallExpr:
		// conversion uint8(y) of a uint8 operand
		if tv, ok := info.Types[n.Fun]; ok && tv.IsType() && len(n.Args) == 1 {
			if isUint8(tv.Type) {
				if at, ok := info.Types[n.Args[0]]; ok && isUint8(at.Type) {
					return e.eval(n.Args[0])
				}
			}
		}
		if v, handled, err := e.inlineCall(n); handled {
			return v, err
		}
		return BV{}, undecidedf(x, "call inside a bit expression")
	case *ast.UnaryExpr:
		if n.Op == token.XOR {
			a, err := e.eval(n.X)
			if err != nil {
				return BV{}, err
			}
			var r BV
			for i := range r {
				r[i] = bitNot(a[i])
			}
			return r, nil
		}
		return BV{}, undecidedf(x, "unary %s inside a bit expression", n.Op)
	case *ast.BinaryExpr:
		switch n.Op {
		case token.AND, token.OR, token.XOR, token.AND_NOT:
			a, err := e.eval(n.X)
			if err != nil {
				return BV{}, err
			}
			b, err := e.eval(n.Y)
			if err != nil {
				return BV{}, err
			}
			var r BV
			for i := range r {
				switch n.Op {
				case token.AND:
					r[i] = bitAnd(a[i], b[i])
				case token.OR:
					r[i] = bitOr(a[i], b[i])
				case token.XOR:
					r[i] = bitXor(a[i], b[i])
				case token.AND_NOT:
					r[i] = bitAnd(a[i], bitNot(b[i]))
				}
			}
			return r, nil
		case token.SHL, token.SHR:
			// the shifted operand must itself be uint8 (truncation semantics)
			if tv, ok := info.Types[n.X]; !ok || !isUint8(tv.Type) {
				return BV{}, undecidedf(x, "shift of a non-uint8 operand")
			}
			a, err := e.eval(n.X)
			if err != nil {
				return BV{}, err
			}
			ci, ok := e.constOf(n.Y)
			if !ok || ci < 0 {
				return BV{}, undecidedf(x, "shift by a non-constant")
			}
			c := uint64(ci)
			var r BV
			for i := 0; i < 8; i++ {
				var src int
				if n.Op == token.SHL {
					src = i - int(c)
				} else {
					src = i + int(c)
				}
				if c < 8 && src >= 0 && src < 8 {
					r[i] = a[src]
				}
			}
			return r, nil
		}
		// arithmetic: every result bit is unknown
		if _, err := e.eval(n.X); err == nil {
			if _, err := e.eval(n.Y); err == nil {
				var r BV
				for i := range r {
					r[i] = Bit{K: BTop}
				}
				return r, nil
			}
		}
		return BV{}, undecidedf(x, "operator %s inside a bit expression", n.Op)
	}
	return BV{}, undecidedf(x, "expression form %T outside the M3 language", x)
}

// inBits returns the receiver bits an abstract value depends on, and whether
// it has any Top/Val bit.
func (v BV) inBits() (ins []BitPos, clean bool) {
	clean = true
	for _, b := range v {
		switch b.K {
		case BIn:
			ins = append(ins, BitPos{b.A, b.B})
		case BTop, BVal:
			clean = false
		}
	}
	return
}
