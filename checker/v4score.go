package main

// Structure of (*CVSS40).Score: rule group "v4score", part 1 — effective-value
// locals, the no-impact shortcut, next-lower MacroVectors (R10.mod, R10.v4default,
// R04.zero, R04.nlm, R10.supp).

import (
	"fmt"
	"go/ast"
	"go/token"
	"go/types"
	"math/big"
	"os"
	"sort"
	"strings"
)

type locSem struct {
	Metric string
	Kind   string // "eff" (effective value of Metric), "def" (X replaced by the default), "code"
}

func (l locSem) String() string { return l.Kind + "(" + l.Metric + ")" }

// domain (value strings by code) of a classified local
func (p *Pkg) locDomain(l locSem) []string {
	switch l.Kind {
	case "eff":
		return p.atomDomain("e" + l.Metric)
	default:
		return p.atomDomain(l.Metric)
	}
}

type scoreModel struct {
	p        *Pkg
	fd       *ast.FuncDecl
	prefix   []ast.Stmt
	loop     ast.Stmt
	suffix   []ast.Stmt
	deps     map[types.Object]map[string]bool
	sem      map[types.Object]locSem
	u8locals []types.Object
	zeroIfs  []*ast.IfStmt
	mvFn     *types.Func
	lookupFn *types.Func
	table    map[string]*big.Rat
	entry    map[string]map[types.Object]Val // key -> locals at loop entry
	keys     []string
	// filled by the loop-nest and depth checks, consumed by checkInterp
	rank      map[string]map[string]int                 // metric -> effective value -> rank in the code's severity row
	maxes     map[string]map[string][]map[string]string // EQ -> level -> decoded highest-severity vectors
	depth1    map[string]map[string]*big.Rat            // EQ -> level -> depth+1
	roundTree *Ex
	roundFn   *ast.FuncDecl
}

func isU8Assign(p *Pkg, s ast.Stmt) bool {
	as, ok := s.(*ast.AssignStmt)
	if !ok || len(as.Lhs) == 0 {
		return false
	}
	for _, l := range as.Lhs {
		o := identObj(p.Info, l)
		if o == nil || !isUint8(o.Type()) {
			return false
		}
	}
	return true
}

func isU8Patch(p *Pkg, s ast.Stmt) bool {
	ifs, ok := s.(*ast.IfStmt)
	if !ok || ifs.Init != nil {
		return false
	}
	okAll := len(ifs.Body.List) > 0
	for _, b := range ifs.Body.List {
		if !isU8Assign(p, b) {
			okAll = false
		}
	}
	if ifs.Else != nil {
		okAll = false
	}
	return okAll
}

func (sm *scoreModel) runU8(codes map[string]int) (map[types.Object]Val, error) {
	bytes, err := sm.p.bytesFromCodes(codes)
	if err != nil {
		return nil, err
	}
	ce := newCEnv(sm.p, bytes)
	for _, s := range sm.prefix {
		if isU8Assign(sm.p, s) || isU8Patch(sm.p, s) {
			if _, _, err := ce.exec(s); err != nil {
				return nil, err
			}
		}
	}
	return ce.vars, nil
}

func (w *World) buildScoreModel(add func(ok bool, rule, inst string, n ast.Node, detail string)) *scoreModel {
	p := w.Pkgs["40"]
	fd := p.method("Score")
	if fd == nil {
		add(false, "R04.sibling", "Score", nil, "no Score method")
		return nil
	}
	m := &scoreModel{p: p, fd: fd, sem: map[types.Object]locSem{}}
	// the loop nest: the top-level loop with the deepest nesting (other,
	// shallower loops over small local arrays belong to the prefix or suffix)
	depthOf := func(s ast.Stmt) int {
		var rec func(n ast.Node) int
		rec = func(n ast.Node) int {
			best := 0
			ast.Inspect(n, func(x ast.Node) bool {
				if x == n {
					return true
				}
				switch x.(type) {
				case *ast.ForStmt, *ast.RangeStmt:
					if d := 1 + rec(x); d > best {
						best = d
					}
					return false
				}
				return true
			})
			return best
		}
		return 1 + rec(s)
	}
	bestDepth := 0
	for i, s := range fd.Body.List {
		switch s.(type) {
		case *ast.ForStmt, *ast.RangeStmt:
			if d := depthOf(s); d > bestDepth {
				bestDepth = d
				m.prefix = fd.Body.List[:i]
				m.loop = s
				m.suffix = fd.Body.List[i+1:]
			}
		}
	}
	if m.loop == nil {
		add(false, "R04.sibling", "Score", fd, "Score has no loop nest over the highest-severity vectors: undecided")
		return nil
	}
	m.deps = p.assignDeps(fd)
	return m
}

func (w *World) rulesV4Score(out *[]Obligation) {
	var first []Obligation
	w.rulesV4ScoreOn(&first)
	bad := 0
	for _, o := range first {
		if !o.OK {
			bad++
		}
	}
	if bad > 0 && !w.normalized {
		// the decomposition is stated over Score's locals: undo the
		// refactorings that move values out of locals (normalize.go), then those
		// that move statements out of Score (normalize2.go), and retry
		for attempt := 0; attempt < 2; attempt++ {
			var w2 *World
			var notes []string
			var err error
			if attempt == 0 {
				w2, notes, err = w.normalizedWorld("40", []string{"Score", "macroVector"})
			} else {
				w2, notes, err = w.inlinedWorld("40", []string{"Score", "macroVector"})
			}
			if err != nil {
				w.Extra["v4_normalisation"] = "not applicable: " + err.Error()
			}
			if err == nil && w2 != nil {
				w2.normalized = true
				var second []Obligation
				w2.rulesV4ScoreOn(&second)
				bad2 := 0
				for _, o := range second {
					if !o.OK {
						bad2++
					}
				}
				w.Extra["v4_normalisation"] = fmt.Sprintf("%d failing obligations before, %d after: %s", bad, bad2, strings.Join(notes, "; "))
				if bad2 == 0 || (attempt == 1 && (bad2 < bad || len(second) > 4*len(first))) || os.Getenv("CVSSCHECK_FORCE_NORM") != "" {
					second = append(second, Obligation{Rule: "R04.sibling", Instance: "40.Score.normalised", Pos: "40", OK: true, NonTrivial: true,
						Detail: "Score analysed after source-level normalisation (equivalent program, type-checked through an overlay): " + strings.Join(notes, "; ")})
					for k, v := range w2.Extra {
						w.Extra[k] = v
					}
					*out = append(*out, second...)
					return
				}
			}
		}
	}
	*out = append(*out, first...)
}

func (w *World) rulesV4ScoreOn(out *[]Obligation) {
	p := w.Pkgs["40"]
	ov := vocab["40"]
	setm := p.SetModel()
	add := func(ok bool, rule, inst string, n ast.Node, detail string) {
		pos := "40"
		if n != nil {
			pos = p.pos(n)
		}
		*out = append(*out, Obligation{Rule: rule, Instance: "40." + inst, Pos: pos, OK: ok, Detail: detail, NonTrivial: true})
	}
	m := w.buildScoreModel(add)
	if m == nil {
		return
	}
	fd := m.fd
	// R14.recv-ish / R10.only handled elsewhere. Here: mod identification.
	modFn, why := p.findMod()
	if modFn == nil {
		add(false, "R10.modbody", "mod", fd, why)
	} else {
		add(true, "R10.modbody", "mod["+modFn.Name()+"]", p.FuncObj[modFn], "for all base, modified in 0..7: modified != 0 ? modified-1 : base (64-row truth table)")
	}
	// ---- B: classify uint8 locals of the prefix
	var u8 []types.Object
	seenObj := map[types.Object]bool{}
	for _, s := range m.prefix {
		if as, ok := s.(*ast.AssignStmt); ok && isU8Assign(p, s) && as.Tok == token.DEFINE {
			for _, l := range as.Lhs {
				o := identObj(p.Info, l)
				if !seenObj[o] {
					seenObj[o] = true
					u8 = append(u8, o)
				}
			}
		}
	}
	m.u8locals = u8
	for _, o := range u8 {
		var ds []string
		for d := range m.deps[o] {
			ds = append(ds, d)
		}
		sort.Strings(ds)
		inst := "Score.local[" + o.Name() + "]"
		at := p.FuncObj[nil]
		_ = at
		if len(ds) == 0 || len(ds) > 2 {
			add(false, "R10.mod", inst, fd, fmt.Sprintf("local %s depends on metrics %v: not a metric code or an effective value (undecided)", o.Name(), ds))
			continue
		}
		// enumerate
		type row struct {
			codes map[string]int
			v     int64
		}
		var rows []row
		codes := map[string]int{}
		var rec func(i int) error
		rec = func(i int) error {
			if i == len(ds) {
				vars, err := m.runU8(codes)
				if err != nil {
					return err
				}
				v := vars[o]
				if v.K != VInt {
					return fmt.Errorf("%s is not an integer", o.Name())
				}
				c := map[string]int{}
				for k, x := range codes {
					c[k] = x
				}
				rows = append(rows, row{c, v.I})
				return nil
			}
			for c := range setm.ByLabel[ds[i]].List {
				codes[ds[i]] = c
				if err := rec(i + 1); err != nil {
					return err
				}
			}
			return nil
		}
		if err := rec(0); err != nil {
			add(false, "R10.mod", inst, fd, "cannot tabulate local "+o.Name()+": "+err.Error())
			continue
		}
		match := func(f func(c map[string]int) int64) bool {
			for _, r := range rows {
				if f(r.codes) != r.v {
					return false
				}
			}
			return true
		}
		classified := false
		if len(ds) == 2 {
			for _, pair := range [][2]string{{ds[0], ds[1]}, {ds[1], ds[0]}} {
				b, mm := pair[0], pair[1]
				if om := ov.byAbv[mm]; om != nil && om.ModifiedOf == b {
					if match(func(c map[string]int) int64 {
						if c[mm] != 0 {
							return int64(c[mm] - 1)
						}
						return int64(c[b])
					}) {
						m.sem[o] = locSem{b, "eff"}
						classified = true
						add(true, "R10.mod", inst, fd, fmt.Sprintf("%s = effective value of (%s, %s): %d-row table equals `%s != X ? %s : %s`", o.Name(), b, mm, len(rows), mm, mm, b))
					}
				}
			}
		} else {
			om := ov.byAbv[ds[0]]
			if match(func(c map[string]int) int64 { return int64(c[ds[0]]) }) {
				m.sem[o] = locSem{ds[0], "code"}
				classified = true
				// a plain code of an overridable base metric or of a Modified metric inside Score is a direct read
				if om != nil && (om.ModifiedOf != "" || ov.byAbv["M"+om.Abv] != nil) {
					add(false, "R10.mod", inst, fd, fmt.Sprintf("Score holds the raw value of %s in %s: an overridable metric must only be used through its effective value", ds[0], o.Name()))
				} else if om != nil && om.Default != "" {
					// a raw copy that only feeds the definition of other 8-bit locals
					// (the default-substituted one among them) is an intermediate
					feedsOnly, nUses := true, 0
					var stk []ast.Node
					ast.Inspect(fd.Body, func(x ast.Node) bool {
						if x == nil {
							stk = stk[:len(stk)-1]
							return false
						}
						stk = append(stk, x)
						id, ok := x.(*ast.Ident)
						if !ok || p.Info.Uses[id] != o {
							return true
						}
						nUses++
						okUse := false
						for i := len(stk) - 2; i >= 0; i-- {
							if as, ok := stk[i].(*ast.AssignStmt); ok {
								inPrefix := false
								for _, ps := range m.prefix {
									if ps == ast.Stmt(as) {
										inPrefix = true
									}
								}
								okUse = inPrefix && isU8Assign(p, as)
								for _, l := range as.Lhs {
									if identObj(p.Info, l) == o {
										okUse = false
									}
								}
								break
							}
							if _, isStmt := stk[i].(ast.Stmt); isStmt {
								break
							}
						}
						if !okUse {
							feedsOnly = false
						}
						return true
					})
					if feedsOnly && nUses > 0 {
						add(true, "R10.v4default", inst, fd, fmt.Sprintf("%s holds the raw code of %s and only feeds the definition of other locals (classified on their own)", o.Name(), ds[0]))
					} else {
						add(false, "R10.v4default", inst, fd, fmt.Sprintf("%s holds %s without replacing X by the specification default %s", o.Name(), ds[0], om.Default))
					}
				} else {
					add(true, "R10.mod", inst, fd, fmt.Sprintf("%s = code(%s)", o.Name(), ds[0]))
				}
			} else if om != nil && om.Default != "" {
				defIdx := -1
				for i, v := range setm.ByLabel[ds[0]].List {
					if v == om.Default {
						defIdx = i
					}
				}
				if match(func(c map[string]int) int64 {
					if c[ds[0]] == 0 {
						return int64(defIdx)
					}
					return int64(c[ds[0]])
				}) {
					m.sem[o] = locSem{ds[0], "def"}
					classified = true
					add(true, "R10.v4default", inst, fd, fmt.Sprintf("%s = %s with X replaced by %s (the specification's default)", o.Name(), ds[0], om.Default))
				}
			}
		}
		if !classified {
			add(false, "R10.mod", inst, fd, fmt.Sprintf("local %s (a function of %v) is neither a metric code, an effective value, nor a default-substituted value", o.Name(), ds))
		}
	}
	// every overridable pair must be represented
	// (the severity distances need all eleven)
	// R10.supp: read-set of Score excludes supplemental metrics
	readSet := map[string]bool{}
	for _, r := range p.readersIn(fd.Body) {
		for _, mm := range r.Metrics {
			readSet[mm] = true
		}
	}
	if mv := p.method("macroVector"); mv != nil {
		for _, r := range p.readersIn(mv.Body) {
			for _, mm := range r.Metrics {
				readSet[mm] = true
			}
		}
	}
	var supp []string
	for mm := range readSet {
		if om := ov.byAbv[mm]; om != nil && om.Group == "supplemental" {
			supp = append(supp, mm)
		}
	}
	sort.Strings(supp)
	add(len(supp) == 0, "R10.supp", "Score.readset", fd, map[bool]string{true: fmt.Sprintf("Score and macroVector read %d metrics, none supplemental", len(readSet)), false: "Score/macroVector read supplemental metric(s) " + strings.Join(supp, ",")}[len(supp) == 0])

	// ---- C: the no-impact shortcut
	for _, s := range m.prefix {
		ifs, ok := s.(*ast.IfStmt)
		if !ok || len(ifs.Body.List) != 1 {
			continue
		}
		rs, ok := ifs.Body.List[0].(*ast.ReturnStmt)
		if !ok || len(rs.Results) != 1 {
			continue
		}
		m.zeroIfs = append(m.zeroIfs, ifs)
		if r, okc := exactConst(p.Info, rs.Results[0]); !okc || r.Sign() != 0 {
			add(false, "R04.zero", "Score.shortcut", ifs, "early return of a value other than the constant 0")
		}
	}
	if len(m.zeroIfs) != 1 {
		add(false, "R04.zero", "Score.shortcut", fd, fmt.Sprintf("%d early returns before the MacroVector computation, expected exactly one (the no-impact shortcut)", len(m.zeroIfs)))
	} else {
		ifs := m.zeroIfs[0]
		raw := p.readersIn(ifs.Cond)
		if len(raw) > 0 {
			var ms []string
			for _, r := range raw {
				ms = append(ms, r.Metrics...)
			}
			sort.Strings(ms)
			add(false, "R10.mod", "Score.shortcut", ifs, "the no-impact shortcut reads the raw fields of "+strings.Join(ms, ",")+" outside mod(): Modified impact metrics are ignored")
			add(false, "R04.zero", "Score.shortcut", ifs, "the 0.0 shortcut is a predicate of base values, not of the six effective impact values")
		} else {
			var ins []types.Object
			ast.Inspect(ifs.Cond, func(n ast.Node) bool {
				if id, ok := n.(*ast.Ident); ok {
					if o := identObj(p.Info, id); o != nil {
						if _, has := m.sem[o]; has {
							dup := false
							for _, x := range ins {
								if x == o {
									dup = true
								}
							}
							if !dup {
								ins = append(ins, o)
							}
						}
					}
				}
				return true
			})
			effSeen := map[string]bool{}
			size := 1
			for _, o := range ins {
				if m.sem[o].Kind == "eff" {
					effSeen[m.sem[o].Metric] = true
				}
				size *= len(p.locDomain(m.sem[o]))
			}
			impact := []string{"VC", "VI", "VA", "SC", "SI", "SA"}
			missing := []string{}
			for _, x := range impact {
				if !effSeen[x] {
					missing = append(missing, x)
				}
			}
			if len(missing) > 0 || size > 2_000_000 {
				add(false, "R04.zero", "Score.shortcut", ifs, fmt.Sprintf("the shortcut does not test the effective values of %v", missing))
			} else {
				bad := 0
				rows := 0
				var first string
				cur := make([]int, len(ins))
				var rec func(i int)
				rec = func(i int) {
					if i == len(ins) {
						ce := newCEnv(p, make([]uint8, len(p.Fields)))
						allN := true
						var desc []string
						for k, o := range ins {
							ce.vars[o] = vInt(int64(cur[k]))
							val := p.locDomain(m.sem[o])[cur[k]]
							desc = append(desc, m.sem[o].String()+"="+val)
							if m.sem[o].Kind == "eff" {
								for _, x := range impact {
									if x == m.sem[o].Metric && val != "N" {
										allN = false
									}
								}
							}
						}
						v, err := ce.eval(ifs.Cond)
						rows++
						if err != nil || v.K != VBool || (v.I != 0) != allN {
							bad++
							if first == "" {
								first = strings.Join(desc, " ")
							}
						}
						return
					}
					for c := range p.locDomain(m.sem[ins[i]]) {
						cur[i] = c
						rec(i + 1)
					}
				}
				rec(0)
				add(bad == 0, "R04.zero", "Score.shortcut", ifs, map[bool]string{true: fmt.Sprintf("%d-row truth table: returns 0.0 iff the six effective impact values are all N", rows), false: fmt.Sprintf("%d of %d rows wrong, e.g. %s", bad, rows, first)}[bad == 0])
			}
		}
	}
	w.rulesV4ScoreRest(m, modFn, add)
	// when Score's structure was not recognised the rules other properties borrow
	// (C09, C11) are recorded as not decided here; C04 reports the cause
	for _, rule := range []string{"R04.round", "R04.dom"} {
		have := false
		for _, o := range *out {
			if o.Rule == rule {
				have = true
			}
		}
		if !have {
			*out = append(*out, Obligation{Rule: rule, Instance: "40.Score", Pos: p.pos(fd), OK: true, NonTrivial: false,
				Detail: "not decided in this run: the structure of Score was not recognised (reported by the R04 rules of C04)"})
		}
	}
}

func init() {
	registerGroup("v4score", func(w *World, out *[]Obligation) { w.rulesV4Score(out) })
}
