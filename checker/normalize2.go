package main

// Source normalisation, part 2: "extract function" undone.
//
// The rules that are stated over the locals of one function (the v4 score
// decomposition prefix / loop nest / suffix) cannot see through a function
// that was split into phases:
//
//	m := c.scoringMetrics(); msd, lower := maxScoringDiffs(…); d := m.severityDistances(…)
//
// This file undoes that at the source level, in passes, each loaded through a
// go/packages overlay and type-checked like the original (nothing is written
// to /repo; a pass that does not type-check makes the normalisation "not
// applicable" and the direct verdict stands):
//
//	I  inlining of calls at statement level `lhs := f(args)` / `f(args)` whose
//	   callee returns only at its end (no early return, defer, go, closure,
//	   label), and of single-expression methods of local records used inside
//	   expressions. Parameters bound to identifiers (and never assigned in the
//	   callee) are substituted, the others become fresh locals evaluated in
//	   argument order; every local of the callee gets a fresh name.
//	S  scalar replacement of local records: a local of a package struct type
//	   that is only read and written field by field, assigned from composite
//	   literals or copied as a whole from another such local, becomes one local
//	   per field.
//
// Both are semantics-preserving by construction (Go has no aliasing of locals
// whose address is never taken; argument evaluation order is kept). The passes
// of normalize.go (T1, T3, T4) run afterwards.

import (
	"fmt"
	"go/ast"
	"go/scanner"
	"go/token"
	"go/types"
	"os"
	"sort"
	"strings"
)

// flatText renders the source of node n on one line, without comments, with
// the identifiers of the given objects replaced.
func (n *normalizer) flatText(from, to token.Pos, nodes []ast.Node, subst map[types.Object]string) (string, error) {
	fn, o1 := n.file(from)
	fn2, o2 := n.file(to)
	src, err := n.source(fn)
	if err != nil {
		return "", err
	}
	if fn != fn2 || o1 > o2 || o2 > len(src) {
		return "", fmt.Errorf("text range spans files")
	}
	type rep struct {
		a, b int
		t    string
	}
	var reps []rep
	for _, nd := range nodes {
		ast.Inspect(nd, func(x ast.Node) bool {
			switch y := x.(type) {
			case *ast.SelectorExpr:
				// x.f: only x can be a substituted object (f is a field or method name)
				ast.Inspect(y.X, func(z ast.Node) bool {
					if id, ok := z.(*ast.Ident); ok {
						obj := n.p.Info.Uses[id]
						if obj == nil {
							obj = n.p.Info.Defs[id]
						}
						if t, ok := subst[obj]; ok && obj != nil {
							_, a := n.file(id.Pos())
							reps = append(reps, rep{a, a + len(id.Name), t})
						}
					}
					return true
				})
				return false
			case *ast.Ident:
				obj := n.p.Info.Uses[y]
				if obj == nil {
					obj = n.p.Info.Defs[y]
				}
				if t, ok := subst[obj]; ok && obj != nil {
					_, a := n.file(y.Pos())
					if n.addrBound[obj] {
						t = "(&" + t + ")"
					}
					reps = append(reps, rep{a, a + len(y.Name), t})
				}
			}
			return true
		})
	}
	// nested selector handling above may add the same identifier twice
	sort.Slice(reps, func(i, j int) bool { return reps[i].a > reps[j].a })
	text := string(src[o1:o2])
	lastA := -1
	for _, r := range reps {
		if r.a == lastA {
			continue
		}
		lastA = r.a
		if r.a < o1 || r.b > o2 {
			continue
		}
		text = text[:r.a-o1] + r.t + text[r.b-o1:]
	}
	// strip comments, join lines: re-tokenise
	var sc scanner.Scanner
	fs := token.NewFileSet()
	f := fs.AddFile("", fs.Base(), len(text))
	var scanErr error
	sc.Init(f, []byte(text), func(pos token.Position, msg string) { scanErr = fmt.Errorf("%s", msg) }, 0)
	var toks []string
	for {
		_, tok, lit := sc.Scan()
		if tok == token.EOF {
			break
		}
		switch {
		case tok == token.SEMICOLON:
			toks = append(toks, ";")
		case lit != "":
			toks = append(toks, lit)
		default:
			toks = append(toks, tok.String())
		}
	}
	if scanErr != nil {
		return "", scanErr
	}
	// the scanner adds a semicolon at the end of the text: not part of it
	for len(toks) > 0 && toks[len(toks)-1] == ";" {
		toks = toks[:len(toks)-1]
	}
	return strings.Join(toks, " "), nil
}

// inlinable: the callee's body can be spliced at a statement-level call site.
func (n *normalizer) inlinable(h *ast.FuncDecl) bool {
	if h == nil || h.Body == nil || len(h.Body.List) == 0 {
		return false
	}
	ok := true
	last := h.Body.List[len(h.Body.List)-1]
	ast.Inspect(h.Body, func(x ast.Node) bool {
		switch y := x.(type) {
		case *ast.ReturnStmt:
			if ast.Stmt(y) != last {
				ok = false
			}
		case *ast.DeferStmt, *ast.GoStmt, *ast.FuncLit, *ast.LabeledStmt, *ast.SelectStmt:
			ok = false
		case *ast.BranchStmt:
			if y.Tok == token.GOTO || y.Label != nil {
				ok = false
			}
		}
		return ok
	})
	if !ok {
		return false
	}
	if h.Type.Results != nil && len(h.Type.Results.List) > 0 {
		if _, isRet := last.(*ast.ReturnStmt); !isRet {
			return false
		}
	}
	return true
}

// ensureImports: the packages the body of h refers to by name are imported in the
// file of fd as well (a helper spliced into a function of another file).
func (n *normalizer) ensureImports(fd, h *ast.FuncDecl) error {
	info := n.p.Info
	var target, source *ast.File
	for _, f := range n.p.P.Syntax {
		if f.Pos() <= fd.Pos() && fd.End() <= f.End() {
			target = f
		}
		if f.Pos() <= h.Pos() && h.End() <= f.End() {
			source = f
		}
	}
	if target == nil || source == nil || target == source {
		return nil
	}
	have := map[string]bool{}
	for _, im := range target.Imports {
		if im.Name == nil || (im.Name.Name != "_" && im.Name.Name != ".") {
			have[strings.Trim(im.Path.Value, "\"`")] = true
		}
	}
	if n.addedImports == nil {
		n.addedImports = map[string]bool{}
	}
	var bad error
	ast.Inspect(h.Body, func(x ast.Node) bool {
		id, ok := x.(*ast.Ident)
		if !ok {
			return true
		}
		pn, ok := info.Uses[id].(*types.PkgName)
		if !ok {
			return true
		}
		path := pn.Imported().Path()
		key := n.p.Fset.Position(target.Pos()).Filename + "\x00" + path
		if have[path] || n.addedImports[key] {
			return true
		}
		if id.Name != pn.Imported().Name() {
			bad = fmt.Errorf("the helper uses a renamed import")
			return false
		}
		n.addedImports[key] = true
		if err := n.edit(target.Name.End(), target.Name.End(), "; import "+fmt.Sprintf("%q", path)); err != nil {
			bad = err
			return false
		}
		return true
	})
	return bad
}

// onParsePath: ParseVector, or a package function reachable from it that takes a string.
func (n *normalizer) onParsePath(fd *ast.FuncDecl) bool {
	if fd.Name.Name == "ParseVector" && fd.Recv == nil {
		return true
	}
	root := n.p.Funcs["ParseVector"]
	if root == nil {
		return false
	}
	seen := map[*ast.FuncDecl]bool{}
	work := []*ast.FuncDecl{root}
	for len(work) > 0 {
		f := work[len(work)-1]
		work = work[:len(work)-1]
		if seen[f] {
			continue
		}
		seen[f] = true
		work = append(work, n.p.calleesOf(f)...)
	}
	if !seen[fd] {
		return false
	}
	for _, po := range paramObjs(n.p.Info, fd) {
		if po != nil && isStringT(po.Type()) {
			return true
		}
	}
	return false
}

// scannerHelper: an unexported function without receiver that takes a string (the
// input text or a part of it) and returns strings and/or integers, without loops
// of its own that the shape rules know (split, splitCouple keep their own rules:
// the caller only tries this when the direct verdict has failures).
func (n *normalizer) scannerHelper(fn *types.Func, h *ast.FuncDecl) bool {
	if fn == nil || fn.Pkg() != n.p.P.Types || h.Recv != nil || ast.IsExported(h.Name.Name) {
		return false
	}
	sig := fn.Type().(*types.Signature)
	hasStr := false
	for i := 0; i < sig.Params().Len(); i++ {
		t := sig.Params().At(i).Type()
		if isStringT(t) {
			hasStr = true
		} else if !isIntT(t) {
			return false
		}
	}
	if !hasStr || sig.Results().Len() == 0 {
		return false
	}
	for i := 0; i < sig.Results().Len(); i++ {
		t := sig.Results().At(i).Type()
		if bt, ok := t.Underlying().(*types.Basic); !ok || bt.Info()&(types.IsString|types.IsInteger|types.IsBoolean) == 0 {
			return false
		}
	}
	return true
}

// inlineTailReturns renders the body of h at a call `lhs tok h(args)` when the body is
//
//	prefix…; if [init;] cond { …; return A… }; …; return B…
//
// (recursively in the part after the if), without other returns, loops that
// return, defer, go, closures or labels: each return becomes `lhs = results`.
func (n *normalizer) inlineTailReturns(h *ast.FuncDecl, call *ast.CallExpr, lhs []ast.Expr, tok token.Token) (string, bool) {
	if h.Body == nil || len(lhs) == 0 {
		return "", false
	}
	info := n.p.Info
	// shape check
	var okList func(list []ast.Stmt) bool
	noReturnIn := func(s ast.Stmt) bool {
		ok := true
		ast.Inspect(s, func(x ast.Node) bool {
			switch x.(type) {
			case *ast.ReturnStmt, *ast.DeferStmt, *ast.GoStmt, *ast.FuncLit, *ast.LabeledStmt, *ast.SelectStmt:
				ok = false
			}
			return ok
		})
		return ok
	}
	okList = func(list []ast.Stmt) bool {
		if len(list) == 0 {
			return false
		}
		for i, s := range list {
			if i == len(list)-1 {
				_, isRet := s.(*ast.ReturnStmt)
				return isRet
			}
			if ifs, ok := s.(*ast.IfStmt); ok && ifs.Else == nil && len(ifs.Body.List) > 0 {
				if _, endsRet := ifs.Body.List[len(ifs.Body.List)-1].(*ast.ReturnStmt); endsRet {
					if ifs.Init != nil && !noReturnIn(ifs.Init) {
						return false
					}
					return okList(ifs.Body.List) && okList(list[i+1:])
				}
			}
			if !noReturnIn(s) {
				return false
			}
		}
		return false
	}
	if !okList(h.Body.List) {
		return "", false
	}
	for _, ro := range resultObjs(info, h) {
		// named results are fine as documentation: never assigned or read, every return explicit
		if ro != nil && (assignedIn(info, h.Body, ro) || nodeMentions(info, h.Body, ro)) {
			return "", false
		}
	}
	subst, pre, okBind := n.bindCall(h, call)
	if !okBind {
		return "", false
	}
	var ls []string
	for _, l := range lhs {
		t, err := n.flatText(l.Pos(), l.End(), []ast.Node{l}, nil)
		if err != nil {
			return "", false
		}
		ls = append(ls, t)
	}
	var decl []string
	if tok == token.DEFINE {
		sig := info.Defs[h.Name].Type().(*types.Signature)
		if sig.Results().Len() != len(lhs) {
			return "", false
		}
		for i, l := range ls {
			if l == "_" {
				continue
			}
			ts := types.TypeString(sig.Results().At(i).Type(), func(pk *types.Package) string {
				if pk == n.p.P.Types {
					return ""
				}
				return pk.Name()
			})
			decl = append(decl, fmt.Sprintf("var %s %s", l, ts))
		}
		// all results of predeclared basic types: `a, b := "", 0` keeps the definition an
		// assignment statement (the shape the split rules read)
		allBasic := true
		var zeros []string
		for i := range ls {
			bt, ok := sig.Results().At(i).Type().(*types.Basic)
			switch {
			case !ok:
				allBasic = false
			case bt.Info()&types.IsString != 0:
				zeros = append(zeros, `""`)
			case bt.Info()&types.IsInteger != 0:
				zeros = append(zeros, "0")
			case bt.Info()&types.IsBoolean != 0:
				zeros = append(zeros, "false")
			default:
				allBasic = false
			}
		}
		if allBasic {
			decl = []string{strings.Join(ls, ", ") + " := " + strings.Join(zeros, ", ")}
		}
	}
	var render func(list []ast.Stmt) (string, bool)
	render = func(list []ast.Stmt) (string, bool) {
		var parts []string
		for i, s := range list {
			if rs, ok := s.(*ast.ReturnStmt); ok {
				if len(rs.Results) != len(ls) {
					return "", false
				}
				var rt []string
				for _, r := range rs.Results {
					t, err := n.flatText(r.Pos(), r.End(), []ast.Node{r}, subst)
					if err != nil {
						return "", false
					}
					rt = append(rt, t)
				}
				parts = append(parts, strings.Join(ls, ", ")+" = "+strings.Join(rt, ", "))
				return strings.Join(parts, "; "), true
			}
			if ifs, ok := s.(*ast.IfStmt); ok && ifs.Else == nil && len(ifs.Body.List) > 0 {
				if _, endsRet := ifs.Body.List[len(ifs.Body.List)-1].(*ast.ReturnStmt); endsRet {
					head := "if "
					if ifs.Init != nil {
						t, err := n.flatText(ifs.Init.Pos(), ifs.Init.End(), []ast.Node{ifs.Init}, subst)
						if err != nil {
							return "", false
						}
						head += t + "; "
					}
					ct, err := n.flatText(ifs.Cond.Pos(), ifs.Cond.End(), []ast.Node{ifs.Cond}, subst)
					if err != nil {
						return "", false
					}
					thenT, ok1 := render(ifs.Body.List)
					elseT, ok2 := render(list[i+1:])
					if !ok1 || !ok2 {
						return "", false
					}
					parts = append(parts, head+ct+" { "+thenT+" } else { "+elseT+" }")
					return strings.Join(parts, "; "), true
				}
			}
			t, err := n.flatText(s.Pos(), s.End(), []ast.Node{s}, subst)
			if err != nil {
				return "", false
			}
			parts = append(parts, t)
		}
		return "", false
	}
	body, ok := render(h.Body.List)
	if !ok {
		return "", false
	}
	all := append(append(append([]string(nil), decl...), pre...), body)
	return strings.Join(all, "; "), true
}

// wantsInlining: the policy — phase helpers, not the leaf helpers the rules know.
func (n *normalizer) wantsInlining(fn *types.Func, h *ast.FuncDecl) bool {
	p := n.p
	if fn == nil || fn.Pkg() != p.P.Types || ast.IsExported(h.Name.Name) {
		return false
	}
	sig := fn.Type().(*types.Signature)
	// the MacroVector signature (six levels) is an anchor of the score model
	if sig.Results().Len() == 6 {
		return false
	}
	isRecord := func(t types.Type) bool {
		if pt, ok := t.(*types.Pointer); ok {
			t = pt.Elem()
		}
		named, ok := t.(*types.Named)
		if !ok || named.Obj().Pkg() != p.P.Types || types.Identical(named, p.T) {
			return false
		}
		_, isStruct := named.Underlying().(*types.Struct)
		return isStruct
	}
	// `x := recv.h()` with h a method of the vector type returning one record:
	// left to pass T1, which also maps x.meth() to its wrapper on the vector type
	if sig.Recv() != nil && p.isTPtrOrVal(sig.Recv().Type()) && sig.Params().Len() == 0 && sig.Results().Len() == 1 && isRecord(sig.Results().At(0).Type()) {
		return false
	}
	for i := 0; i < sig.Results().Len(); i++ {
		if isRecord(sig.Results().At(i).Type()) {
			return true
		}
	}
	if sig.Recv() != nil && isRecord(sig.Recv().Type()) {
		return true
	}
	hasLoop := false
	ast.Inspect(h.Body, func(x ast.Node) bool {
		switch y := x.(type) {
		case *ast.ForStmt, *ast.RangeStmt:
			// (in the parser a helper with a loop of its own — the part splitter — keeps
			// its own rules and stays a call)
			if !n.parserMode {
				hasLoop = true
			}
		case *ast.CallExpr:
			// a wrapper around the pool (getParts / putParts): the typestate of the
			// pooled value is followed within one function
			if isPoolFn(calleeOf(p.Info, y)) {
				hasLoop = true
			}
		}
		return !hasLoop
	})
	return hasLoop
}

// onlyParamsAndGlobals: every identifier the call reads is a parameter of h, a
// package-level object, a constant or a field/method name.
func (n *normalizer) onlyParamsAndGlobals(h *ast.FuncDecl, call *ast.CallExpr) bool {
	info := n.p.Info
	params := map[types.Object]bool{}
	for _, po := range paramObjs(info, h) {
		params[po] = true
	}
	if ro := n.p.recvObj(h); ro != nil {
		params[ro] = true
	}
	ok := true
	ast.Inspect(call, func(x ast.Node) bool {
		if id, isId := x.(*ast.Ident); isId {
			o := info.Uses[id]
			if v, isVar := o.(*types.Var); isVar && !v.IsField() && !params[o] && v.Parent() != n.p.P.Types.Scope() {
				ok = false
			}
		}
		if _, isLit := x.(*ast.FuncLit); isLit {
			ok = false
		}
		return ok
	})
	return ok
}

var inlineCounter int

// bindCall prepares the inlining of one call of h: fresh names for everything
// the callee defines, parameters (and the receiver) either substituted by the
// argument (an identifier, constant or &local, for a parameter the callee never
// assigns) or bound to a fresh local in argument order.
func (n *normalizer) bindCall(h *ast.FuncDecl, call *ast.CallExpr) (map[types.Object]string, []string, bool) {
	p := n.p
	info := p.Info
	inlineCounter++
	sfx := fmt.Sprintf("_i%d", inlineCounter)
	n.lastSfx = sfx
	subst := map[types.Object]string{}
	var pre []string
	type binding struct {
		obj types.Object
		arg ast.Expr
	}
	var binds []binding
	if ro := p.recvObj(h); ro != nil {
		se, ok := call.Fun.(*ast.SelectorExpr)
		if !ok {
			return nil, nil, false
		}
		binds = append(binds, binding{ro, se.X})
	} else if h.Recv != nil {
		return nil, nil, false
	}
	params := paramObjs(info, h)
	if len(params) != len(call.Args) {
		return nil, nil, false
	}
	for i, po := range params {
		if po == nil {
			return nil, nil, false
		}
		binds = append(binds, binding{po, call.Args[i]})
	}
	ast.Inspect(h, func(x ast.Node) bool {
		if id, ok := x.(*ast.Ident); ok {
			if o := info.Defs[id]; o != nil {
				if v, isVar := o.(*types.Var); isVar && !v.IsField() && id.Name != "_" {
					subst[o] = id.Name + sfx
				}
			}
		}
		return true
	})
	for _, b := range binds {
		arg := b.arg
		for {
			if pe, ok := arg.(*ast.ParenExpr); ok {
				arg = pe.X
				continue
			}
			break
		}
		simple := false
		switch a := arg.(type) {
		case *ast.Ident:
			if v, ok := info.Uses[a].(*types.Var); ok && !v.IsField() {
				simple = true
			}
			if _, isConst := info.Uses[a].(*types.Const); isConst {
				simple = true
			}
		case *ast.BasicLit:
			simple = true
		case *ast.UnaryExpr:
			// &x of a local record for a pointer parameter: the record itself
			// (selectors auto-dereference; any other use fails to type-check)
			if a.Op == token.AND {
				if id, ok := a.X.(*ast.Ident); ok {
					if v, ok := info.Uses[id].(*types.Var); ok && !v.IsField() && v.Parent() != p.P.Types.Scope() {
						arg = id
						simple = true
						// outside a selector the parameter stands for the pointer: (&x)
						if n.addrBound == nil {
							n.addrBound = map[types.Object]bool{}
						}
						n.addrBound[b.obj] = true
					}
				}
			}
		}
		if tv, ok := info.Types[arg]; ok && tv.Value != nil {
			simple = true
		}
		if simple && !assignedIn(info, h.Body, b.obj) {
			t, err := n.flatText(arg.Pos(), arg.End(), []ast.Node{arg}, nil)
			if err != nil {
				return nil, nil, false
			}
			if _, isId := arg.(*ast.Ident); !isId {
				t = "(" + t + ")"
			}
			subst[b.obj] = t
			continue
		}
		t, err := n.flatText(arg.Pos(), arg.End(), []ast.Node{arg}, nil)
		if err != nil {
			return nil, nil, false
		}
		ts := types.TypeString(b.obj.Type(), func(pk *types.Package) string {
			if pk == p.P.Types {
				return ""
			}
			return pk.Name()
		})
		pre = append(pre, fmt.Sprintf("var %s %s = %s", subst[b.obj], ts, t))
	}
	return subst, pre, true
}

// inlinePass inlines, in fd, the statement-level calls the policy selects. One
// level per pass (the caller reloads and repeats).
func (n *normalizer) inlinePass(fd *ast.FuncDecl) (bool, error) {
	p := n.p
	info := p.Info
	changed := false
	var lists [][]ast.Stmt
	ast.Inspect(fd.Body, func(x ast.Node) bool {
		switch b := x.(type) {
		case *ast.BlockStmt:
			lists = append(lists, b.List)
		case *ast.CaseClause:
			lists = append(lists, b.Body)
		}
		return true
	})
	done := map[ast.Stmt]bool{}
	for _, list := range lists {
		for _, st := range list {
			if done[st] {
				continue
			}
			var call *ast.CallExpr
			var lhs []ast.Expr
			var tok token.Token
			switch s := st.(type) {
			case *ast.AssignStmt:
				if len(s.Rhs) == 1 && (s.Tok == token.DEFINE || s.Tok == token.ASSIGN) {
					if c, ok := s.Rhs[0].(*ast.CallExpr); ok {
						call, lhs, tok = c, s.Lhs, s.Tok
					}
				}
			case *ast.ExprStmt:
				if c, ok := s.X.(*ast.CallExpr); ok {
					call = c
				}
			case *ast.DeferStmt:
				// defer h(x) with h's body one call statement over its parameters and
				// package-level variables: that call, deferred (the arguments are
				// evaluated at the defer statement in both forms)
				if fn := calleeOf(info, s.Call); fn != nil {
					h := p.FuncObj[fn]
					if h != nil && h != fd && h.Body != nil && len(h.Body.List) == 1 && n.wantsInlining(fn, h) && (h.Type.Results == nil || len(h.Type.Results.List) == 0) {
						if es, ok := h.Body.List[0].(*ast.ExprStmt); ok {
							if inner, ok := es.X.(*ast.CallExpr); ok && n.onlyParamsAndGlobals(h, inner) {
								if subst, pre, okBind := n.bindCall(h, s.Call); okBind {
									if t, err := n.flatText(inner.Pos(), inner.End(), []ast.Node{inner}, subst); err == nil {
										text := strings.Join(append(append([]string(nil), pre...), "defer "+t), "; ")
										if err := n.edit(st.Pos(), st.End(), text); err != nil {
											return false, err
										}
										done[st] = true
										changed = true
										n.notes = append(n.notes, fmt.Sprintf("%s: the deferred call of %s is replaced by the call it makes", fd.Name.Name, h.Name.Name))
									}
								}
							}
						}
					}
				}
				continue
			}
			if call == nil {
				continue
			}
			fn := calleeOf(info, call)
			if fn == nil {
				continue
			}
			h := p.FuncObj[fn]
			if h != nil && h != fd && !n.inlinable(h) && n.onParsePath(fd) && n.scannerHelper(fn, h) {
				// a scanner helper ending in `if c { return A }; return B`: spliced with the
				// results assigned on each path
				text, ok := n.inlineTailReturns(h, call, lhs, tok)
				if ok && n.ensureImports(fd, h) != nil {
					ok = false
				}
				if ok {
					if err := n.edit(st.Pos(), st.End(), text); err != nil {
						return false, err
					}
					done[st] = true
					changed = true
					n.notes = append(n.notes, fmt.Sprintf("%s: the call of %s is replaced by its body (results assigned on each return path)", fd.Name.Name, h.Name.Name))
				}
				continue
			}
			if h == nil || h == fd || !n.inlinable(h) || !n.wantsInlining(fn, h) {
				continue
			}
			// no recursion
			rec := false
			ast.Inspect(h.Body, func(x ast.Node) bool {
				if c, ok := x.(*ast.CallExpr); ok {
					if f2 := calleeOf(info, c); f2 == fn {
						rec = true
					}
				}
				return !rec
			})
			if rec {
				continue
			}
			subst, pre, okBind := n.bindCall(h, call)
			if !okBind {
				continue
			}
			sfx := n.lastSfx
			bad := false
			// named results
			ros := resultObjs(info, h)
			for _, ro := range ros {
				if ro == nil || ro.Name() == "_" {
					bad = true
					break
				}
				ts := types.TypeString(ro.Type(), func(pk *types.Package) string {
					if pk == p.P.Types {
						return ""
					}
					return pk.Name()
				})
				pre = append(pre, fmt.Sprintf("var %s %s", subst[ro], ts))
			}
			if bad {
				continue
			}
			body := h.Body.List
			var ret *ast.ReturnStmt
			if r, ok := body[len(body)-1].(*ast.ReturnStmt); ok {
				ret = r
				body = body[:len(body)-1]
			}
			var parts []string
			parts = append(parts, pre...)
			if len(body) > 0 {
				var nodes []ast.Node
				for _, b := range body {
					nodes = append(nodes, b)
				}
				t, err := n.flatText(body[0].Pos(), body[len(body)-1].End(), nodes, subst)
				if err != nil {
					continue
				}
				parts = append(parts, t)
			}
			// results
			var results []string
			if ret != nil {
				if len(ret.Results) == 0 {
					for _, ro := range ros {
						results = append(results, subst[ro])
					}
				} else {
					for _, r := range ret.Results {
						t, err := n.flatText(r.Pos(), r.End(), []ast.Node{r}, subst)
						if err != nil {
							bad = true
							break
						}
						results = append(results, t)
					}
				}
			}
			if bad {
				continue
			}
			if len(lhs) > 0 {
				if len(results) != len(lhs) {
					continue
				}
				var ls []string
				for _, l := range lhs {
					t, err := n.flatText(l.Pos(), l.End(), []ast.Node{l}, nil)
					if err != nil {
						bad = true
						break
					}
					ls = append(ls, t)
				}
				if bad {
					continue
				}
				parts = append(parts, strings.Join(ls, ", ")+" "+tok.String()+" "+strings.Join(results, ", "))
			}
			// the callee's locals that end up unused would not compile: mention them
			var keep []string
			for o, nm := range subst {
				if v, ok := o.(*types.Var); ok && strings.HasSuffix(nm, sfx) {
					_ = v
					keep = append(keep, nm)
				}
			}
			sort.Strings(keep)
			// only the declared ones (bindings and named results) exist for sure
			var declared []string
			for _, pr := range pre {
				f := strings.Fields(pr)
				if len(f) >= 2 {
					declared = append(declared, f[1])
				}
			}
			for _, d := range declared {
				parts = append(parts, "_ = "+d)
			}
			text := strings.Join(parts, "; ")
			if err := n.ensureImports(fd, h); err != nil {
				continue
			}
			if err := n.edit(st.Pos(), st.End(), text); err != nil {
				return false, err
			}
			done[st] = true
			changed = true
			n.notes = append(n.notes, fmt.Sprintf("%s: the call of %s is replaced by its body", fd.Name.Name, h.Name.Name))
		}
	}
	// expression level: single-expression methods of local records
	ast.Inspect(fd.Body, func(x ast.Node) bool {
		call, ok := x.(*ast.CallExpr)
		if !ok || len(call.Args) != 0 {
			return true
		}
		se, ok := call.Fun.(*ast.SelectorExpr)
		if !ok {
			return true
		}
		fn := calleeOf(info, call)
		if fn == nil || fn.Pkg() != p.P.Types {
			return true
		}
		h := p.FuncObj[fn]
		if h == nil || h.Body == nil || len(h.Body.List) != 1 || h == fd {
			return true
		}
		rs, ok := h.Body.List[0].(*ast.ReturnStmt)
		if !ok || len(rs.Results) != 1 {
			return true
		}
		ro := p.recvObj(h)
		rid, isId := se.X.(*ast.Ident)
		if ro == nil || !isId {
			return true
		}
		rv, _ := info.Uses[rid].(*types.Var)
		if rv == nil || rv.IsField() || rv.Parent() == p.P.Types.Scope() {
			return true
		}
		t := rv.Type()
		if pt, ok := t.(*types.Pointer); ok {
			t = pt.Elem()
		}
		named, ok := t.(*types.Named)
		if !ok || named.Obj().Pkg() != p.P.Types || types.Identical(named, p.T) {
			return true
		}
		if _, isStruct := named.Underlying().(*types.Struct); !isStruct {
			return true
		}
		// inside a statement that is itself being replaced: next pass
		for st := range done {
			if st.Pos() <= call.Pos() && call.End() <= st.End() {
				return true
			}
		}
		txt, err := n.flatText(rs.Results[0].Pos(), rs.Results[0].End(), []ast.Node{rs.Results[0]}, map[types.Object]string{ro: rid.Name})
		if err != nil {
			return true
		}
		if err := n.edit(call.Pos(), call.End(), "("+txt+")"); err == nil {
			changed = true
			n.notes = append(n.notes, fmt.Sprintf("%s: %s.%s() is replaced by its expression", fd.Name.Name, rid.Name, h.Name.Name))
		}
		return false
	})
	return changed, nil
}

// sroaPass replaces local records of fd by one local per field.
func (n *normalizer) sroaPass(fd *ast.FuncDecl) (bool, error) {
	p := n.p
	info := p.Info
	changed := false
	// candidates: locals of a package struct type (not T, not pointers)
	type cand struct {
		obj types.Object
		st  *types.Struct
		ok  bool
	}
	cands := map[types.Object]*cand{}
	ast.Inspect(fd.Body, func(x ast.Node) bool {
		id, ok := x.(*ast.Ident)
		if !ok {
			return true
		}
		v, ok := info.Defs[id].(*types.Var)
		if !ok || v == nil || v.IsField() {
			return true
		}
		named, ok := v.Type().(*types.Named)
		if !ok || named.Obj().Pkg() != p.P.Types || types.Identical(named, p.T) {
			return true
		}
		st, ok := named.Underlying().(*types.Struct)
		if !ok {
			return true
		}
		cands[v] = &cand{obj: v, st: st, ok: true}
		return true
	})
	if len(cands) == 0 {
		return false, nil
	}
	// every use must be x.f, the whole of an assignment/definition/declaration
	var stack []ast.Node
	ast.Inspect(fd.Body, func(x ast.Node) bool {
		if x == nil {
			stack = stack[:len(stack)-1]
			return false
		}
		stack = append(stack, x)
		id, ok := x.(*ast.Ident)
		if !ok {
			return true
		}
		o := info.Uses[id]
		if o == nil {
			o = info.Defs[id]
		}
		c := cands[o]
		if c == nil {
			return true
		}
		par := stack[len(stack)-2]
		switch pn := par.(type) {
		case *ast.SelectorExpr:
			if pn.X == ast.Expr(id) {
				if sel := info.Selections[pn]; sel != nil && sel.Kind() == types.FieldVal {
					// &x.f is not allowed
					if len(stack) >= 3 {
						if u, ok := stack[len(stack)-3].(*ast.UnaryExpr); ok && u.Op == token.AND {
							c.ok = false
						}
					}
					return true
				}
			}
			c.ok = false
		case *ast.AssignStmt:
			// x := <lit|y>, x = <lit|y>, y := x; also as one pair of `a, b := x, y`
			if len(pn.Lhs) != len(pn.Rhs) || (pn.Tok != token.DEFINE && pn.Tok != token.ASSIGN) || (len(pn.Lhs) > 1 && pn.Tok != token.DEFINE) {
				c.ok = false
				return true
			}
			var other ast.Expr
			for i := range pn.Lhs {
				if pn.Lhs[i] == ast.Expr(id) {
					other = pn.Rhs[i]
				}
				if pn.Rhs[i] == ast.Expr(id) {
					other = pn.Lhs[i]
				}
			}
			if other == nil {
				c.ok = false
				return true
			}
			switch ot := other.(type) {
			case *ast.CompositeLit:
				// must not read x itself
				ast.Inspect(ot, func(z ast.Node) bool {
					if zi, ok := z.(*ast.Ident); ok && info.Uses[zi] == o {
						c.ok = false
					}
					return true
				})
			case *ast.Ident:
				if ot.Name == "_" {
					break // `_ = x`
				}
				oo := info.Uses[ot]
				if oo == nil {
					oo = info.Defs[ot]
				}
				if cands[oo] == nil {
					c.ok = false
				}
			default:
				c.ok = false
			}
		case *ast.ValueSpec:
			if len(pn.Values) != 0 || len(pn.Names) != 1 {
				c.ok = false
			}
		default:
			c.ok = false
		}
		return true
	})
	// a copy from/to a rejected candidate rejects its partner too
	for again := true; again; {
		again = false
		ast.Inspect(fd.Body, func(x ast.Node) bool {
			as, ok := x.(*ast.AssignStmt)
			if !ok || len(as.Lhs) != len(as.Rhs) {
				return true
			}
			for i := range as.Lhs {
				l, r := cands[identObj(info, as.Lhs[i])], cands[identObj(info, as.Rhs[i])]
				if l != nil && r != nil && l.ok != r.ok {
					l.ok, r.ok = false, false
					again = true
				}
			}
			return true
		})
	}
	fname := func(o types.Object, f string) string { return o.Name() + "_" + f }
	// fields that are read somewhere (a field only ever written needs `_ = x_f` to compile)
	read := map[string]bool{}
	{
		var st2 []ast.Node
		ast.Inspect(fd.Body, func(x ast.Node) bool {
			if x == nil {
				st2 = st2[:len(st2)-1]
				return false
			}
			st2 = append(st2, x)
			se, ok := x.(*ast.SelectorExpr)
			if !ok {
				return true
			}
			c := cands[identObj(info, se.X)]
			if c == nil {
				return true
			}
			if len(st2) >= 2 {
				if as, ok := st2[len(st2)-2].(*ast.AssignStmt); ok && as.Tok == token.ASSIGN {
					for _, l := range as.Lhs {
						if l == ast.Expr(se) {
							return true // plain store
						}
					}
				}
			}
			read[fname(c.obj, se.Sel.Name)] = true
			return true
		})
		// a whole-record copy reads every field of its source
		ast.Inspect(fd.Body, func(x ast.Node) bool {
			if as, ok := x.(*ast.AssignStmt); ok && len(as.Lhs) == len(as.Rhs) {
				for k := range as.Rhs {
					if rc := cands[identObj(info, as.Rhs[k])]; rc != nil {
						if _, isId := as.Rhs[k].(*ast.Ident); isId {
							for i := 0; i < rc.st.NumFields(); i++ {
								read[fname(rc.obj, rc.st.Field(i).Name())] = true
							}
						}
					}
				}
			}
			return true
		})
	}
	keepAlive := func(name string) string {
		if read[name] {
			return ""
		}
		return "; _ = " + name
	}
	tstr := func(t types.Type) string {
		return types.TypeString(t, func(pk *types.Package) string {
			if pk == p.P.Types {
				return ""
			}
			return pk.Name()
		})
	}
	zero := func(t types.Type) string {
		switch u := t.Underlying().(type) {
		case *types.Basic:
			switch {
			case u.Info()&types.IsString != 0:
				return `""`
			case u.Info()&types.IsBoolean != 0:
				return "false"
			case u.Info()&types.IsNumeric != 0:
				return tstr(t) + "(0)"
			}
		}
		return ""
	}
	nAny := 0
	for _, c := range cands {
		if c.ok {
			nAny++
		}
	}
	if nAny == 0 {
		return false, nil
	}
	var err error
	ast.Inspect(fd.Body, func(x ast.Node) bool {
		if err != nil {
			return false
		}
		switch s := x.(type) {
		case *ast.DeclStmt:
			gd, ok := s.Decl.(*ast.GenDecl)
			if !ok || gd.Tok != token.VAR || len(gd.Specs) != 1 {
				return true
			}
			vs := gd.Specs[0].(*ast.ValueSpec)
			if len(vs.Names) != 1 {
				return true
			}
			c := cands[info.Defs[vs.Names[0]]]
			if c == nil || !c.ok {
				return true
			}
			var parts []string
			for i := 0; i < c.st.NumFields(); i++ {
				f := c.st.Field(i)
				parts = append(parts, fmt.Sprintf("var %s %s%s", fname(c.obj, f.Name()), tstr(f.Type()), keepAlive(fname(c.obj, f.Name()))))
			}
			err = n.edit(s.Pos(), s.End(), strings.Join(parts, "; "))
			changed = true
			return false
		case *ast.AssignStmt:
			if len(s.Lhs) != len(s.Rhs) {
				return true
			}
			if len(s.Lhs) > 1 {
				// `a, b := x, y` with record pairs among them (a definition: the
				// right-hand sides cannot mention the new names)
				anyRec := false
				for i := range s.Lhs {
					if c := cands[identObj(info, s.Lhs[i])]; c != nil && c.ok {
						if _, isId := s.Lhs[i].(*ast.Ident); isId {
							anyRec = true
						}
					}
				}
				if !anyRec || s.Tok != token.DEFINE {
					return true
				}
				var parts []string
				for i := range s.Lhs {
					c := cands[identObj(info, s.Lhs[i])]
					rc := cands[identObj(info, s.Rhs[i])]
					if c != nil && c.ok && rc != nil && rc.ok {
						for k := 0; k < c.st.NumFields(); k++ {
							f := c.st.Field(k)
							parts = append(parts, fmt.Sprintf("%s := %s%s", fname(c.obj, f.Name()), fname(rc.obj, f.Name()), keepAlive(fname(c.obj, f.Name()))))
						}
						continue
					}
					if c != nil && c.ok {
						err = fmt.Errorf("record defined from a non-record in a multiple definition")
						return false
					}
					lt, e1 := n.flatText(s.Lhs[i].Pos(), s.Lhs[i].End(), nil, nil)
					rt, e2 := n.flatText(s.Rhs[i].Pos(), s.Rhs[i].End(), nil, nil)
					if e1 != nil || e2 != nil {
						err = fmt.Errorf("cannot render a multiple definition")
						return false
					}
					if lt == "_" {
						parts = append(parts, "_ = "+rt)
					} else {
						parts = append(parts, lt+" := "+rt)
					}
				}
				err = n.edit(s.Pos(), s.End(), strings.Join(parts, "; "))
				changed = true
				return false
			}
			if lid, ok := s.Lhs[0].(*ast.Ident); ok && lid.Name == "_" {
				if rc := cands[identObj(info, s.Rhs[0])]; rc != nil && rc.ok {
					if _, isId := s.Rhs[0].(*ast.Ident); isId {
						var parts []string
						for i := 0; i < rc.st.NumFields(); i++ {
							parts = append(parts, "_ = "+fname(rc.obj, rc.st.Field(i).Name()))
						}
						err = n.edit(s.Pos(), s.End(), strings.Join(parts, "; "))
						changed = true
						return false
					}
				}
				return true
			}
			lo := identObj(info, s.Lhs[0])
			c := cands[lo]
			if _, isId := s.Lhs[0].(*ast.Ident); !isId || c == nil || !c.ok {
				return true
			}
			var parts []string
			switch r := s.Rhs[0].(type) {
			case *ast.CompositeLit:
				vals := map[string]string{}
				for i, el := range r.Elts {
					name := ""
					ve := el
					if kv, isKV := el.(*ast.KeyValueExpr); isKV {
						kid, isID := kv.Key.(*ast.Ident)
						if !isID {
							err = fmt.Errorf("composite literal key")
							return false
						}
						name, ve = kid.Name, kv.Value
					} else if i < c.st.NumFields() {
						name = c.st.Field(i).Name()
					}
					t, e2 := n.flatText(ve.Pos(), ve.End(), nil, nil)
					if e2 != nil {
						err = e2
						return false
					}
					vals[name] = t
				}
				for i := 0; i < c.st.NumFields(); i++ {
					f := c.st.Field(i)
					v, has := vals[f.Name()]
					if !has {
						v = zero(f.Type())
						if v == "" {
							err = fmt.Errorf("no zero value text for field %s", f.Name())
							return false
						}
					}
					if s.Tok == token.DEFINE {
						parts = append(parts, fmt.Sprintf("%s := %s(%s)%s", fname(c.obj, f.Name()), tstr(f.Type()), v, keepAlive(fname(c.obj, f.Name()))))
					} else {
						parts = append(parts, fmt.Sprintf("%s = %s", fname(c.obj, f.Name()), v))
					}
				}
			case *ast.Ident:
				rc := cands[identObj(info, r)]
				if rc == nil || !rc.ok {
					return true
				}
				for i := 0; i < c.st.NumFields(); i++ {
					f := c.st.Field(i)
					if s.Tok == token.DEFINE {
						parts = append(parts, fmt.Sprintf("%s := %s%s", fname(c.obj, f.Name()), fname(rc.obj, f.Name()), keepAlive(fname(c.obj, f.Name()))))
					} else {
						parts = append(parts, fmt.Sprintf("%s = %s", fname(c.obj, f.Name()), fname(rc.obj, f.Name())))
					}
				}
			default:
				return true
			}
			err = n.edit(s.Pos(), s.End(), strings.Join(parts, "; "))
			changed = true
			// the literal's values may themselves mention records: handled in the next pass
			return false
		case *ast.SelectorExpr:
			c := cands[identObj(info, s.X)]
			if c == nil || !c.ok {
				return true
			}
			if sel := info.Selections[s]; sel != nil && sel.Kind() == types.FieldVal {
				err = n.edit(s.Pos(), s.End(), fname(c.obj, s.Sel.Name))
				changed = true
				return false
			}
		}
		return true
	})
	if err != nil {
		return false, err
	}
	if changed {
		var names []string
		for _, c := range cands {
			if c.ok {
				names = append(names, c.obj.Name())
			}
		}
		sort.Strings(names)
		n.notes = append(n.notes, fmt.Sprintf("%s: local records %v become one local per field", fd.Name.Name, names))
	}
	return changed, nil
}

// applyEdits builds the overlay of the normaliser's edits on top of the
// world's own overlay and loads it.
func (w *World) applyEdits(n *normalizer) (*World, error) {
	overlay := map[string][]byte{}
	for k, v := range w.Overlay {
		overlay[k] = v
	}
	for name, eds := range n.edits {
		src := n.src[name]
		sort.Slice(eds, func(i, j int) bool {
			if eds[i].start != eds[j].start {
				return eds[i].start > eds[j].start
			}
			return eds[i].end > eds[j].end
		})
		out := string(src)
		last := len(out) + 1
		for _, e := range eds {
			if e.end > last {
				return nil, fmt.Errorf("overlapping edits")
			}
			out = out[:e.start] + e.text + out[e.end:]
			last = e.start
		}
		overlay[name] = []byte(out)
	}
	w2, err := loadOverlay(w.Repo, "", overlay)
	if err != nil {
		if dir := os.Getenv("CVSSCHECK_DUMPFAIL"); dir != "" {
			for name, src := range overlay {
				_ = os.MkdirAll(dir, 0o755)
				_ = os.WriteFile(dir+"/"+strings.ReplaceAll(strings.TrimPrefix(name, "/"), "/", "__"), src, 0o644)
			}
		}
		if os.Getenv("CVSSCHECK_DEBUG") != "" {
			for name, src := range overlay {
				for i, l := range strings.Split(string(src), "\n") {
					if len(l) > 200 {
						fmt.Printf("DBG %s:%d: %s\n", name, i+1, l)
					}
				}
			}
		}
		return nil, fmt.Errorf("the normalised source does not load: %v", err)
	}
	w2.Overlay = overlay
	w2.Tier, w2.Seed, w2.Verif, w2.Wants = w.Tier, w.Seed, w.Verif, w.Wants
	return w2, nil
}

func (w *World) newNormalizer(key string) *normalizer {
	n := &normalizer{p: w.Pkgs[key], src: map[string][]byte{}, edits: map[string][]textEdit{}}
	for k, v := range w.Overlay {
		n.src[k] = v
	}
	return n
}

// inlinedWorld: passes I (repeated), S (repeated) and then T1/T3/T4 on the named
// methods of package key. Returns nil when nothing applied.
func (w *World) inlinedWorld(key string, methods []string) (*World, []string, error) {
	cur := w
	var notes []string
	any := false
	pass := func(f func(n *normalizer, fd *ast.FuncDecl) (bool, error), max int) error {
		for iter := 0; iter < max; iter++ {
			n := cur.newNormalizer(key)
			ch := false
			for _, mname := range methods {
				fd := cur.Pkgs[key].method(mname)
				if fd == nil {
					fd = cur.Pkgs[key].Funcs[mname]
				}
				if fd == nil || fd.Body == nil {
					continue
				}
				c, err := f(n, fd)
				if err != nil {
					return err
				}
				ch = ch || c
			}
			if !ch {
				return nil
			}
			w2, err := cur.applyEdits(n)
			if err != nil {
				return err
			}
			notes = append(notes, n.notes...)
			cur = w2
			any = true
		}
		return nil
	}
	if err := pass(func(n *normalizer, fd *ast.FuncDecl) (bool, error) { return n.inlinePass(fd) }, 6); err != nil {
		return nil, notes, err
	}
	if err := pass(func(n *normalizer, fd *ast.FuncDecl) (bool, error) { return n.normalizeFunc(fd) }, 2); err != nil {
		return nil, notes, err
	}
	if err := pass(func(n *normalizer, fd *ast.FuncDecl) (bool, error) { return n.sroaPass(fd) }, 4); err != nil {
		return nil, notes, err
	}
	if err := pass(func(n *normalizer, fd *ast.FuncDecl) (bool, error) { return n.normalizeFunc(fd) }, 2); err != nil {
		return nil, notes, err
	}
	if err := pass(func(n *normalizer, fd *ast.FuncDecl) (bool, error) { return n.unhoistPass(fd) }, 1); err != nil {
		return nil, notes, err
	}
	if err := pass(func(n *normalizer, fd *ast.FuncDecl) (bool, error) { return n.earlyExitPass(fd) }, 1); err != nil {
		return nil, notes, err
	}
	if !any {
		return nil, nil, nil
	}
	cur.normalized = true
	return cur, notes, nil
}

// ---------------------------------------------------------------------------
// Guarded inlining: Go's error / ok protocols.
//
//	x, err := h(args)            or      if err := h(args); err != nil { BODY }
//	if err != nil { BODY }
//
// where BODY ends in a return. Every `return E1, …, Ek` of h is decided against
// the guard with the results substituted:
//   - the guard holds (E is a provably non-nil error, the literal false for
//     `!ok`, …): the return becomes BODY with the results in place of the
//     guard's variables;
//   - the guard fails (literal nil / true): the caller goes on after the call;
//     this is expressible when the return is the callee's last statement
//     (control falls through) or sits directly in the callee's last top-level
//     loop (it becomes `results…; break`);
//   - anything else: the call is left alone.
//
// The result is the function the call was extracted from.

type guardSite struct {
	first, last ast.Stmt // statements replaced (the same one for the if-with-init form)
	call        *ast.CallExpr
	lhs         []ast.Expr
	tok         token.Token
	cond        ast.Expr
	body        *ast.BlockStmt
	restUses    bool // the results are used after the guard
}

// guardVerdict evaluates cond with the guard variables replaced by the
// returned expressions: +1 holds, -1 fails, 0 unknown.
func (n *normalizer) guardVerdict(cond ast.Expr, vars []types.Object, rets []ast.Expr, h *ast.FuncDecl) int {
	p := n.p
	info := p.Info
	retOf := func(e ast.Expr) ast.Expr {
		o := identObj(info, e)
		if o == nil {
			return nil
		}
		for i, v := range vars {
			if v == o && i < len(rets) {
				return rets[i]
			}
		}
		return nil
	}
	// classification of a returned expression
	isNilLit := func(e ast.Expr) bool { return isNilIdent(info, e) }
	nonNil := func(e ast.Expr) bool {
		if p.provablyNonNilErr(e, 0) {
			return true
		}
		if tn, _, ok := p.typedErrOf(e); ok && tn != "" {
			return true
		}
		// `return err` inside `if err != nil { … }` of the callee
		if o := identObj(info, e); o != nil {
			var stack []ast.Node
			found := false
			ast.Inspect(h.Body, func(x ast.Node) bool {
				if x == nil {
					stack = stack[:len(stack)-1]
					return false
				}
				stack = append(stack, x)
				if x == ast.Node(e) {
					for i := len(stack) - 1; i >= 0; i-- {
						ifs, ok := stack[i].(*ast.IfStmt)
						if !ok || i+1 >= len(stack) || stack[i+1] != ast.Node(ifs.Body) {
							continue
						}
						if be, ok := ifs.Cond.(*ast.BinaryExpr); ok && be.Op == token.NEQ && identObj(info, be.X) == o && isNilIdent(info, be.Y) && !assignedIn(info, ifs.Body, o) {
							found = true
						}
					}
				}
				return true
			})
			return found
		}
		return false
	}
	var ev func(c ast.Expr) int
	ev = func(c ast.Expr) int {
		switch x := c.(type) {
		case *ast.ParenExpr:
			return ev(x.X)
		case *ast.UnaryExpr:
			if x.Op == token.NOT {
				return -ev(x.X)
			}
		case *ast.Ident:
			if r := retOf(x); r != nil {
				if b, ok := constBool(info, r); ok {
					if b {
						return 1
					}
					return -1
				}
			}
		case *ast.BinaryExpr:
			switch x.Op {
			case token.LAND:
				a, b := ev(x.X), ev(x.Y)
				if a == -1 || b == -1 {
					return -1
				}
				if a == 1 && b == 1 {
					return 1
				}
				return 0
			case token.LOR:
				a, b := ev(x.X), ev(x.Y)
				if a == 1 || b == 1 {
					return 1
				}
				if a == -1 && b == -1 {
					return -1
				}
				return 0
			case token.EQL, token.NEQ:
				sign := 1
				if x.Op == token.NEQ {
					sign = -1
				}
				var r, other ast.Expr
				if r = retOf(x.X); r != nil {
					other = x.Y
				} else if r = retOf(x.Y); r != nil {
					other = x.X
				}
				if r == nil {
					return 0
				}
				if isNilIdent(info, other) {
					switch {
					case isNilLit(r):
						return sign
					case nonNil(r):
						return -sign
					}
					return 0
				}
				if s, ok := constString(info, other); ok {
					if rs, ok := constString(info, r); ok {
						if rs == s {
							return sign
						}
						return -sign
					}
					return 0
				}
				if b, ok := constBool(info, other); ok {
					if rb, ok := constBool(info, r); ok {
						if rb == b {
							return sign
						}
						return -sign
					}
				}
			}
		}
		return 0
	}
	return ev(cond)
}

func constBool(info *types.Info, e ast.Expr) (bool, bool) {
	tv, ok := info.Types[e]
	if !ok || tv.Value == nil {
		return false, false
	}
	if tv.Value.Kind().String() != "Bool" {
		return false, false
	}
	return tv.Value.String() == "true", true
}

func (n *normalizer) guardedInlinePass(fd *ast.FuncDecl) (bool, error) {
	p := n.p
	info := p.Info
	changed := false
	var lists [][]ast.Stmt
	ast.Inspect(fd.Body, func(x ast.Node) bool {
		switch b := x.(type) {
		case *ast.BlockStmt:
			lists = append(lists, b.List)
		case *ast.CaseClause:
			lists = append(lists, b.Body)
		}
		return true
	})
	terminates := func(b *ast.BlockStmt) bool {
		if b == nil || len(b.List) == 0 {
			return false
		}
		_, ok := b.List[len(b.List)-1].(*ast.ReturnStmt)
		return ok
	}
	for _, list := range lists {
		for i := 0; i < len(list); i++ {
			var site *guardSite
			switch s := list[i].(type) {
			case *ast.IfStmt:
				if as, ok := s.Init.(*ast.AssignStmt); ok && s.Else == nil && terminates(s.Body) && len(as.Rhs) == 1 && as.Tok == token.DEFINE {
					if c, ok := as.Rhs[0].(*ast.CallExpr); ok {
						site = &guardSite{first: s, last: s, call: c, lhs: as.Lhs, tok: as.Tok, cond: s.Cond, body: s.Body}
					}
				}
			case *ast.AssignStmt:
				if len(s.Rhs) == 1 && (s.Tok == token.DEFINE || s.Tok == token.ASSIGN) && i+1 < len(list) {
					if c, ok := s.Rhs[0].(*ast.CallExpr); ok {
						if ifs, ok := list[i+1].(*ast.IfStmt); ok && ifs.Init == nil && ifs.Else == nil && terminates(ifs.Body) {
							site = &guardSite{first: s, last: ifs, call: c, lhs: s.Lhs, tok: s.Tok, cond: ifs.Cond, body: ifs.Body, restUses: true}
						}
					}
				}
			}
			if site == nil {
				continue
			}
			fn := calleeOf(info, site.call)
			if fn == nil || fn.Pkg() != p.P.Types {
				continue
			}
			h := p.FuncObj[fn]
			if h == nil || h == fd || h.Body == nil || len(h.Body.List) == 0 || ast.IsExported(h.Name.Name) {
				continue
			}
			sig := fn.Type().(*types.Signature)
			if sig.Results().Len() == 0 || sig.Results().Len() != len(site.lhs) {
				continue
			}
			// the protocol result is the last one: an error or a bool
			lastT := sig.Results().At(sig.Results().Len() - 1).Type()
			if _, isIface := lastT.Underlying().(*types.Interface); !isIface {
				if b, ok := lastT.Underlying().(*types.Basic); !ok || b.Kind() != types.Bool {
					continue
				}
			}
			// shape of the callee
			okShape := true
			var rets []*ast.ReturnStmt
			ast.Inspect(h.Body, func(x ast.Node) bool {
				switch y := x.(type) {
				case *ast.ReturnStmt:
					rets = append(rets, y)
					if len(y.Results) != len(site.lhs) {
						okShape = false // naked return or f() forwarding
					}
				case *ast.DeferStmt, *ast.GoStmt, *ast.FuncLit, *ast.LabeledStmt, *ast.SelectStmt:
					okShape = false
				case *ast.BranchStmt:
					if y.Tok == token.GOTO || y.Label != nil {
						okShape = false
					}
				case *ast.CallExpr:
					if f2 := calleeOf(info, y); f2 == fn {
						okShape = false
					}
				}
				return okShape
			})
			if !okShape || len(rets) == 0 {
				continue
			}
			// guard variables
			var gvars []types.Object
			okVars := true
			for _, l := range site.lhs {
				id, ok := l.(*ast.Ident)
				if !ok {
					okVars = false
					break
				}
				o := info.Defs[id]
				if o == nil {
					o = info.Uses[id]
				}
				gvars = append(gvars, o) // nil for "_"
			}
			if !okVars {
				continue
			}
			// the guard may only speak about its variables and constants
			condOK := true
			ast.Inspect(site.cond, func(x ast.Node) bool {
				if id, ok := x.(*ast.Ident); ok {
					if v, ok := info.Uses[id].(*types.Var); ok {
						mine := false
						for _, g := range gvars {
							if g == types.Object(v) {
								mine = true
							}
						}
						if !mine && v.Parent() != p.P.Types.Scope() {
							condOK = false
						}
					}
				}
				return true
			})
			if !condOK {
				continue
			}
			// position of each return in the callee
			lastStmt := h.Body.List[len(h.Body.List)-1]
			// a `break` out of the callee's loop must land right after the inlined
			// text: the loop has to be the callee's very last statement
			var tailLoop ast.Stmt
			switch lastStmt.(type) {
			case *ast.ForStmt, *ast.RangeStmt:
				tailLoop = lastStmt
			}
			innermostBreakable := func(r *ast.ReturnStmt) ast.Node {
				var stack []ast.Node
				var res ast.Node
				ast.Inspect(h.Body, func(x ast.Node) bool {
					if x == nil {
						stack = stack[:len(stack)-1]
						return false
					}
					stack = append(stack, x)
					if x == ast.Node(r) {
						for k := len(stack) - 2; k >= 0; k-- {
							switch stack[k].(type) {
							case *ast.ForStmt, *ast.RangeStmt, *ast.SwitchStmt, *ast.TypeSwitchStmt, *ast.SelectStmt:
								res = stack[k]
								return false
							}
						}
					}
					return true
				})
				return res
			}
			subst, pre, okBind := n.bindCall(h, site.call)
			if !okBind {
				continue
			}
			sfx := n.lastSfx
			_ = sfx
			// lhs texts
			var ls []string
			for _, l := range site.lhs {
				t, err := n.flatText(l.Pos(), l.End(), nil, nil)
				if err != nil {
					okShape = false
				}
				ls = append(ls, t)
			}
			if !okShape {
				continue
			}
			type repl struct {
				r    *ast.ReturnStmt
				text string
			}
			var repls []repl
			needDecl := false
			okAll := true
			for _, r := range rets {
				var rexprs []ast.Expr
				rexprs = append(rexprs, r.Results...)
				v := n.guardVerdict(site.cond, gvars, rexprs, h)
				var rtexts []string
				for _, e := range r.Results {
					t, err := n.flatText(e.Pos(), e.End(), []ast.Node{e}, subst)
					if err != nil {
						okAll = false
					}
					rtexts = append(rtexts, t)
				}
				if !okAll {
					break
				}
				switch v {
				case 1:
					// BODY with the guard variables replaced by the returned expressions
					bsub := map[types.Object]string{}
					for k, g := range gvars {
						if g != nil {
							bsub[g] = "(" + rtexts[k] + ")"
							if _, isId := r.Results[k].(*ast.Ident); isId {
								bsub[g] = rtexts[k]
							}
						}
					}
					var nodes []ast.Node
					for _, b := range site.body.List {
						nodes = append(nodes, b)
					}
					bt, err := n.flatText(site.body.List[0].Pos(), site.body.List[len(site.body.List)-1].End(), nodes, bsub)
					if err != nil {
						okAll = false
						break
					}
					repls = append(repls, repl{r, bt})
				case -1:
					assign := ""
					if site.restUses {
						var as []string
						for k := range ls {
							if ls[k] != "_" {
								as = append(as, ls[k]+" = "+rtexts[k])
							}
						}
						assign = strings.Join(as, "; ")
						needDecl = true
					}
					switch {
					case ast.Stmt(r) == lastStmt:
						repls = append(repls, repl{r, assign})
					case tailLoop != nil && innermostBreakable(r) == ast.Node(tailLoop):
						if assign != "" {
							repls = append(repls, repl{r, "{ " + assign + "; break }"})
						} else {
							repls = append(repls, repl{r, "break"})
						}
					default:
						okAll = false
					}
				case 0:
					// `return g(x)` — an error the callee merely hands on: with the guard
					// `err != nil` on that single result, it is `if e := g(x); e != nil { BODY[e] }`
					// and otherwise the guard-fails continuation
					be, isBin := ast.Unparen(site.cond).(*ast.BinaryExpr)
					okForm := isBin && be.Op == token.NEQ && len(r.Results) == 1 && len(gvars) == 1 && gvars[0] != nil && !site.restUses &&
						identObj(info, be.X) == gvars[0] && isNilIdent(info, be.Y)
					if _, isCall := ast.Unparen(r.Results[0]).(*ast.CallExpr); !isCall {
						okForm = false
					}
					if !okForm {
						okAll = false
						break
					}
					tmp := "err" + n.lastSfx
					var nodes []ast.Node
					for _, b := range site.body.List {
						nodes = append(nodes, b)
					}
					bt, err := n.flatText(site.body.List[0].Pos(), site.body.List[len(site.body.List)-1].End(), nodes, map[types.Object]string{gvars[0]: tmp})
					if err != nil {
						okAll = false
						break
					}
					text := "if " + tmp + " := " + rtexts[0] + "; " + tmp + " != nil { " + bt + " }"
					switch {
					case ast.Stmt(r) == lastStmt:
						repls = append(repls, repl{r, text})
					case tailLoop != nil && innermostBreakable(r) == ast.Node(tailLoop):
						repls = append(repls, repl{r, "{ " + text + "; break }"})
					default:
						okAll = false
					}
				default:
					okAll = false
				}
				if !okAll {
					break
				}
			}
			if !okAll {
				continue
			}
			// when the tail loop is followed by a final return, a `break` must reach the
			// statements after the inlined text: only if that final return is a guard-fails one
			// (its replacement is the plain assignment above) — ensured by the case analysis.
			// Body text with the returns replaced (from the last to the first).
			_, o1 := n.file(h.Body.List[0].Pos())
			fnm, _ := n.file(h.Body.List[0].Pos())
			_, o2 := n.file(h.Body.List[len(h.Body.List)-1].End())
			src, err := n.source(fnm)
			if err != nil {
				continue
			}
			type span struct {
				a, b int
				t    string
			}
			var spans []span
			for _, rp := range repls {
				_, a := n.file(rp.r.Pos())
				_, b := n.file(rp.r.End())
				spans = append(spans, span{a, b, "\x00" + rp.text + "\x00"})
			}
			// identifiers (outside the replaced returns)
			selX := map[*ast.Ident]bool{}
			ast.Inspect(h.Body, func(x ast.Node) bool {
				if se, ok := x.(*ast.SelectorExpr); ok {
					if id, ok := se.X.(*ast.Ident); ok {
						selX[id] = true
					}
				}
				return true
			})
			ast.Inspect(h.Body, func(x ast.Node) bool {
				if _, isRet := x.(*ast.ReturnStmt); isRet {
					return false
				}
				if id, ok := x.(*ast.Ident); ok {
					obj := info.Uses[id]
					if obj == nil {
						obj = info.Defs[id]
					}
					if t, ok := subst[obj]; ok && obj != nil {
						_, a := n.file(id.Pos())
						if n.addrBound[obj] && !selX[id] {
							t = "(&" + t + ")"
						}
						spans = append(spans, span{a, a + len(id.Name), t})
					}
				}
				return true
			})
			sort.Slice(spans, func(x, y int) bool { return spans[x].a > spans[y].a })
			text := string(src[o1:o2])
			for _, sp := range spans {
				text = text[:sp.a-o1] + sp.t + text[sp.b-o1:]
			}
			// flatten (comments, newlines) piecewise around the protected replacements
			pieces := strings.Split(text, "\x00")
			var flat []string
			okFlat := true
			for k, pc := range pieces {
				if k%2 == 1 {
					flat = append(flat, pc)
					continue
				}
				ft, err := flattenGo(pc, k == len(pieces)-1)
				if err != nil {
					okFlat = false
					break
				}
				flat = append(flat, ft)
			}
			if !okFlat {
				continue
			}
			var parts []string
			if needDecl && site.tok == token.DEFINE {
				for k, l := range ls {
					if l == "_" {
						continue
					}
					ts := types.TypeString(sig.Results().At(k).Type(), func(pk *types.Package) string {
						if pk == p.P.Types {
							return ""
						}
						return pk.Name()
					})
					parts = append(parts, fmt.Sprintf("var %s %s; _ = %s", l, ts, l))
				}
			}
			parts = append(parts, pre...)
			for _, pr := range pre {
				f := strings.Fields(pr)
				if len(f) >= 2 {
					parts = append(parts, "_ = "+f[1])
				}
			}
			body := strings.TrimSpace(strings.Join(flat, " "))
			body = strings.TrimSuffix(strings.TrimSpace(body), ";")
			parts = append(parts, body)
			if err := n.edit(site.first.Pos(), site.last.End(), strings.Join(parts, "; ")); err != nil {
				return false, err
			}
			changed = true
			n.notes = append(n.notes, fmt.Sprintf("%s: the guarded call of %s is replaced by its body (returns decided against `%s`)", fd.Name.Name, h.Name.Name, types.ExprString(site.cond)))
			if site.first != site.last {
				i++
			}
		}
	}
	return changed, nil
}

// flattenGo renders a fragment of Go source on one line without comments.
func flattenGo(text string, trimEnd bool) (string, error) {
	var sc scanner.Scanner
	fs := token.NewFileSet()
	f := fs.AddFile("", fs.Base(), len(text))
	var scanErr error
	sc.Init(f, []byte(text), func(pos token.Position, msg string) { scanErr = fmt.Errorf("%s", msg) }, 0)
	var toks []string
	for {
		_, tok, lit := sc.Scan()
		if tok == token.EOF {
			break
		}
		switch {
		case tok == token.SEMICOLON:
			toks = append(toks, ";")
		case lit != "":
			toks = append(toks, lit)
		default:
			toks = append(toks, tok.String())
		}
	}
	if scanErr != nil {
		return "", scanErr
	}
	for trimEnd && len(toks) > 0 && toks[len(toks)-1] == ";" {
		toks = toks[:len(toks)-1]
	}
	return strings.Join(toks, " "), nil
}

// inlinedParserWorld: guarded and flat inlining applied to ParseVector.
func (w *World) inlinedParserWorld(key string) (*World, []string, error) {
	cur := w
	var notes []string
	any := false
	for iter := 0; iter < 6; iter++ {
		n := cur.newNormalizer(key)
		n.parserMode = true
		fd := cur.Pkgs[key].Funcs["ParseVector"]
		if fd == nil || fd.Body == nil {
			break
		}
		ch, err := n.guardedInlinePass(fd)
		if err != nil {
			return nil, notes, err
		}
		if !ch {
			break
		}
		w2, err := cur.applyEdits(n)
		if err != nil {
			return nil, notes, err
		}
		notes = append(notes, n.notes...)
		cur = w2
		any = true
	}
	// then the plain passes, as for the v4 score: helpers called at statement
	// level (a cursor's advance(), pool wrappers), single-expression methods of a
	// local record (cur.expected()), and the record itself split into scalars
	for _, f := range []func(n *normalizer, fd *ast.FuncDecl) (bool, error){
		func(n *normalizer, fd *ast.FuncDecl) (bool, error) { return n.inlinePass(fd) },
		func(n *normalizer, fd *ast.FuncDecl) (bool, error) { return n.sroaPass(fd) },
	} {
		for iter := 0; iter < 6; iter++ {
			n := cur.newNormalizer(key)
			n.parserMode = true
			fd := cur.Pkgs[key].Funcs["ParseVector"]
			if fd == nil || fd.Body == nil {
				break
			}
			ch, err := f(n, fd)
			if err == nil {
				// the functions ParseVector hands the input text to (split …) as well
				var names []string
				for name := range cur.Pkgs[key].Funcs {
					names = append(names, name)
				}
				sort.Strings(names)
				for _, name := range names {
					g := cur.Pkgs[key].Funcs[name]
					if g == fd || g.Body == nil || g.Recv != nil || !n.onParsePath(g) {
						continue
					}
					c2, err2 := f(n, g)
					if err2 != nil {
						err = err2
						break
					}
					ch = ch || c2
				}
			}
			if err != nil {
				// a pass that cannot be applied leaves the program as it is
				notes = append(notes, "pass not applied: "+err.Error())
				break
			}
			if !ch {
				break
			}
			w2, err := cur.applyEdits(n)
			if err != nil {
				if os.Getenv("CVSSCHECK_DEBUG") != "" {
					println("DBG pass not applied:", err.Error())
				}
				notes = append(notes, "pass not applied: "+err.Error())
				break
			}
			notes = append(notes, n.notes...)
			cur = w2
			any = true
		}
	}
	if !any {
		return nil, nil, nil
	}
	cur.normalized = true
	return cur, notes, nil
}
