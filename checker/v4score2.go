package main

// Structure of (*CVSS40).Score, part 2: next-lower MacroVectors at loop entry
// (R04.nlm), the interpolation template (R04.sibling), depth tables
// (R04.depth), highest-severity vectors (R04.max), severity orders (R04.sev),
// rounding (R04.round), exhaustiveness of the indexed tables (R09.exhaustive,
// R09.shape).

import (
	"fmt"
	"go/ast"
	"go/token"
	"go/types"
	"math/big"
	"sort"
	"strings"
)

var eqMetrics = map[string][]string{
	"1": {"AV", "PR", "UI"}, "2": {"AC", "AT"}, "36": {"VC", "VI", "VA", "CR", "IR", "AR"}, "4": {"SC", "SI", "SA"}, "5": {"E"},
}

// oracle next-lower semantics over the code's own table
func nextLowerMSD(tbl map[string]*big.Rat, key string) (map[string]*big.Rat, int) {
	out := map[string]*big.Rat{}
	lower := 0
	cur := tbl[key]
	absdiff := func(a *big.Rat) *big.Rat {
		d := new(big.Rat).Sub(a, cur)
		return d.Abs(d)
	}
	d := []byte(key)
	for _, K := range []int{1, 2, 4, 5} {
		nd := append([]byte(nil), d...)
		nd[K-1]++
		name := fmt.Sprint(K)
		if v, ok := tbl[string(nd)]; ok {
			out[name] = absdiff(v)
			lower++
		} else {
			out[name] = new(big.Rat)
		}
	}
	with := func(e3, e6 byte) (*big.Rat, bool) {
		nd := append([]byte(nil), d...)
		nd[2], nd[5] = e3, e6
		v, ok := tbl[string(nd)]
		return v, ok
	}
	var nl *big.Rat
	switch string([]byte{d[2], d[5]}) {
	case "11":
		nl, _ = with('2', '1')
	case "01", "10":
		nl, _ = with('1', '1')
	case "00":
		a, okA := with('1', '0')
		b, okB := with('0', '1')
		switch {
		case okA && okB:
			nl = a
			if b.Cmp(a) > 0 {
				nl = b
			}
		case okA:
			nl = a
		case okB:
			nl = b
		}
	}
	if nl != nil {
		out["36"] = absdiff(nl)
		lower++
	} else {
		out["36"] = new(big.Rat)
	}
	return out, lower
}

func (w *World) rulesV4ScoreRest(m *scoreModel, modFn *types.Func, add func(ok bool, rule, inst string, n ast.Node, detail string)) {
	p := m.p
	fd := m.fd
	info := p.Info
	tbl, _, err := p.lookupTable()
	if err != nil {
		add(false, "R04.nlm", "Score.prefix", fd, "lookup table unavailable: "+err.Error())
		return
	}
	// identify macroVector and lookup callees used in the prefix
	var mvObj, lkObj *types.Func
	var mvAssign *ast.AssignStmt
	for _, s := range m.prefix {
		as, ok := s.(*ast.AssignStmt)
		if !ok || len(as.Rhs) != 1 {
			continue
		}
		call, ok := as.Rhs[0].(*ast.CallExpr)
		if !ok {
			continue
		}
		fn := calleeOf(info, call)
		if fn == nil {
			continue
		}
		sig := fn.Type().(*types.Signature)
		if sig.Results().Len() == 6 && len(as.Lhs) == 6 {
			mvObj, mvAssign = fn, as
		}
		if sig.Params().Len() == 6 && sig.Results().Len() == 1 && lkObj == nil {
			lkObj = fn
		}
	}
	if mvObj == nil || lkObj == nil {
		add(false, "R04.nlm", "Score.prefix", fd, "Score does not obtain six EQ levels from macroVector and a lookup value: undecided")
		return
	}
	var eqObjs [6]types.Object
	for i, l := range mvAssign.Lhs {
		eqObjs[i] = identObj(info, l)
	}
	// the six levels are those of the scored vector: the call is
	// recv.macroVector() with the method the EQ rules (R04.eq) tabulate, on
	// Score's own receiver, without arguments. Any other source of the levels
	// (another function, another object, levels computed from arguments) is not
	// tied to R04.eq by these rules.
	{
		call := mvAssign.Rhs[0].(*ast.CallExpr)
		mvDecl := p.method("macroVector")
		recv := p.recvObj(fd)
		okCall := mvDecl != nil && p.FuncObj[mvObj] == mvDecl && len(call.Args) == 0 && recv != nil
		if okCall {
			se, isSel := ast.Unparen(call.Fun).(*ast.SelectorExpr)
			okCall = isSel
			if isSel {
				x := ast.Unparen(se.X)
				if st, isStar := x.(*ast.StarExpr); isStar {
					x = ast.Unparen(st.X)
				}
				okCall = identObj(info, x) == types.Object(recv) && !assignedIn(info, fd.Body, recv)
			}
		}
		if okCall {
			add(true, "R04.sibling", "Score.macroVector.call", call, "the six EQ levels are macroVector() of Score's own receiver (the method R04.eq tabulates)")
		} else {
			add(false, "R04.sibling", "Score.macroVector.call", call, "the six EQ levels are not obtained by calling macroVector() on Score's own receiver (another function, another object or levels computed from arguments): not tied to the EQ predicates checked by R04.eq — undecided")
		}
	}
	// ---- D: run the prefix for every MacroVector of the table
	var keys []string
	for k := range tbl {
		keys = append(keys, k)
	}
	sort.Strings(keys)
	entry := map[string]map[types.Object]Val{}
	undecidedPrefix := false
	for _, key := range keys {
		if undecidedPrefix {
			break
		}
		ce := newCEnv(p, make([]uint8, len(p.Fields)))
		ce.ratArith = true
		k := key
		ce.hook = func(e *cEnv, call *ast.CallExpr, fn *types.Func, args []Val) (Val, bool, error) {
			switch fn {
			case mvObj:
				var t []Val
				for i := 0; i < 6; i++ {
					t = append(t, vInt(int64(k[i]-'0')))
				}
				return Val{K: VTuple, T: t}, true, nil
			case lkObj:
				var kk []byte
				for _, a := range args {
					if a.K != VInt || a.I < 0 || a.I > 9 {
						return Val{}, true, &panicked{pos: call.Pos(), msg: "lookup with a non-level argument"}
					}
					kk = append(kk, byte('0'+a.I))
				}
				v, ok := tbl[string(kk)]
				if !ok {
					return Val{}, true, &panicked{pos: call.Pos(), msg: "lookupMV(" + string(kk) + ") is outside the table"}
				}
				return Val{K: VRat, R: v}, true, nil
			}
			return Val{}, false, nil
		}
		failed := false
		for _, s := range m.prefix {
			ct, _, err := ce.exec(s)
			if err != nil {
				failed = true
				if pe, ok := err.(*panicked); ok {
					add(false, "R04.dom", "Score.key["+key+"]", s, fmt.Sprintf("for MacroVector %s the next-lower computation panics: %s (at %s) — a guard lets a lookup leave the table", key, pe.msg, p.posAt(pe.pos)))
				} else {
					add(false, "R04.nlm", "Score.prefix", s, "cannot evaluate the loop-free prefix (undecided): "+err.Error())
					undecidedPrefix = true
				}
				break
			}
			if ct == cReturn {
				// the zero shortcut fired on the all-zero object?
				failed = true
				add(false, "R04.nlm", "Score.key["+key+"]", s, "Score returns before the interpolation on the probe object (undecided)")
				break
			}
		}
		if failed {
			if len(entry) == 0 && key != keys[0] {
				continue
			}
			continue
		}
		entry[key] = ce.vars
	}
	if len(entry) != len(keys) {
		return
	}
	add(true, "R04.dom", "Score.lookups", fd, fmt.Sprintf("for all %d MacroVectors every lookup performed while computing the next-lower MacroVectors stays inside the table (no panic, no spurious NaN)", len(keys)))
	m.entry, m.keys, m.table = entry, keys, tbl
	// locals at loop entry, by name (elements of small local arrays: name[i])
	type elemRef struct {
		o types.Object
		i int
	}
	byElem := map[string]elemRef{}
	byName := map[string]types.Object{}
	entryOf := func(key, sym string) Val {
		if er, ok := byElem[sym]; ok {
			v := entry[key][er.o]
			if v.K == VList && er.i < len(v.T) {
				return v.T[er.i]
			}
			return Val{}
		}
		return entry[key][byName[sym]]
	}
	for o := range entry[keys[0]] {
		byName["$"+o.Name()] = o
	}
	// ---- E: symbolic tree of the suffix
	// the rounding helper is whatever func(float64) float64 the final return applies;
	// its behaviour is decided semantically in checkInterp (R04.round), not by its shape
	ctx := p.newSymCtx(nil, "ru")
	for _, s := range m.suffix {
		rs, ok := s.(*ast.ReturnStmt)
		if !ok || len(rs.Results) != 1 {
			continue
		}
		if call, ok := rs.Results[0].(*ast.CallExpr); ok && len(call.Args) == 1 {
			if fn := calleeOf(info, call); fn != nil && fn.Pkg() == p.P.Types {
				sig := fn.Type().(*types.Signature)
				if sig.Recv() == nil && sig.Params().Len() == 1 && isFloat(sig.Params().At(0).Type()) && sig.Results().Len() == 1 && isFloat(sig.Results().At(0).Type()) {
					ctx.roundFns[fn] = true
					if rt, err := (&symCtx{p: p, roundFns: map[*types.Func]bool{}}).treeOf(p.FuncObj[fn]); err == nil {
						m.roundTree = rt
						m.roundFn = p.FuncObj[fn]
					} else {
						add(false, "R04.round", "round["+fn.Name()+"]", p.FuncObj[fn], "the rounding helper is outside the formula language (undecided): "+err.Error())
					}
				}
			}
		}
	}
	if len(ctx.roundFns) == 0 {
		add(false, "R04.round", "round", fd, "Score does not return the result of a rounding helper func(float64) float64")
	}
	se := &sEnv{c: ctx, vars: map[types.Object]*Ex{}, codes: map[types.Object]codeSym{}}
	// every local assigned anywhere before the suffix becomes a symbol
	ast.Inspect(&ast.BlockStmt{List: append(append([]ast.Stmt(nil), m.prefix...), m.loop)}, func(n ast.Node) bool {
		switch s := n.(type) {
		case *ast.AssignStmt:
			for _, l := range s.Lhs {
				if o := identObj(info, l); o != nil && !isUint8(o.Type()) {
					if at, isArr := o.Type().Underlying().(*types.Array); isArr {
						// a small array of floats: one symbol per element
						if isFloat(at.Elem()) && at.Len() <= 16 {
							if se.arrs == nil {
								se.arrs = map[types.Object][]*Ex{}
							}
							elems := make([]*Ex, at.Len())
							for i := range elems {
								nm := fmt.Sprintf("$%s[%d]", o.Name(), i)
								elems[i] = mkSym(nm)
								byElem[nm] = elemRef{o, i}
							}
							se.arrs[o] = elems
						}
						continue
					}
					se.vars[o] = mkSym("$" + o.Name())
					byName["$"+o.Name()] = o
				}
			}
		case *ast.ValueSpec:
			for _, nm := range s.Names {
				if o := info.Defs[nm]; o != nil {
					se.vars[o] = mkSym("$" + o.Name())
					byName["$"+o.Name()] = o
				}
			}
		}
		return true
	})
	tree, ret, err := se.block(m.suffix)
	if err != nil || !ret {
		msg := "suffix does not return"
		if err != nil {
			msg = err.Error() + posSuffix(p, err)
		}
		add(false, "R04.sibling", "Score.tail", fd, "cannot derive the interpolation formula (undecided): "+msg)
		return
	}
	// expected: ru($eqsv + -1*ite($lower == 0 ? 0 : (SUM / float($lower))))
	type term struct{ msd, svdst, depth *Ex }
	var terms []term
	var eqsvSym, lowerSym string
	shapeErr := ""
	// `if lower == 0 { return round(own) }; return round(own - sum/lower)` is
	// round(own - (lower == 0 ? 0 : sum/lower)): the same rounding applied on both
	// paths moves outside, and the common minuend with it
	if tree.Op == "ite" && tree.Cond != nil && len(tree.Args) == 2 {
		a, b := tree.Args[0], tree.Args[1]
		if a.Op == "call" && b.Op == "call" && a.Name == "ru" && b.Name == "ru" && len(a.Args) == 1 && len(b.Args) == 1 {
			ia, ib := a.Args[0], b.Args[0]
			if ia.Op == "sym" && ib.Op == "sum" && len(ib.Args) == 2 {
				for k, part := range ib.Args {
					other := ib.Args[1-k]
					if part.Op == "sym" && part.Name == ia.Name && other.Op == "prod" && len(other.Args) == 2 && other.Args[0].Op == "const" && other.Args[0].C.Cmp(big.NewRat(-1, 1)) == 0 {
						mean := &Ex{Op: "ite", Cond: tree.Cond, Args: []*Ex{mkConst(new(big.Rat)), other.Args[1]}}
						tree = mkCall("ru", mkSum(ia, mkProd(mkConst(big.NewRat(-1, 1)), mean)))
					}
				}
			}
		}
	}
	func() {
		if tree.Op != "call" || tree.Name != "ru" || len(tree.Args) != 1 {
			shapeErr = "the returned value is not the rounding of an expression"
			return
		}
		in := tree.Args[0]
		if in.Op != "sum" || len(in.Args) != 2 {
			shapeErr = "the rounded value is not `lookup - mean`: " + clip(in.String())
			return
		}
		var mean *Ex
		for _, a := range in.Args {
			if a.Op == "sym" {
				eqsvSym = a.Name
			} else if a.Op == "prod" && len(a.Args) == 2 && a.Args[0].Op == "const" && a.Args[0].C.Cmp(big.NewRat(-1, 1)) == 0 {
				mean = a.Args[1]
			}
		}
		if eqsvSym == "" || mean == nil {
			shapeErr = "the rounded value is not `lookup - mean`: " + clip(in.String())
			return
		}
		// `lower == 0` or, for a count that only grows from 0, `lower <= 0`
		if mean.Op != "ite" || mean.Cond.Kind != "cmp" || (mean.Cond.Op != "==" && mean.Cond.Op != "<=") || mean.Cond.L.Op != "sym" || mean.Cond.R.String() != "0" || mean.Args[0].String() != "0" {
			shapeErr = "the mean is not `lower != 0 ? sum/lower : 0`: " + clip(mean.String())
			return
		}
		lowerSym = mean.Cond.L.Name
		dv := mean.Args[1]
		if dv.Op != "div" || dv.Args[1].String() != "float("+lowerSym+")" {
			shapeErr = "the mean does not divide by the number of existing next-lower MacroVectors: " + clip(dv.String())
			return
		}
		sum := dv.Args[0]
		if sum.Op != "sum" {
			shapeErr = "the mean's numerator is not a sum of per-EQ terms"
			return
		}
		for _, t := range sum.Args {
			if t.Op != "prod" || len(t.Args) != 2 {
				shapeErr = "a term of the mean is not `maximal scoring difference * proportional distance`: " + clip(t.String())
				return
			}
			var tm term
			for _, f := range t.Args {
				switch {
				case f.Op == "sym":
					tm.msd = f
				case f.Op == "div" && f.Args[0].Op == "sym" && f.Args[1].Op == "sum" && len(f.Args[1].Args) == 2:
					tm.svdst = f.Args[0]
					for _, d := range f.Args[1].Args {
						if d.Op == "call" {
							tm.depth = d
						} else if d.String() != "1" {
							shapeErr = "depth is not incremented by exactly 1: " + clip(f.Args[1].String())
						}
					}
				}
			}
			if tm.msd == nil || tm.svdst == nil || tm.depth == nil {
				shapeErr = "a term of the mean is not `msd * (severity distance / (depth + 1))`: " + clip(t.String())
				return
			}
			terms = append(terms, tm)
		}
	}()
	if shapeErr != "" {
		add(false, "R04.sibling", "Score.tail", fd, shapeErr)
		return
	}
	add(true, "R04.sibling", "Score.tail", fd, fmt.Sprintf("Score returns round(lookup - (sum of %d per-EQ terms)/lower) with mean 0 when no next-lower MacroVector exists", len(terms)))
	// $eqsv is the lookup value; $lower the count
	okSv, okLower := true, true
	for _, key := range keys {
		v := entryOf(key, eqsvSym)
		if v.K != VRat || v.R.Cmp(tbl[key]) != 0 {
			okSv = false
		}
		_, lw := nextLowerMSD(tbl, key)
		lv := entryOf(key, lowerSym)
		if lv.K != VInt || int(lv.I) != lw {
			if okLower {
				add(false, "R04.nlm", "Score.lower", fd, fmt.Sprintf("for MacroVector %s the divisor of the mean is %s, but %d next-lower MacroVectors exist", key, lv, lw))
			}
			okLower = false
		}
	}
	add(okSv, "R04.nlm", "Score.eqsv", fd, map[bool]string{true: "the minuend is lookupMV of the vector's own MacroVector for all " + fmt.Sprint(len(keys)) + " keys", false: "the value the mean is subtracted from is not the vector's own MacroVector score"}[okSv])
	if okLower {
		add(true, "R04.nlm", "Score.lower", fd, fmt.Sprintf("the divisor equals the number of existing next-lower MacroVectors for all %d keys", len(keys)))
	}
	// ---- F: loop nest
	ln := w.parseLoopNest(m, add)
	// per term: which EQ is it?
	usedK := map[string]bool{}
	for _, tm := range terms {
		msdName := tm.msd.Name
		which := ""
		for _, K := range []string{"1", "2", "36", "4", "5"} {
			all := true
			for _, key := range keys {
				want, _ := nextLowerMSD(tbl, key)
				v := entryOf(key, msdName)
				if !((v.K == VRat && v.R.Cmp(want[K]) == 0) || (v.K == VInt && want[K].Cmp(new(big.Rat).SetInt64(v.I)) == 0)) {
					all = false
					break
				}
			}
			if all {
				which = K
				break
			}
		}
		inst := "Score.term[" + strings.TrimPrefix(tm.msd.Name, "$") + "]"
		if which == "" {
			// find a witness against the best candidate
			detail := "is not |next-lower lookup − own lookup| (0 when none exists) of any EQ"
			for _, K := range []string{"1", "2", "36", "4", "5"} {
				if strings.Contains(tm.msd.Name, strings.Replace(K, "36", "3", 1)) {
					for _, key := range keys {
						want, _ := nextLowerMSD(tbl, key)
						v := entryOf(key, msdName)
						if !(v.K == VRat && v.R.Cmp(want[K]) == 0) && !(v.K == VInt && want[K].Cmp(new(big.Rat).SetInt64(v.I)) == 0) {
							detail = fmt.Sprintf("for MacroVector %s it is %s, but the maximal scoring difference of EQ%s is %s", key, v, K, want[K].FloatString(1))
							break
						}
					}
					break
				}
			}
			add(false, "R04.nlm", inst, fd, "maximal scoring difference "+tm.msd.Name+" "+detail)
			continue
		}
		add(true, "R04.nlm", inst, fd, fmt.Sprintf("%s = |next-lower(EQ%s) − own| or 0 when absent, for all %d MacroVectors; every lookup stays inside the table", tm.msd.Name, which, len(keys)))
		if usedK[which] {
			add(false, "R04.sibling", inst, fd, "two terms of the mean use the maximal scoring difference of EQ"+which)
		}
		usedK[which] = true
		// depth call: tbl:getDepth(K, $eqK) / tbl:getDepthEQ3EQ6($eq3,$eq6)
		okDepth := false
		dstr := tm.depth.String()
		eqName := func(i int) string {
			if eqObjs[i] == nil {
				return "?"
			}
			return "$" + eqObjs[i].Name()
		}
		switch which {
		case "36":
			okDepth = len(tm.depth.Args) == 2 && tm.depth.Args[0].String() == eqName(2) && tm.depth.Args[1].String() == eqName(5)
		default:
			ki := int(which[0] - '0')
			okDepth = len(tm.depth.Args) == 2 && tm.depth.Args[0].String() == which && tm.depth.Args[1].String() == eqName(ki-1)
		}
		add(okDepth, "R04.sibling", inst+".depth", fd, map[bool]string{true: "divided by depth+1 of the same EQ and level: " + dstr, false: "the term of EQ" + which + " is divided by the depth " + dstr + " of another EQ or level"}[okDepth])
		// depth values
		if okDepth {
			w.checkDepth(m, p, which, tm.depth, add)
		}
		// severity distance sum
		if ln != nil {
			so := byName[tm.svdst.Name]
			ms, isZero, found := ln.sumOf(so)
			want := append([]string(nil), eqMetrics[which]...)
			sort.Strings(want)
			switch {
			case !found:
				add(false, "R04.sibling", inst+".svdst", fd, tm.svdst.Name+" is not assigned in the loop nest")
			case which == "5":
				add(isZero, "R04.sibling", inst+".svdst", fd, map[bool]string{true: "EQ5 distance is the constant 0 (one metric, one maximal vector per level)", false: "EQ5 severity distance is not the constant 0"}[isZero])
			case sameSeq(ms, want):
				add(true, "R04.sibling", inst+".svdst", fd, fmt.Sprintf("%s = sum of the severity distances of exactly %v", tm.svdst.Name, want))
			default:
				add(false, "R04.sibling", inst+".svdst", fd, fmt.Sprintf("%s sums the severity distances of %v, EQ%s consists of %v", tm.svdst.Name, ms, which, want))
			}
		}
	}
	for _, K := range []string{"1", "2", "36", "4", "5"} {
		if !usedK[K] {
			if K == "5" && okLower {
				// msd5 · (0 / (depth5+1)) is +0 for every vector and the other
				// terms are products of non-negative factors: the sum, and so
				// the mean, is the same float64 with or without it. The divisor
				// still has to count EQ5's next-lower MacroVector (Score.lower).
				why := "the mean has no term for EQ5: the EQ5 severity distance is the constant 0, so the term is +0 for every vector and the sum is unchanged; the divisor still counts EQ5's next-lower MacroVector (R04.nlm Score.lower)"
				add(true, "R04.sibling", "Score.term[EQ5]", fd, why)
				add(true, "R04.nlm", "Score.term[EQ5]", fd, why)
				for lvl := range v40.Depth["5"] {
					add(true, "R04.depth", fmt.Sprintf("depth[EQ5=%d]", lvl), fd, "not used: "+why)
				}
				continue
			}
			add(false, "R04.sibling", "Score.term[EQ"+K+"]", fd, "the mean has no term for EQ"+K)
		}
	}
	w.checkInterp(m, add)
}

func (m *scoreModel) setDepth(eq, level string, v *big.Rat) {
	if m.depth1 == nil {
		m.depth1 = map[string]map[string]*big.Rat{}
	}
	if m.depth1[eq] == nil {
		m.depth1[eq] = map[string]*big.Rat{}
	}
	m.depth1[eq][level] = v
}

// checkDepth: depth+1 of the code vs the oracle, for every level macroVector can assign.
func (w *World) checkDepth(m *scoreModel, p *Pkg, which string, call *Ex, add func(ok bool, rule, inst string, n ast.Node, detail string)) {
	name := strings.TrimPrefix(call.Name, "tbl:")
	fd := p.Funcs[name]
	if fd == nil {
		add(false, "R04.depth", "depth[EQ"+which+"]", nil, "depth function "+name+" not found")
		return
	}
	eval := func(args ...int64) (*big.Rat, error) {
		var vs []Val
		for _, a := range args {
			vs = append(vs, vInt(a))
		}
		v, err := newCEnv(p, nil).callFunc(fd, vs, fd)
		if err != nil {
			return nil, err
		}
		return new(big.Rat).Add(toRat(v), big.NewRat(1, 1)), nil
	}
	if which == "36" {
		var ks []string
		for k := range v40.Depth36 {
			ks = append(ks, k)
		}
		sort.Strings(ks)
		for _, k := range ks {
			got, err := eval(int64(k[0]-'0'), int64(k[1]-'0'))
			inst := "depth[EQ3EQ6=" + k + "]"
			if err != nil {
				add(false, "R09.exhaustive", inst, fd, "reachable joint level "+k+" has no depth: "+err.Error())
				continue
			}
			want := big.NewRat(int64(v40.Depth36[k]), 1)
			m.setDepth("36", k, got)
			add(got.Cmp(want) == 0, "R04.depth", inst, fd, fmt.Sprintf("depth+1 = %s, specification %s", got.RatString(), want.RatString()))
		}
		return
	}
	ki := int64(which[0] - '0')
	for lvl, d := range v40.Depth[which] {
		got, err := eval(ki, int64(lvl))
		inst := fmt.Sprintf("depth[EQ%s=%d]", which, lvl)
		if err != nil {
			add(false, "R09.exhaustive", inst, fd, fmt.Sprintf("reachable level %d of EQ%s has no depth: %v", lvl, which, err))
			continue
		}
		m.setDepth(which, fmt.Sprint(lvl), got)
		if which == "5" {
			// distance is 0: any non-zero divisor leaves the score unchanged
			add(got.Sign() != 0, "R04.depth", inst, fd, fmt.Sprintf("depth+1 = %s (only required to be non-zero: the EQ5 distance is 0)", got.RatString()))
			continue
		}
		want := big.NewRat(int64(d), 1)
		add(got.Cmp(want) == 0, "R04.depth", inst, fd, fmt.Sprintf("depth+1 = %s, specification %s", got.RatString(), want.RatString()))
	}
}

// ---------------------------------------------------------------------------
// loop nest

type rangeInfo struct {
	Var   types.Object
	Table *types.Var
	K     string // "1","2","4","5" or "36"
	Stmt  ast.Stmt
	PerEQ bool // the table holds this EQ only: table[level]
}

type digitInfo struct {
	Range types.Object
	Pos   int
}

type sdCall struct {
	Res    types.Object
	MConst int
	Val    types.Object
	Dig    digitInfo // which digit of which range variable is the maximal value
	HasDig bool
	Call   *ast.CallExpr
}

type loopNest struct {
	p      *Pkg
	Ranges []rangeInfo
	Digit  map[types.Object]digitInfo
	SD     []sdCall
	Sums   map[types.Object][]types.Object // svdst local -> summed sd results
	Zero   map[types.Object]bool
	Guard  map[types.Object]bool
	sem    map[types.Object]locSem
}

func (ln *loopNest) sumOf(o types.Object) (metrics []string, isZero bool, found bool) {
	if ln.Zero[o] {
		return nil, true, true
	}
	parts, ok := ln.Sums[o]
	if !ok {
		return nil, false, false
	}
	for _, r := range parts {
		for _, sd := range ln.SD {
			if sd.Res == r {
				metrics = append(metrics, ln.sem[sd.Val].Metric)
			}
		}
	}
	sort.Strings(metrics)
	return metrics, false, true
}

func pow10(n int64) int {
	k := 0
	for n > 1 {
		if n%10 != 0 {
			return -1
		}
		n /= 10
		k++
	}
	if n != 1 {
		return -1
	}
	return k
}

func (w *World) parseLoopNest(m *scoreModel, add func(ok bool, rule, inst string, n ast.Node, detail string)) *loopNest {
	p := m.p
	info := p.Info
	ln := &loopNest{p: p, Digit: map[types.Object]digitInfo{}, Sums: map[types.Object][]types.Object{}, Zero: map[types.Object]bool{}, Guard: map[types.Object]bool{}, sem: m.sem}
	// eq locals of the macroVector tuple
	var eqObjs []types.Object
	for _, s := range m.prefix {
		if as, ok := s.(*ast.AssignStmt); ok && len(as.Lhs) == 6 && len(as.Rhs) == 1 {
			for _, l := range as.Lhs {
				eqObjs = append(eqObjs, identObj(info, l))
			}
		}
	}
	eqIndex := func(o types.Object) int {
		for i, e := range eqObjs {
			if e == o {
				return i + 1
			}
		}
		return 0
	}
	rangeOf := map[types.Object]bool{}
	unparen := func(e ast.Expr) ast.Expr {
		for {
			if pe, ok := e.(*ast.ParenExpr); ok {
				e = pe.X
				continue
			}
			return e
		}
	}
	// digitOf recognises the extraction of decimal digit k of a range variable:
	// uint8((v % 10^(k+1)) / 10^k), uint8(v % 10), uint8((v / 10^k) % 10), with or without the conversion
	// parameters of an inlined digit helper: bound to a range variable or a constant
	helperRV := map[types.Object]types.Object{}
	helperConst := map[types.Object]uint64{}
	constOf := func(e ast.Expr) (uint64, bool) {
		if u, ok := constUint(info, e); ok {
			return u, true
		}
		if o := identObj(info, unparen(e)); o != nil {
			if u, ok := helperConst[o]; ok {
				return u, true
			}
		}
		return 0, false
	}
	// index loops `for i := 0; i < len(X); i++`: X[i] plays the role of the range variable
	type xi struct{ x, i types.Object }
	indexed := map[xi]types.Object{}
	rvOf := func(e ast.Expr) types.Object {
		if ix, ok := unparen(e).(*ast.IndexExpr); ok {
			if o, ok := indexed[xi{identObj(info, ix.X), identObj(info, ix.Index)}]; ok {
				return o
			}
		}
		o := identObj(info, unparen(e))
		if o == nil {
			return nil
		}
		if rangeOf[o] {
			return o
		}
		if rv, ok := helperRV[o]; ok {
			return rv
		}
		return nil
	}
	var digitOf func(e ast.Expr) (types.Object, int, bool)
	digitOf = func(e ast.Expr) (types.Object, int, bool) {
		e = unparen(e)
		// a field of a record-typed candidate: field i of n is digit n-1-i
		if se, ok := e.(*ast.SelectorExpr); ok {
			if rv := rvOf(se.X); rv != nil {
				if tv, ok := info.Types[se.X]; ok {
					if st, ok := tv.Type.Underlying().(*types.Struct); ok {
						for i := 0; i < st.NumFields(); i++ {
							if st.Field(i).Name() == se.Sel.Name {
								return rv, st.NumFields() - 1 - i, true
							}
						}
					}
				}
			}
		}
		if call, ok := e.(*ast.CallExpr); ok {
			if tv, isT := info.Types[call.Fun]; isT && tv.IsType() && len(call.Args) == 1 {
				e = unparen(call.Args[0])
			} else if fn := calleeOf(info, call); fn != nil && fn.Pkg() == p.P.Types {
				// digit helper: `func digit(mx, unit int) uint8 { return uint8(mx / unit % 10) }`
				if hfd := p.FuncObj[fn]; hfd != nil && hfd.Body != nil && len(hfd.Body.List) == 1 {
					if rs, ok := hfd.Body.List[0].(*ast.ReturnStmt); ok && len(rs.Results) == 1 {
						params := paramObjs(info, hfd)
						if len(params) == len(call.Args) {
							okArgs := true
							for i, po := range params {
								if rv := rvOf(call.Args[i]); rv != nil {
									helperRV[po] = rv
								} else if u, ok := constOf(call.Args[i]); ok {
									helperConst[po] = u
								} else {
									okArgs = false
								}
							}
							if okArgs {
								if rv, pos, ok := digitOf(rs.Results[0]); ok {
									return rv, pos, true
								}
							}
						}
					}
				}
				// any other helper h(rangeVar, constants…): identified by evaluating it on
				// numbers with pairwise distinct digits
				if hfd := p.FuncObj[fn]; hfd != nil && hfd.Body != nil {
					var rv types.Object
					rvIdx := -1
					args := make([]Val, len(call.Args))
					okArgs := true
					for i, a := range call.Args {
						if o := rvOf(a); o != nil && rv == nil {
							rv, rvIdx = o, i
						} else if u, ok := constOf(a); ok {
							args[i] = vInt(int64(u))
						} else {
							okArgs = false
						}
					}
					if okArgs && rv != nil {
						pos := -2
						for _, probe := range []int64{123456, 654321, 908172, 271809} {
							args[rvIdx] = vInt(probe)
							ce := newCEnv(p, nil)
							ce.loops = true
							v, err := ce.callFunc(hfd, append([]Val(nil), args...), call)
							if err != nil || v.K != VInt {
								pos = -1
								break
							}
							k := -1
							for d, q := 0, probe; q > 0; d, q = d+1, q/10 {
								if q%10 == v.I {
									k = d
								}
							}
							if k < 0 || (pos >= 0 && k != pos) {
								pos = -1
								break
							}
							pos = k
						}
						if pos >= 0 {
							return rv, pos, true
						}
					}
				}
			}
		}
		be, ok := e.(*ast.BinaryExpr)
		if !ok {
			return nil, 0, false
		}
		c, okc := constOf(be.Y)
		if !okc {
			return nil, 0, false
		}
		switch be.Op {
		case token.REM:
			// v % 10  |  (v / B) % 10
			if c != 10 {
				return nil, 0, false
			}
			x := unparen(be.X)
			if o := rvOf(x); o != nil {
				return o, 0, true
			}
			if q, ok := x.(*ast.BinaryExpr); ok && q.Op == token.QUO {
				if b, ok := constOf(q.Y); ok && pow10(int64(b)) >= 0 {
					if o := rvOf(q.X); o != nil {
						return o, pow10(int64(b)), true
					}
				}
			}
		case token.QUO:
			// (v % A) / B with A == 10*B
			x := unparen(be.X)
			if r, ok := x.(*ast.BinaryExpr); ok && r.Op == token.REM {
				if a, ok := constOf(r.Y); ok && a == 10*c && pow10(int64(c)) >= 0 {
					if o := rvOf(r.X); o != nil {
						return o, pow10(int64(c)), true
					}
				}
			}
		}
		return nil, 0, false
	}
	// locals defined once, before the loops, as a row of a table
	hoisted := map[types.Object]ast.Expr{}
	for _, s := range m.prefix {
		if as, ok := s.(*ast.AssignStmt); ok && as.Tok == token.DEFINE && len(as.Lhs) == len(as.Rhs) {
			for i, l := range as.Lhs {
				if _, isIdx := unparen(as.Rhs[i]).(*ast.IndexExpr); isIdx {
					if o := identObj(info, l); o != nil && !assignedIn(info, m.fd.Body, o) {
						hoisted[o] = as.Rhs[i]
					}
				}
			}
		}
	}
	okAll := true
	var walk func(stmts []ast.Stmt)
	walk = func(stmts []ast.Stmt) {
		for si, s := range stmts {
			if !okAll {
				return
			}
			var loopX ast.Expr
			var loopVar types.Object
			var loopBody *ast.BlockStmt
			switch st := s.(type) {
			case *ast.RangeStmt:
				loopX, loopBody = st.X, st.Body
				if st.Value != nil {
					loopVar = identObj(info, st.Value)
				}
			case *ast.ForStmt:
				// for i := 0; i < len(X); i++ { … X[i] … }
				as, ok1 := st.Init.(*ast.AssignStmt)
				be, ok2 := st.Cond.(*ast.BinaryExpr)
				inc, ok3 := st.Post.(*ast.IncDecStmt)
				if ok1 && ok2 && ok3 && as.Tok == token.DEFINE && len(as.Lhs) == 1 && len(as.Rhs) == 1 && be.Op == token.LSS && inc.Tok == token.INC {
					io := identObj(info, as.Lhs[0])
					z, okz := constUint(info, as.Rhs[0])
					if call, ok := unparen(be.Y).(*ast.CallExpr); ok && io != nil && okz && z == 0 && identObj(info, be.X) == io && identObj(info, inc.X) == io && !assignedIn(info, st.Body, io) && len(call.Args) == 1 {
						if id, ok := call.Fun.(*ast.Ident); ok && id.Name == "len" {
							if xo := identObj(info, unparen(call.Args[0])); xo != nil && !assignedIn(info, st.Body, xo) {
								loopX, loopBody = call.Args[0], st.Body
								loopVar = types.NewVar(st.Pos(), p.P.Types, xo.Name()+"["+io.Name()+"]", types.Typ[types.Int])
								indexed[xi{xo, io}] = loopVar
							}
						}
					}
				}
				if loopBody == nil {
					add(false, "R04.max", "Score.loops", st, "loop in the nest is not a range or index loop over a highest-severity vector table: undecided")
					okAll = false
					return
				}
			}
			switch st := s.(type) {
			case *ast.RangeStmt, *ast.ForStmt:
				// the table row may have been hoisted into a local: rows := table[EQ][level]
				rx := loopX
				if o := identObj(info, unparen(rx)); o != nil {
					if def, ok := hoisted[o]; ok {
						rx = def
					}
				}
				ix2, ok := unparen(rx).(*ast.IndexExpr)
				var ri rangeInfo
				ri.Stmt = st
				ri.Var = loopVar
				okShape := ok && loopVar != nil
				if okShape {
					ix1, ok := ix2.X.(*ast.IndexExpr)
					if !ok {
						// tableOfThisEQ[level]
						if tv, isVar := identObj(info, unparen(ix2.X)).(*types.Var); isVar && tv.Parent() == p.P.Types.Scope() {
							if k := eqIndex(identObj(info, ix2.Index)); k == 1 || k == 2 || k == 4 || k == 5 {
								ri.Table, ri.K, ri.PerEQ = tv, fmt.Sprint(k), true
							} else {
								okShape = false
							}
						} else {
							okShape = false
						}
					} else {
						tv, _ := identObj(info, ix1.X).(*types.Var)
						ri.Table = tv
						if c, isC := constUint(info, ix1.Index); isC {
							ri.K = fmt.Sprint(c)
							if eqIndex(identObj(info, ix2.Index)) != int(c) {
								add(false, "R04.sibling", "Score.loops["+ri.K+"]", st, fmt.Sprintf("the highest-severity vectors of EQ%d are selected with the level of another EQ", c))
							}
						} else if eqIndex(identObj(info, ix1.Index)) == 3 && eqIndex(identObj(info, ix2.Index)) == 6 {
							ri.K = "36"
						} else {
							okShape = false
						}
					}
				}
				if !okShape || ri.Table == nil || ri.Var == nil {
					add(false, "R04.max", "Score.loops", st, "range expression is not table[EQ][level]: undecided")
					okAll = false
					return
				}
				ln.Ranges = append(ln.Ranges, ri)
				rangeOf[ri.Var] = true
				walk(loopBody.List)
			case *ast.AssignStmt:
				if len(st.Lhs) != 1 || len(st.Rhs) != 1 {
					add(false, "R04.max", "Score.loopbody", s, "multi-assignment in the loop body: undecided")
					okAll = false
					return
				}
				lo := identObj(info, st.Lhs[0])
				if rv, pos, ok := digitOf(st.Rhs[0]); ok {
					ln.Digit[lo] = digitInfo{rv, pos}
					continue
				}
				if call, ok := st.Rhs[0].(*ast.CallExpr); ok {
					if fn := calleeOf(info, call); fn != nil && len(call.Args) == 3 {
						mc, okc := constUint(info, call.Args[0])
						vo := identObj(info, call.Args[1])
						if okc && vo != nil {
							sd := sdCall{Res: lo, MConst: int(mc), Val: vo, Call: call}
							if mo := identObj(info, call.Args[2]); mo != nil {
								if dg, has := ln.Digit[mo]; has {
									sd.Dig, sd.HasDig = dg, true
								}
							} else if rv, pos, ok := digitOf(call.Args[2]); ok {
								sd.Dig, sd.HasDig = digitInfo{rv, pos}, true
							}
							ln.SD = append(ln.SD, sd)
							continue
						}
					}
				}
				if r, okc := exactConst(info, st.Rhs[0]); okc && r.Sign() == 0 {
					ln.Zero[lo] = true
					continue
				}
				var parts []types.Object
				okSum := true
				var collect func(e ast.Expr)
				collect = func(e ast.Expr) {
					switch x := e.(type) {
					case *ast.ParenExpr:
						collect(x.X)
					case *ast.BinaryExpr:
						if x.Op != token.ADD {
							okSum = false
							return
						}
						collect(x.X)
						collect(x.Y)
					case *ast.Ident:
						parts = append(parts, identObj(info, x))
					default:
						okSum = false
					}
				}
				collect(st.Rhs[0])
				if okSum && len(parts) > 0 {
					ln.Sums[lo] = parts
					continue
				}
				add(false, "R04.max", "Score.loopbody", s, "assignment outside the loop-body language: undecided")
				okAll = false
				return
			case *ast.IfStmt:
				// the positive form, as the last statement of the loop body:
				// `if d1 >= 0 && d2 >= 0 && … { sums…; break }`
				if st.Init == nil && st.Else == nil && si == len(stmts)-1 && len(st.Body.List) >= 1 {
					pos := true
					var conj []types.Object
					var collectPos func(e ast.Expr)
					collectPos = func(e ast.Expr) {
						switch x := e.(type) {
						case *ast.ParenExpr:
							collectPos(x.X)
						case *ast.BinaryExpr:
							if x.Op == token.LAND {
								collectPos(x.X)
								collectPos(x.Y)
								return
							}
							if x.Op == token.GEQ {
								if r, okc := exactConst(info, x.Y); okc && r.Sign() == 0 {
									if o := identObj(info, x.X); o != nil {
										conj = append(conj, o)
										return
									}
								}
							}
							pos = false
						default:
							pos = false
						}
					}
					collectPos(st.Cond)
					if pos && len(conj) > 0 {
						for _, o := range conj {
							ln.Guard[o] = true
						}
						walk(st.Body.List)
						continue
					}
				}
				okG := st.Init == nil && st.Else == nil && len(st.Body.List) == 1
				if okG {
					br, isBr := st.Body.List[0].(*ast.BranchStmt)
					okG = isBr && br.Tok == token.CONTINUE && br.Label == nil
				}
				var collect func(e ast.Expr)
				collect = func(e ast.Expr) {
					switch x := e.(type) {
					case *ast.ParenExpr:
						collect(x.X)
					case *ast.BinaryExpr:
						if x.Op == token.LOR {
							collect(x.X)
							collect(x.Y)
							return
						}
						if x.Op == token.LSS {
							if r, okc := exactConst(info, x.Y); okc && r.Sign() == 0 {
								if o := identObj(info, x.X); o != nil {
									ln.Guard[o] = true
									return
								}
							}
						}
						okG = false
					default:
						okG = false
					}
				}
				collect(st.Cond)
				if !okG {
					add(false, "R04.max", "Score.loopbody", s, "conditional in the loop nest is not an `any distance < 0 → continue` filter: undecided")
					okAll = false
					return
				}
			case *ast.BranchStmt:
				if st.Tok == token.BREAK && st.Label == nil {
					continue
				}
				add(false, "R04.max", "Score.loopbody", s, "unexpected branch statement: undecided")
				okAll = false
				return
			case *ast.EmptyStmt:
			default:
				add(false, "R04.max", "Score.loopbody", s, fmt.Sprintf("statement %T outside the loop-nest language: undecided", s))
				okAll = false
				return
			}
		}
	}
	if _, isRange := m.loop.(*ast.RangeStmt); !isRange {
		add(false, "R04.max", "Score.loops", m.loop, "loop nest is not a nest of range loops over the highest-severity vector tables: undecided")
		return nil
	}
	walk([]ast.Stmt{m.loop})
	if !okAll {
		return nil
	}
	w.checkLoopNest(m, ln, add)
	return ln
}
