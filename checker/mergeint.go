package main

// Packages of the module that the four version packages import (a shared
// `internal/...` helper package) are merged into each importing package before
// anything is analysed: every rule of this checker reasons about one package at
// a time, and a call into another package of the same module would otherwise
// be "outside the package".
//
// The merge is a source-to-source transformation held in a go/packages overlay
// (nothing is written to the repository): the files of the imported package are
// copied into the importing package's directory under new names, their package
// clause replaced, every package-level identifier X of the imported package
// renamed to zz<pkg>_X (unexported, so the public API is unchanged) in the
// copies and at every qualified use `pkg.X`, and the import removed. Lines are
// kept (an import specification is blanked, not deleted), so positions in the
// importing package's own files still match the sources on disk. The result is
// type-checked like any other load; if it does not type-check, the load fails.
//
// The merged program is the same program: Go packages are namespaces, the
// imported package has no init-order dependent state the version packages could
// observe differently (package-level variables are copied per importer; a
// package-level variable that is *written* is reported by R14.globals in each
// copy), and types of the imported package are not exchanged between version
// packages through the public API (they are internal).

import (
	"fmt"
	"go/ast"
	"go/types"
	"os"
	"path/filepath"
	"sort"
	"strings"

	"golang.org/x/tools/go/packages"
)

type srcEdit struct {
	start, end int
	text       string
}

func applySrcEdits(src []byte, eds []srcEdit) ([]byte, error) {
	sort.Slice(eds, func(i, j int) bool { return eds[i].start > eds[j].start })
	out := string(src)
	last := len(out) + 1
	for _, e := range eds {
		if e.end > last || e.start > e.end {
			return nil, fmt.Errorf("overlapping edits")
		}
		out = out[:e.start] + e.text + out[e.end:]
		last = e.start
	}
	return []byte(out), nil
}

// mergeInternalPackages returns an overlay in which the module-internal
// packages imported by the given (version) packages are merged into them, or
// nil when there is nothing to merge.
func mergeInternalPackages(cfg *packages.Config, pkgs []*packages.Package, overlay map[string][]byte) (map[string][]byte, []string, error) {
	if len(pkgs) == 0 || pkgs[0].Module == nil {
		return nil, nil, nil
	}
	mod := pkgs[0].Module.Path
	version := map[string]bool{}
	for _, p := range pkgs {
		version[p.PkgPath] = true
	}
	isInternal := func(path string) bool {
		return strings.HasPrefix(path, mod+"/") && !version[path]
	}
	// transitive closure of internal imports, loaded with syntax and types
	need := map[string]bool{}
	var collect func(p *packages.Package)
	var todo []string
	for _, p := range pkgs {
		for path := range p.Imports {
			if isInternal(path) && !need[path] {
				need[path] = true
				todo = append(todo, path)
			}
		}
	}
	_ = collect
	if len(todo) == 0 {
		return nil, nil, nil
	}
	loaded := map[string]*packages.Package{}
	for len(todo) > 0 {
		batch := todo
		todo = nil
		c2 := *cfg
		ips, err := packages.Load(&c2, batch...)
		if err != nil {
			return nil, nil, fmt.Errorf("loading internal packages: %v", err)
		}
		for _, ip := range ips {
			if len(ip.Errors) > 0 || ip.Types == nil || ip.TypesInfo == nil {
				return nil, nil, fmt.Errorf("internal package %s does not load", ip.PkgPath)
			}
			loaded[ip.PkgPath] = ip
			for path := range ip.Imports {
				if isInternal(path) && !need[path] {
					need[path] = true
					todo = append(todo, path)
				}
			}
		}
	}
	newName := func(q *packages.Package, name string) string {
		return "zz" + q.Name + "_" + name
	}
	readSrc := func(name string) ([]byte, error) {
		if b, ok := overlay[name]; ok {
			return b, nil
		}
		return os.ReadFile(name)
	}
	// rewriteFile: qualified uses of internal packages and (for a file of an internal
	// package q) its own package-level identifiers are renamed; internal imports are blanked
	rewriteFile := func(pk *packages.Package, f *ast.File, self *packages.Package, newPkgName string) ([]byte, error) {
		fname := pk.Fset.Position(f.Pos()).Filename
		src, err := readSrc(fname)
		if err != nil {
			return nil, err
		}
		off := func(p ast.Node) (int, int) {
			return pk.Fset.Position(p.Pos()).Offset, pk.Fset.Position(p.End()).Offset
		}
		var eds []srcEdit
		info := pk.TypesInfo
		if newPkgName != "" {
			a, b := off(f.Name)
			eds = append(eds, srcEdit{a, b, newPkgName})
		}
		handled := map[*ast.Ident]bool{}
		var bad error
		ast.Inspect(f, func(n ast.Node) bool {
			switch x := n.(type) {
			case *ast.ImportSpec:
				path := strings.Trim(x.Path.Value, "\"`")
				if isInternal(path) {
					a, b := off(x)
					// keep the line: an empty import of a package already imported is harmless,
					// but simplest is a blank specification of a standard package
					eds = append(eds, srcEdit{a, b, "_ \"unsafe\""})
				}
				return false
			case *ast.SelectorExpr:
				if id, ok := x.X.(*ast.Ident); ok {
					if pn, ok := info.Uses[id].(*types.PkgName); ok && isInternal(pn.Imported().Path()) {
						q := loaded[pn.Imported().Path()]
						if q == nil {
							bad = fmt.Errorf("internal package %s not loaded", pn.Imported().Path())
							return false
						}
						a, b := off(x)
						eds = append(eds, srcEdit{a, b, newName(q, x.Sel.Name)})
						handled[id], handled[x.Sel] = true, true
						return false
					}
				}
			case *ast.Ident:
				if self == nil || handled[x] {
					return true
				}
				obj := info.Defs[x]
				if obj == nil {
					obj = info.Uses[x]
				}
				if obj == nil || obj.Pkg() != self.Types || obj.Parent() != self.Types.Scope() {
					return true
				}
				a, b := off(x)
				eds = append(eds, srcEdit{a, b, newName(self, x.Name)})
			}
			return true
		})
		if bad != nil {
			return nil, bad
		}
		return applySrcEdits(src, eds)
	}
	out := map[string][]byte{}
	for k, v := range overlay {
		out[k] = v
	}
	var notes []string
	for _, p := range pkgs {
		// which internal packages does p need (transitively)?
		uses := map[string]bool{}
		var walk func(imps map[string]*packages.Package)
		walk = func(imps map[string]*packages.Package) {
			for path := range imps {
				if isInternal(path) && !uses[path] {
					uses[path] = true
					if q := loaded[path]; q != nil {
						walk(q.Imports)
					}
				}
			}
		}
		walk(p.Imports)
		if len(uses) == 0 {
			continue
		}
		if len(p.GoFiles) == 0 {
			continue
		}
		dir := filepath.Dir(p.GoFiles[0])
		for _, f := range p.Syntax {
			fname := p.Fset.Position(f.Pos()).Filename
			b, err := rewriteFile(p, f, nil, "")
			if err != nil {
				return nil, nil, err
			}
			out[fname] = b
		}
		var qs []string
		for path := range uses {
			qs = append(qs, path)
		}
		sort.Strings(qs)
		for _, path := range qs {
			q := loaded[path]
			for _, f := range q.Syntax {
				fname := q.Fset.Position(f.Pos()).Filename
				b, err := rewriteFile(q, f, q, p.Name)
				if err != nil {
					return nil, nil, err
				}
				tag := strings.NewReplacer("/", "_", ".", "_").Replace(strings.TrimPrefix(path, mod+"/"))
				out[filepath.Join(dir, "zz_merged_"+tag+"_"+filepath.Base(fname))] = b
			}
			notes = append(notes, fmt.Sprintf("%s merged into %s", strings.TrimPrefix(path, mod+"/"), filepath.Base(p.PkgPath)))
		}
	}
	return out, notes, nil
}
