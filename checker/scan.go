package main

// R01.scan — a bounded, supplementary check of the element scanners.
//
// What the other parser rules leave open is whether the scanner hands exactly
// the '/'-separated elements of the input to the element logic (no element
// skipped, an empty element after a trailing '/' not silently dropped, …).
// That is a statement about every string; no sound static argument for the
// scanner loops is built here. Instead ParseVector is evaluated by the
// checker's own fragment evaluator (through every function it calls, loops
// included) on a small systematic family of inputs:
//
//	the base-only and the complete canonical vector of the version (the
//	specification's metrics in the specification's order, first legal value
//	each), each unchanged and with one bad element — "", "x" or ":" —
//	inserted at every position (including first and last, i.e. a leading
//	separator doubled and a trailing '/').
//
// Set is replaced by its contract (known metric and legal value: recorded,
// nil; otherwise an error), the v3 defined-once method likewise. Expected:
// the recorded (abbreviation, value) pairs are exactly the elements before the
// first bad one, in order; an input with a bad element is not accepted; the
// canonical vectors are accepted with every element recorded.
//
// This is a bounded tabulation (a few hundred inputs per version), stated as
// such in the evidence. Where the evaluator cannot run a parser (an operation
// outside its language) the rule gives no verdict — it has no floor and never
// reports "undecided" as a violation.

import (
	"fmt"
	"go/ast"
	"go/types"
	"strings"
)

func (w *World) rulesScan(p *Pkg, add func(ok bool, rule, inst string, n ast.Node, detail string)) {
	pv := p.Funcs["ParseVector"]
	setFn := p.method("Set")
	if pv == nil || pv.Body == nil || setFn == nil {
		return
	}
	ov := vocab[p.Key]
	sm := p.SetModel()
	// canonical tokens
	var base, full []string
	for _, g := range ov.Groups {
		for _, m := range g.Metrics {
			if len(m.Values) == 0 {
				continue
			}
			val := m.Values[0]
			if sl := sm.ByLabel[m.Abv]; sl != nil && len(sl.List) > 0 {
				// the first value Set itself accepts that the specification lists
				val = ""
				for _, v := range sl.List {
					for _, sv := range m.Values {
						if v == sv && val == "" {
							val = v
						}
					}
				}
				if val == "" {
					return // vocabulary mismatch: R09.values reports it
				}
			}
			tok := m.Abv + ":" + val
			full = append(full, tok)
			if g.Mandatory {
				base = append(base, tok)
			}
		}
	}
	if len(base) == 0 {
		return
	}
	header := ov.Header
	if header != "" && !strings.HasSuffix(header, "/") {
		header += "/"
	}
	// v2: optional groups are all-or-nothing; v3/v4: any subset in order — the two
	// canonical vectors (base only, everything) are legal in every version
	type input struct {
		toks []string
		bad  int // index of the first bad element, -1 if none
		// cut probe: element `bad` has a known abbreviation and an illegal value
		// spelled with zero or two ':'; Set must be offered exactly (abv, cutVal)
		cut            bool
		cutAbv, cutVal string
		// v2.0: more elements than the splitter has slots — the rest arrives glued to
		// the last metric's value; only "not accepted, nothing out of order" is expected
		long bool
	}
	var inputs []input
	bads := []string{"", "x", ":"}
	canons := [][]string{base, full}
	if w.Tier == "thorough" {
		// more bad elements, and every prefix of the complete vector that is itself
		// a sequence of whole elements (the scanner must behave alike on all of them)
		bads = append(bads, " ", "x:y", "::", "/x"[1:], "AV", "av:n")
		for k := len(base) + 1; k < len(full); k++ {
			canons = append(canons, full[:k])
		}
	}
	for ci, canon := range canons {
		if ci < 2 {
			inputs = append(inputs, input{toks: append([]string(nil), canon...), bad: -1})
		}
		for j := 0; j <= len(canon); j++ {
			if ci >= 2 && j < len(canon)-1 {
				continue // for the extra prefixes: bad element at the end and just before it
			}
			for _, b := range bads {
				t := append(append(append([]string(nil), canon[:j]...), b), canon[j:]...)
				inputs = append(inputs, input{toks: t, bad: j, long: p.Key == "20" && len(t) > 14})
			}
		}
	}
	// cut probes on the base vector: "ABV:v:v" (value keeps what follows the first
	// ':') and "ABV" (no ':': empty value) at the first, a middle and the last position
	cutPos := []int{0, len(base) / 2, len(base) - 1}
	if w.Tier == "thorough" {
		cutPos = nil
		for j := range base {
			cutPos = append(cutPos, j)
		}
	}
	for _, j := range cutPos {
		a, v, _ := strings.Cut(base[j], ":")
		for _, el := range [][2]string{{a + ":" + v + ":" + v, v + ":" + v}, {a, ""}} {
			t := append([]string(nil), base...)
			t[j] = el[0]
			inputs = append(inputs, input{toks: t, bad: j, cut: true, cutAbv: a, cutVal: el[1]})
		}
	}
	// the defined-once method (v3), if it is a call
	var kvmFn *ast.FuncDecl
	if ov.Order == "free" {
		if ks := p.kvmSem(p.parseModelOf()); ks != nil && ks.Fn != nil {
			kvmFn = ks.Fn
		}
	}
	poolN := 14
	p.scanLongN, p.scanLongBad = 0, ""
	type rec struct{ abv, val string }
	nEval, nBad := 0, 0
	nCut, cutBad := 0, ""
	var firstBad string
	for _, in := range inputs {
		var got []rec
		var attempts []rec
		var examined []string
		seen := map[string]bool{}
		ce := newCEnv(p, make([]uint8, len(p.Fields)))
		ce.loops = true
		ce.loopMax = 4096
		ce.hook = func(e *cEnv, call *ast.CallExpr, fn *types.Func, args []Val) (Val, bool, error) {
			fd := p.FuncObj[fn]
			switch {
			case fd != nil && fd == setFn:
				if len(args) != 2 || args[0].K != VStr || args[1].K != VStr {
					return Val{}, true, undecidedf(call, "Set called with values the evaluator does not follow")
				}
				attempts = append(attempts, rec{args[0].S, args[1].S})
				m := sm.ByLabel[args[0].S]
				legal := false
				if m != nil {
					for _, v := range m.List {
						if v == args[1].S {
							legal = true
						}
					}
				}
				if !legal {
					return Val{K: VOpaque, S: "set-error"}, true, nil
				}
				got = append(got, rec{args[0].S, args[1].S})
				return Val{K: VNil}, true, nil
			case fd != nil && kvmFn != nil && fd == kvmFn:
				var a string
				for _, x := range args {
					if x.K == VStr {
						a = x.S
					}
				}
				examined = append(examined, a)
				if sm.ByLabel[a] == nil || seen[a] {
					return Val{K: VOpaque, S: "kvm-error"}, true, nil
				}
				seen[a] = true
				return Val{K: VNil}, true, nil
			}
			if fn.Pkg() != nil && fn.Pkg().Path() == "sync" {
				if fn.Name() == "Get" {
					var t []Val
					for i := 0; i < poolN; i++ {
						t = append(t, vStr(""))
					}
					return Val{K: VList, T: t}, true, nil
				}
				return Val{K: VOpaque, S: "pool"}, true, nil
			}
			return Val{}, false, nil
		}
		s := header + strings.Join(in.toks, "/")
		v, err := ce.callFunc(pv, []Val{vStr(s)}, pv)
		if err != nil {
			if _, isPanic := err.(*panicked); isPanic {
				nEval++
				nBad++
				if firstBad == "" {
					firstBad = fmt.Sprintf("ParseVector(%q) panics", s)
				}
				continue
			}
			add(true, "R01.scan", "ParseVector.scan", pv, "not evaluated: the fragment evaluator cannot run this parser ("+err.Error()+posSuffix(p, err)+"); no verdict from this bounded rule")
			return
		}
		if v.K != VTuple || len(v.T) != 2 {
			add(true, "R01.scan", "ParseVector.scan", pv, "not evaluated: ParseVector's result is not followed by the evaluator; no verdict from this bounded rule")
			return
		}
		nEval++
		accepted := v.T[1].K == VNil
		limit := len(in.toks)
		if in.bad >= 0 {
			limit = in.bad
		}
		var want []rec
		for _, t := range in.toks[:limit] {
			a, val, _ := strings.Cut(t, ":")
			want = append(want, rec{a, val})
		}
		if in.long {
			// what must hold whatever the splitter does with the surplus: refused, and
			// the elements handed on before the refusal are the input's, in order
			p.scanLongN++
			bad := ""
			if accepted {
				bad = fmt.Sprintf("ParseVector(%q) is accepted although it has %d elements for 14 metrics (element %d is %q)", s, len(in.toks), in.bad, in.toks[in.bad])
			}
			for i := range got {
				if i >= len(want) || got[i] != want[i] {
					bad = fmt.Sprintf("for the over-long %q the element logic received %v, the elements before the first bad one are %v", s, got, want)
					break
				}
			}
			if bad != "" {
				nBad++
				if firstBad == "" {
					firstBad = bad
				}
				if p.scanLongBad == "" {
					p.scanLongBad = bad
				}
			}
			continue
		}
		if in.cut {
			// the element reaches Set (its abbreviation is known and in place): with which value?
			nCut++
			okCut := len(attempts) > 0 && attempts[len(attempts)-1] == rec{in.cutAbv, in.cutVal} && !accepted
			if !okCut && cutBad == "" {
				last := "nothing"
				if len(attempts) > 0 {
					last = fmt.Sprintf("(%q, %q)", attempts[len(attempts)-1].abv, attempts[len(attempts)-1].val)
				}
				cutBad = fmt.Sprintf("for the element %q Set is offered %s, expected (%q, %q) — the part before and the part after the first ':'", in.toks[in.bad], last, in.cutAbv, in.cutVal)
				if accepted {
					cutBad += "; and the vector is accepted"
				}
			}
		}
		problem := ""
		// with the defined-once method replaced by its contract the statements after
		// the loop see an empty record: acceptance is then not observable, the
		// elements handed to that method are
		var wantExamined []string
		if kvmFn != nil {
			upto := len(in.toks)
			if in.bad >= 0 {
				upto = in.bad + 1
			}
			for _, t := range in.toks[:upto] {
				a, _, _ := strings.Cut(t, ":")
				wantExamined = append(wantExamined, a)
			}
		}
		switch {
		case kvmFn == nil && in.bad >= 0 && accepted:
			problem = fmt.Sprintf("ParseVector(%q) is accepted although element %d (%q) is not a metric", s, in.bad, in.toks[in.bad])
		case kvmFn == nil && in.bad < 0 && !accepted:
			problem = fmt.Sprintf("the canonical vector %q is rejected", s)
		case kvmFn != nil && strings.Join(examined, "\x00") != strings.Join(wantExamined, "\x00"):
			problem = fmt.Sprintf("for %q the elements examined are %q, expected %q (every element up to and including the first bad one)", s, examined, wantExamined)
		default:
			same := len(got) == len(want)
			for i := 0; same && i < len(got); i++ {
				if got[i] != want[i] {
					same = false
				}
			}
			if !same {
				problem = fmt.Sprintf("for %q the element logic received %v, the elements before the first bad one are %v", s, got, want)
			}
		}
		if problem != "" {
			nBad++
			if firstBad == "" {
				firstBad = problem
			}
		}
	}
	p.scanCutN, p.scanCutBad, p.scanDone = nCut, cutBad, true
	if cutBad != "" {
		nBad++
		if firstBad == "" {
			firstBad = cutBad
		}
	}
	if nBad == 0 {
		add(true, "R01.scan", "ParseVector.scan", pv, fmt.Sprintf("(bounded check) on %d inputs — the base-only and complete canonical vectors, each with a bad element (\"\", \"x\", \":\") inserted at every position — the element logic receives exactly the elements before the first bad one and no input with a bad element (a trailing '/' included) is accepted", nEval))
	} else {
		add(false, "R01.scan", "ParseVector.scan", pv, fmt.Sprintf("%d of %d inputs mishandled by the scanner; first: %s", nBad, nEval, firstBad))
	}
}
