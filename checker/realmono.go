package main

// R12.real: monotonicity of the v2/v3 score formulas *in exact real
// arithmetic*. The canonical formula tree extracted from each scoring method
// (the same tree R03/R05.formula compare with the specification) is evaluated
// with exact rationals over every combination of the metric values it
// mentions (weights from the code's own tabulated tables), and every
// single-metric step to the next more severe value must not lower the score.
// This is evaluation of the extracted model, not of the repository's code, and
// it says nothing about float64 rounding.

import (
	"fmt"
	"go/ast"
	"math/big"
	"runtime"
	"sort"
	"strings"
	"sync"
)

type rtEnv struct {
	tie     bool                           // set when a Round/RoundToEven argument is exactly half-way
	vals    map[string]string              // metric-level name ("C", "eC", ...) -> value string
	weights map[string]map[string]*big.Rat // "C" -> value -> weight ; "PR|S" -> "L|C" -> weight
}

var ratTen = big.NewRat(10, 1)

func ratFloor(x *big.Rat) *big.Rat {
	q := new(big.Int).Div(x.Num(), x.Denom()) // Euclidean for positive denominators: floor
	return new(big.Rat).SetInt(q)
}

func ratRoundHalfAway(x *big.Rat) *big.Rat {
	half := big.NewRat(1, 2)
	if x.Sign() >= 0 {
		return ratFloor(new(big.Rat).Add(x, half))
	}
	n := ratFloor(new(big.Rat).Add(new(big.Rat).Neg(x), half))
	return n.Neg(n)
}

func ratRoundHalfEven(x *big.Rat) *big.Rat {
	f := ratFloor(x)
	d := new(big.Rat).Sub(x, f)
	half := big.NewRat(1, 2)
	switch d.Cmp(half) {
	case -1:
		return f
	case 1:
		return f.Add(f, big.NewRat(1, 1))
	}
	if new(big.Int).Rem(f.Num(), big.NewInt(2)).Sign() == 0 {
		return f
	}
	return f.Add(f, big.NewRat(1, 1))
}

// roundDefs: the oracle rounding bodies, evaluated exactly
func (e *rtEnv) evalRound(name string, x *big.Rat, roundTree *Ex) (*big.Rat, error) {
	return e.eval(roundTree, map[string]*big.Rat{"x": x}, nil)
}

func (e *rtEnv) eval(t *Ex, free map[string]*big.Rat, rounds map[string]*Ex) (*big.Rat, error) {
	switch t.Op {
	case "const":
		return t.C, nil
	case "sym":
		if v, ok := free[t.Name]; ok {
			return v, nil
		}
		if strings.HasPrefix(t.Name, "W(") {
			names := strings.Split(strings.TrimSuffix(strings.TrimPrefix(t.Name, "W("), ")"), "|")
			var bases, vals []string
			for _, n := range names {
				v, ok := e.vals[n]
				if !ok {
					return nil, fmt.Errorf("no value for %s", n)
				}
				vals = append(vals, v)
				bases = append(bases, strings.TrimPrefix(n, "e"))
				if _, isBase := e.weights[n]; isBase && len(names) == 1 {
					bases[len(bases)-1] = n
				}
			}
			tbl := e.weights[strings.Join(bases, "|")]
			if tbl == nil {
				return nil, fmt.Errorf("no weight table for %s", t.Name)
			}
			w := tbl[strings.Join(vals, "|")]
			if w == nil {
				return nil, fmt.Errorf("no weight for %s=%s", t.Name, strings.Join(vals, "|"))
			}
			return w, nil
		}
		return nil, fmt.Errorf("free symbol %s", t.Name)
	case "sum":
		r := new(big.Rat)
		for _, a := range t.Args {
			v, err := e.eval(a, free, rounds)
			if err != nil {
				return nil, err
			}
			r.Add(r, v)
		}
		return r, nil
	case "prod":
		r := big.NewRat(1, 1)
		for _, a := range t.Args {
			v, err := e.eval(a, free, rounds)
			if err != nil {
				return nil, err
			}
			r.Mul(r, v)
		}
		return r, nil
	case "pow":
		v, err := e.eval(t.Args[0], free, rounds)
		if err != nil {
			return nil, err
		}
		r := big.NewRat(1, 1)
		for i := 0; i < t.N; i++ {
			r.Mul(r, v)
		}
		return r, nil
	case "div":
		a, err := e.eval(t.Args[0], free, rounds)
		if err != nil {
			return nil, err
		}
		b, err := e.eval(t.Args[1], free, rounds)
		if err != nil {
			return nil, err
		}
		if b.Sign() == 0 {
			return nil, fmt.Errorf("division by zero")
		}
		return new(big.Rat).Quo(a, b), nil
	case "ite":
		var c bool
		if t.Cond.Kind == "in" {
			// "names in {t1;t2}"
			i := strings.Index(t.Cond.Atom, " in {")
			names := strings.Split(t.Cond.Atom[:i], ",")
			set := strings.Split(strings.TrimSuffix(t.Cond.Atom[i+5:], "}"), ";")
			var cur []string
			for _, n := range names {
				cur = append(cur, e.vals[n])
			}
			key := strings.Join(cur, ",")
			for _, s := range set {
				if s == key {
					c = true
				}
			}
		} else {
			l, err := e.eval(t.Cond.L, free, rounds)
			if err != nil {
				return nil, err
			}
			r, err := e.eval(t.Cond.R, free, rounds)
			if err != nil {
				return nil, err
			}
			switch t.Cond.Op {
			case "==":
				c = l.Cmp(r) == 0
			case "<=":
				c = l.Cmp(r) <= 0
			case "<":
				c = l.Cmp(r) < 0
			}
		}
		if c {
			return e.eval(t.Args[0], free, rounds)
		}
		return e.eval(t.Args[1], free, rounds)
	case "call":
		var args []*big.Rat
		for _, a := range t.Args {
			v, err := e.eval(a, free, rounds)
			if err != nil {
				return nil, err
			}
			args = append(args, v)
		}
		switch t.Name {
		case "min":
			m := args[0]
			for _, a := range args[1:] {
				if a.Cmp(m) < 0 {
					m = a
				}
			}
			return m, nil
		case "max":
			m := args[0]
			for _, a := range args[1:] {
				if a.Cmp(m) > 0 {
					m = a
				}
			}
			return m, nil
		case "Round", "RoundToEven":
			fr := new(big.Rat).Sub(args[0], ratFloor(args[0]))
			if fr.Cmp(big.NewRat(1, 2)) == 0 {
				e.tie = true
			}
			if t.Name == "Round" {
				return ratRoundHalfAway(args[0]), nil
			}
			return ratRoundHalfEven(args[0]), nil
		case "Floor":
			return ratFloor(args[0]), nil
		case "Ceil":
			f := ratFloor(args[0])
			if f.Cmp(args[0]) != 0 {
				f.Add(f, big.NewRat(1, 1))
			}
			return f, nil
		case "int", "float":
			if t.Name == "int" {
				// truncation toward zero
				if args[0].Sign() >= 0 {
					return ratFloor(args[0]), nil
				}
				n := ratFloor(new(big.Rat).Neg(args[0]))
				return n.Neg(n), nil
			}
			return args[0], nil
		case "idiv":
			a, b := args[0], args[1]
			if !a.IsInt() || !b.IsInt() || b.Sign() == 0 {
				return nil, fmt.Errorf("idiv on non-integers")
			}
			return new(big.Rat).SetInt(new(big.Int).Quo(a.Num(), b.Num())), nil
		case "imod":
			a, b := args[0], args[1]
			if !a.IsInt() || !b.IsInt() || b.Sign() == 0 {
				return nil, fmt.Errorf("imod on non-integers")
			}
			return new(big.Rat).SetInt(new(big.Int).Rem(a.Num(), b.Num())), nil
		case "ru", "r1":
			rt := rounds[t.Name]
			if rt == nil {
				return nil, fmt.Errorf("no rounding definition")
			}
			return e.eval(rt, map[string]*big.Rat{"x": args[0]}, rounds)
		}
		return nil, fmt.Errorf("call %s", t.Name)
	}
	return nil, fmt.Errorf("node %s", t.Op)
}

// namesOfTree: metric-level names mentioned by the tree
func namesOfTree(t *Ex) []string {
	set := map[string]bool{}
	for s := range symbolsOf(t) {
		for _, n := range metricsOfSymbol(s) {
			set[n] = true
		}
	}
	var out []string
	for n := range set {
		out = append(out, n)
	}
	sort.Strings(out)
	return out
}

// severity-ordered domain (least -> most severe) of a metric-level name, without the not-defined token
func (p *Pkg) severityDomain(name string) []string {
	ov := vocab[p.Key]
	base := strings.TrimPrefix(name, "e")
	if ov.byAbv[name] != nil {
		base = name
	}
	om := ov.byAbv[base]
	if om == nil {
		return nil
	}
	var out []string
	for _, v := range om.Values {
		if v == ov.ND && om.Default != "" {
			continue
		}
		out = append(out, v)
	}
	return out
}

// codeWeights tabulates the code's weight helpers: "C" -> value -> weight, "PR|S" -> "L|C" -> weight.
func (p *Pkg) codeWeights(ctx *symCtx) map[string]map[string]*big.Rat {
	weights := map[string]map[string]*big.Rat{}
	for _, u := range ctx.uses {
		var bases []string
		var doms [][]string
		for _, a := range u.Args {
			bases = append(bases, a.Metric)
			doms = append(doms, p.atomDomain(a.Name()))
		}
		key := strings.Join(bases, "|")
		if weights[key] != nil {
			continue
		}
		tbl := map[string]*big.Rat{}
		cur := make([]int, len(doms))
		var rec func(i int)
		rec = func(i int) {
			if i == len(doms) {
				var vals []string
				for j := range doms {
					vals = append(vals, doms[j][cur[j]])
				}
				v, err := u.eval(p, cur)
				if err == nil && (v.K == VRat || v.K == VInt) {
					tbl[strings.Join(vals, "|")] = toRat(v)
				}
				return
			}
			for c := range doms[i] {
				cur[i] = c
				rec(i + 1)
			}
		}
		rec(0)
		weights[key] = tbl
	}
	return weights
}

func (w *World) rulesRealMono(p *Pkg, ctx *symCtx, trees map[string]*Ex, roundTree *Ex, roundSym string, out *[]Obligation) {
	k := p.Key
	if w.Wants != nil && !w.Wants("R12.real") {
		return
	}
	add := func(ok bool, inst string, n ast.Node, detail string) {
		*out = append(*out, Obligation{Rule: "R12.real", Instance: k + "." + inst, Pos: p.pos(n), OK: ok, Detail: detail, NonTrivial: true})
	}
	weights := p.codeWeights(ctx)
	rounds := map[string]*Ex{roundSym: roundTree}
	methods := []string{"BaseScore", "TemporalScore"}
	if k == "31" {
		methods = append(methods, "EnvironmentalScore")
	}
	for _, mname := range methods {
		t := trees[mname]
		fd := p.method(mname)
		if t == nil || roundTree == nil {
			// the formula or the rounding helper was not recognised: that is C03/C05's
			// finding, not a monotonicity violation
			*out = append(*out, Obligation{Rule: "R12.real", Instance: k + "." + mname, Pos: p.pos(fd), OK: true, NonTrivial: false,
				Detail: "not decided in this run: the formula tree or the rounding helper of this method was not recognised (reported by R03/R05.formula or .round)"})
			continue
		}
		names := namesOfTree(t)
		var doms [][]string
		size := 1
		for _, n := range names {
			d := p.severityDomain(n)
			if len(d) == 0 {
				add(false, mname, fd, "no severity order for "+n+": undecided")
				size = 0
				break
			}
			doms = append(doms, d)
			size *= len(d)
		}
		if size == 0 {
			continue
		}
		// quick tier: temporal metrics of the environmental score fixed at their most severe value (weight 1)
		fixed := map[int]bool{}
		note := ""
		if mname == "EnvironmentalScore" && w.Tier != "thorough" {
			for i, n := range names {
				if n == "E" || n == "RL" || n == "RC" {
					fixed[i] = true
				}
			}
			note = " (quick tier: E, RL, RC held at their most severe value; the thorough tier enumerates them too)"
		}
		total := 1
		strides := make([]int, len(names))
		for i := range names {
			strides[i] = total
			if !fixed[i] {
				total *= len(doms[i])
			}
		}
		if total > 6_000_000 {
			add(false, mname, fd, fmt.Sprintf("%d combinations: too many to enumerate (undecided)", total))
			continue
		}
		scores := make([]int32, total) // score * 100000 as integer (exact for one-decimal values; checked)
		var firstErr error
		var mu sync.Mutex
		nw := runtime.NumCPU()
		if nw > 16 {
			nw = 16
		}
		var wg sync.WaitGroup
		for wi := 0; wi < nw; wi++ {
			wg.Add(1)
			go func(wi int) {
				defer wg.Done()
				env := &rtEnv{vals: map[string]string{}, weights: weights}
				for idx := wi; idx < total; idx += nw {
					rem := idx
					for i, n := range names {
						if fixed[i] {
							env.vals[n] = doms[i][len(doms[i])-1]
							continue
						}
						env.vals[n] = doms[i][rem%len(doms[i])]
						rem /= len(doms[i])
					}
					v, err := env.eval(t, nil, rounds)
					if err != nil {
						mu.Lock()
						if firstErr == nil {
							firstErr = err
						}
						mu.Unlock()
						return
					}
					x := new(big.Rat).Mul(v, big.NewRat(100000, 1))
					if !x.IsInt() || !x.Num().IsInt64() {
						mu.Lock()
						if firstErr == nil {
							firstErr = fmt.Errorf("score %s is not a multiple of 1e-5", v.RatString())
						}
						mu.Unlock()
						return
					}
					scores[idx] = int32(x.Num().Int64())
				}
			}(wi)
		}
		wg.Wait()
		if firstErr != nil {
			add(false, mname, fd, "cannot evaluate the formula tree exactly (undecided): "+firstErr.Error())
			continue
		}
		// every single-metric step towards more severe must not lower the score
		bad := 0
		steps := 0
		first := ""
		for idx := 0; idx < total; idx++ {
			rem := idx
			for i := range names {
				if fixed[i] {
					continue
				}
				c := rem % len(doms[i])
				rem /= len(doms[i])
				if c+1 < len(doms[i]) {
					steps++
					j := idx + strides[i]
					if scores[j] < scores[idx] {
						bad++
						if first == "" {
							var parts []string
							r2 := idx
							for q, n := range names {
								if fixed[q] {
									continue
								}
								parts = append(parts, n+":"+doms[q][r2%len(doms[q])])
								r2 /= len(doms[q])
							}
							first = fmt.Sprintf("%s: raising %s from %s to %s lowers the score from %.1f to %.1f", strings.Join(parts, "/"), names[i], doms[i][c], doms[i][c+1], float64(scores[idx])/100000, float64(scores[j])/100000)
						}
					}
				}
			}
		}
		if bad == 0 {
			add(true, mname, fd, fmt.Sprintf("exact evaluation of the formula tree on %d value combinations, %d single-metric severity steps: none lowers the score (real arithmetic)%s", total, steps, note))
		} else {
			add(false, mname, fd, fmt.Sprintf("%d of %d severity steps lower the score in exact arithmetic; e.g. %s%s", bad, steps, first, note))
		}
		if w.Extra["realmono_evaluations"] == nil {
			w.Extra["realmono_evaluations"] = 0
		}
		w.Extra["realmono_evaluations"] = w.Extra["realmono_evaluations"].(int) + total
	}
}
