package main

// Semantic fallback for the rules that speak about the v2.0 part splitter
// (R01.split, R14.pool split.writes) when its shape is not the recognised
// counting loop. Like R01.scan this is a *bounded tabulation*, labelled so in
// its verdicts: the splitter is evaluated by the fragment evaluator on a
// family of strings and its observable contract is compared with what the
// parser relies on:
//
//	for 0..N+3 separators, with distinct element texts and with an empty
//	element first / in the middle / last (the trailing '/'):
//	  - it reports c parts, c = min(#elements, N') for one N' with Σ ≤ N' ≤ N
//	    (Σ metrics in the order table, N slots in the destination);
//	  - slots 0..c-1 hold the elements, the last one the whole remainder when
//	    the input has more — every reported slot was written in this call (the
//	    destination is pre-filled with a marker that must be gone);
//	  - the returned integer is c (count convention) or c-1 (last-index
//	    convention), the same for all inputs.
//
// The convention found is what the caller's reslice is compared with.

import (
	"fmt"
	"go/ast"
	"go/types"
	"strings"
)

type splitSem struct {
	decided bool // the evaluator could run the splitter
	ok      bool
	why     string
	delta   int // 0: returns the count, 1: returns the last index
	nEff    int // parts at which cutting stops
	evals   int
}

const staleMark = "\x00stale"

// splitDest finds the splitter called from ParseVector as f(dst, vector) and
// the number of slots of dst: the length of the pointed-to array, or of the
// slice the pool's New function makes.
func (p *Pkg) splitDest(m *parseModel) (sfd *ast.FuncDecl, n int, dstFirst bool) {
	info := p.Info
	home, prm := m.fd, m.param
	if pv := p.Funcs["ParseVector"]; pv != nil && pv != m.fd && pv.Body != nil {
		if ps := paramObjs(info, pv); len(ps) == 1 {
			home, prm = pv, ps[0]
		}
	}
	n = -1
	ast.Inspect(home.Body, func(x ast.Node) bool {
		c, ok := x.(*ast.CallExpr)
		if !ok || len(c.Args) != 2 || sfd != nil {
			return true
		}
		fn := calleeOf(info, c)
		if fn == nil || fn.Pkg() != p.P.Types || p.FuncObj[fn] == nil {
			return true
		}
		for i := 0; i < 2; i++ {
			if identObj(info, c.Args[i]) != prm {
				continue
			}
			sig := fn.Type().(*types.Signature)
			dt := sig.Params().At(1 - i).Type()
			switch u := dt.Underlying().(type) {
			case *types.Pointer:
				if at, ok := u.Elem().Underlying().(*types.Array); ok && isStringT(at.Elem()) {
					sfd, n, dstFirst = p.FuncObj[fn], int(at.Len()), i == 1
				}
			case *types.Slice:
				if isStringT(u.Elem()) {
					sfd, dstFirst = p.FuncObj[fn], i == 1
				}
			}
		}
		return true
	})
	if sfd != nil && n < 0 {
		// make([]string, N) in a function literal (the pool's New)
		for _, f := range p.P.Syntax {
			ast.Inspect(f, func(x ast.Node) bool {
				if fl, ok := x.(*ast.FuncLit); ok {
					ast.Inspect(fl.Body, func(y ast.Node) bool {
						if c, ok := y.(*ast.CallExpr); ok {
							if id, ok := c.Fun.(*ast.Ident); ok && id.Name == "make" && len(c.Args) >= 2 {
								if tv, ok := info.Types[c.Args[0]]; ok && tv.Type.String() == "[]string" {
									if u, ok := constUint(info, c.Args[1]); ok {
										n = int(u)
									}
								}
							}
						}
						return true
					})
				}
				return true
			})
		}
	}
	return
}

func (p *Pkg) splitSemantics(m *parseModel) *splitSem {
	if p.splitSemDone {
		return p.splitSemRes
	}
	p.splitSemDone = true
	res := &splitSem{}
	p.splitSemRes = res
	sfd, N, dstFirst := p.splitDest(m)
	if sfd == nil || N <= 0 || N > 64 {
		res.why = "no splitter f(destination, vector) with a destination of known size is called from ParseVector"
		return res
	}
	sigma := 0
	for _, g := range vocab[p.Key].Groups {
		sigma += len(g.Metrics)
	}
	if _, ord, _, _ := p.orderTable(); ord != nil {
		sigma = 0
		for _, g := range ord {
			sigma += len(g)
		}
	}
	type obs struct {
		in    string
		elems []string
		ret   int
		slots []string
	}
	var all []obs
	run := func(elems []string) (obs, error) {
		in := strings.Join(elems, "/")
		dst := Val{K: VList}
		for i := 0; i < N; i++ {
			dst.T = append(dst.T, vStr(staleMark))
		}
		ce := newCEnv(p, nil)
		ce.loops = true
		ce.loopMax = 4096
		args := []Val{dst, vStr(in)}
		if !dstFirst {
			args = []Val{vStr(in), dst}
		}
		v, err := ce.callFunc(sfd, args, sfd)
		if err != nil {
			return obs{}, err
		}
		if v.K != VInt {
			return obs{}, fmt.Errorf("the splitter does not return an integer")
		}
		o := obs{in: in, elems: elems, ret: int(v.I)}
		for _, s := range dst.T {
			if s.K != VStr {
				return obs{}, fmt.Errorf("a slot holds something other than a string")
			}
			o.slots = append(o.slots, s.S)
		}
		return o, nil
	}
	var inputs [][]string
	for j := 0; j <= N+3; j++ {
		var e []string
		for k := 0; k <= j; k++ {
			e = append(e, fmt.Sprintf("e%d:v", k))
		}
		inputs = append(inputs, e)
		for _, pos := range []int{0, j / 2, j} {
			c := append([]string(nil), e...)
			c[pos] = ""
			inputs = append(inputs, c)
		}
	}
	for _, in := range inputs {
		o, err := run(in)
		if err != nil {
			if pe, isPanic := err.(*panicked); isPanic {
				res.decided, res.why = true, fmt.Sprintf("(bounded check) the splitter panics on %q: %s", strings.Join(in, "/"), pe.msg)
				return res
			}
			res.why = "the splitter cannot be evaluated: " + err.Error() + posSuffix(p, err)
			return res
		}
		all = append(all, o)
	}
	res.decided = true
	res.evals = len(all)
	// the convention and the effective capacity, from the longest input
	long := all[len(all)-1]
	delta := -1
	for _, d := range []int{0, 1} {
		c := long.ret + d
		if c >= 1 && c <= N && long.slots[c-1] != staleMark {
			// c parts reported for an over-long input: that is N'
			if c < len(long.elems) && (c == N || long.slots[c] == staleMark) {
				delta, res.nEff = d, c
				break
			}
		}
	}
	if delta < 0 {
		res.why = fmt.Sprintf("(bounded check) for an input of %d elements the splitter returns %d, which is neither the count nor the last index of the slots it filled", len(long.elems), long.ret)
		return res
	}
	res.delta = delta
	if res.nEff < sigma || res.nEff > N {
		res.why = fmt.Sprintf("(bounded check) cutting stops at %d parts, the order table has %d metrics and the destination %d slots: need %d <= parts <= %d", res.nEff, sigma, N, sigma, N)
		return res
	}
	for _, o := range all {
		want := o.elems
		if len(want) > res.nEff {
			want = append(append([]string(nil), o.elems[:res.nEff-1]...), strings.Join(o.elems[res.nEff-1:], "/"))
		}
		c := o.ret + delta
		if c != len(want) {
			res.why = fmt.Sprintf("(bounded check) split(%q) reports %d part(s), the input has %d (cut at most %d times)", o.in, c, len(want), res.nEff-1)
			return res
		}
		for i, w := range want {
			switch {
			case o.slots[i] == staleMark:
				res.why = fmt.Sprintf("(bounded check) split(%q) reports %d part(s) but does not write slot %d in this call: the parser would read an entry left by an earlier call", o.in, c, i)
				return res
			case o.slots[i] != w:
				res.why = fmt.Sprintf("(bounded check) split(%q) puts %q in slot %d, expected %q (the last slot takes the whole remainder)", o.in, o.slots[i], i, w)
				return res
			}
		}
	}
	res.ok = true
	conv := "the number of parts"
	if delta == 1 {
		conv = "the index of the last part"
	}
	res.why = fmt.Sprintf("(bounded check) on %d inputs (0..%d separators, distinct elements, an empty element first / in the middle / last) %s fills slots 0..c-1 of its %d-slot destination in this call with the '/'-separated elements, stops cutting at %d parts (order table: %d metrics) leaving the whole remainder in the last one, and returns %s", res.evals, N+3, sfd.Name.Name, N, res.nEff, sigma, conv)
	return res
}
