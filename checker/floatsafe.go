package main

// R03.float / R05.float: float64-stability of the score formulas.
//
// R03/R05.formula prove that each scoring method computes the specification's
// *real-valued* expression. This rule adds the float64 half for every metric
// combination: the canonical tree is evaluated in the checker together with a
// forward rounding-error bound that is valid for ANY IEEE-754 binary64
// evaluation of the same real expression (any association order, with or
// without fused multiply-add, constants rounded anywhere), and each
// discontinuous step of the formula (the rounding helpers' Round/RoundToEven,
// the comparisons `x <= 0`, `x == 0`) is shown to be at a distance from its
// discontinuity larger than that bound. When that holds for a combination, the
// float64 code and the exact real evaluation take the same branch and round to
// the same integer, hence return the same one-decimal score. Combinations that
// sit within the bound of a discontinuity (exact ties, e.g. the v2 half-way
// cases) are counted as "not decided" — never as violations.
//
// Error model (trusted): every + − * / rounds to nearest with relative error
// <= u = 2^-53 (an FMA rounds once: smaller error); literals are rounded once or
// are folded from at most three rounded literals (allowance 4u); math.Min/Max,
// Round, Floor, RoundToEven and integer conversion are exact on their float
// argument. Order-independent bounds are used: a k-ary sum contributes
// (k−1)·u·Σ|term|, a k-ary product (k−1)·u relative.

import (
	"fmt"
	"go/ast"
	"math"
	"math/big"
	"runtime"
	"strings"
	"sync"
)

const uRound = 1.1102230246251565e-16 // 2^-53

type fnode struct {
	op     string
	c      float64
	cExact bool
	cInt   bool
	kids   []*fnode
	n      int
	// sym
	wtab  []float64 // weight per joint value index
	wex   []bool    // weight exactly representable
	wint  []bool    // weight is an exact integer
	wvars []int     // variable indexes (1 or 2)
	wdims []int
	// ite
	cond *fcond
	name string
}

type fcond struct {
	kind string // "in" or "cmp"
	vars []int
	set  map[int]bool // joint index -> true
	dims []int
	op   string
	l, r *fnode
}

type fval struct {
	v, e  float64
	exact bool // value is an exact integer computed without rounding
}

type fstats struct {
	unstable int
	why      string
}

func ratToFloat(r *big.Rat) (float64, bool) {
	f, exact := r.Float64()
	return f, exact
}

// compileF turns a canonical tree into an fnode over variable indexes.
func compileF(t *Ex, names []string, doms [][]string, weights map[string]map[string]*big.Rat, rounds map[string]*Ex) (*fnode, error) {
	idx := map[string]int{}
	for i, n := range names {
		idx[n] = i
	}
	var comp func(t *Ex) (*fnode, error)
	comp = func(t *Ex) (*fnode, error) {
		switch t.Op {
		case "const":
			f, ex := ratToFloat(t.C)
			return &fnode{op: "const", c: f, cExact: ex, cInt: ex && t.C.IsInt() && math.Abs(f) < 1e15}, nil
		case "sym":
			if t.Name == "x" {
				return &fnode{op: "arg"}, nil
			}
			if !strings.HasPrefix(t.Name, "W(") {
				return nil, fmt.Errorf("free symbol %s", t.Name)
			}
			ns := strings.Split(strings.TrimSuffix(strings.TrimPrefix(t.Name, "W("), ")"), "|")
			var bases []string
			n := &fnode{op: "w", name: t.Name}
			total := 1
			for _, nm := range ns {
				i, ok := idx[nm]
				if !ok {
					return nil, fmt.Errorf("unknown variable %s", nm)
				}
				n.wvars = append(n.wvars, i)
				n.wdims = append(n.wdims, len(doms[i]))
				total *= len(doms[i])
				b := nm
				if strings.HasPrefix(nm, "e") {
					b = nm[1:]
				}
				bases = append(bases, b)
			}
			tbl := weights[strings.Join(bases, "|")]
			if tbl == nil {
				return nil, fmt.Errorf("no weight table for %s", t.Name)
			}
			n.wtab = make([]float64, total)
			n.wex = make([]bool, total)
			n.wint = make([]bool, total)
			for j := 0; j < total; j++ {
				rem := j
				var vals []string
				for q := range n.wvars {
					vals = append(vals, doms[n.wvars[q]][rem%n.wdims[q]])
					rem /= n.wdims[q]
				}
				w := tbl[strings.Join(vals, "|")]
				if w == nil {
					return nil, fmt.Errorf("no weight for %s=%v", t.Name, vals)
				}
				f, ex := ratToFloat(w)
				n.wtab[j], n.wex[j], n.wint[j] = f, ex, ex && w.IsInt()
			}
			return n, nil
		case "sum", "prod", "div", "pow":
			n := &fnode{op: t.Op, n: t.N}
			for _, a := range t.Args {
				k, err := comp(a)
				if err != nil {
					return nil, err
				}
				n.kids = append(n.kids, k)
			}
			return n, nil
		case "call":
			n := &fnode{op: "call", name: t.Name}
			for _, a := range t.Args {
				k, err := comp(a)
				if err != nil {
					return nil, err
				}
				n.kids = append(n.kids, k)
			}
			if t.Name == "ru" || t.Name == "r1" {
				rt := rounds[t.Name]
				if rt == nil {
					return nil, fmt.Errorf("no rounding definition for %s", t.Name)
				}
				body, err := comp(rt)
				if err != nil {
					return nil, err
				}
				n.kids = append(n.kids, body) // last kid = body over "arg"
			}
			return n, nil
		case "ite":
			n := &fnode{op: "ite"}
			c := &fcond{kind: t.Cond.Kind}
			if t.Cond.Kind == "in" {
				i := strings.Index(t.Cond.Atom, " in {")
				ns := strings.Split(t.Cond.Atom[:i], ",")
				set := strings.Split(strings.TrimSuffix(t.Cond.Atom[i+5:], "}"), ";")
				for _, nm := range ns {
					vi, ok := idx[nm]
					if !ok {
						return nil, fmt.Errorf("unknown variable %s", nm)
					}
					c.vars = append(c.vars, vi)
					c.dims = append(c.dims, len(doms[vi]))
				}
				c.set = map[int]bool{}
				for _, s := range set {
					parts := strings.Split(s, ",")
					j, mul := 0, 1
					okp := len(parts) == len(c.vars)
					for q := range c.vars {
						if !okp {
							break
						}
						pos := -1
						for z, v := range doms[c.vars[q]] {
							if v == parts[q] {
								pos = z
							}
						}
						if pos < 0 {
							okp = false
							break
						}
						j += pos * mul
						mul *= c.dims[q]
					}
					if okp {
						c.set[j] = true
					}
				}
			} else {
				var err error
				c.op = t.Cond.Op
				if c.l, err = comp(t.Cond.L); err != nil {
					return nil, err
				}
				if c.r, err = comp(t.Cond.R); err != nil {
					return nil, err
				}
			}
			n.cond = c
			for _, a := range t.Args {
				k, err := comp(a)
				if err != nil {
					return nil, err
				}
				n.kids = append(n.kids, k)
			}
			return n, nil
		}
		return nil, fmt.Errorf("node %s", t.Op)
	}
	return comp(t)
}

// near reports whether value v (error e) may be on either side of boundary b.
func near(v, e, b float64) bool { return math.Abs(v-b) <= e*1.01+1e-300 }

func (n *fnode) eval(cur []int, arg fval, st *fstats) fval {
	switch n.op {
	case "const":
		if n.cInt {
			return fval{n.c, 0, true}
		}
		if n.cExact {
			return fval{n.c, 0, false}
		}
		return fval{n.c, 4 * uRound * math.Abs(n.c), false}
	case "arg":
		return arg
	case "w":
		j, mul := 0, 1
		for q, vi := range n.wvars {
			j += cur[vi] * mul
			mul *= n.wdims[q]
		}
		w := n.wtab[j]
		if n.wint[j] {
			return fval{w, 0, true}
		}
		if n.wex[j] {
			return fval{w, 0, false}
		}
		return fval{w, uRound * math.Abs(w), false}
	case "sum":
		var v, e, abs float64
		exact := true
		for _, k := range n.kids {
			x := k.eval(cur, arg, st)
			v += x.v
			e += x.e
			abs += math.Abs(x.v) + x.e
			exact = exact && x.exact
		}
		if exact && abs < 1e15 {
			return fval{v, 0, true}
		}
		return fval{v, e + float64(len(n.kids))*uRound*abs, false}
	case "prod":
		v := 1.0
		rel := 0.0
		exact := true
		zero := false
		for _, k := range n.kids {
			x := k.eval(cur, arg, st)
			if x.exact && x.v == 0 {
				zero = true
			}
			v *= x.v
			if x.v != 0 {
				rel += x.e / math.Abs(x.v)
			} else if x.e != 0 {
				rel = math.Inf(1)
			}
			exact = exact && x.exact
		}
		if zero {
			return fval{0, 0, true}
		}
		if exact && math.Abs(v) < 1e15 {
			return fval{v, 0, true}
		}
		rel += float64(len(n.kids)) * uRound
		if math.IsInf(rel, 1) {
			// a factor is an inexact zero: bound by the product of magnitudes
			m := 1.0
			for _, k := range n.kids {
				x := k.eval(cur, arg, st)
				m *= math.Abs(x.v) + x.e
			}
			return fval{v, m * 1.001, false}
		}
		return fval{v, math.Abs(v) * rel * 1.001, false}
	case "pow":
		x := n.kids[0].eval(cur, arg, st)
		v := math.Pow(x.v, float64(n.n))
		if x.exact && math.Abs(v) < 1e15 {
			return fval{v, 0, true}
		}
		rel := float64(n.n) * uRound
		if x.v != 0 {
			rel += float64(n.n) * x.e / math.Abs(x.v)
		} else {
			return fval{v, math.Pow(x.e, float64(n.n)), false}
		}
		return fval{v, math.Abs(v) * rel * 1.01, false}
	case "div":
		a := n.kids[0].eval(cur, arg, st)
		b := n.kids[1].eval(cur, arg, st)
		if b.v == 0 || math.Abs(b.v) <= b.e {
			st.unstable++
			st.why = "division by a value that may be zero"
			return fval{math.NaN(), math.Inf(1), false}
		}
		v := a.v / b.v
		rel := uRound + b.e/math.Abs(b.v)
		e := a.e/math.Abs(b.v) + math.Abs(v)*rel*1.001
		if a.exact && b.exact && v == math.Trunc(v) {
			return fval{v, 0, true}
		}
		return fval{v, e, false}
	case "ite":
		c := n.cond
		var take bool
		if c.kind == "in" {
			j, mul := 0, 1
			for q, vi := range c.vars {
				j += cur[vi] * mul
				mul *= c.dims[q]
			}
			take = c.set[j]
		} else {
			l := c.l.eval(cur, arg, st)
			r := c.r.eval(cur, arg, st)
			d := l.v - r.v
			e := l.e + r.e
			if !(l.exact && r.exact) && math.Abs(d) <= e*1.01 {
				st.unstable++
				st.why = "a comparison operand is within the rounding-error bound of its threshold"
			}
			switch c.op {
			case "==":
				take = d == 0
			case "<=":
				take = d <= 0
			case "<":
				take = d < 0
			}
		}
		if take {
			return n.kids[0].eval(cur, arg, st)
		}
		return n.kids[1].eval(cur, arg, st)
	case "call":
		switch n.name {
		case "min", "max":
			best := n.kids[0].eval(cur, arg, st)
			e := best.e
			for _, k := range n.kids[1:] {
				x := k.eval(cur, arg, st)
				if (n.name == "min" && x.v < best.v) || (n.name == "max" && x.v > best.v) {
					best = x
				}
				if x.e > e {
					e = x.e
				}
			}
			if !best.exact {
				best.e = e
			}
			return best
		case "ru", "r1":
			x := n.kids[0].eval(cur, arg, st)
			return n.kids[len(n.kids)-1].eval(cur, x, st)
		case "Round", "RoundToEven", "Floor", "int":
			x := n.kids[0].eval(cur, arg, st)
			var v float64
			switch n.name {
			case "Round":
				v = math.Round(x.v)
			case "RoundToEven":
				v = math.RoundToEven(x.v)
			case "Floor":
				v = math.Floor(x.v)
			case "int":
				v = math.Trunc(x.v)
			}
			if !x.exact {
				// discontinuities: half-integers (Round*), integers (Floor, int)
				var frac float64
				switch n.name {
				case "Round", "RoundToEven":
					frac = math.Abs(x.v - math.Floor(x.v) - 0.5)
				default:
					f := x.v - math.Floor(x.v)
					frac = math.Min(f, 1-f)
				}
				if frac <= x.e*1.01 {
					st.unstable++
					st.why = n.name + " of a value within the rounding-error bound of a discontinuity"
				}
			}
			return fval{v, 0, math.Abs(v) < 1e15}
		case "idiv":
			a := n.kids[0].eval(cur, arg, st)
			b := n.kids[1].eval(cur, arg, st)
			if !a.exact || !b.exact || b.v == 0 {
				st.unstable++
				st.why = "integer division of inexact operands"
				return fval{0, 0, true}
			}
			return fval{math.Trunc(a.v / b.v), 0, true}
		case "imod":
			a := n.kids[0].eval(cur, arg, st)
			b := n.kids[1].eval(cur, arg, st)
			if !a.exact || !b.exact || b.v == 0 {
				st.unstable++
				st.why = "integer remainder of inexact operands"
				return fval{0, 0, true}
			}
			return fval{math.Mod(a.v, b.v), 0, true}
		case "float":
			return n.kids[0].eval(cur, arg, st)
		}
	}
	st.unstable++
	st.why = "node outside the float model: " + n.op + " " + n.name
	return fval{math.NaN(), math.Inf(1), false}
}

func (w *World) rulesFloatSafe(p *Pkg, fam string, weights map[string]map[string]*big.Rat, trees map[string]*Ex, roundTree *Ex, roundSym string, out *[]Obligation) {
	if w.Wants != nil && !w.Wants(fam+".float") {
		return
	}
	k := p.Key
	add := func(ok bool, nontrivial bool, inst string, n ast.Node, detail string) {
		*out = append(*out, Obligation{Rule: fam + ".float", Instance: k + "." + inst, Pos: p.pos(n), OK: ok, Detail: detail, NonTrivial: nontrivial})
	}
	rounds := map[string]*Ex{roundSym: roundTree}
	for _, mname := range []string{"BaseScore", "TemporalScore", "EnvironmentalScore"} {
		t := trees[mname]
		fd := p.method(mname)
		if t == nil || roundTree == nil {
			add(true, false, mname, fd, "not decided in this run: the formula tree or the rounding helper of this method was not recognised (reported by the .formula / .round rules)")
			continue
		}
		names := namesOfTree(t)
		var doms [][]string
		total := 1
		for _, n := range names {
			d := p.severityDomain(n)
			doms = append(doms, d)
			total *= len(d)
		}
		if total == 0 {
			continue
		}
		if total > 200_000 && w.Tier != "thorough" {
			add(true, false, mname, fd, fmt.Sprintf("%d combinations: float64-stability is decided in the thorough tier only", total))
			continue
		}
		root, err := compileF(t, names, doms, weights, rounds)
		if err != nil {
			add(false, true, mname, fd, "cannot compile the formula tree for the float model (undecided): "+err.Error())
			continue
		}
		nw := runtime.NumCPU()
		if nw > 16 {
			nw = 16
		}
		type res struct {
			exactTie int
			unstable int
			why      string
			ex       string
			bad      int
			badEx    string
		}
		results := make([]res, nw)
		var wg sync.WaitGroup
		for wi := 0; wi < nw; wi++ {
			wg.Add(1)
			go func(wi int) {
				defer wg.Done()
				cur := make([]int, len(names))
				r := &results[wi]
				for idx := wi; idx < total; idx += nw {
					rem := idx
					for i := range names {
						cur[i] = rem % len(doms[i])
						rem /= len(doms[i])
					}
					st := fstats{}
					v := root.eval(cur, fval{}, &st)
					if st.unstable > 0 {
						// is it an exact half-way case of the real-valued equations?
						renv := &rtEnv{vals: map[string]string{}, weights: weights}
						for i, n := range names {
							renv.vals[n] = doms[i][cur[i]]
						}
						if _, err := renv.eval(t, nil, rounds); err == nil && renv.tie {
							r.exactTie++
						}
						r.unstable++
						if r.ex == "" {
							var parts []string
							for i, n := range names {
								parts = append(parts, n+":"+doms[i][cur[i]])
							}
							r.ex = strings.Join(parts, "/") + " (" + st.why + ")"
						}
						continue
					}
					// the stable result is a one-decimal value
					t10 := v.v * 10
					if math.Abs(t10-math.Round(t10)) > 1e-9 {
						r.bad++
						if r.badEx == "" {
							r.badEx = fmt.Sprintf("%v", v.v)
						}
					}
				}
			}(wi)
		}
		wg.Wait()
		unstable, bad, exactTie := 0, 0, 0
		ex, badEx := "", ""
		for _, r := range results {
			exactTie += r.exactTie
			unstable += r.unstable
			bad += r.bad
			if ex == "" {
				ex = r.ex
			}
			if badEx == "" {
				badEx = r.badEx
			}
		}
		switch {
		case bad > 0:
			add(false, true, mname, fd, fmt.Sprintf("%d of %d combinations evaluate to a value that is not a one-decimal number (e.g. %s)", bad, total, badEx))
		case unstable == 0:
			add(true, true, mname, fd, fmt.Sprintf("all %d value combinations: every rounding step and comparison is farther from its discontinuity than the float64 error bound, so the float64 code returns exactly the one-decimal value of the real-arithmetic equations", total))
		default:
			add(true, true, mname, fd, fmt.Sprintf("%d of %d value combinations proved float64-stable; %d sit within the error bound of a discontinuity, of which %d are exact half-way cases of the real-valued equations (either neighbour conforms) and %d are near-ties that are NOT decided; e.g. %s", total-unstable, total, unstable, exactTie, unstable-exactTie, ex))
		}
		w.Extra["floatsafe_"+k+"_"+mname] = map[string]int{"combinations": total, "stable": total - unstable, "within_error_bound": unstable, "exact_ties": exactTie, "not_decided": unstable - exactTie}
	}
}
