package main

// R01.automaton (v2.0, v4.0): the cursor logic of the fixed-order parsers as a
// finite automaton. The statements that follow the split of an element (order
// check, Set, cursor advance — including v4's inner skip loop, which runs over a
// finite table) are tabulated with the M7 evaluator for every cursor state and
// every abbreviation (the version's labels plus one unknown label), giving the
// parser's transition function; the statements after the element loop give its
// acceptance condition. The resulting automaton is compared, by a product
// walk from the initial state, with the automaton of the specification's order
// rule. Element *splitting* (the byte scanners) is not part of this rule.
//
// Set is modelled as "succeeds iff the abbreviation is one of Set's labels"
// (values are validated independently: R07.guard, R09.values).

import (
	"fmt"
	"go/ast"
	"go/token"
	"go/types"
	"sort"
	"strings"
)

type autoState string

func (w *World) rulesAutomaton(p *Pkg, m *parseModel, add func(ok bool, rule, inst string, n ast.Node, detail string)) {
	info := p.Info
	ov := vocab[p.Key]
	sm := p.SetModel()
	fd := m.fd
	// the statement list that contains the split, what precedes and what follows it
	var tail, pre []ast.Stmt
	var find func(list []ast.Stmt) bool
	find = func(list []ast.Stmt) bool {
		for i, s := range list {
			if s == ast.Stmt(m.splitAs) {
				pre = list[:i]
				skip := 1
				if len(m.splitRegion) > 1 && i+len(m.splitRegion) <= len(list) {
					skip = len(m.splitRegion)
				}
				tail = list[i+skip:]
				return true
			}
			found := false
			ast.Inspect(s, func(n ast.Node) bool {
				if found {
					return false
				}
				if b, ok := n.(*ast.BlockStmt); ok {
					if find(b.List) {
						found = true
					}
				}
				return !found
			})
			if found {
				return true
			}
		}
		return false
	}
	if !find(fd.Body.List) || tail == nil {
		add(false, "R01.automaton", "ParseVector.cursor", fd, "cannot locate the statements that follow the element split: undecided")
		return
	}
	// state variables: int locals defined before the loop with a constant and
	// assigned in the loop from constants, tables and other state variables
	// only. Int locals fed from anything else (scanner positions such as
	// `start = end + 1`) are not cursor state: they are bound to an unknown
	// value, on which any test is undecided.
	var stateVars []types.Object
	init := map[types.Object]int64{}
	cand := map[types.Object]bool{}
	var candOrder []types.Object
	for _, s := range fd.Body.List {
		if s == m.loopTop {
			break
		}
		// `var group int` (no initialiser): starts at 0
		if ds, ok := s.(*ast.DeclStmt); ok {
			if gd, ok := ds.Decl.(*ast.GenDecl); ok && gd.Tok == token.VAR {
				for _, sp := range gd.Specs {
					vs := sp.(*ast.ValueSpec)
					if len(vs.Values) != 0 {
						continue
					}
					for _, nm := range vs.Names {
						o := info.Defs[nm]
						if o == nil {
							continue
						}
						if b, ok := o.Type().Underlying().(*types.Basic); !ok || b.Kind() != types.Int {
							continue
						}
						assigned := false
						for _, t := range tail {
							if assignedIn(info, t, o) {
								assigned = true
							}
						}
						if assigned {
							cand[o] = true
							candOrder = append(candOrder, o)
							init[o] = 0
						}
					}
				}
			}
			continue
		}
		as, ok := s.(*ast.AssignStmt)
		if !ok || as.Tok != token.DEFINE {
			continue
		}
		for i, l := range as.Lhs {
			o := identObj(info, l)
			if o == nil || i >= len(as.Rhs) {
				continue
			}
			if b, ok := o.Type().Underlying().(*types.Basic); !ok || b.Kind() != types.Int {
				continue
			}
			assigned := false
			for _, t := range tail {
				if assignedIn(info, t, o) {
					assigned = true
				}
			}
			if !assigned {
				continue
			}
			u, ok := constUint(info, as.Rhs[i])
			if !ok {
				continue
			}
			cand[o] = true
			candOrder = append(candOrder, o)
			init[o] = int64(u)
		}
	}
	// derived locals: integers defined inside the step (the counter of an inner
	// search loop, `for k := next; …`) whose every assignment reads cursor
	// variables, constants, tables and other derived locals only — their value is
	// a function of the cursor state, so an assignment `next = k + 1` keeps
	// `next` a cursor variable
	derived := map[types.Object]bool{}
	for _, t := range tail {
		ast.Inspect(t, func(n ast.Node) bool {
			if as, ok := n.(*ast.AssignStmt); ok && as.Tok == token.DEFINE {
				for _, l := range as.Lhs {
					if o := identObj(info, l); o != nil && isIntT(o.Type()) {
						derived[o] = true
					}
				}
			}
			return true
		})
	}
	// locals other than candidates mentioned by an expression
	foreignLocal := func(e ast.Node) bool {
		bad := false
		ast.Inspect(e, func(n ast.Node) bool {
			if id, ok := n.(*ast.Ident); ok {
				if v, ok := info.Uses[id].(*types.Var); ok && v.Parent() != p.P.Types.Scope() && !v.IsField() && !cand[v] && !derived[v] {
					// the element's abbreviation may steer the cursor (it is what the order
					// table is compared with): each step is evaluated per abbreviation
					if types.Object(v) == m.abvObj {
						return true
					}
					bad = true
				}
			}
			return true
		})
		return bad
	}
	for changed := true; changed; {
		changed = false
		ast.Inspect(m.loop, func(n ast.Node) bool {
			if rs, ok := n.(*ast.RangeStmt); ok {
				// a range variable takes its values from the ranged operand
				for _, kv := range []ast.Expr{rs.Key, rs.Value} {
					if kv == nil {
						continue
					}
					if o := identObj(info, kv); o != nil && derived[o] && foreignLocal(rs.X) {
						delete(derived, o)
						changed = true
					}
				}
				return true
			}
			as, ok := n.(*ast.AssignStmt)
			if !ok {
				return true
			}
			for i, l := range as.Lhs {
				o := identObj(info, l)
				if o != nil && derived[o] {
					var rhs ast.Expr
					if len(as.Rhs) == len(as.Lhs) {
						rhs = as.Rhs[i]
					} else if len(as.Rhs) == 1 {
						rhs = as.Rhs[0]
					}
					if rhs == nil || foreignLocal(rhs) {
						delete(derived, o)
						changed = true
					}
					continue
				}
				if o == nil || !cand[o] {
					continue
				}
				var rhs ast.Expr
				if len(as.Rhs) == len(as.Lhs) {
					rhs = as.Rhs[i]
				} else if len(as.Rhs) == 1 {
					rhs = as.Rhs[0]
				}
				if rhs == nil || foreignLocal(rhs) {
					delete(cand, o)
					changed = true
				}
			}
			return true
		})
	}
	for _, o := range candOrder {
		if cand[o] {
			stateVars = append(stateVars, o)
		} else {
			delete(init, o)
		}
	}
	if len(stateVars) == 0 {
		add(false, "R01.automaton", "ParseVector.cursor", fd, "no cursor variables found: undecided")
		return
	}
	// statements of the element block that precede the split and speak about
	// the cursor only (e.g. `if group >= len(order) { return … }`) belong to
	// the step; the others (the byte scanner) must not write the cursor
	// variables that carry (parts of) the input: the parameter, the loop's own
	// variables, and whatever is computed from them
	inputVar := map[types.Object]bool{m.param: true}
	switch lp := m.loop.(type) {
	case *ast.RangeStmt:
		for _, e := range []ast.Expr{lp.Key, lp.Value} {
			if e != nil {
				if o := identObj(info, e); o != nil {
					inputVar[o] = true
				}
			}
		}
	case *ast.ForStmt:
		if as, ok := lp.Init.(*ast.AssignStmt); ok {
			for _, l := range as.Lhs {
				if o := identObj(info, l); o != nil && !cand[o] {
					inputVar[o] = true
				}
			}
		}
	}
	for changed := true; changed; {
		changed = false
		ast.Inspect(fd.Body, func(n ast.Node) bool {
			as, ok := n.(*ast.AssignStmt)
			if !ok {
				return true
			}
			tainted := false
			for _, r := range as.Rhs {
				ast.Inspect(r, func(x ast.Node) bool {
					if id, ok := x.(*ast.Ident); ok && inputVar[info.Uses[id]] {
						tainted = true
					}
					return true
				})
			}
			if tainted {
				for _, l := range as.Lhs {
					if o := identObj(info, l); o != nil && !inputVar[o] && !cand[o] {
						if _, isIface := o.Type().Underlying().(*types.Interface); isIface {
							continue // an error value carries no input text
						}
						inputVar[o] = true
						changed = true
					}
				}
			}
			return true
		})
	}
	mentionsInput := func(s ast.Node) bool {
		found := false
		ast.Inspect(s, func(n ast.Node) bool {
			if id, ok := n.(*ast.Ident); ok && inputVar[info.Uses[id]] {
				found = true
			}
			return true
		})
		return found
	}
	var preStep []ast.Stmt
	for _, s := range pre {
		if !mentionsInput(s) {
			mentions := false
			ast.Inspect(s, func(n ast.Node) bool {
				if id, ok := n.(*ast.Ident); ok && cand[info.Uses[id]] {
					mentions = true
				}
				return true
			})
			if mentions {
				preStep = append(preStep, s)
				continue
			}
		}
		for _, o := range stateVars {
			if assignedIn(info, s, o) {
				add(false, "R01.automaton", "ParseVector.cursor", s, "cursor "+o.Name()+" is written by the element scanner: undecided")
				return
			}
		}
	}
	tail = append(append([]ast.Stmt(nil), preStep...), tail...)
	// post-loop statements (acceptance)
	var post []ast.Stmt
	seenLoop := false
	for _, s := range fd.Body.List {
		if s == m.loopTop {
			seenLoop = true
			continue
		}
		if seenLoop {
			post = append(post, s)
		}
	}
	// statements that only call functions outside the package (e.g. handing a
	// buffer back to a pool) cannot influence the cursor or the verdict
	dropForeign := func(list []ast.Stmt) []ast.Stmt {
		var out []ast.Stmt
		for _, s := range list {
			if es, ok := s.(*ast.ExprStmt); ok {
				if call, ok := es.X.(*ast.CallExpr); ok {
					if fn := calleeOf(info, call); fn != nil && fn.Pkg() != p.P.Types {
						continue
					}
				}
			}
			out = append(out, s)
		}
		return out
	}
	post = dropForeign(post)
	tail = dropForeign(tail)
	setFn := p.method("Set")
	setFails := false // second pass: Set refuses the value of a known metric
	setCalls := 0
	hook := func(e *cEnv, call *ast.CallExpr, fn *types.Func, args []Val) (Val, bool, error) {
		if p.FuncObj[fn] == setFn && setFn != nil {
			setCalls++
			if !setFails && len(args) == 2 && args[0].K == VStr && sm.ByLabel[args[0].S] != nil {
				return Val{K: VNil}, true, nil
			}
			return Val{K: VOpaque, S: "set-error"}, true, nil
		}
		// calls into other packages (pool, atomics, logging) cannot steer the cursor;
		// the strings package is the exception: its results may be compared
		if fn.Pkg() != nil && fn.Pkg() != p.P.Types && fn.Pkg().Path() != "strings" {
			return Val{K: VOpaque, S: fn.Name()}, true, nil
		}
		return Val{}, false, nil
	}
	// every other local of ParseVector (pooled buffers, the split parts, ...) is an
	// opaque value: it cannot influence the cursor
	// locals declared `var x T` (no initialiser) before the loop start at T's zero value
	zeroDecl := map[types.Object]bool{}
	for _, s := range fd.Body.List {
		if s == m.loopTop {
			break
		}
		if ds, ok := s.(*ast.DeclStmt); ok {
			if gd, ok := ds.Decl.(*ast.GenDecl); ok && gd.Tok == token.VAR {
				for _, sp := range gd.Specs {
					vs := sp.(*ast.ValueSpec)
					if len(vs.Values) == 0 {
						for _, nm := range vs.Names {
							if o := info.Defs[nm]; o != nil {
								zeroDecl[o] = true
							}
						}
					}
				}
			}
		}
	}
	bindOpaque := func(ce *cEnv) {
		for o := range zeroDecl {
			if _, has := ce.vars[o]; !has {
				if _, isState := init[o]; !isState {
					ce.vars[o] = zeroOf(o.Type())
				}
			}
		}
		ast.Inspect(fd.Body, func(n ast.Node) bool {
			if id, ok := n.(*ast.Ident); ok {
				if o, ok := info.Defs[id].(*types.Var); ok && o != nil {
					if _, has := ce.vars[o]; !has {
						if b, ok := o.Type().Underlying().(*types.Basic); !ok || (b.Info()&types.IsInteger == 0 && b.Info()&types.IsString == 0) {
							ce.vars[o] = Val{K: VOpaque, S: o.Name()}
						} else {
							// scanner positions and raw input
							ce.vars[o] = Val{K: VUnk}
						}
					}
				}
			}
			return true
		})
	}
	key := func(vals map[types.Object]int64) autoState {
		var parts []string
		for _, o := range stateVars {
			parts = append(parts, fmt.Sprintf("%s=%d", o.Name(), vals[o]))
		}
		return autoState(strings.Join(parts, ","))
	}
	type outcome struct {
		kind string // "next", "error", "panic", "accept", "loopexit"
		err  string
		next map[types.Object]int64
		msg  string
	}
	step := func(st map[types.Object]int64, abv string) (outcome, error) {
		ce := newCEnv(p, make([]uint8, len(p.Fields)))
		ce.loops = true
		ce.hook = hook
		for o, v := range st {
			ce.vars[o] = vInt(v)
		}
		bindOpaque(ce)
		ce.vars[m.abvObj] = vStr(abv)
		ce.vars[m.valObj] = vStr("?")
		if m.objVar != nil {
			ce.vars[m.objVar] = Val{K: VOpaque, S: "obj"}
		}
		ct, v, err := ce.execBlock(tail)
		if err != nil {
			if pe, ok := err.(*panicked); ok {
				return outcome{kind: "panic", msg: pe.msg + " at " + p.posAt(pe.pos)}, nil
			}
			return outcome{}, err
		}
		// `continue scan` / `break scan` aimed at the element loop itself
		ct = ce.ownBranch(ct, m.loopLabel)
		if ct == cBreakL || ct == cContinueL {
			return outcome{}, fmt.Errorf("branch to label %s, which is not the element loop", ce.brLabel)
		}
		switch ct {
		case cReturn:
			if v.K == VTuple && len(v.T) == 2 && v.T[1].K != VNil {
				return outcome{kind: "error", err: v.T[1].S}, nil
			}
			return outcome{kind: "accept"}, nil
		case cBreak:
			// the loop is left: what the function answers is decided by the statements after it
			pct, pv, perr := ce.execBlock(post)
			if perr != nil {
				if pe, ok := perr.(*panicked); ok {
					return outcome{kind: "panic", msg: pe.msg + " at " + p.posAt(pe.pos)}, nil
				}
				return outcome{}, perr
			}
			if pct == cReturn && pv.K == VTuple && len(pv.T) == 2 {
				if pv.T[1].K != VNil {
					return outcome{kind: "error", err: pv.T[1].S}, nil
				}
				return outcome{kind: "loopexit"}, nil // success before the input is exhausted
			}
			return outcome{kind: "loopexit"}, nil
		}
		nx := map[types.Object]int64{}
		for _, o := range stateVars {
			x := ce.vars[o]
			if x.K != VInt {
				return outcome{}, fmt.Errorf("cursor %s lost its value", o.Name())
			}
			nx[o] = x.I
		}
		return outcome{kind: "next", next: nx}, nil
	}
	accepts := func(st map[types.Object]int64) (bool, string, error) {
		ce := newCEnv(p, make([]uint8, len(p.Fields)))
		ce.hook = hook
		bindOpaque(ce)
		for o, v := range st {
			ce.vars[o] = vInt(v)
		}
		if m.objVar != nil {
			ce.vars[m.objVar] = Val{K: VOpaque, S: "obj"}
		}
		ct, v, err := ce.execBlock(post)
		if err != nil {
			return false, "", err
		}
		if ct != cReturn || v.K != VTuple || len(v.T) != 2 {
			return false, "", fmt.Errorf("post-loop code does not return (object, error)")
		}
		if v.T[1].K == VNil {
			return true, "", nil
		}
		return false, v.T[1].S, nil
	}
	// oracle automaton over positions of the flat order
	var flat []string
	var bounds []int
	for _, g := range ov.Groups {
		bounds = append(bounds, len(flat))
		for _, mm := range g.Metrics {
			flat = append(flat, mm.Abv)
		}
	}
	bounds = append(bounds, len(flat))
	nBase := len(ov.Groups[0].Metrics)
	isBound := func(pos int) bool {
		for _, b := range bounds {
			if b == pos {
				return true
			}
		}
		return false
	}
	oracleNext := func(pos int, abv string) (int, bool) {
		if p.Key == "20" {
			// groups are all-or-nothing and in order
			if !isBound(pos) || pos < nBase {
				// inside a group (or at the very start): only the next metric of that group
				if pos < len(flat) && flat[pos] == abv {
					return pos + 1, true
				}
				return 0, false
			}
			// at a group boundary with the base group complete: the next or any later group may start
			for _, b := range bounds {
				if b >= pos && b < len(flat) && flat[b] == abv {
					return b + 1, true
				}
			}
			return 0, false
		}
		// v4: base metrics all present in order; then any later metric, strictly increasing
		if pos < nBase {
			if flat[pos] == abv {
				return pos + 1, true
			}
			return 0, false
		}
		for q := pos; q < len(flat); q++ {
			if flat[q] == abv {
				return q + 1, true
			}
		}
		return 0, false
	}
	oracleAccept := func(pos int) bool {
		if p.Key == "20" {
			return pos >= nBase && isBound(pos)
		}
		return pos >= nBase
	}
	alphabet := append(append([]string(nil), flat...), "??")
	type pair struct {
		code   map[types.Object]int64
		oracle int
		trace  string
	}
	start := pair{code: init, oracle: 0}
	seen := map[string]bool{}
	queue := []pair{start}
	nTrans, nStates := 0, 0
	var problems []string
	orderErrs := map[string]int{}
	// rejections by kind: in a state with metrics left, in the state where
	// every metric has been consumed, and at the end of the input
	midErrs, fullErrs, shortErrs := map[string]int{}, map[string]int{}, map[string]int{}
	type acceptedStep struct {
		code map[types.Object]int64
		abv  string
		tr   string
	}
	var accepted []acceptedStep
	var under []string
	for len(queue) > 0 && len(problems) < 5 {
		cur := queue[0]
		queue = queue[1:]
		k := string(key(cur.code)) + "|" + fmt.Sprint(cur.oracle)
		if seen[k] {
			continue
		}
		seen[k] = true
		nStates++
		// acceptance (only meaningful after at least one element; the empty input is the splitter's business)
		if cur.trace != "" {
			acc, errName, err := accepts(cur.code)
			if err != nil {
				add(false, "R01.automaton", "ParseVector.cursor", fd, "cannot evaluate the post-loop acceptance test (undecided): "+err.Error())
				return
			}
			if !acc && !oracleAccept(cur.oracle) {
				shortErrs[errName]++
			}
			if !acc && oracleAccept(cur.oracle) {
				under = append(under, fmt.Sprintf("after %s the input may end, the parser answers %s", cur.trace, errName))
			}
			if acc != oracleAccept(cur.oracle) {
				problems = append(problems, fmt.Sprintf("after %s the parser %s, the specification %s", cur.trace, map[bool]string{true: "accepts", false: "rejects (" + errName + ")"}[acc], map[bool]string{true: "accepts", false: "rejects (incomplete group / missing base metric)"}[oracleAccept(cur.oracle)]))
			}
		}
		for _, abv := range alphabet {
			nTrans++
			setCalls = 0
			out, err := step(cur.code, abv)
			if err != nil {
				add(false, "R01.automaton", "ParseVector.cursor", fd, "cannot tabulate the cursor step (undecided): "+err.Error()+posSuffix(p, err))
				return
			}
			on, ook := oracleNext(cur.oracle, abv)
			tr := strings.TrimPrefix(cur.trace+"/"+abv, "/")
			switch out.kind {
			case "panic":
				problems = append(problems, fmt.Sprintf("after %s the element %s makes the parser panic: %s", orEmpty(cur.trace), abv, out.msg))
				if ook {
					under = append(under, fmt.Sprintf("%s panics", tr))
				}
			case "error":
				if ook {
					under = append(under, fmt.Sprintf("%s is rejected with %s", tr, out.err))
					problems = append(problems, fmt.Sprintf("the well-ordered prefix %s is rejected with %s", tr, out.err))
				} else {
					orderErrs[out.err]++
					if cur.oracle == len(flat) {
						fullErrs[out.err]++
					} else {
						midErrs[out.err]++
					}
				}
			case "next":
				if setCalls == 0 {
					problems = append(problems, fmt.Sprintf("after %s the element %s is consumed without calling Set: its value is never validated or stored", orEmpty(cur.trace), abv))
				}
				if !ook {
					problems = append(problems, fmt.Sprintf("the out-of-order, repeated or unknown metric in %s is accepted", tr))
				} else {
					queue = append(queue, pair{code: out.next, oracle: on, trace: tr})
					accepted = append(accepted, acceptedStep{cur.code, abv, tr})
				}
			default:
				problems = append(problems, fmt.Sprintf("after %s the element %s ends the loop or returns success early", orEmpty(cur.trace), abv))
				if ook {
					under = append(under, fmt.Sprintf("after %s the rest of the input is not examined", tr))
				}
			}
		}
	}
	var errKinds []string
	for e, n := range orderErrs {
		errKinds = append(errKinds, fmt.Sprintf("%s×%d", e, n))
	}
	sort.Strings(errKinds)
	if len(problems) == 0 {
		add(true, "R01.automaton", "ParseVector.cursor", m.loop, fmt.Sprintf("cursor automaton (%d reachable state pairs, %d transitions over %d abbreviations) accepts exactly the specification's order language: mandatory base group, optional metrics/groups in order, each at most once; no table index leaves its bounds; rejections: %s", nStates, nTrans, len(alphabet), strings.Join(errKinds, ", ")))
	} else {
		add(false, "R01.automaton", "ParseVector.cursor", m.loop, "the parser's cursor logic differs from the specification's order rule: "+strings.Join(problems, "; "))
	}
	// Set's own error (an illegal value) must come back unchanged wherever the
	// element is otherwise acceptable
	setFails = true
	m.autoPropOK = len(accepted) > 0
	for _, a := range accepted {
		out, err := step(a.code, a.abv)
		if err != nil || out.kind != "error" || out.err != "set-error" {
			m.autoPropOK = false
			got := out.kind
			if out.kind == "error" {
				got = "the error " + out.err
			}
			if err != nil {
				got = "undecided (" + err.Error() + ")"
			}
			m.autoPropWhy = fmt.Sprintf("when Set refuses the value of %s (after %s) the parser answers %s instead of returning Set's error", a.abv, orEmpty(strings.TrimSuffix(a.tr, "/"+a.abv)), got)
			break
		}
	}
	setFails = false
	if m.autoPropOK {
		m.autoPropWhy = fmt.Sprintf("in each of the %d acceptable transitions of the cursor automaton, an error of Set is returned unchanged with a nil object", len(accepted))
	}
	m.autoDecided = true
	if len(under) > 3 {
		under = under[:3]
	}
	m.autoUnder = under
	if len(problems) == 0 {
		m.autoOK = true
		kinds := func(mm map[string]int) string {
			var ks []string
			for e, n := range mm {
				ks = append(ks, fmt.Sprintf("%s×%d", e, n))
			}
			sort.Strings(ks)
			return strings.Join(ks, ", ")
		}
		only := func(mm map[string]int, want string) bool {
			for e := range mm {
				if e != want {
					return false
				}
			}
			return len(mm) > 0
		}
		okMid := only(midErrs, "ErrInvalidMetricOrder")
		add(okMid, "R18.auto", "ParseVector.order", m.loop, map[bool]string{true: "every misplaced, repeated or unknown abbreviation met while metrics remain is rejected with ErrInvalidMetricOrder (" + kinds(midErrs) + ")", false: "a misplaced, repeated or unknown abbreviation is rejected with an error other than the documented ErrInvalidMetricOrder: " + kinds(midErrs)}[okMid])
		if p.Key == "20" {
			// an element after all 14 metrics cannot reach the loop: the
			// splitter leaves the remainder in the last slot (R01.split)
			add(true, "R18.auto", "ParseVector.exhausted", m.loop, "observed, not asserted: an element met after every metric was consumed is rejected with "+kinds(fullErrs)+" (unreachable behind the 14-slot splitter)")
		} else {
			okFull := only(fullErrs, "ErrInvalidMetricOrder")
			add(okFull, "R18.auto", "ParseVector.exhausted", m.loop, map[bool]string{true: "an element met after every metric was consumed is rejected with ErrInvalidMetricOrder", false: "an element met after every metric was consumed is rejected with " + kinds(fullErrs) + ", the documented error is ErrInvalidMetricOrder"}[okFull])
		}
		okShort := only(shortErrs, "ErrTooShortVector")
		add(okShort, "R18.auto", "ParseVector.short", m.loop, map[bool]string{true: "an input ending inside a group that must be complete is rejected with ErrTooShortVector (" + kinds(shortErrs) + ")", false: "an input ending inside a group that must be complete is rejected with " + kinds(shortErrs) + ", the documented error is ErrTooShortVector"}[okShort])
	}
	w.Extra["automaton_"+p.Key] = map[string]any{"state_pairs": nStates, "transitions": nTrans, "rejections": errKinds}
}

func orEmpty(s string) string {
	if s == "" {
		return "the start"
	}
	return s
}

// continuationOf returns the statements that run after `target` inside the
// loop body, up to the end of the iteration: the rest of its statement list,
// then the rest of each enclosing list. Enclosing statements other than plain
// blocks and if-statements make the continuation undefined.
func continuationOf(body *ast.BlockStmt, target ast.Stmt) ([]ast.Stmt, bool) {
	var walk func(list []ast.Stmt) ([]ast.Stmt, bool, bool)
	walk = func(list []ast.Stmt) (cont []ast.Stmt, found, ok bool) {
		for i, s := range list {
			if s == target {
				return append([]ast.Stmt(nil), list[i+1:]...), true, true
			}
			var inner [][]ast.Stmt
			switch x := s.(type) {
			case *ast.BlockStmt:
				inner = append(inner, x.List)
			case *ast.IfStmt:
				for cur := x; cur != nil; {
					inner = append(inner, cur.Body.List)
					switch el := cur.Else.(type) {
					case *ast.BlockStmt:
						inner = append(inner, el.List)
						cur = nil
					case *ast.IfStmt:
						cur = el
					default:
						cur = nil
					}
				}
			default:
				contains := false
				ast.Inspect(s, func(n ast.Node) bool {
					if n == ast.Node(target) {
						contains = true
					}
					return !contains
				})
				if contains {
					return nil, true, false
				}
				continue
			}
			for _, l := range inner {
				if c, f, o := walk(l); f {
					if !o {
						return nil, true, false
					}
					return append(c, list[i+1:]...), true, true
				}
			}
		}
		return nil, false, true
	}
	c, f, o := walk(body.List)
	return c, f && o
}

// freeStep decides, for the free-order parsers, what the loop does with one
// element after it was split, by evaluating the rest of the iteration once per
// scenario: the defined-once check and Set both succeed / the first fails /
// the second fails. Scanner variables are unknown, every other local opaque.
type freeStepVerdict struct {
	decided          bool
	why              string
	setOK, kvmOK     bool
	noskipOK         bool
	setWhy, kvmWhy   string
	noskipWhy        string
	kvmBeforeSet     bool
	kvmCallSeen      bool
	scenariosDecided int
}

func (p *Pkg) freeStep(m *parseModel, kvmCall *ast.CallExpr) freeStepVerdict {
	info := p.Info
	var body *ast.BlockStmt
	switch lp := m.loop.(type) {
	case *ast.ForStmt:
		body = lp.Body
	case *ast.RangeStmt:
		body = lp.Body
	}
	if body == nil || m.splitAs == nil || m.setCall == nil {
		return freeStepVerdict{why: "no loop body"}
	}
	cont, ok := continuationOf(body, m.splitAs)
	if !ok {
		return freeStepVerdict{why: "the element split sits inside a statement other than a block or an if"}
	}
	type scen struct{ kvmFails, setFails bool }
	run := func(sc scen) (ct ctrl, v Val, setCalls, kvmCalls int, kvmFirst bool, err error) {
		ce := newCEnv(p, make([]uint8, len(p.Fields)))
		ce.hook = func(e *cEnv, call *ast.CallExpr, fn *types.Func, args []Val) (Val, bool, error) {
			switch {
			case call == m.setCall:
				setCalls++
				if sc.setFails {
					return Val{K: VOpaque, S: "set-error"}, true, nil
				}
				return Val{K: VNil}, true, nil
			case kvmCall != nil && call == kvmCall:
				kvmCalls++
				if setCalls == 0 {
					kvmFirst = true
				}
				if sc.kvmFails {
					return Val{K: VOpaque, S: "kvm-error"}, true, nil
				}
				return Val{K: VNil}, true, nil
			}
			if fn.Pkg() != nil && fn.Pkg() != p.P.Types && fn.Pkg().Path() != "strings" {
				return Val{K: VOpaque, S: fn.Name()}, true, nil
			}
			return Val{}, false, nil
		}
		ast.Inspect(m.fd.Body, func(n ast.Node) bool {
			if id, ok := n.(*ast.Ident); ok {
				if o, ok := info.Defs[id].(*types.Var); ok && o != nil {
					if b, ok := o.Type().Underlying().(*types.Basic); !ok || (b.Info()&types.IsInteger == 0 && b.Info()&types.IsString == 0) {
						ce.vars[o] = Val{K: VOpaque, S: o.Name()}
					} else {
						ce.vars[o] = Val{K: VUnk}
					}
				}
			}
			return true
		})
		// error-typed locals declared without a value start at nil
		ast.Inspect(m.fd.Body, func(n ast.Node) bool {
			if ds, ok := n.(*ast.DeclStmt); ok {
				if gd, ok := ds.Decl.(*ast.GenDecl); ok && gd.Tok == token.VAR {
					for _, sp := range gd.Specs {
						vs := sp.(*ast.ValueSpec)
						if len(vs.Values) == 0 {
							for _, nm := range vs.Names {
								if o := info.Defs[nm]; o != nil {
									if _, isIface := o.Type().Underlying().(*types.Interface); isIface {
										ce.vars[o] = Val{K: VNil}
									}
								}
							}
						}
					}
				}
			}
			return true
		})
		if pv, ok := m.param.(*types.Var); ok {
			ce.vars[pv] = Val{K: VUnk}
		}
		// the element's halves are unknown: a test on them is undecided
		ce.vars[m.abvObj] = Val{K: VUnk}
		ce.vars[m.valObj] = Val{K: VUnk}
		if m.objVar != nil {
			ce.vars[m.objVar] = Val{K: VOpaque, S: "obj"}
		}
		ct, v, err = ce.execBlock(cont)
		if err == nil {
			ct = ce.ownBranch(ct, m.loopLabel)
			if ct == cBreakL || ct == cContinueL {
				err = fmt.Errorf("branch to label %s, which is not the element loop", ce.brLabel)
				return
			}
		}
		if err == nil && ct == cBreak {
			// single-exit style: the loop is left, the statements after it answer
			var post []ast.Stmt
			seen := false
			for _, s := range m.fd.Body.List {
				if s == m.loopTop {
					seen = true
					continue
				}
				if seen {
					post = append(post, s)
				}
			}
			ct, v, err = ce.execBlock(post)
			if err == nil && ct != cReturn {
				ct = cBreak
			}
		}
		return
	}
	out := freeStepVerdict{decided: true}
	describe := func(ct ctrl, v Val) string {
		switch ct {
		case cReturn:
			if v.K == VTuple && len(v.T) == 2 {
				if v.T[1].K == VNil {
					return "returns success"
				}
				obj := "a nil object"
				if v.T[0].K != VNil {
					obj = "a non-nil object"
				}
				return "returns the error " + v.T[1].S + " with " + obj
			}
			return "returns"
		case cBreak:
			return "leaves the loop"
		}
		return "goes on to the next element"
	}
	// both succeed: the element is consumed, Set was applied exactly once
	ct, v, nSet, nKvm, kvmFirst, err := run(scen{})
	if err != nil {
		return freeStepVerdict{why: "the rest of the iteration cannot be evaluated: " + err.Error()}
	}
	out.kvmCallSeen = nKvm > 0
	out.kvmBeforeSet = kvmFirst
	out.noskipOK = ct != cReturn && ct != cBreak && nSet == 1
	if out.noskipOK {
		out.noskipWhy = "evaluating the rest of the iteration with the defined-once check and Set succeeding: Set is applied once to the element and the loop goes on"
	} else {
		out.noskipWhy = fmt.Sprintf("after an element is split, with the defined-once check and Set succeeding, the parser %s having called Set %d time(s)", describe(ct, v), nSet)
	}
	// Set fails
	ct, v, _, _, _, err = run(scen{setFails: true})
	if err != nil {
		return freeStepVerdict{why: "the rest of the iteration cannot be evaluated: " + err.Error()}
	}
	out.setOK = ct == cReturn && v.K == VTuple && len(v.T) == 2 && v.T[0].K == VNil && v.T[1].K == VOpaque && v.T[1].S == "set-error"
	if out.setOK {
		out.setWhy = "evaluating the rest of the iteration with Set failing: (nil, Set's error) is returned unchanged"
	} else {
		out.setWhy = "when Set fails the parser " + describe(ct, v) + " instead of returning (nil, Set's error)"
	}
	if kvmCall != nil {
		ct, v, nSet, _, _, err = run(scen{kvmFails: true})
		if err != nil {
			return freeStepVerdict{why: "the rest of the iteration cannot be evaluated: " + err.Error()}
		}
		out.kvmOK = ct == cReturn && v.K == VTuple && len(v.T) == 2 && v.T[0].K == VNil && v.T[1].K == VOpaque && v.T[1].S == "kvm-error"
		if out.kvmOK {
			out.kvmWhy = "evaluating the rest of the iteration with the defined-once check failing: (nil, its error) is returned unchanged"
		} else {
			out.kvmWhy = "when the defined-once check fails the parser " + describe(ct, v) + " instead of returning (nil, its error)"
		}
	}
	return out
}
