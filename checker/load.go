package main

import (
	"crypto/sha256"
	"encoding/hex"
	"fmt"
	"go/ast"
	"go/token"
	"go/types"
	"os"
	"path/filepath"
	"reflect"
	"sort"
	"strings"

	"golang.org/x/tools/go/packages"
)

type fileHash struct {
	File   string `json:"file"`
	SHA256 string `json:"sha256"`
}

// Pkg is the loaded form of one of the four version packages plus the models
// extracted from it (filled lazily by the model layers).
type Pkg struct {
	Key  string // "20", "30", "31", "40"
	P    *packages.Package
	Fset *token.FileSet
	Info *types.Info
	Dir  string

	// M1
	T        *types.Named
	TStruct  *types.Struct
	Fields   []*types.Var
	FieldIdx map[*types.Var]int
	Funcs    map[string]*ast.FuncDecl // "Name" or "T.Name" (T = receiver base type name)
	FuncObj  map[*types.Func]*ast.FuncDecl

	// M2/M3 (model.go)
	set *SetModel
	get *GetModel
	// emission model of Vector (vocab.go / semit.go)
	emitModel  *EmitModel
	pm         *parseModel
	api        *apiScope
	varWritten map[*types.Var]bool
	// alias analysis of package-level tables (aliasw.go)
	parents   map[ast.Node]ast.Node
	aliasMemo map[types.Object]*aliasVerdict
	// R01.scan's observations of the element cut (scan.go): probes run, first problem
	scanCutN   int
	scanCutBad string
	scanDone   bool
	// over-long vectors (v2: more elements than metrics) are refused (scan.go)
	scanLongN   int
	scanLongBad string
	// semantic tabulation of the v2 part splitter (splitsem.go)
	resliceDeltas []int // [:r+δ] reslices of the pooled storage seen by the pool typestate (effects.go)
	splitSemDone  bool
	splitSemRes   *splitSem
}

type World struct {
	// module-internal helper packages merged into the version packages (mergeint.go)
	MergeNotes []string
	normalized bool // this world is the source-normalised variant (normalize.go)
	Repo       string
	Pkgs       map[string]*Pkg
	Order      []string
	Files      []fileHash
	Fset       *token.FileSet
	All        []*packages.Package
	Tier       string
	Seed       int64
	Verif      string
	Extra      map[string]any
	// Wants reports whether the property being decided keeps obligations of a
	// rule (expensive rules are skipped when nobody keeps them)
	Wants func(rule string) bool
	// lenExact[k]: every R17.len obligation of package k holds (the bytes Vector
	// appends number exactly what the sizing function returns)
	lenExact map[string]bool
	// Overlay: the file contents this world was loaded with in place of the
	// files on disk (source normalisation passes build on each other)
	Overlay map[string][]byte
	// parseVerdicts: per package, the parser rules' verdict and the package
	// (original or inlined) it was obtained on
	parseVerdicts map[string]*parseVerdict
}

var pkgKeys = []string{"20", "30", "31", "40"}

func loadEnv(goarch string) []string {
	env := os.Environ()
	out := env[:0:0]
	for _, e := range env {
		if strings.HasPrefix(e, "GOWORK=") || strings.HasPrefix(e, "GOFLAGS=") || strings.HasPrefix(e, "GOPROXY=") ||
			strings.HasPrefix(e, "GOSUMDB=") || strings.HasPrefix(e, "GOTOOLCHAIN=") || strings.HasPrefix(e, "GOARCH=") || strings.HasPrefix(e, "GOOS=") {
			continue
		}
		out = append(out, e)
	}
	out = append(out, "GOWORK=off", "GOFLAGS=-mod=mod", "GOPROXY=off", "GOSUMDB=off", "GOTOOLCHAIN=local", "CGO_ENABLED=0")
	if goarch != "" {
		out = append(out, "GOARCH="+goarch)
	}
	return out
}

// load parses and type-checks the four packages from repo's *current* working
// tree and applies the coverage guard of DESIGN §2.
func load(repo, goarch string) (*World, error) { return loadOverlay(repo, goarch, nil) }

// loadOverlay is load with in-memory file replacements/additions (used by the
// positive controls only; nothing is written to the repository).
func loadOverlay(repo, goarch string, overlay map[string][]byte) (*World, error) {
	cfg := &packages.Config{
		Overlay: overlay,
		Mode: packages.NeedName | packages.NeedFiles | packages.NeedCompiledGoFiles | packages.NeedImports |
			packages.NeedTypes | packages.NeedTypesSizes | packages.NeedSyntax | packages.NeedTypesInfo | packages.NeedModule,
		Dir:   repo,
		Env:   loadEnv(goarch),
		Tests: false,
	}
	pats := []string{"./20", "./30", "./31", "./40"}
	pkgs, err := packages.Load(cfg, pats...)
	if err != nil {
		return nil, fmt.Errorf("packages.Load: %v", err)
	}
	if len(pkgs) != 4 {
		return nil, fmt.Errorf("coverage guard: expected 4 packages, loaded %d", len(pkgs))
	}
	// helper packages of the same module are merged into their importers (mergeint.go)
	if merged, notes, err := mergeInternalPackages(cfg, pkgs, overlay); err != nil {
		return nil, fmt.Errorf("merging module-internal packages: %v", err)
	} else if merged != nil {
		w2, err := loadOverlay(repo, goarch, merged)
		if err != nil {
			return nil, fmt.Errorf("after merging module-internal packages (%s): %v", strings.Join(notes, "; "), err)
		}
		w2.Overlay = merged
		w2.MergeNotes = append(notes, w2.MergeNotes...)
		return w2, nil
	}
	w := &World{Repo: repo, Pkgs: map[string]*Pkg{}, All: pkgs, Extra: map[string]any{}, Overlay: overlay}
	for _, p := range pkgs {
		if len(p.Errors) > 0 {
			msg := fmt.Sprint(p.Errors[0])
			for _, e := range p.Errors[1:min(len(p.Errors), 4)] {
				msg += "; " + fmt.Sprint(e)
			}
			return nil, fmt.Errorf("package %s has errors: %s", p.PkgPath, msg)
		}
		if p.IllTyped || p.Types == nil || p.TypesInfo == nil {
			return nil, fmt.Errorf("package %s is ill-typed", p.PkgPath)
		}
		key := filepath.Base(p.PkgPath)
		ok := false
		for _, k := range pkgKeys {
			if k == key {
				ok = true
			}
		}
		if !ok {
			return nil, fmt.Errorf("unexpected package %s", p.PkgPath)
		}
		if len(p.IgnoredFiles) > 0 {
			return nil, fmt.Errorf("coverage guard: package %s ignores files %v (build-tagged or foreign sources are outside the model)", p.PkgPath, p.IgnoredFiles)
		}
		dir := filepath.Join(repo, key)
		ents, err := os.ReadDir(dir)
		if err != nil {
			return nil, err
		}
		compiled := map[string]bool{}
		for _, f := range p.CompiledGoFiles {
			compiled[filepath.Base(f)] = true
			if filepath.Dir(f) != dir {
				return nil, fmt.Errorf("coverage guard: %s compiles %s from outside its directory", p.PkgPath, f)
			}
		}
		for _, e := range ents {
			n := e.Name()
			if e.IsDir() {
				if n == "testdata" {
					continue
				}
				continue
			}
			ext := filepath.Ext(n)
			switch ext {
			case ".go":
				if strings.HasSuffix(n, "_test.go") {
					continue
				}
				if !compiled[n] {
					return nil, fmt.Errorf("coverage guard: %s/%s is not part of the build that was analysed", key, n)
				}
			case ".s", ".c", ".h", ".S", ".cc", ".cpp", ".syso":
				return nil, fmt.Errorf("coverage guard: %s/%s is a non-Go source outside the model", key, n)
			}
		}
		pk := &Pkg{Key: key, P: p, Fset: p.Fset, Info: p.TypesInfo, Dir: dir}
		w.Pkgs[key] = pk
		w.Fset = p.Fset
		var names []string
		for _, f := range p.CompiledGoFiles {
			names = append(names, f)
		}
		sort.Strings(names)
		for _, f := range names {
			b, ok := overlay[f]
			if !ok {
				var err error
				b, err = os.ReadFile(f)
				if err != nil {
					return nil, err
				}
			}
			h := sha256.Sum256(b)
			rel, _ := filepath.Rel(repo, f)
			w.Files = append(w.Files, fileHash{File: rel, SHA256: hex.EncodeToString(h[:8])})
		}
	}
	for _, k := range pkgKeys {
		if w.Pkgs[k] == nil {
			return nil, fmt.Errorf("coverage guard: package %s not loaded", k)
		}
		w.Order = append(w.Order, k)
		if err := w.Pkgs[k].indexAPI(); err != nil {
			return nil, err
		}
	}
	return w, nil
}

// indexAPI is layer M1.
func (p *Pkg) indexAPI() error {
	p.Funcs = map[string]*ast.FuncDecl{}
	p.FuncObj = map[*types.Func]*ast.FuncDecl{}
	p.FieldIdx = map[*types.Var]int{}
	for _, f := range p.P.Syntax {
		for _, d := range f.Decls {
			fd, ok := d.(*ast.FuncDecl)
			if !ok {
				continue
			}
			obj, _ := p.Info.Defs[fd.Name].(*types.Func)
			if obj != nil {
				p.FuncObj[obj] = fd
			}
			name := fd.Name.Name
			if fd.Recv != nil && len(fd.Recv.List) == 1 {
				name = recvTypeName(fd.Recv.List[0].Type) + "." + name
			}
			p.Funcs[name] = fd
		}
	}
	// the struct type T: a named struct, all fields uint8, with methods Get and Set
	scope := p.P.Types.Scope()
	var cands []*types.Named
	for _, n := range scope.Names() {
		tn, ok := scope.Lookup(n).(*types.TypeName)
		if !ok {
			continue
		}
		named, ok := tn.Type().(*types.Named)
		if !ok {
			continue
		}
		st, ok := named.Underlying().(*types.Struct)
		if !ok || st.NumFields() == 0 {
			continue
		}
		all := true
		for i := 0; i < st.NumFields(); i++ {
			b, ok := st.Field(i).Type().Underlying().(*types.Basic)
			if !ok || b.Kind() != types.Uint8 {
				all = false
			}
		}
		if !all {
			continue
		}
		if p.Funcs[n+".Get"] != nil && p.Funcs[n+".Set"] != nil {
			cands = append(cands, named)
		}
	}
	if len(cands) != 1 {
		return fmt.Errorf("M1: package %s: expected exactly one all-uint8 struct with Get and Set, found %d", p.Key, len(cands))
	}
	p.T = cands[0]
	p.TStruct = p.T.Underlying().(*types.Struct)
	for i := 0; i < p.TStruct.NumFields(); i++ {
		p.Fields = append(p.Fields, p.TStruct.Field(i))
		p.FieldIdx[p.TStruct.Field(i)] = i
	}
	return nil
}

func recvTypeName(e ast.Expr) string {
	switch t := e.(type) {
	case *ast.StarExpr:
		return recvTypeName(t.X)
	case *ast.Ident:
		return t.Name
	case *ast.ParenExpr:
		return recvTypeName(t.X)
	}
	return "?"
}

func (p *Pkg) TName() string { return p.T.Obj().Name() }

// method returns the declaration of T.<name>.
func (p *Pkg) method(name string) *ast.FuncDecl { return p.Funcs[p.TName()+"."+name] }

func (p *Pkg) pos(n ast.Node) string {
	if n == nil {
		return p.Key
	}
	// a nil *ast.X handed over as an ast.Node (a model part that has no syntax)
	if rv := reflect.ValueOf(n); rv.Kind() == reflect.Ptr && rv.IsNil() {
		return p.Key
	}
	return p.posAt(n.Pos())
}

func (p *Pkg) posAt(pos token.Pos) string {
	if !pos.IsValid() {
		return p.Key
	}
	ps := p.Fset.Position(pos)
	return fmt.Sprintf("%s/%s:%d", p.Key, filepath.Base(ps.Filename), ps.Line)
}

// recvObj returns the receiver variable of a method declaration.
func (p *Pkg) recvObj(fd *ast.FuncDecl) *types.Var {
	if fd.Recv == nil || len(fd.Recv.List) != 1 || len(fd.Recv.List[0].Names) != 1 {
		return nil
	}
	v, _ := p.Info.Defs[fd.Recv.List[0].Names[0]].(*types.Var)
	return v
}

// isTPtrOrVal reports whether t is T or *T.
func (p *Pkg) isTPtrOrVal(t types.Type) bool {
	if ptr, ok := t.(*types.Pointer); ok {
		t = ptr.Elem()
	}
	return types.Identical(t, p.T)
}

// fieldOf returns the field index if e is a selector <x>.uK where x has type T
// or *T, and the base expression.
func (p *Pkg) fieldOf(e ast.Expr) (idx int, base ast.Expr, ok bool) {
	se, isSel := e.(*ast.SelectorExpr)
	if !isSel {
		return 0, nil, false
	}
	sel := p.Info.Selections[se]
	if sel == nil || sel.Kind() != types.FieldVal {
		return 0, nil, false
	}
	v, isVar := sel.Obj().(*types.Var)
	if !isVar {
		return 0, nil, false
	}
	i, found := p.FieldIdx[v]
	if !found {
		return 0, nil, false
	}
	return i, se.X, true
}
