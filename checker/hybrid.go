package main

// Hybrid evaluation (M11): the fragment evaluator of frag.go with the
// receiver's bytes as *symbolic* bits. A receiver byte read yields eight bits
// BIn(field, bit) (or a constant where an assumption fixes it); bit operations
// propagate them exactly (bits.go's three-valued operators); a store to a
// receiver field records the bits written. Everything else stays concrete:
// abbreviations, values, tables, loop counters.
//
// When control flow, an index or arithmetic needs the *value* of symbolic
// bits, the run stops with a needSplit error naming those bits and the driver
// (explore) re-runs the function once per assignment of them. The leaves of
// this exploration are a decision tree over exactly the receiver bits the
// function depends on; its final states say, for every receiver bit, whether
// it is preserved (still BIn of itself), a constant, or something else.
//
// Nothing is executed by the Go runtime; the receiver is never concrete, so a
// verdict holds for every object.

import (
	"fmt"
	"go/ast"
	"go/token"
	"go/types"
	"sort"
)

type symState struct {
	nf     int
	bits   [][8]Bit
	assume map[BitPos]bool
}

// newPartialState: the assumed bits are constants, every other receiver bit is unknown
func newPartialState(nf int, assume map[BitPos]bool) *symState {
	s := newSymState(nf, assume)
	for f := 0; f < nf; f++ {
		for b := 0; b < 8; b++ {
			if s.bits[f][b].K == BIn {
				s.bits[f][b] = Bit{K: BTop}
			}
		}
	}
	return s
}

func newSymState(nf int, assume map[BitPos]bool) *symState {
	s := &symState{nf: nf, bits: make([][8]Bit, nf), assume: assume}
	for f := 0; f < nf; f++ {
		for b := 0; b < 8; b++ {
			if v, ok := assume[BitPos{f, b}]; ok {
				if v {
					s.bits[f][b] = Bit{K: BOne}
				} else {
					s.bits[f][b] = Bit{K: BZero}
				}
			} else {
				s.bits[f][b] = Bit{K: BIn, A: f, B: b}
			}
		}
	}
	return s
}

func (s *symState) read(f int) Val {
	out := Val{K: VBits, B: make([]Bit, 8)}
	copy(out.B, s.bits[f][:])
	return out
}

func (s *symState) write(f int, v Val, at ast.Node) error {
	switch v.K {
	case VInt:
		for b := 0; b < 8; b++ {
			if v.I>>uint(b)&1 == 1 {
				s.bits[f][b] = Bit{K: BOne}
			} else {
				s.bits[f][b] = Bit{K: BZero}
			}
		}
		return nil
	case VBits:
		for b := 0; b < 8; b++ {
			if b < len(v.B) {
				s.bits[f][b] = v.B[b]
			} else {
				s.bits[f][b] = Bit{K: BZero}
			}
		}
		return nil
	}
	return undecidedf(at, "store of %s to a receiver byte", v)
}

// needSplit: the run needs the value of these receiver bits
type needSplit struct {
	bits []BitPos
	at   ast.Node
}

func (n *needSplit) Error() string { return fmt.Sprintf("needs the value of receiver bits %v", n.bits) }

func intWidth(t types.Type) int {
	if t == nil {
		return 64
	}
	if b, ok := t.Underlying().(*types.Basic); ok {
		switch b.Kind() {
		case types.Uint8, types.Int8:
			return 8
		case types.Uint16, types.Int16:
			return 16
		case types.Uint32, types.Int32:
			return 32
		}
	}
	return 64
}

func resizeBits(v Val, w int) Val {
	out := Val{K: VBits, B: make([]Bit, w)}
	for i := 0; i < w; i++ {
		if i < len(v.B) {
			out.B[i] = v.B[i]
		} else {
			out.B[i] = Bit{K: BZero}
		}
	}
	return out
}

func constBits(x int64, w int) []Bit {
	out := make([]Bit, w)
	for i := 0; i < w; i++ {
		if x>>uint(i)&1 == 1 {
			out[i] = Bit{K: BOne}
		} else {
			out[i] = Bit{K: BZero}
		}
	}
	return out
}

// concretizeBits: the integer value when every bit is constant; otherwise the
// request to split on the symbolic bits (or undecided when a bit is unknown).
func concretizeBits(v Val, at ast.Node) (Val, error) {
	if v.K != VBits {
		return v, nil
	}
	var x int64
	var need []BitPos
	seen := map[BitPos]bool{}
	for i, b := range v.B {
		switch b.K {
		case BZero:
		case BOne:
			if i < 63 {
				x |= 1 << uint(i)
			}
		case BIn:
			p := BitPos{b.A, b.B}
			if !seen[p] {
				seen[p] = true
				need = append(need, p)
			}
		default:
			// an unknown bit: the value is unknown (any test on it is undecided,
			// or explored both ways in partial evaluation)
			return Val{K: VUnk}, nil
		}
	}
	if len(need) > 0 {
		return Val{}, &needSplit{bits: need, at: at}
	}
	return vInt(x), nil
}

func bitsOfVal(v Val, w int, at ast.Node) ([]Bit, error) {
	switch v.K {
	case VBits:
		return resizeBits(v, w).B, nil
	case VInt:
		return constBits(v.I, w), nil
	}
	return nil, undecidedf(at, "bit operation on %s", v)
}

func bitsBinop(op token.Token, a, b Val, t types.Type, at ast.Node) (Val, error) {
	w := 0
	if a.K == VBits {
		w = len(a.B)
	}
	if b.K == VBits && len(b.B) > w {
		w = len(b.B)
	}
	if t != nil {
		if tw := intWidth(t); tw < 64 || w == 0 {
			if bt, ok := t.Underlying().(*types.Basic); ok && bt.Info()&types.IsInteger != 0 {
				w = tw
			}
		}
	}
	if w == 0 {
		w = 64
	}
	switch op {
	case token.SHL, token.SHR:
		sh, err := concretizeBits(b, at)
		if err != nil {
			return Val{}, err
		}
		if sh.K == VUnk {
			return Val{K: VUnk}, nil
		}
		if sh.K != VInt {
			return Val{}, undecidedf(at, "shift amount %s", sh)
		}
		x, err := bitsOfVal(a, w, at)
		if err != nil {
			return Val{}, err
		}
		out := Val{K: VBits, B: make([]Bit, w)}
		for i := 0; i < w; i++ {
			j := i - int(sh.I)
			if op == token.SHR {
				j = i + int(sh.I)
			}
			if j >= 0 && j < w {
				out.B[i] = x[j]
			} else {
				out.B[i] = Bit{K: BZero}
			}
		}
		return simplifyBits(out), nil
	case token.AND, token.OR, token.XOR, token.AND_NOT:
		x, err := bitsOfVal(a, w, at)
		if err != nil {
			return Val{}, err
		}
		y, err := bitsOfVal(b, w, at)
		if err != nil {
			return Val{}, err
		}
		out := Val{K: VBits, B: make([]Bit, w)}
		for i := 0; i < w; i++ {
			switch op {
			case token.AND:
				out.B[i] = bitAnd(x[i], y[i])
			case token.OR:
				out.B[i] = bitOr(x[i], y[i])
			case token.XOR:
				out.B[i] = bitXor(x[i], y[i])
			default:
				out.B[i] = bitAnd(x[i], bitNot(y[i]))
			}
		}
		return simplifyBits(out), nil
	case token.EQL, token.NEQ:
		x, err := bitsOfVal(a, w, at)
		if err != nil {
			return Val{}, err
		}
		y, err := bitsOfVal(b, w, at)
		if err != nil {
			return Val{}, err
		}
		// decided without the symbolic bits?
		differ, allConst := false, true
		for i := 0; i < w; i++ {
			xc, yc := x[i].K == BZero || x[i].K == BOne, y[i].K == BZero || y[i].K == BOne
			if xc && yc {
				if x[i].K != y[i].K {
					differ = true
				}
				continue
			}
			if x[i] == y[i] {
				continue
			}
			allConst = false
		}
		if differ {
			return vBool(op == token.NEQ), nil
		}
		if allConst {
			return vBool(op == token.EQL), nil
		}
		// split on the symbolic bits of both operands
		cx, err := concretizeBits(Val{K: VBits, B: x}, at)
		if err != nil {
			return Val{}, err
		}
		cy, err := concretizeBits(Val{K: VBits, B: y}, at)
		if err != nil {
			return Val{}, err
		}
		if cx.K == VUnk || cy.K == VUnk {
			return Val{K: VUnk}, nil
		}
		return Val{}, undecidedf(at, "comparison of symbolic bits")
	}
	// ordering and arithmetic need the values
	ca, err := concretizeBits(a, at)
	if err != nil {
		return Val{}, err
	}
	cb, err := concretizeBits(b, at)
	if err != nil {
		return Val{}, err
	}
	if ca.K == VUnk || cb.K == VUnk {
		switch op {
		case token.ADD, token.SUB, token.MUL, token.QUO, token.REM:
			return Val{K: VUnk}, nil
		}
		return Val{K: VUnk}, nil
	}
	return (&cEnv{}).binop(op, ca, cb, t, at)
}

// simplifyBits: an integer all of whose bits are constant is a plain integer
func simplifyBits(v Val) Val {
	var x int64
	for i, b := range v.B {
		switch b.K {
		case BZero:
		case BOne:
			if i < 63 {
				x |= 1 << uint(i)
			}
		default:
			return v
		}
	}
	return vInt(x)
}

// ---------------------------------------------------------------------------

type symLeaf struct {
	Assume map[BitPos]bool
	Ret    Val
	State  [][8]Bit
	Err    error // panic or undecided on this leaf
}

// explore runs fd(args) on a symbolic receiver, splitting on the receiver bits
// the run turns out to depend on. maxLeaves bounds the decision tree.
func (p *Pkg) explore(fd *ast.FuncDecl, args []Val, maxLeaves int) ([]symLeaf, []BitPos, error) {
	var leaves []symLeaf
	splitOn := map[BitPos]bool{}
	work := []map[BitPos]bool{{}}
	for len(work) > 0 {
		asg := work[len(work)-1]
		work = work[:len(work)-1]
		if len(leaves)+len(work) > maxLeaves {
			return nil, nil, fmt.Errorf("the function depends on too many receiver bits (more than %d cases)", maxLeaves)
		}
		st := newSymState(len(p.Fields), asg)
		ce := newCEnv(p, nil)
		ce.sym = st
		ce.loops = true
		v, err := ce.callFunc(fd, args, fd)
		if ns, ok := err.(*needSplit); ok {
			bits := ns.bits
			if len(bits) > 8 {
				return nil, nil, fmt.Errorf("a single test depends on %d receiver bits", len(bits))
			}
			for _, b := range bits {
				splitOn[b] = true
			}
			for m := 0; m < 1<<uint(len(bits)); m++ {
				na := make(map[BitPos]bool, len(asg)+len(bits))
				for k, x := range asg {
					na[k] = x
				}
				for i, b := range bits {
					na[b] = m>>uint(i)&1 == 1
				}
				work = append(work, na)
			}
			continue
		}
		leaf := symLeaf{Assume: asg, Ret: v, State: st.bits}
		if err != nil {
			if _, isPanic := err.(*panicked); isPanic {
				leaf.Err = err
			} else {
				return nil, nil, err
			}
		}
		leaves = append(leaves, leaf)
	}
	var bits []BitPos
	for b := range splitOn {
		bits = append(bits, b)
	}
	sort.Slice(bits, func(i, j int) bool {
		if bits[i].F != bits[j].F {
			return bits[i].F < bits[j].F
		}
		return bits[i].B > bits[j].B
	})
	return leaves, bits, nil
}

// partialEval runs fd with the listed metrics' fields set from codes and every
// other receiver bit unknown. A component of the result that comes back known
// does not depend on any other receiver bit (abstract interpretation: unknown
// tests run both ways and keep what the branches agree on).
func (p *Pkg) partialEval(fd *ast.FuncDecl, codes map[string]int, args []Val) (Val, error) {
	sm := p.SetModel()
	asg := map[BitPos]bool{}
	for label, c := range codes {
		m := sm.ByLabel[label]
		if m == nil || !m.encOK {
			return Val{}, fmt.Errorf("premise R07.store failed at %s.Set[%s]", p.Key, label)
		}
		for pos := range m.W {
			asg[pos] = false
		}
		for j, pos := range m.Enc {
			asg[pos] = c>>uint(j)&1 == 1
		}
	}
	ce := newCEnv(p, nil)
	ce.sym = newPartialState(len(p.Fields), asg)
	ce.loops = true
	ce.unkFlow = true
	return ce.callFunc(fd, args, fd)
}
