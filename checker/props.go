package main

var trustedCommon = []string{
	"go/parser, go/types and go/constant of the installed toolchain (constant evaluation of masks, shifts and case values)",
	"golang.org/x/tools v0.29.0 go/packages loader (vendored)",
	"Go semantics of uint8 & | ^ &^ << >> as modelled by the M3 transfer functions (checker/bits.go)",
}

var props = map[string]propDef{
	"C07": {
		Groups: []string{"layout"},
		Rules:  []string{"R07.*", "R01.case"},
		Floors: map[string]int{"R07.guard": 90 + 4, "R07.preserve": 90, "R07.store": 90, "R07.decode": 90, "R07.names": 90, "R07.unused": 4, "R07.writers": 8},
		Meta: propMeta{
			Level: "proof",
			Explanation: "Bit-level non-interference proof of every Set arm (M3 known-bits evaluation of each store): stores dominated by validate's success, every bit outside the metric's field keeps its value, fields pairwise disjoint, every code bit stored exactly once, Get's tag inverts Set's encoding and its table equals Set's value list, unused bits only ever receive 0, and Set is the only writer of the byte fields. By induction over any sequence of Set calls from the all-zero object this is necessary and sufficient for the three sentences of C07.",
			NotDecided:  "nothing of C07 is left undecided; trusted base listed",
			Trusted:     trustedCommon,
			Assumptions: []string{"objects are only built through the public API (zero value, ParseVector, Set); fields are unexported and no unsafe/reflect touches them (R07.writers, C14 census)"},
		},
	},
	"DBG": {
		Groups: []string{"layout", "vocab", "rating", "nomenclature", "len", "formula", "v4tables", "v4score", "parse", "effects", "alloc"},
		Rules:  []string{"R*"},
		Meta:   propMeta{Level: "other", Explanation: "debug"},
	},
}
