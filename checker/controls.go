package main

// Positive controls: rules whose expected instance count on /repo is zero
// must be shown to fire on every run. A control is an in-memory overlay
// (go/packages Overlay — nothing is written to /repo): one added file in
// package 31 with one violating construct per rule, plus (when its anchor text
// still exists) a textual rewrite of the validate comparison for the
// deny-list rule.

import (
	"fmt"
	"os"
	"path/filepath"
	"strings"
)

const controlFile31 = `package gocvss31

import ctlstrings "strings"

var ctlCounter int

// R14.globals: a store to package-level state
func ctlBump() int { ctlCounter++; return ctlCounter }

// R14.recv / R07.writers: a scoring method (documented API: exported, no
// parameter, one float64) whose helper stores through *T
func (c *CVSS31) ctlTouch() { c.u0 = 1 }
func (c *CVSS31) CtlScore() float64 { c.ctlTouch(); return 0 }

// R14.census: a goroutine; R17.constructs: a function literal
func ctlGo() { go func() {}() }

// R17.constructs: non-constant string concatenation and an allocating callee on a path of a scoring method
func CtlConcat(a, b string) string { return ctlstrings.ToUpper(a) + b }
func (c CVSS31) CtlScore2() float64 { return float64(len(CtlConcat("a", "b"))) }

// R18.ptr: a typed error returned by value
func ctlErr() error { return ErrInvalidMetric{Abv: "x"} }
`

type controlSpec struct {
	Rule   string
	Group  string
	Marker string // substring of the failing obligation's instance or detail
}

var controlSpecs = []controlSpec{
	{"R14.globals", "effects", "ctlBump"},
	{"R14.recv", "effects", "ctlTouch"},
	{"R07.writers", "layout", "ctlTouch"},
	{"R14.census", "effects", "ctlGo"},
	{"R17.constructs", "alloc", "CtlConcat"},
	{"R18.ptr", "parse", "ctlErr"},
	{"R01.case", "parse", "EqualFold"},
	{"R09.case", "parse", "EqualFold"},
}

// runControls loads the overlay world once and checks that every control rule
// relevant to the property fires.
func runControls(def propDef, repo string, run *Run) {
	var wanted []controlSpec
	for _, c := range controlSpecs {
		inGroups := false
		for _, g := range def.Groups {
			if g == c.Group {
				inGroups = true
			}
		}
		inRules := false
		for _, pat := range def.Rules {
			if ruleMatches(pat, Obligation{Rule: c.Rule, Instance: "31.x"}) {
				inRules = true
			}
		}
		if inGroups && inRules {
			wanted = append(wanted, c)
		}
	}
	if len(wanted) == 0 {
		return
	}
	overlay := map[string][]byte{
		filepath.Join(repo, "31", "zz_verif_control.go"): []byte(controlFile31),
	}
	// deny-list control: rewrite validate's comparison, if the anchor exists
	denyOK := false
	src, err := os.ReadFile(filepath.Join(repo, "31", "cvss31.go"))
	if err == nil {
		s := string(src)
		if strings.Count(s, "if value == enbl {") == 1 {
			s = strings.Replace(s, "if value == enbl {", "if strings.EqualFold(value, enbl) {", 1)
			overlay[filepath.Join(repo, "31", "cvss31.go")] = []byte(s)
			denyOK = true
		}
	}
	w, err := loadOverlay(repo, "", overlay)
	if err != nil && denyOK {
		// the textual rewrite does not fit this tree (e.g. the file no longer imports strings): drop it
		delete(overlay, filepath.Join(repo, "31", "cvss31.go"))
		denyOK = false
		w, err = loadOverlay(repo, "", overlay)
	}
	if err != nil {
		// the planted file does not fit this tree either: the controls cannot run; that is a
		// limitation of the controls, not a finding about the repository
		run.Notes = append(run.Notes, "positive controls skipped: the control overlay does not load on this tree: "+clip(err.Error()))
		return
	}
	groupsNeeded := map[string]bool{}
	for _, c := range wanted {
		groupsNeeded[c.Group] = true
	}
	var all []Obligation
	for g := range groupsNeeded {
		if g == "alloc" {
			// the compiler census cannot see overlays; only the construct census is exercised
			w.rulesConstructs(&all)
			continue
		}
		groups[g](w, &all)
	}
	for _, c := range wanted {
		if (c.Rule == "R01.case" || c.Rule == "R09.case") && !denyOK {
			run.Notes = append(run.Notes, "control for R01.case skipped: anchor `if value == enbl {` not present exactly once in 31/cvss31.go")
			continue
		}
		fired := false
		for _, o := range all {
			if o.Rule == c.Rule && !o.OK && (strings.Contains(o.Instance, c.Marker) || strings.Contains(o.Detail, c.Marker)) {
				fired = true
			}
		}
		if fired {
			run.okTrivial("control", c.Rule, "", "positive control fires: the rule reports the planted "+c.Marker)
		} else {
			run.fail("control", c.Rule, "", fmt.Sprintf("positive control silent: rule %s did not report the planted construct %s (the rule is broken; its silence on /repo means nothing)", c.Rule, c.Marker))
		}
	}
}
